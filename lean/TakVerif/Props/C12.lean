import TakVerif.Impl.PTN
import TakVerif.Impl.PTNInst
import TakVerif.Proofs.PTNIter
import TakVerif.Proofs.PTNRender
import TakVerif.Proofs.PTNScan
import TakVerif.Proofs.PTNLink

/-! C12: PTN files — positional lookup (`Iterator`, `PositionAtMove`) and render/parse.

The theorems are about the model in `Impl/PTN.lean` (tied to `ptn/ptn.go`, `ptn/iterator.go` by the
correspondence run of `./check C12`).  `Pos.apply` is the model of `Position.Move` (C01).
Standing hypothesis:
* `NoZero ops`: no `Move` op carries move type 0.  `ParseMove` never produces one; a hand-built `PTN` can
  (`AddMoves` of a zero `tak.Move`), and then `Next` silently skips it — compared by correspondence only. -/
namespace C12
open Tak PTN

/-- **Iterator.**  Calling `Next` until it returns false shows exactly the frames of the list-level replay
`specFrames` of the ops from the start position (`collect` = one (marker, position) pair per successful
call, plus whether `Err()` is set at the end); `len(Ops)+2` calls always suffice. -/
theorem iterator_spec (env : Env) (f : File) (p0 : Pos) (hinit : initialPosition env f = .ok p0) (hnz : NoZero f.ops) :
    ∃ it0, iterator env f = .ok it0 ∧
      collect env (f.ops.length + 2) it0 = .ok (specFrames env.basis f.ops 0 p0) := by
  refine ⟨_, by unfold iterator; rw [hinit], ?_⟩
  exact collect_idle env (fun p m s => apply_noHang _ p m s) _ p0 _ rfl rfl rfl rfl hnz (Nat.le_refl _)

/-- **What the frames are.**  For the frames `fs` and error flag `e` of the replay of `ops` from `p0`:
1. the `j`-th frame (shown by the `j+1`-st successful `Next`) holds the start position with exactly the
   first `j` recorded moves applied;
2. its marker is the number of the last move-number op before the `j`-th move op (the last number of the
   record when there is no `j`-th move) — except for the frame of a position that ended the game, which
   keeps the marker of the move that led to it;
3. replay stops when the game ends: a frame after the first whose position is a finished game is the last
   one, whatever the record holds after it, and no error is reported;
4. an illegal move is an error: when the error flag is set, the recorded move that follows the last
   position shown cannot be applied to it;
5. without error, either every recorded move was applied or the replay stopped at a finished game. -/
theorem frames_spec (basis : Array W) (ops : List Op) (mk : Int) (p0 : Pos) :
    let fs := (specFrames basis ops mk p0).1
    let e := (specFrames basis ops mk p0).2
    (∀ j fr, fs[j]? = some fr → applyAll basis p0 ((movesOf ops).take j) = .ok fr.2) ∧
    (∀ j fr, fs[j]? = some fr →
        fr.1 = markerAt ops mk j ∨ ∃ j', j = j' + 1 ∧ fr.2.gameOver.1 = true ∧ fr.1 = markerAt ops mk j') ∧
    (∀ j fr, fs[j + 1]? = some fr → fr.2.gameOver.1 = true → fs.length = j + 2 ∧ e = false) ∧
    (e = true → ∃ q m err, (fs.getLast?.map (·.2)) = some q ∧ (movesOf ops)[fs.length - 1]? = some m ∧
        q.apply basis m = .error err) ∧
    (e = false → fs.length = (movesOf ops).length + 1 ∨
        ∃ j fr, fs[j + 1]? = some fr ∧ fr.2.gameOver.1 = true ∧ fs.length = j + 2) := by
  intro fs e
  obtain ⟨hpos, hflag⟩ := specFrames_positions basis ops mk p0
  have hlen : fs.length = (runMoves basis p0 (movesOf ops)).1.length := by
    rw [← hpos, List.length_map]
  have hget : ∀ (j : Nat) (fr : Frame), fs[j]? = some fr → (runMoves basis p0 (movesOf ops)).1[j]? = some fr.2 := by
    intro j fr h
    rw [← hpos, List.getElem?_map, h]; rfl
  refine ⟨?_, specFrames_marker basis ops mk p0, ?_, ?_, ?_⟩
  · intro j fr h
    exact runMoves_get basis _ p0 j fr.2 (hget j fr h)
  · intro j fr h hg
    obtain ⟨h1, h2⟩ := runMoves_stops basis _ p0 j fr.2 (hget _ fr h) hg
    exact ⟨by rw [hlen]; exact h1, by show (specFrames basis ops mk p0).2 = false; rw [hflag]; exact h2⟩
  · intro he
    have he' : (runMoves basis p0 (movesOf ops)).2 = true := by rw [← hflag]; exact he
    obtain ⟨q, m, err, h1, h2, h3⟩ := runMoves_error basis _ p0 he'
    refine ⟨q, m, err, ?_, by rw [hlen]; exact h2, h3⟩
    rw [← hpos, List.getLast?_map] at h1; exact h1
  · intro he
    have he' : (runMoves basis p0 (movesOf ops)).2 = false := by rw [← hflag]; exact he
    rcases runMoves_complete basis _ p0 he' with h | ⟨j, q, h1, h2, h3⟩
    · left; rw [hlen]; exact h
    · right
      rw [← hpos, List.getElem?_map] at h1
      cases hfr : fs[j + 1]? with
      | none => rw [show (specFrames basis ops mk p0).1[j + 1]? = none from hfr] at h1; cases h1
      | some fr =>
        rw [show (specFrames basis ops mk p0).1[j + 1]? = some fr from hfr] at h1
        injection h1 with h1
        have h1' : fr.2 = q := h1
        exact ⟨j, fr, hfr, by rw [h1']; exact h2, by rw [hlen]; exact h3⟩

/-- **PositionAtMove.**  With `fs`, `e` the frames and error flag of the replay of the file:
`PositionAtMove(n, c)` for `n > 0` is the position of the *first* frame whose marker is `n` and whose side
to move is `c` (by `frames_spec`: the start position with exactly the moves before that frame applied);
if there is none: an error when the replay met an illegal move, an error ("move not found") when `n > 0`
— a request beyond the recorded game —, and the final position when `n ≤ 0` (`n = 0` is the documented
"final position").  `NoColor` with `n ≠ 0` is rejected. -/
theorem positionAtMove_spec (env : Env) (f : File) (p0 : Pos) (hinit : initialPosition env f = .ok p0) (hnz : NoZero f.ops)
    (n : Int) (c : Color) :
    (c = .none ∧ n ≠ 0 → ∃ w, positionAtMove env f n c = .error (.illegal w)) ∧
    (¬(c = .none ∧ n ≠ 0) →
      AtSpec (positionAtMove env f n c) n c (specFrames env.basis f.ops 0 p0).1 (specFrames env.basis f.ops 0 p0).2 none) := by
  obtain ⟨it0, hit, hcol⟩ := iterator_spec env f p0 hinit hnz
  constructor
  · rintro ⟨hc, hn⟩
    unfold positionAtMove
    rw [if_pos (by simp [hc, hn])]
    exact ⟨_, rfl⟩
  · intro hnot
    unfold positionAtMove
    rw [if_neg (by
      intro h
      simp only [Bool.and_eq_true, beq_iff_eq, bne_iff_ne, ne_eq] at h
      exact hnot h)]
    rw [hit]
    dsimp only
    have hinv := (iterator_inv env f it0 hit).1
    have := loop_of_collect env n c _ it0 _ _ hinv hcol
    -- the replay always shows at least one frame, so the cursor's own position is never consulted
    unfold AtSpec at this ⊢
    have hne : (specFrames env.basis f.ops 0 p0).1 ≠ [] := by
      have h1 := (specFrames_positions env.basis f.ops 0 p0).1
      intro h0
      rw [h0] at h1
      exact runMoves_ne_nil env.basis _ p0 h1.symm
    cases hl : (specFrames env.basis f.ops 0 p0).1.getLast? with
    | none => exact absurd (List.getLast?_eq_none_iff.mp hl) hne
    | some fr => rw [hl] at this; exact this

/-- when the start position cannot be derived (bad `Size`/`TPS` tag), every request is an error -/
theorem positionAtMove_init_error (env : Env) (f : File) (w : String)
    (hinit : initialPosition env f = .error (.illegal w)) (n : Int) (c : Color) :
    ∃ w', positionAtMove env f n c = .error (.illegal w') := by
  unfold positionAtMove
  split
  · exact ⟨_, rfl⟩
  · unfold iterator
    rw [hinit]
    dsimp only
    unfold positionAtMoveLoop
    have : ∀ it : Iter, it.err = some (.illegal w) → it.next env = .ok (it, false) := by
      intro it h; unfold Iter.next; rw [if_pos (by simp [h])]
    rw [this _ rfl]
    exact ⟨w, rfl⟩

/-- **Files read from text**, with the byte-level models of `ParseMove`/`ParseTPS` plugged in
(`PTN.realEnv`): `NoZero` holds for whatever `ParsePTN` returns (`ParseMove` never yields move type 0), so
the iterator shows the list-level replay and `PositionAtMove` answers as specified — no hypothesis left
beyond "the file parses and its start position exists". -/
theorem positional_lookup_linked (basis : Array W) (input : Bytes) (f : File) (p0 : Pos)
    (hparse : parsePTN (realEnv basis) input = .ok f) (hinit : initialPosition (realEnv basis) f = .ok p0)
    (n : Int) (c : Color) :
    (∃ it0, iterator (realEnv basis) f = .ok it0 ∧
      collect (realEnv basis) (f.ops.length + 2) it0 = .ok (specFrames basis f.ops 0 p0)) ∧
    (c = .none ∧ n ≠ 0 → ∃ w, positionAtMove (realEnv basis) f n c = .error (.illegal w)) ∧
    (¬(c = .none ∧ n ≠ 0) →
      AtSpec (positionAtMove (realEnv basis) f n c) n c (specFrames basis f.ops 0 p0).1 (specFrames basis f.ops 0 p0).2 none) := by
  have hnz := parsePTN_noZero_linked basis input f hparse
  have h2 := positionAtMove_spec (realEnv basis) f p0 hinit hnz n c
  exact ⟨iterator_spec (realEnv basis) f p0 hinit hnz, h2.1, h2.2⟩

/-! ### Render / Parse

`renderSafe env p` (decidable, `Proofs/PTNRender.lean`) is the fragment on which the text form is lossless:
tag names without space or `]`, tag values without `"` or `]`; comments without `}` (and shorter than the
scanner's 64 KiB token limit); annotations over `?!'`; results among the 25 strings `resultRE` matches; move
numbers in the `int` range; and every move `moveSafe`: `FormatMove` gives one clean token (no white space,
not starting with `{` or `[`, not ending in `.` or an annotation character, not a result string, within the
token limit) that `ParseMove` reads back as the same move — for the real functions that is C11's round trip. -/

/-- **Token level.**  Parsing the rendering of a `renderSafe` value succeeds and gives back the same tags
and the same ops — move numbers, moves with their annotations, comments, results, in order — up to the
`src` field (the parser records each op's token there; `Render` and the tests ignore it).  A byte-order
mark in front changes nothing. -/
theorem render_parse_tokens (env : Env) (f : File) (hs : renderSafe env f = true) :
    ∃ g, parsePTN env (render env f) = .ok g ∧
      parsePTN env (0xEF :: 0xBB :: 0xBF :: render env f) = .ok g ∧
      g.tags = f.tags ∧ g.ops.map Op.clearSrc = f.ops.map Op.clearSrc := by
  refine ⟨_, parse_render env f hs, parse_bom_render env f hs, rfl, ?_⟩
  simp only [List.map_map]
  congr 1
  funext op
  exact clearSrc_withSrc env op

/-- **Byte level (partial).**  `Render`'s output is a fixed point: rendering what was parsed from it gives
the same bytes again.
Not covered (hence `_partial`): (1) values outside `renderSafe` — a comment containing `}`, a tag value
containing `"`, a tag name with a space do *not* survive (the real code agrees with the model on them in the
correspondence run, counted as `reparse.differs-unsafe`); (2) `Render (ParsePTN b) = b` for an arbitrary
file `b` is false (white space and quoting are normalised) and no theorem relates the two beyond what
`render_parse_tokens` says about `Render`'s own output; (3) `moveSafe` is a hypothesis about
`FormatMove`/`ParseMove`, discharged here only for the concrete examples. -/
theorem render_parse_bytes_partial (env : Env) (f : File) (hs : renderSafe env f = true) :
    ∃ g, parsePTN env (render env f) = .ok g ∧ render env g = render env f := by
  refine ⟨_, parse_render env f hs, ?_⟩
  simp only [render, List.flatMap_map]
  congr 3
  funext op
  cases op <;> rfl

/-- the full byte-level statement one would like, kept visible: every successfully parsed file re-renders
to something that parses to the same value.  Not proved (needs `renderSafe` of parser output, which fails
for tag values with inner quotes). -/
def render_parse_bytes_statement (env : Env) : Prop :=
  ∀ b f, parsePTN env b = .ok f → ∃ g, parsePTN env (render env f) = .ok g ∧
    g.tags = f.tags ∧ g.ops.map Op.clearSrc = f.ops.map Op.clearSrc

/-! #### a concrete record meets the hypotheses, and the theorems say something about it -/

/-- `[Size "3"]  1. a1 b2  2. c3 {x}  3.` with the transcribed move functions -/
def exEnv : Env :=
  { parseMove := Inst.parseMove, formatMove := Inst.formatMove,
    parseTPS := fun _ => .error (.illegal "no TPS"), basis := Array.replicate 64 0#64 }

def exFile : File :=
  ⟨[⟨tagSize, [51]⟩],
   [.moveNumber [] 1, .move [] ⟨0, 0, Facts.mtPlaceFlat, 0#32⟩ [], .move [] ⟨1, 1, Facts.mtPlaceFlat, 0#32⟩ [],
    .moveNumber [] 2, .move [] ⟨2, 2, Facts.mtPlaceFlat, 0#32⟩ [], .comment [] [120], .moveNumber [] 3]⟩

example : ∃ p0, initialPosition exEnv exFile = .ok p0 := ⟨_, rfl⟩

example : NoZero exFile.ops := by
  intro src m mods h
  simp only [exFile, List.mem_cons, Op.move.injEq, List.mem_nil_iff, or_false, reduceCtorEq, false_or] at h
  rcases h with ⟨_, rfl, _⟩ | ⟨_, rfl, _⟩ | ⟨_, rfl, _⟩ <;> decide

/-- four frames: markers 1, 1, 2 and — after the last move — 3; white to move in frames 0 and 2 -/
example : ∃ p0, initialPosition exEnv exFile = .ok p0 ∧
    (specFrames exEnv.basis exFile.ops 0 p0).1.map (fun fr => (fr.1, fr.2.move)) = [(1, 0), (1, 1), (2, 2), (3, 3)] ∧
    (specFrames exEnv.basis exFile.ops 0 p0).2 = false :=
  ⟨_, rfl, by decide, by decide⟩

/-- the example record, with an annotation, a comment and a result added, is inside the safe fragment -/
def exFile2 : File :=
  ⟨exFile.tags ++ [⟨[80, 49], [97, 32, 98]⟩],
   exFile.ops ++ [.move [] ⟨0, 0, Facts.mtSlideRight, 1#32⟩ [33, 63], .comment [] [123, 32, 46], .result [] [82, 45, 48]]⟩

example : renderSafe exEnv exFile2 = true := by decide

end C12
