import TakVerif.Impl.PTN
namespace C12
end C12
