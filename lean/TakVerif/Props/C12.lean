import TakVerif.Impl.PTN
import TakVerif.Impl.PTNInst
import TakVerif.Proofs.PTNIter
import TakVerif.Proofs.PTNRender
import TakVerif.Proofs.PTNScan
import TakVerif.Proofs.PTNNec
import TakVerif.Proofs.PTNRealSafe
import TakVerif.Proofs.ScannerRefine
import TakVerif.Proofs.PTNLink

/-! C12: PTN files — positional lookup (`Iterator`, `PositionAtMove`) and render/parse.

The theorems are about the model in `Impl/PTN.lean` (tied to `ptn/ptn.go`, `ptn/iterator.go` by the
correspondence run of `./check C12`).  `Pos.apply` is the model of `Position.Move` (C01).
Standing hypothesis:
* `NoZero ops`: no `Move` op carries move type 0.  `ParseMove` never produces one; a hand-built `PTN` can
  (`AddMoves` of a zero `tak.Move`), and then `Next` silently skips it — compared by correspondence only. -/
namespace C12
open Tak PTN

/-- **Iterator.**  Calling `Next` until it returns false shows exactly the frames of the list-level replay
`specFrames` of the ops from the start position (`collect` = one (marker, position) pair per successful
call, plus whether `Err()` is set at the end); `len(Ops)+2` calls always suffice. -/
theorem iterator_spec (env : Env) (f : File) (p0 : Pos) (hinit : initialPosition env f = .ok p0) (hnz : NoZero f.ops) :
    ∃ it0, iterator env f = .ok it0 ∧
      collect env (f.ops.length + 2) it0 = .ok (specFrames env.basis f.ops 0 p0) := by
  refine ⟨_, by unfold iterator; rw [hinit], ?_⟩
  exact collect_idle env (fun p m s => apply_noHang _ p m s) _ p0 _ rfl rfl rfl rfl hnz (Nat.le_refl _)

/-- **What the frames are.**  For the frames `fs` and error flag `e` of the replay of `ops` from `p0`:
1. the `j`-th frame (shown by the `j+1`-st successful `Next`) holds the start position with exactly the
   first `j` recorded moves applied;
2. its marker is the number of the last move-number op before the `j`-th move op (the last number of the
   record when there is no `j`-th move) — except for the frame of a position that ended the game, which
   keeps the marker of the move that led to it;
3. replay stops when the game ends: a frame after the first whose position is a finished game is the last
   one, whatever the record holds after it, and no error is reported;
4. an illegal move is an error: when the error flag is set, the recorded move that follows the last
   position shown cannot be applied to it;
5. without error, either every recorded move was applied or the replay stopped at a finished game. -/
theorem frames_spec (basis : Array W) (ops : List Op) (mk : Int) (p0 : Pos) :
    let fs := (specFrames basis ops mk p0).1
    let e := (specFrames basis ops mk p0).2
    (∀ j fr, fs[j]? = some fr → applyAll basis p0 ((movesOf ops).take j) = .ok fr.2) ∧
    (∀ j fr, fs[j]? = some fr →
        fr.1 = markerAt ops mk j ∨ ∃ j', j = j' + 1 ∧ fr.2.gameOver.1 = true ∧ fr.1 = markerAt ops mk j') ∧
    (∀ j fr, fs[j + 1]? = some fr → fr.2.gameOver.1 = true → fs.length = j + 2 ∧ e = false) ∧
    (e = true → ∃ q m err, (fs.getLast?.map (·.2)) = some q ∧ (movesOf ops)[fs.length - 1]? = some m ∧
        q.apply basis m = .error err) ∧
    (e = false → fs.length = (movesOf ops).length + 1 ∨
        ∃ j fr, fs[j + 1]? = some fr ∧ fr.2.gameOver.1 = true ∧ fs.length = j + 2) := by
  intro fs e
  obtain ⟨hpos, hflag⟩ := specFrames_positions basis ops mk p0
  have hlen : fs.length = (runMoves basis p0 (movesOf ops)).1.length := by
    rw [← hpos, List.length_map]
  have hget : ∀ (j : Nat) (fr : Frame), fs[j]? = some fr → (runMoves basis p0 (movesOf ops)).1[j]? = some fr.2 := by
    intro j fr h
    rw [← hpos, List.getElem?_map, h]; rfl
  refine ⟨?_, specFrames_marker basis ops mk p0, ?_, ?_, ?_⟩
  · intro j fr h
    exact runMoves_get basis _ p0 j fr.2 (hget j fr h)
  · intro j fr h hg
    obtain ⟨h1, h2⟩ := runMoves_stops basis _ p0 j fr.2 (hget _ fr h) hg
    exact ⟨by rw [hlen]; exact h1, by show (specFrames basis ops mk p0).2 = false; rw [hflag]; exact h2⟩
  · intro he
    have he' : (runMoves basis p0 (movesOf ops)).2 = true := by rw [← hflag]; exact he
    obtain ⟨q, m, err, h1, h2, h3⟩ := runMoves_error basis _ p0 he'
    refine ⟨q, m, err, ?_, by rw [hlen]; exact h2, h3⟩
    rw [← hpos, List.getLast?_map] at h1; exact h1
  · intro he
    have he' : (runMoves basis p0 (movesOf ops)).2 = false := by rw [← hflag]; exact he
    rcases runMoves_complete basis _ p0 he' with h | ⟨j, q, h1, h2, h3⟩
    · left; rw [hlen]; exact h
    · right
      rw [← hpos, List.getElem?_map] at h1
      cases hfr : fs[j + 1]? with
      | none => rw [show (specFrames basis ops mk p0).1[j + 1]? = none from hfr] at h1; cases h1
      | some fr =>
        rw [show (specFrames basis ops mk p0).1[j + 1]? = some fr from hfr] at h1
        injection h1 with h1
        have h1' : fr.2 = q := h1
        exact ⟨j, fr, hfr, by rw [h1']; exact h2, by rw [hlen]; exact h3⟩

/-- **PositionAtMove.**  With `fs`, `e` the frames and error flag of the replay of the file:
`PositionAtMove(n, c)` for `n > 0` is the position of the *first* frame whose marker is `n` and whose side
to move is `c` (by `frames_spec`: the start position with exactly the moves before that frame applied);
if there is none: an error when the replay met an illegal move, an error ("move not found") when `n > 0`
— a request beyond the recorded game —, and the final position when `n ≤ 0` (`n = 0` is the documented
"final position").  `NoColor` with `n ≠ 0` is rejected. -/
theorem positionAtMove_spec (env : Env) (f : File) (p0 : Pos) (hinit : initialPosition env f = .ok p0) (hnz : NoZero f.ops)
    (n : Int) (c : Color) :
    (c = .none ∧ n ≠ 0 → ∃ w, positionAtMove env f n c = .error (.illegal w)) ∧
    (¬(c = .none ∧ n ≠ 0) →
      AtSpec (positionAtMove env f n c) n c (specFrames env.basis f.ops 0 p0).1 (specFrames env.basis f.ops 0 p0).2 none) := by
  obtain ⟨it0, hit, hcol⟩ := iterator_spec env f p0 hinit hnz
  constructor
  · rintro ⟨hc, hn⟩
    unfold positionAtMove
    rw [if_pos (by simp [hc, hn])]
    exact ⟨_, rfl⟩
  · intro hnot
    unfold positionAtMove
    rw [if_neg (by
      intro h
      simp only [Bool.and_eq_true, beq_iff_eq, bne_iff_ne, ne_eq] at h
      exact hnot h)]
    rw [hit]
    dsimp only
    have hinv := (iterator_inv env f it0 hit).1
    have := loop_of_collect env n c _ it0 _ _ hinv hcol
    -- the replay always shows at least one frame, so the cursor's own position is never consulted
    unfold AtSpec at this ⊢
    have hne : (specFrames env.basis f.ops 0 p0).1 ≠ [] := by
      have h1 := (specFrames_positions env.basis f.ops 0 p0).1
      intro h0
      rw [h0] at h1
      exact runMoves_ne_nil env.basis _ p0 h1.symm
    cases hl : (specFrames env.basis f.ops 0 p0).1.getLast? with
    | none => exact absurd (List.getLast?_eq_none_iff.mp hl) hne
    | some fr => rw [hl] at this; exact this

/-- when the start position cannot be derived (bad `Size`/`TPS` tag), every request is an error -/
theorem positionAtMove_init_error (env : Env) (f : File) (w : String)
    (hinit : initialPosition env f = .error (.illegal w)) (n : Int) (c : Color) :
    ∃ w', positionAtMove env f n c = .error (.illegal w') := by
  unfold positionAtMove
  split
  · exact ⟨_, rfl⟩
  · unfold iterator
    rw [hinit]
    dsimp only
    unfold positionAtMoveLoop
    have : ∀ it : Iter, it.err = some (.illegal w) → it.next env = .ok (it, false) := by
      intro it h; unfold Iter.next; rw [if_pos (by simp [h])]
    rw [this _ rfl]
    exact ⟨w, rfl⟩

/-- **Files read from text**, with the byte-level models of `ParseMove`/`ParseTPS` plugged in
(`PTN.realEnv`): `NoZero` holds for whatever `ParsePTN` returns (`ParseMove` never yields move type 0), so
the iterator shows the list-level replay and `PositionAtMove` answers as specified — no hypothesis left
beyond "the file parses and its start position exists". -/
theorem positional_lookup_linked (basis : Array W) (input : Bytes) (f : File) (p0 : Pos)
    (hparse : parsePTN (realEnv basis) input = .ok f) (hinit : initialPosition (realEnv basis) f = .ok p0)
    (n : Int) (c : Color) :
    (∃ it0, iterator (realEnv basis) f = .ok it0 ∧
      collect (realEnv basis) (f.ops.length + 2) it0 = .ok (specFrames basis f.ops 0 p0)) ∧
    (c = .none ∧ n ≠ 0 → ∃ w, positionAtMove (realEnv basis) f n c = .error (.illegal w)) ∧
    (¬(c = .none ∧ n ≠ 0) →
      AtSpec (positionAtMove (realEnv basis) f n c) n c (specFrames basis f.ops 0 p0).1 (specFrames basis f.ops 0 p0).2 none) := by
  have hnz := parsePTN_noZero_linked basis input f hparse
  have h2 := positionAtMove_spec (realEnv basis) f p0 hinit hnz n c
  exact ⟨iterator_spec (realEnv basis) f p0 hinit hnz, h2.1, h2.2⟩

/-! ### Render / Parse, at the byte level

`render env f` is the byte string `Render` writes; `parsePTN env` is the model of `ParsePTN` on bytes: BOM,
`readEvents` over the buffered reader, then `readMoves` = `bufio.Scanner` (64 KiB window model, `ErrTooLong`)
driving `splitMoves` (white space = `unicode.IsSpace` on Latin-1, incl. 0x85 / 0xA0) and the token switch.

The safety predicate (`Impl/PTNSafe.lean`, decidable; the driver evaluates it in the `ptnsafe` op and the Go
harness evaluates a Go transcription of it beside the real round trip):
* `dataSafe env f` — what `Render` can represent: tag names without space or `]`; tag values without `"` or `]`;
  comments without `}` and at most 65534 bytes long; modifiers over `?!'` with `FormatMove` output + modifiers
  at most 65535 bytes; results among the 25 strings of `resultRE`; (model only) numbers within `int`.
* `movesSafe env f` — every recorded move is `moveSafe`: `FormatMove` gives one clean token (not empty, not
  starting with `{` / `[`, not ending in `.` or `?!'`, no white space, not a result string) that `ParseMove`
  reads back as the same move.  This speaks about the two functions, not about the data;
  `moveSafe_real` discharges it for the byte-level models of the real functions on every move of legal shape. -/

/-- **The window model of `bufio.Scanner` is not an assumption.**  `readMovesScanner` (`Proofs/ScannerRefine.lean`)
is `readMoves` with `bufio.Scanner.Scan` inlined as the standard library writes it: a buffer that starts empty,
becomes 4096 bytes and doubles up to `MaxScanTokenSize`; reads that deliver any number of bytes ≥ 1 that fit
(`chunk`, arbitrary); the split function called on whatever is held, with `atEOF` only after a read has returned
`io.EOF` (a reader that returns data and `io.EOF` in the same call is not modelled; `os.File`, `bytes.Reader`,
`strings.Reader` never do); `ErrTooLong` when the buffer is full at its maximal size.  For every input and every sequence of read
sizes it returns what the window model returns, so `ParsePTN` over it is `parsePTN` — every theorem of this
section holds for it unchanged. -/
theorem scanner_window_model (env : Env) (chunk : Nat → Nat) :
    (∀ rest, readMovesScanner env chunk (2 * rest.length + 2) 0 (ScanState.init rest) =
      readMoves env (rest.length + 1) rest) ∧
    (∀ input, parsePTNScanner env chunk input = parsePTN env input) :=
  ⟨readMovesScanner_init env chunk, parsePTNScanner_eq env chunk⟩

/-- **Byte level: render then parse gives the value back exactly when the value is `dataSafe`.**
For a file whose moves are `moveSafe`: `ParsePTN (Render p)` succeeds with the same tags and the same ops
(move numbers, moves with their annotations, comments, results, in order; equality up to the `src` field, which
the parser fills with the token text) if and only if `dataSafe env p`.  So each clause of `dataSafe` is
necessary: outside it the parse fails or returns a different value. -/
theorem render_parse_bytes (env : Env) (f : File) (hm : movesSafe env f = true) :
    dataSafe env f = true ↔
      ∃ g, parsePTN env (render env f) = .ok g ∧ g.tags = f.tags ∧ g.ops.map Op.clearSrc = f.ops.map Op.clearSrc := by
  constructor
  · intro hd
    have hs : renderSafe env f = true := by rw [renderSafe_iff, hd, hm]; rfl
    refine ⟨_, parse_render env f hs, rfl, ?_⟩
    simp only [List.map_map]
    congr 1
    funext op
    exact clearSrc_withSrc env op
  · rintro ⟨g, hp, ht, ho⟩
    exact dataSafe_necessary env f g hm hp ht ho

/-- a byte-order mark in front of `Render`'s output never changes what `ParsePTN` returns -/
theorem render_parse_bom (env : Env) (f : File) :
    parsePTN env (0xEF :: 0xBB :: 0xBF :: render env f) = parsePTN env (render env f) :=
  parse_bom_render_eq env f

/-- the same equivalence for the text with a byte-order mark in front -/
theorem render_parse_bytes_bom (env : Env) (f : File) (hm : movesSafe env f = true) :
    dataSafe env f = true ↔
      ∃ g, parsePTN env (0xEF :: 0xBB :: 0xBF :: render env f) = .ok g ∧ g.tags = f.tags ∧
        g.ops.map Op.clearSrc = f.ops.map Op.clearSrc := by
  rw [render_parse_bom]
  exact render_parse_bytes env f hm

/-- **What comes back, in full** (safe side): the same tags, and each op with its rendered token as `src`;
identically with a byte-order mark in front. -/
theorem render_parse_tokens (env : Env) (f : File) (hs : renderSafe env f = true) :
    ∃ g, parsePTN env (render env f) = .ok g ∧
      parsePTN env (0xEF :: 0xBB :: 0xBF :: render env f) = .ok g ∧
      g.tags = f.tags ∧ g.ops = f.ops.map (withSrc env) ∧ g.ops.map Op.clearSrc = f.ops.map Op.clearSrc := by
  refine ⟨_, parse_render env f hs, parse_bom_render env f hs, rfl, rfl, ?_⟩
  simp only [List.map_map]
  congr 1
  funext op
  exact clearSrc_withSrc env op

/-- **The scanner's token limit, exactly.**  For a value whose characters are all representable (tags
`tagSafe`, every op `opShape` and `moveSafe`): `ParsePTN (Render p)` returns the value if every token fits the
64 KiB window (`opFits`: `FormatMove` output + modifiers ≤ 65535 bytes, comment text ≤ 65534 bytes) and
`bufio.ErrTooLong` — an error, nothing is returned — as soon as one does not. -/
theorem render_parse_window (env : Env) (f : File) (htags : f.tags.all tagSafe = true)
    (hshape : f.ops.all opShape = true) (hm : movesSafe env f = true) :
    parsePTN env (render env f) =
      if f.ops.all (opFits env) = true then .ok ⟨f.tags, f.ops.map (withSrc env)⟩
      else .error (.illegal "bufio.Scanner: token too long") := by
  apply parse_render_exact env f (fun t ht => (List.all_eq_true.mp htags) t ht)
  intro op hop
  simp only [opClean, Bool.and_eq_true]
  exact ⟨(List.all_eq_true.mp hshape) op hop, (List.all_eq_true.mp hm) op hop⟩

/-- **Whatever the input bytes**, a file that `ParsePTN` returns has: tag names without space / `]`, tag values
without `]`; comments without `}` that fit the window; modifiers over `?!'`; results among the 25 result
strings; numbers within `int`.  (Hence a value violating one of these clauses can never be the result of any
parse, rendered or not.)  The one clause of `dataSafe` a parsed file can violate is the `"` inside a tag value:
`render_parse_bytes_statement_false`. -/
theorem parse_output_shape (env : Env) (b : Bytes) (f : File) (h : parsePTN env b = .ok f) :
    f.tags.all tagParsed = true ∧ f.ops.all opShape = true ∧ f.ops.all commentFits = true := by
  obtain ⟨h1, h2⟩ := parsePTN_parsed env b f h
  refine ⟨List.all_eq_true.mpr h1, List.all_eq_true.mpr fun op hop => ?_, List.all_eq_true.mpr fun op hop => ?_⟩
  · have := h2 op hop; simp only [parsedOK, Bool.and_eq_true] at this; exact this.1
  · have := h2 op hop; simp only [parsedOK, Bool.and_eq_true] at this; exact this.2

/-- **Parsed files re-render losslessly** (the true part of `render_parse_bytes_statement`): if `ParsePTN`
returned `f` for some input, no tag value of `f` contains `"`, the moves of `f` are `moveSafe` and their
re-rendered tokens fit the window, then `ParsePTN (Render f)` returns `f` again (up to `src`). -/
theorem reparse_stable (env : Env) (b : Bytes) (f : File) (h : parsePTN env b = .ok f)
    (hq : ∀ t ∈ f.tags, t.value.all (· != 34) = true) (hm : movesSafe env f = true)
    (hfit : ∀ s m mods, Op.move s m mods ∈ f.ops → (env.formatMove m).length + mods.length < maxScanTokenSize) :
    ∃ g, parsePTN env (render env f) = .ok g ∧ g.tags = f.tags ∧ g.ops.map Op.clearSrc = f.ops.map Op.clearSrc := by
  apply (render_parse_bytes env f hm).mp
  obtain ⟨h1, h2⟩ := parsePTN_parsed env b f h
  simp only [dataSafe, Bool.and_eq_true, List.all_eq_true]
  constructor
  · intro t ht
    have hp := h1 t ht
    have hv := hq t ht
    simp only [tagParsed, Bool.and_eq_true, List.all_eq_true] at hp
    simp only [List.all_eq_true] at hv
    simp only [tagSafe, Bool.and_eq_true, List.all_eq_true]
    exact ⟨hp.1, fun x hx => ⟨hv x hx, hp.2 x hx⟩⟩
  · intro op hop
    have hp := h2 op hop
    simp only [parsedOK, Bool.and_eq_true] at hp
    simp only [opData, Bool.and_eq_true]
    refine ⟨hp.1, ?_⟩
    cases op with
    | moveNumber s n => rfl
    | move s m mods => simp only [opFits, decide_eq_true_eq]; exact hfit s m mods hop
    | comment s c => exact hp.2
    | result s r => rfl

/-- **With the real `FormatMove` / `ParseMove`** (`PTN.realEnv`: their byte-level models, C11) nothing is assumed
about the two functions: for every file whose recorded moves have a legal shape (for some board size),
render-then-parse gives the value back iff it is `dataSafe`. -/
theorem render_parse_bytes_real (basis : Array W) (f : File)
    (hlegal : ∀ s m mods, Op.move s m mods ∈ f.ops → ∃ size, Notation.LegalShape size m) :
    dataSafe (realEnv basis) f = true ↔
      ∃ g, parsePTN (realEnv basis) (render (realEnv basis) f) = .ok g ∧ g.tags = f.tags ∧
        g.ops.map Op.clearSrc = f.ops.map Op.clearSrc := by
  apply render_parse_bytes
  simp only [movesSafe, List.all_eq_true]
  intro op hop
  cases op with
  | move s m mods =>
    obtain ⟨size, hsz⟩ := hlegal s m mods hop
    exact moveSafe_real basis size m hsz
  | moveNumber s n => rfl
  | comment s c => rfl
  | result s r => rfl

/-- a recorded game as the tools write and read it: clean tags, every move of legal shape (for some board size)
with annotations over `?!'` (at most 65523 of them), comments without `}` of at most 65534 bytes, results among
the 25 result strings, numbers within `int` -/
def GameFile (f : File) : Prop :=
  (∀ t ∈ f.tags, tagSafe t = true) ∧
  ∀ op ∈ f.ops,
    match op with
    | .moveNumber _ n => -(2 ^ 63 : Int) ≤ n ∧ n < 2 ^ 63
    | .move _ m mods => (∃ size, Notation.LegalShape size m) ∧ mods.all isModifier = true ∧ mods.length ≤ 65523
    | .comment _ c => c.all (· != 125) = true ∧ c.length ≤ 65534
    | .result _ r => matchResult r = true

/-- **The property as stated, for recorded games, with the real `FormatMove` / `ParseMove`**: rendering a
`GameFile` and parsing the bytes again — with or without a byte-order mark — yields the same tags, move numbers,
moves with annotations, comments and results.  No hypothesis about any function is left. -/
theorem render_parse_games (basis : Array W) (f : File) (h : GameFile f) :
    ∃ g, parsePTN (realEnv basis) (render (realEnv basis) f) = .ok g ∧
      parsePTN (realEnv basis) (0xEF :: 0xBB :: 0xBF :: render (realEnv basis) f) = .ok g ∧
      g.tags = f.tags ∧ g.ops.map Op.clearSrc = f.ops.map Op.clearSrc := by
  obtain ⟨htags, hops⟩ := h
  have hs : renderSafe (realEnv basis) f = true := by
    simp only [renderSafe, Bool.and_eq_true, List.all_eq_true]
    refine ⟨htags, fun op hop => ?_⟩
    have ho := hops op hop
    cases op with
    | moveNumber s n =>
      simp only [opSafe, opData, opShape, opFits, opMove, Bool.and_true, Bool.and_eq_true, decide_eq_true_eq]
      exact ho
    | move s m mods =>
      obtain ⟨⟨size, hsz⟩, hmods, hlen⟩ := ho
      have hl := formatMove_length_le size m hsz
      have hfm : (realEnv basis).formatMove m = Tak.PTN.formatMove m false := rfl
      simp only [opSafe, opData, opShape, opFits, opMove, Bool.and_eq_true, decide_eq_true_eq, hfm, maxScanTokenSize]
      exact ⟨⟨hmods, by omega⟩, moveSafe_real basis size m hsz⟩
    | comment s c =>
      simp only [opSafe, opData, opShape, opFits, opMove, Bool.and_true, Bool.and_eq_true, decide_eq_true_eq,
        maxScanTokenSize]
      have h2 := ho.2
      exact ⟨ho.1, decide_eq_true (by omega)⟩
    | result s r =>
      simp only [opSafe, opData, opShape, opFits, opMove, Bool.and_true]
      exact ho
  obtain ⟨g, h1, h2, h3, _, h5⟩ := render_parse_tokens (realEnv basis) f hs
  exact ⟨g, h1, h2, h3, h5⟩

/-- the statement one might hope for — every successfully parsed file re-renders to something that parses to
the same value.  It is **false** (next theorem); `reparse_stable` is the part that holds. -/
def render_parse_bytes_statement (env : Env) : Prop :=
  ∀ b f, parsePTN env b = .ok f → ∃ g, parsePTN env (render env f) = .ok g ∧
    g.tags = f.tags ∧ g.ops.map Op.clearSrc = f.ops.map Op.clearSrc

/-! #### a concrete record meets the hypotheses, and the theorems say something about it -/

/-- `[Size "3"]  1. a1 b2  2. c3 {x}  3.` with the transcribed move functions -/
def exEnv : Env :=
  { parseMove := Inst.parseMove, formatMove := Inst.formatMove,
    parseTPS := fun _ => .error (.illegal "no TPS"), basis := Array.replicate 64 0#64 }

def exFile : File :=
  ⟨[⟨tagSize, [51]⟩],
   [.moveNumber [] 1, .move [] ⟨0, 0, Facts.mtPlaceFlat, 0#32⟩ [], .move [] ⟨1, 1, Facts.mtPlaceFlat, 0#32⟩ [],
    .moveNumber [] 2, .move [] ⟨2, 2, Facts.mtPlaceFlat, 0#32⟩ [], .comment [] [120], .moveNumber [] 3]⟩

example : ∃ p0, initialPosition exEnv exFile = .ok p0 := ⟨_, rfl⟩

example : NoZero exFile.ops := by
  intro src m mods h
  simp only [exFile, List.mem_cons, Op.move.injEq, List.mem_nil_iff, or_false, reduceCtorEq, false_or] at h
  rcases h with ⟨_, rfl, _⟩ | ⟨_, rfl, _⟩ | ⟨_, rfl, _⟩ <;> decide

/-- four frames: markers 1, 1, 2 and — after the last move — 3; white to move in frames 0 and 2 -/
example : ∃ p0, initialPosition exEnv exFile = .ok p0 ∧
    (specFrames exEnv.basis exFile.ops 0 p0).1.map (fun fr => (fr.1, fr.2.move)) = [(1, 0), (1, 1), (2, 2), (3, 3)] ∧
    (specFrames exEnv.basis exFile.ops 0 p0).2 = false :=
  ⟨_, rfl, by decide, by decide⟩

/-- the example record, with an annotation, a comment and a result added, is inside the safe fragment -/
def exFile2 : File :=
  ⟨exFile.tags ++ [⟨[80, 49], [97, 32, 98]⟩],
   exFile.ops ++ [.move [] ⟨0, 0, Facts.mtSlideRight, 1#32⟩ [33, 63], .comment [] [123, 32, 46], .result [] [82, 45, 48]]⟩

example : renderSafe exEnv exFile2 = true := by decide
example : dataSafe exEnv exFile2 = true ∧ movesSafe exEnv exFile2 = true := by decide

/-- the hypothesis of `render_parse_bytes_real` holds for the moves of the example (on a 3x3 board) -/
example : ∀ s m mods, Op.move s m mods ∈ exFile2.ops → ∃ size, Notation.LegalShape size m := by
  intro s m mods h
  refine ⟨3, ?_⟩
  simp only [exFile2, exFile, List.cons_append, List.nil_append, List.mem_cons, Op.move.injEq, List.mem_nil_iff,
    or_false, reduceCtorEq, false_or] at h
  rcases h with ⟨_, rfl, _⟩ | ⟨_, rfl, _⟩ | ⟨_, rfl, _⟩ | ⟨_, rfl, _⟩ <;> decide

/-- the example record is a `GameFile` -/
example : GameFile exFile2 := by
  refine ⟨by decide, ?_⟩
  intro op hop
  simp only [exFile2, exFile, List.cons_append, List.nil_append, List.mem_cons, List.mem_nil_iff, or_false] at hop
  rcases hop with rfl | rfl | rfl | rfl | rfl | rfl | rfl | rfl | rfl | rfl
  all_goals first
    | (exact ⟨by decide, by decide⟩)
    | (exact ⟨⟨3, by decide⟩, by decide, by decide⟩)
    | (show matchResult _ = true; decide)

/-! #### each clause of `dataSafe` is needed: one-tag / one-op values just outside it (`movesSafe` holds for all
of them), and what render-then-parse does with them -/

/-- outcome of render-then-parse: `some true` = the value came back, `some false` = another value, `none` = error -/
def roundTrip (env : Env) (f : File) : Option Bool :=
  match parsePTN env (render env f) with
  | .ok g => some (g.sameAs f)
  | .error _ => none

private def oneTag (name value : String) : File := ⟨[⟨Go.lit name, Go.lit value⟩], []⟩
private def oneOp (op : Op) : File :=
  ⟨[⟨tagSize, [51]⟩], [.moveNumber [] 1, .move [] ⟨0, 0, Facts.mtPlaceFlat, 0#32⟩ [], op, .move [] ⟨1, 1, Facts.mtPlaceFlat, 0#32⟩ []]⟩
private def str (s : String) : Bytes := Go.lit s

-- tag name: a space splits it, `]` ends the tag early; a tab or `[` or `"` is harmless
example : roundTrip exEnv (oneTag "A B" "v") = some false ∧ roundTrip exEnv (oneTag "A]" "v") = none ∧
    roundTrip exEnv (oneTag "A\t[\"" "v") = some true := by decide
-- tag value: `"` is dropped by `Render`, `]` ends the tag early; space, `[`, `'` are harmless
example : roundTrip exEnv (oneTag "N" "x\"y") = some false ∧ roundTrip exEnv (oneTag "N" "\"") = some false ∧
    roundTrip exEnv (oneTag "N" "x]y") = none ∧ roundTrip exEnv (oneTag "N" "a [b' ") = some true := by decide
-- comment: `}` ends it early (the rest is then read as moves); `{`, white space, Latin-1 spaces are harmless
example : roundTrip exEnv (oneOp (.comment [] (str "a}b"))) = none ∧ roundTrip exEnv (oneOp (.comment [] (str "} {"))) = some false ∧
    roundTrip exEnv (oneOp (.comment [] (str "{ a\n" ++ [0x85, 0xA0]))) = some true := by decide
-- modifiers: only `?`, `!`, `'` are split off a move token (`*` and whatever follows an annotation character are
-- swallowed by `ParseMove`, a final `.` makes a move number)
example : roundTrip exEnv (oneOp (.move [] ⟨2, 2, Facts.mtPlaceFlat, 0#32⟩ (str "*"))) = some false ∧
    roundTrip exEnv (oneOp (.move [] ⟨2, 2, Facts.mtPlaceFlat, 0#32⟩ (str "?."))) = none ∧
    roundTrip exEnv (oneOp (.move [] ⟨2, 2, Facts.mtPlaceFlat, 0#32⟩ (str "?x"))) = some false ∧
    roundTrip exEnv (oneOp (.move [] ⟨2, 2, Facts.mtPlaceFlat, 0#32⟩ (str "!?'"))) = some true := by decide
-- result: anything but the 25 strings is read as something else (a move, a number, nothing) or rejected
example : roundTrip exEnv (oneOp (.result [] (str "c3"))) = some false ∧ roundTrip exEnv (oneOp (.result [] (str "2."))) = some false ∧
    roundTrip exEnv (oneOp (.result [] [])) = some false ∧ roundTrip exEnv (oneOp (.result [] (str "2-0"))) = none ∧
    roundTrip exEnv (oneOp (.result [] (str "1/2-R"))) = some true := by decide
-- numbers: every `int` comes back, the extremes included
example : roundTrip exEnv (oneOp (.moveNumber [] (-(2 ^ 63)))) = some true ∧ roundTrip exEnv (oneOp (.moveNumber [] (2 ^ 63 - 1))) = some true ∧
    roundTrip exEnv (oneOp (.moveNumber [] (2 ^ 63))) = none := by decide
-- and the predicate says so
example : dataSafe exEnv (oneTag "A B" "v") = false ∧ dataSafe exEnv (oneTag "N" "x\"y") = false ∧
    dataSafe exEnv (oneOp (.comment [] (str "} {"))) = false ∧
    dataSafe exEnv (oneOp (.move [] ⟨2, 2, Facts.mtPlaceFlat, 0#32⟩ (str "*"))) = false ∧
    dataSafe exEnv (oneOp (.result [] (str "c3"))) = false ∧ dataSafe exEnv (oneOp (.moveNumber [] (2 ^ 63))) = false ∧
    movesSafe exEnv (oneOp (.result [] (str "c3"))) = true := by decide

/-- the window clause at its boundary: a comment of 65534 bytes comes back, one of 65535 bytes is `ErrTooLong`;
a move with 65533 modifiers (token of 65535 bytes) comes back, with 65534 it is `ErrTooLong` -/
example :
    parsePTN exEnv (render exEnv (oneOp (.comment [] (List.replicate 65534 120)))) =
      .ok ⟨(oneOp (.comment [] (List.replicate 65534 120))).tags,
           (oneOp (.comment [] (List.replicate 65534 120))).ops.map (withSrc exEnv)⟩ ∧
    parsePTN exEnv (render exEnv (oneOp (.comment [] (List.replicate 65535 120)))) =
      .error (.illegal "bufio.Scanner: token too long") ∧
    parsePTN exEnv (render exEnv (oneOp (.move [] ⟨2, 2, Facts.mtPlaceFlat, 0#32⟩ (List.replicate 65533 33)))) =
      .ok ⟨(oneOp (.move [] ⟨2, 2, Facts.mtPlaceFlat, 0#32⟩ (List.replicate 65533 33))).tags,
           (oneOp (.move [] ⟨2, 2, Facts.mtPlaceFlat, 0#32⟩ (List.replicate 65533 33))).ops.map (withSrc exEnv)⟩ ∧
    parsePTN exEnv (render exEnv (oneOp (.move [] ⟨2, 2, Facts.mtPlaceFlat, 0#32⟩ (List.replicate 65534 33)))) =
      .error (.illegal "bufio.Scanner: token too long") := by
  have hm : ∀ op, opMove exEnv op = true → movesSafe exEnv (oneOp op) = true := by
    intro op h
    simp only [movesSafe, oneOp, List.all_cons, List.all_nil, Bool.and_true, h, Bool.and_eq_true]
    decide
  have hsh : ∀ op, opShape op = true → (oneOp op).ops.all opShape = true := by
    intro op h
    simp only [oneOp, List.all_cons, List.all_nil, Bool.and_true, h, Bool.and_eq_true]
    decide
  have hc : ∀ n, opShape (.comment [] (List.replicate n 120)) = true := by
    intro n
    simp only [opShape, List.all_eq_true, List.mem_replicate]
    rintro b ⟨_, rfl⟩; decide
  have hmv : ∀ n, opShape (.move [] ⟨2, 2, Facts.mtPlaceFlat, 0#32⟩ (List.replicate n 33)) = true := by
    intro n
    simp only [opShape, List.all_eq_true, List.mem_replicate]
    rintro b ⟨_, rfl⟩; decide
  have hfm : (exEnv.formatMove ⟨2, 2, Facts.mtPlaceFlat, 0#32⟩).length = 2 := by decide
  refine ⟨?_, ?_, ?_, ?_⟩
  · rw [render_parse_window exEnv _ (by decide) (hsh _ (hc _)) (hm _ rfl), if_pos]
    simp only [oneOp, List.all_cons, List.all_nil, opFits, List.length_replicate, maxScanTokenSize]
    decide
  · rw [render_parse_window exEnv _ (by decide) (hsh _ (hc _)) (hm _ rfl), if_neg]
    simp only [oneOp, List.all_cons, List.all_nil, opFits, List.length_replicate, maxScanTokenSize]
    decide
  · rw [render_parse_window exEnv _ (by decide) (hsh _ (hmv _)) (hm _ (by decide)), if_pos]
    simp only [oneOp, List.all_cons, List.all_nil, opFits, List.length_replicate, maxScanTokenSize, hfm]
    decide
  · rw [render_parse_window exEnv _ (by decide) (hsh _ (hmv _)) (hm _ (by decide)), if_neg]
    simp only [oneOp, List.all_cons, List.all_nil, opFits, List.length_replicate, maxScanTokenSize, hfm]
    decide

/-- moves the real `FormatMove` cannot carry are outside `moveSafe` (`i1`: off the board; move type 0: printed as
a flat placement; a slide without drops: read back with one drop), a slide of legal shape is inside -/
example : moveSafe (realEnv #[]) ⟨8, 0, Facts.mtPlaceFlat, 0#32⟩ = false ∧ moveSafe (realEnv #[]) ⟨0, 0, 0, 0#32⟩ = false ∧
    moveSafe (realEnv #[]) ⟨1, 1, Facts.mtSlideLeft, 0#32⟩ = false ∧
    moveSafe (realEnv #[]) ⟨1, 1, Facts.mtSlideLeft, 0x1#32⟩ = true := by decide

/-- the spelled-out scanner on a small input, read one byte at a time and read in one piece:
two moves, a comment, a move number -/
example :
    (readMovesScanner exEnv (fun _ => 1) 60 0 (ScanState.init (str " a1 b2? {x y}\n2."))).toOption.map (·.map Op.clearSrc) =
      some [.move [] ⟨0, 0, Facts.mtPlaceFlat, 0#32⟩ [], .move [] ⟨1, 1, Facts.mtPlaceFlat, 0#32⟩ [63],
            .comment [] (str "x y"), .moveNumber [] 2] ∧
    (readMovesScanner exEnv (fun _ => 4096) 60 0 (ScanState.init (str " a1 b2? {x y}\n2."))).toOption.map (·.map Op.clearSrc) =
      some [.move [] ⟨0, 0, Facts.mtPlaceFlat, 0#32⟩ [], .move [] ⟨1, 1, Facts.mtPlaceFlat, 0#32⟩ [63],
            .comment [] (str "x y"), .moveNumber [] 2] := by decide

/-- `[N "x"y"]`: the value `x"y` is what `ParsePTN` returns, and `Render` writes it as `"xy"` -/
theorem render_parse_bytes_statement_false : ¬ render_parse_bytes_statement exEnv := by
  intro h
  have hp : parsePTN exEnv (str "[N \"x\"y\"]") = .ok (oneTag "N" "x\"y") := by rfl
  obtain ⟨g, hg, ht, _⟩ := h _ _ hp
  have hr : parsePTN exEnv (render exEnv (oneTag "N" "x\"y")) = .ok (oneTag "N" "xy") := by rfl
  rw [hr] at hg
  injection hg with hg
  subst hg
  revert ht
  decide

end C12
