import TakVerif.Props.C15
import TakVerif.Impl.CmdCanon

/-!
# C15 at its consumer: the command `taktician canonicalize` (`cmd/internal/canonicalize/main.go`)

`Tak.CmdCanon.execute` (`Impl/CmdCanon.lean`) mirrors `Execute`: `ptn.ParseFile`, the moves of the file's move ops, the
`Size` tag through `strconv.ParseUint`, `symmetry.Canonical`, the result written back into the move ops, and
`fmt.Printf(g.Render())`.  The theorems carry C15 to what the command prints:

* `canonicalize_cmd_output`: for a file that parses, the command prints `printf0 (Render g)` where `g` is
  `canonFile f`, and leaves through `log.Fatalf` / panics exactly as `canonFile` says.
* `canonFile_spec`: `g` is the file `f` with `Tak.canonical` of its moves in its move ops — same tags, and every
  number, annotation mark, comment and result where it was (`blank`: the ops with the moves wiped are the same).
* `canonicalize_cmd_properties`: C15's three clauses for the command on 3×3 … 6×6: the file it prints holds a legal game
  of the same length whose prefixes reach images of the original prefix positions; a file with the same tags and
  the same skeleton holding any of the eight images of the game gives the very same file (so the same bytes:
  `canonicalize_cmd_image_same_bytes`); the command applied to the file it printed returns that file.
* `printf0_plain`: the text is printed as it is unless it contains a `%` (then `fmt.Printf` reads verbs in it: the
  instance below shows a comment `{100%}` coming out as `{100%!}(MISSING)`, which is not a PTN comment any more).

Hypotheses that remain: `NoCollisionAt` as in `C15.canonical_refines_default`. -/
namespace C15
open Tak Tak.CmdCanon Go Spec
open _root_.PTN (File Op Tag)

/-- an op with its move wiped: what the command must leave untouched -/
def blank : Op → Op
  | .move src _ mods => .move src PTN.zeroMove mods
  | o => o

/-! ## `fmt.Printf` on text without `%` -/

theorem takeWhile_dropWhile_all {α : Type} (p : α → Bool) :
    ∀ l : List α, (∀ x ∈ l, p x = true) → l.takeWhile p = l ∧ l.dropWhile p = []
  | [], _ => ⟨rfl, rfl⟩
  | a :: l, h => by
    have ha : p a = true := h a (List.mem_cons_self ..)
    have ih := takeWhile_dropWhile_all p l (fun x hx => h x (List.mem_cons_of_mem _ hx))
    simp only [List.takeWhile_cons, List.dropWhile_cons, ha, if_true, ih.1, ih.2, and_self]

/-- **text without a `%` is printed as it is** -/
theorem printf0_plain (b : Bytes) (h : ∀ x ∈ b, x ≠ 37) : printf0 b = b := by
  have hp : ∀ x ∈ b, (x != 37) = true := fun x hx => by simpa using h x hx
  obtain ⟨ht, hd⟩ := takeWhile_dropWhile_all (· != 37) b hp
  simp only [printf0, printfLoop, ht, hd]

/-! ## the move ops -/

theorem setMoves_self : ∀ ops : List Op, setMoves ops (movesOf ops) = .ok ops
  | [] => rfl
  | .move src m mods :: rest => by simp only [movesOf, setMoves, setMoves_self rest]
  | .moveNumber .. :: rest => by simp only [movesOf, setMoves, setMoves_self rest]
  | .comment .. :: rest => by simp only [movesOf, setMoves, setMoves_self rest]
  | .result .. :: rest => by simp only [movesOf, setMoves, setMoves_self rest]

/-- with as many moves as the file has move ops the second loop succeeds; the new ops hold exactly these moves and
are the old ops in everything else -/
theorem setMoves_spec : ∀ (ops : List Op) (out : List Tak.Move), out.length = (movesOf ops).length →
    ∃ ops', setMoves ops out = .ok ops' ∧ movesOf ops' = out ∧ ops'.map blank = ops.map blank
  | [], out, h => by
    cases out with
    | nil => exact ⟨[], rfl, rfl, rfl⟩
    | cons _ _ => simp [movesOf] at h
  | .move src m mods :: rest, out, h => by
    cases out with
    | nil => simp [movesOf] at h
    | cons m' out' =>
      obtain ⟨ops', h1, h2, h3⟩ := setMoves_spec rest out' (by simpa [movesOf] using h)
      exact ⟨.move src m' mods :: ops', by simp only [setMoves, h1], by simp only [movesOf, h2],
        by simp only [List.map_cons, blank, h3]⟩
  | .moveNumber s k :: rest, out, h => by
    obtain ⟨ops', h1, h2, h3⟩ := setMoves_spec rest out (by simpa [movesOf] using h)
    exact ⟨.moveNumber s k :: ops', by simp only [setMoves, h1], by simp only [movesOf, h2],
      by simp only [List.map_cons, blank, h3]⟩
  | .comment s k :: rest, out, h => by
    obtain ⟨ops', h1, h2, h3⟩ := setMoves_spec rest out (by simpa [movesOf] using h)
    exact ⟨.comment s k :: ops', by simp only [setMoves, h1], by simp only [movesOf, h2],
      by simp only [List.map_cons, blank, h3]⟩
  | .result s k :: rest, out, h => by
    obtain ⟨ops', h1, h2, h3⟩ := setMoves_spec rest out (by simpa [movesOf] using h)
    exact ⟨.result s k :: ops', by simp only [setMoves, h1], by simp only [movesOf, h2],
      by simp only [List.map_cons, blank, h3]⟩

/-- the second loop looks at nothing but the skeleton: two op lists that differ in their moves only get the same
result -/
theorem setMoves_congr : ∀ (ops ops' : List Op) (out : List Tak.Move), ops.map blank = ops'.map blank →
    setMoves ops out = setMoves ops' out
  | [], [], _, _ => rfl
  | [], _ :: _, _, h => by simp at h
  | _ :: _, [], _, h => by simp at h
  | o :: rest, o' :: rest', out, h => by
    simp only [List.map_cons, List.cons.injEq] at h
    obtain ⟨ho, hr⟩ := h
    cases o <;> cases o' <;> simp only [blank, Op.move.injEq, Op.moveNumber.injEq, Op.comment.injEq, Op.result.injEq,
      reduceCtorEq] at ho
    · obtain ⟨h1, h2⟩ := ho; subst h1; subst h2
      simp only [setMoves, setMoves_congr rest rest' out hr]
    · obtain ⟨h1, _, h2⟩ := ho; subst h1; subst h2
      cases out with
      | nil => simp only [setMoves]
      | cons m out' => simp only [setMoves, setMoves_congr rest rest' out' hr]
    · obtain ⟨h1, h2⟩ := ho; subst h1; subst h2
      simp only [setMoves, setMoves_congr rest rest' out hr]
    · obtain ⟨h1, h2⟩ := ho; subst h1; subst h2
      simp only [setMoves, setMoves_congr rest rest' out hr]

/-! ## the command -/

/-- **what the command prints**: for a file whose bytes parse to `f` everything is decided by `canonFile f` — its
file goes through `Render` and `fmt.Printf`, its `fatal` / `crash` is the command's -/
theorem canonicalize_cmd_output (env : PTN.Env) (canonical : Nat → List Tak.Move → R (List Tak.Move))
    (input : Bytes) (f : File) (hparse : PTN.parsePTN env input = .ok f) :
    execute env canonical (some (some input)) =
      match canonFile canonical f with
      | .ok g => .printed (printf0 (PTN.render env g))
      | .error x => x := by
  simp only [execute, hparse]
  cases canonFile canonical f <;> rfl

/-- an unparsable file is `log.Fatalf`, never output and never a panic (C13's totality of `ParsePTN` carried to the
command) -/
theorem canonicalize_cmd_unparsable (env : PTN.Env) (canonical : Nat → List Tak.Move → R (List Tak.Move))
    (input : Bytes) (w : String) (hparse : PTN.parsePTN env input = .error (.illegal w)) :
    execute env canonical (some (some input)) = .fatal "read" := by
  simp only [execute, hparse]

/-- **the file behind the output**: when `Canonical` answers `out` for the moves of `f` (as many as it was given),
`canonFile f` is `f` with `out` in its move ops: same tags, same ops up to the moves, and its moves are `out`;
when `Canonical` rejects the game the command leaves through `log.Fatalf` -/
theorem canonFile_spec (canonical : Nat → List Tak.Move → R (List Tak.Move)) (f : File) (n : Nat)
    (hsize : parseUint32 (f.findTag PTN.tagSize) = some n) :
    (∀ out, canonical n (movesOf f.ops) = .ok out → out.length = (movesOf f.ops).length →
      ∃ g, canonFile canonical f = .ok g ∧ g.tags = f.tags ∧ g.ops.map blank = f.ops.map blank ∧ movesOf g.ops = out) ∧
    (∀ w, canonical n (movesOf f.ops) = .error (.illegal w) → canonFile canonical f = .error (.fatal "canonicalize")) := by
  refine ⟨fun out hc hlen => ?_, fun w hc => ?_⟩
  · obtain ⟨ops', h1, h2, h3⟩ := setMoves_spec f.ops out hlen
    exact ⟨{ f with ops := ops' }, by simp only [canonFile, hsize, hc, h1], rfl, h3, h2⟩
  · simp only [canonFile, hsize, hc]

/-- **C15 for the command** on 3×3 … 6×6, assuming only the absence of hash collisions: for a file `f` with `Size` tag
`n` holding a legal game, the command's file `fc` has the tags and the skeleton of `f` and holds a legal game `out`
of the same length, prefix-wise an image of the original; any file `f'` with the same tags and skeleton holding the
image of the game under any of the eight maps gives the very same `fc`; and `fc` is a fixed point of the command. -/
theorem canonicalize_cmd_properties (basis : Array W) {n : Nat} (hn : n ∈ [3, 4, 5, 6]) (g : Sym)
    (f f' : File) (pEnd : State)
    (hsize : parseUint32 (f.findTag PTN.tagSize) = some n)
    (hlegal : replay (startState n) (movesOf f.ops) = some pEnd)
    (htags : f'.tags = f.tags) (hskel : f'.ops.map blank = f.ops.map blank)
    (himg : movesOf f'.ops = (movesOf f.ops).map (g.raw n))
    (NC : ∀ game : List Tak.Move, (game = movesOf f.ops ∨ game = (movesOf f.ops).map (g.raw n) ∨
        canon n (movesOf f.ops) = some game) →
      ∀ pre st, pre <+: game → canonRun ⟨startState n, 0, []⟩ pre = some st → NoCollisionAt (InvB basis) st.b0) :
    ∃ (out : List Tak.Move) (fc : File),
      canonFile (Tak.canonical basis) f = .ok fc ∧ fc.tags = f.tags ∧ fc.ops.map blank = f.ops.map blank ∧
      movesOf fc.ops = out ∧ out.length = (movesOf f.ops).length ∧
      (∀ t, t ≤ (movesOf f.ops).length → ∃ (k : Sym) (pt : State),
        replay (startState n) ((movesOf f.ops).take t) = some pt ∧
        replay (startState n) (out.take t) = some (k.state pt)) ∧
      canonFile (Tak.canonical basis) f' = .ok fc ∧
      canonFile (Tak.canonical basis) fc = .ok fc := by
  obtain ⟨out, h1, h2, h3, h4, h5⟩ := model_canonical_properties_default basis hn g (movesOf f.ops) pEnd hlegal NC
  obtain ⟨ops', s1, s2, s3⟩ := setMoves_spec f.ops out h2
  have hsize' : parseUint32 (f'.findTag PTN.tagSize) = some n := by
    simp only [File.findTag, htags] at hsize ⊢; exact hsize
  refine ⟨out, { f with ops := ops' }, by simp only [canonFile, hsize, h1, s1], rfl, s3, s2, h2, h3, ?_, ?_⟩
  · have hs : setMoves f'.ops out = .ok ops' := by rw [setMoves_congr f'.ops f.ops out hskel]; exact s1
    simp only [canonFile, hsize', himg, h4, hs]
    cases f; cases f'; simp only at htags ⊢; simp_all
  · have hsz : parseUint32 (File.findTag { f with ops := ops' } PTN.tagSize) = some n := hsize
    simp only [canonFile, hsz, s2, h5]
    rw [← s2, setMoves_self]

/-- the same at the byte level: two files that parse to such `f` and `f'` make the command print the same bytes -/
theorem canonicalize_cmd_image_same_bytes (basis : Array W) {n : Nat} (hn : n ∈ [3, 4, 5, 6]) (g : Sym)
    (input input' : Bytes) (f f' : File) (pEnd : State)
    (hparse : PTN.parsePTN (PTN.realEnv basis) input = .ok f) (hparse' : PTN.parsePTN (PTN.realEnv basis) input' = .ok f')
    (hsize : parseUint32 (f.findTag PTN.tagSize) = some n)
    (hlegal : replay (startState n) (movesOf f.ops) = some pEnd)
    (htags : f'.tags = f.tags) (hskel : f'.ops.map blank = f.ops.map blank)
    (himg : movesOf f'.ops = (movesOf f.ops).map (g.raw n))
    (NC : ∀ game : List Tak.Move, (game = movesOf f.ops ∨ game = (movesOf f.ops).map (g.raw n) ∨
        canon n (movesOf f.ops) = some game) →
      ∀ pre st, pre <+: game → canonRun ⟨startState n, 0, []⟩ pre = some st → NoCollisionAt (InvB basis) st.b0) :
    ∃ out, run basis (some (some input)) = .printed out ∧ run basis (some (some input')) = .printed out := by
  obtain ⟨_, fc, h1, _, _, _, _, _, h2, _⟩ :=
    canonicalize_cmd_properties basis hn g f f' pEnd hsize hlegal htags hskel himg NC
  refine ⟨printf0 (PTN.render (PTN.realEnv basis) fc), ?_, ?_⟩
  · simp only [run, canonicalize_cmd_output _ _ input f hparse, h1]
  · simp only [run, canonicalize_cmd_output _ _ input' f' hparse', h2]

/-! ## concrete instances (evaluated by the kernel) -/

/-- the file `[Size "5"]⏎⏎1. a5 e5 {x}⏎` comes out with `a1 e1` in place of the moves and everything else where it
was; with the comment `{100%}` the text that reaches the terminal is no PTN comment any more; `[Size "9"]` is a
panic of the command (`tak.New`), `[Size "+5"]` and an occupied square are `log.Fatalf` -/
example :
    run (Array.replicate 64 0#64) (some (some (lit "[Size \"5\"]\n\n1. a5 e5 {x}\n"))) =
      .printed (lit "[Size \"5\"]\n\n\n1. a1 e1 {x}\n") ∧
    run (Array.replicate 64 0#64) (some (some (lit "[Size \"5\"]\n\n1. a5 e5 {100%}\n"))) =
      .printed (lit "[Size \"5\"]\n\n\n1. a1 e1 {100%!}(MISSING)\n") ∧
    (match run (Array.replicate 64 0#64) (some (some (lit "[Size \"9\"]\n\n1. a5\n"))) with
      | .crash (.panic _) => true | _ => false) = true ∧
    run (Array.replicate 64 0#64) (some (some (lit "[Size \"+5\"]\n\n1. a5\n"))) = .fatal "bad size" ∧
    run (Array.replicate 64 0#64) (some (some (lit "[Size \"5\"]\n\n1. a5 a5\n"))) = .fatal "canonicalize" ∧
    run (Array.replicate 64 0#64) (some (some (lit "1. {"))) = .fatal "read" := by decide

/-- `printf0` on the verbs a comment may carry -/
example : printf0 (lit "50% 2. a1") = lit "50%! (MISSING)a1" ∧ printf0 (lit "a%%b") = lit "a%b" ∧
    printf0 (lit "%[1]d %*d") = lit "%!d(BADINDEX) %!(BADWIDTH)%!d(MISSING)" ∧ printf0 (lit "no verb") = lit "no verb" := by
  decide

end C15
