import TakVerif.Proofs.LegalShapePTN
import TakVerif.Props.C12

/-! # C12 for games whose moves were legal when played

`C12.render_parse_bytes_real` / `render_parse_games` ask that every recorded move be of legal shape
(`Notation.LegalShape`, a predicate on the move value).  Here that hypothesis is derived from the record
itself: **if the record replays** — its moves apply one after the other from its start position, which is what
`Iterator`/`PositionAtMove` check (`iterator_spec`, `frames_spec`) — then every recorded move is a legal shape,
hence `moveSafe`, and render-then-parse is lossless exactly on `dataSafe` data.

Two side conditions remain, both about the *value* of a recorded move and both automatic for moves that come
from `ParseMove` (`parsed_moves_canonical`) or from the move generator (`C11.allMoves_legalShape`):
the move is not the engine's internal pass, and a placement carries an empty `Slides` word (`isNormal`).
The second cannot be dropped: `FormatMove` prints a stray `Slides` word of a placement, and the text does not
parse (`C11.ptn_junk_placement_not_roundtrip`). -/
namespace C12
open Tak PTN Notation Tak.Proofs

/-- **`moveSafe` for every move the engine accepts.**  For a position on a board of size 3..8 and a raw move `m`
other than the pass that `MovePreallocated` applies: the normal form of `m` is `moveSafe` for the real
`FormatMove`/`ParseMove` (one clean token that parses back to it), and so is `m` itself when it is normal. -/
theorem moveSafe_of_legal (basis basis' : Array W) (p q : Pos) (m : Move) (h3 : 3 ≤ p.cfg.size) (h8 : p.cfg.size ≤ 8)
    (hnp : m.type ≠ Facts.mtPass) (h : p.apply basis m = .ok q) :
    moveSafe (realEnv basis') (normalize m) = true ∧ (isNormal m = true → moveSafe (realEnv basis') m = true) := by
  have hs := apply_legalShape' basis p m q h3 h8 hnp h
  refine ⟨moveSafe_real basis' _ _ hs, fun hn => ?_⟩
  rw [(isNormal_iff m).1 hn] at hs
  exact moveSafe_real basis' _ _ hs

/-- **Every move of the record was legal when played**: the recorded moves apply one after the other from the start
position `p0` (`applyAll`: the list-level replay of `frames_spec`, clause 1, run to the end of the record), none of
them is the engine's internal pass, and each is in normal form (a placement carries no `Slides` word). -/
structure LegalReplay (basis : Array W) (f : File) (p0 : Pos) : Prop where
  applies : ∃ q, applyAll basis p0 (movesOf f.ops) = .ok q
  nopass : ∀ m ∈ movesOf f.ops, m.type ≠ Facts.mtPass
  normal : ∀ m ∈ movesOf f.ops, isNormal m = true

/-- in the iterator's terms: the replay of the record shows a frame after every recorded move (it neither met an
illegal move nor stopped early at a finished game; the error flag is then necessarily clear), so every recorded
move was applied -/
theorem replay_applies_of_frames (basis : Array W) (ops : List Op) (mk : Int) (p0 : Pos)
    (hlen : (specFrames basis ops mk p0).1.length = (movesOf ops).length + 1) :
    ∃ q, applyAll basis p0 (movesOf ops) = .ok q := by
  obtain ⟨h1, _⟩ := frames_spec basis ops mk p0
  have hlt : (movesOf ops).length < (specFrames basis ops mk p0).1.length := by omega
  have := h1 (movesOf ops).length _ (List.getElem?_eq_getElem hlt)
  rw [List.take_length] at this
  exact ⟨_, this⟩

/-- **the recorded moves of a legally replayed game are legal shapes** of the start position's board size -/
theorem legal_replay_legalShape (env : Env) (f : File) (p0 : Pos) (hinit : initialPosition env f = .ok p0)
    (h : LegalReplay env.basis f p0) :
    ∀ s m mods, Op.move s m mods ∈ f.ops → LegalShape p0.cfg.size m := by
  obtain ⟨h3, h8⟩ := initialPosition_size env f p0 hinit
  obtain ⟨q, hq⟩ := h.applies
  intro s m mods hop
  have := replay_legalShape env.basis f.ops p0 q h3 h8 hq h.nopass s m mods hop
  rw [(isNormal_iff m).1 (h.normal m ((mem_movesOf f.ops m).2 ⟨s, mods, hop⟩))] at this
  exact this

/-- **Render/parse for legally replayed records, with the real `FormatMove`/`ParseMove`**: render-then-parse gives the
value back (same tags; same move numbers, moves with annotations, comments, results) if and only if the data is
`dataSafe`.  Nothing is assumed about the shape of the recorded moves beyond "they were legal when played". -/
theorem render_parse_bytes_legal (basis : Array W) (f : File) (p0 : Pos)
    (hinit : initialPosition (realEnv basis) f = .ok p0) (h : LegalReplay basis f p0) :
    dataSafe (realEnv basis) f = true ↔
      ∃ g, parsePTN (realEnv basis) (render (realEnv basis) f) = .ok g ∧ g.tags = f.tags ∧
        g.ops.map Op.clearSrc = f.ops.map Op.clearSrc :=
  render_parse_bytes_real basis f
    (fun s m mods hop => ⟨p0.cfg.size, legal_replay_legalShape (realEnv basis) f p0 hinit h s m mods hop⟩)

/-- the data clauses of `GameFile` (everything but the shape of the moves): clean tags, annotations over `?!'`
(at most 65523), comments without `}` of at most 65534 bytes, results among the 25 result strings, numbers within `int` -/
def GameData (f : File) : Prop :=
  (∀ t ∈ f.tags, tagSafe t = true) ∧
  ∀ op ∈ f.ops,
    match op with
    | .moveNumber _ n => -(2 ^ 63 : Int) ≤ n ∧ n < 2 ^ 63
    | .move _ _ mods => mods.all isModifier = true ∧ mods.length ≤ 65523
    | .comment _ c => c.all (· != 125) = true ∧ c.length ≤ 65534
    | .result _ r => matchResult r = true

/-- **The property as stated, for every game whose moves were legal when played**: rendering it and parsing the bytes
again — with or without a byte-order mark — yields the same tags, move numbers, moves with annotations, comments and
results. -/
theorem render_parse_legal_games (basis : Array W) (f : File) (p0 : Pos)
    (hinit : initialPosition (realEnv basis) f = .ok p0) (h : LegalReplay basis f p0) (hd : GameData f) :
    ∃ g, parsePTN (realEnv basis) (render (realEnv basis) f) = .ok g ∧
      parsePTN (realEnv basis) (0xEF :: 0xBB :: 0xBF :: render (realEnv basis) f) = .ok g ∧
      g.tags = f.tags ∧ g.ops.map Op.clearSrc = f.ops.map Op.clearSrc := by
  apply render_parse_games basis f
  refine ⟨hd.1, fun op hop => ?_⟩
  have ho := hd.2 op hop
  cases op with
  | moveNumber s n => exact ho
  | move s m mods =>
    exact ⟨⟨p0.cfg.size, legal_replay_legalShape (realEnv basis) f p0 hinit h s m mods hop⟩, ho.1, ho.2⟩
  | comment s c => exact ho
  | result s r => exact ho

/-- **Moves read from text are canonical**: whatever the real `ParseMove` returns is a placement (flat, standing,
capstone) with an empty `Slides` word or a slide in one of the four directions; in particular it is in normal form
and is not the pass.  The same holds of every move of a file the linked `ParsePTN` returns. -/
theorem parsed_moves_canonical (basis : Array W) (input : Bytes) (f : File)
    (hparse : parsePTN (realEnv basis) input = .ok f) :
    ∀ s m mods, Op.move s m mods ∈ f.ops → isNormal m = true ∧ m.type ≠ Facts.mtPass :=
  parsePTN_moves (realEnv basis) (fun m => isNormal m = true ∧ m.type ≠ Facts.mtPass)
    (fun b m h => kind_normal_nopass m (realParseMove_kind b m h)) input f hparse

/-- **Files read from text that replay to the end re-render losslessly.**  If `ParsePTN` returned `f`, the moves of `f`
apply one after the other from its start position, no tag value contains `"` and the re-rendered move tokens fit the
scanner window, then `ParsePTN (Render f)` returns `f` again (up to `src`).  This is `reparse_stable` with its
`movesSafe` hypothesis replaced by "the recorded game is legal". -/
theorem reparse_stable_legal (basis : Array W) (b : Bytes) (f : File) (p0 : Pos)
    (hparse : parsePTN (realEnv basis) b = .ok f) (hinit : initialPosition (realEnv basis) f = .ok p0)
    (happ : ∃ q, applyAll basis p0 (movesOf f.ops) = .ok q)
    (hq : ∀ t ∈ f.tags, t.value.all (· != 34) = true)
    (hfit : ∀ s m mods, Op.move s m mods ∈ f.ops →
      ((realEnv basis).formatMove m).length + mods.length < maxScanTokenSize) :
    ∃ g, parsePTN (realEnv basis) (render (realEnv basis) f) = .ok g ∧ g.tags = f.tags ∧
      g.ops.map Op.clearSrc = f.ops.map Op.clearSrc := by
  have hcan := parsed_moves_canonical basis b f hparse
  have hrep : LegalReplay basis f p0 :=
    { applies := happ
      nopass := fun m hm => by
        obtain ⟨s, mods, hop⟩ := (mem_movesOf f.ops m).1 hm
        exact (hcan s m mods hop).2
      normal := fun m hm => by
        obtain ⟨s, mods, hop⟩ := (mem_movesOf f.ops m).1 hm
        exact (hcan s m mods hop).1 }
  apply reparse_stable (realEnv basis) b f hparse hq _ hfit
  simp only [movesSafe, List.all_eq_true]
  intro op hop
  cases op with
  | move s m mods =>
    exact moveSafe_real basis _ m (legal_replay_legalShape (realEnv basis) f p0 hinit hrep s m mods hop)
  | moveNumber s n => rfl
  | comment s c => rfl
  | result s r => rfl

/-! ### non-vacuity: C12's example record `[Size "3"] 1. a1 b2 2. c3 {x} 3.` followed by `a1>?! {{ .} R-0` -/

example : movesOf exFile2.ops =
    [⟨0, 0, Facts.mtPlaceFlat, 0#32⟩, ⟨1, 1, Facts.mtPlaceFlat, 0#32⟩, ⟨2, 2, Facts.mtPlaceFlat, 0#32⟩,
     ⟨0, 0, Facts.mtSlideRight, 1#32⟩] := rfl

/-- with the real functions the example record has a start position, is a legal replay from it (three placements,
then Black slides the stone on a1 — placed there for him by White's first move — to b1) and its data is `GameData`:
all hypotheses of `render_parse_legal_games` hold -/
example : ∃ p0, initialPosition (realEnv exEnv.basis) exFile2 = .ok p0 ∧ LegalReplay exEnv.basis exFile2 p0 ∧
    GameData exFile2 := by
  refine ⟨_, rfl, ⟨⟨_, by rfl⟩, by decide, by decide⟩, by decide, ?_⟩
  intro op hop
  simp only [exFile2, exFile, List.cons_append, List.nil_append, List.mem_cons, List.mem_nil_iff, or_false] at hop
  rcases hop with rfl | rfl | rfl | rfl | rfl | rfl | rfl | rfl | rfl | rfl
  all_goals first
    | (exact ⟨by decide, by decide⟩)
    | (show matchResult _ = true; decide)

/-- in the iterator's terms: the replay of that record shows five frames (one after each of the four moves) and no error -/
example : ∃ p0, initialPosition (realEnv exEnv.basis) exFile2 = .ok p0 ∧
    (specFrames exEnv.basis exFile2.ops 0 p0).2 = false ∧
    (specFrames exEnv.basis exFile2.ops 0 p0).1.length = (movesOf exFile2.ops).length + 1 :=
  ⟨_, rfl, by decide +kernel, by decide +kernel⟩

/-- the 3×3 start position of the example record -/
def exStart : Pos := match initialPosition (realEnv exEnv.basis) exFile with | .ok p => p | .error _ => default
example : initialPosition (realEnv exEnv.basis) exFile = .ok exStart := rfl
/-- a move list that is NOT a legal replay: a second stone placed on a1 is refused -/
example : applyAll exEnv.basis exStart [⟨0, 0, Facts.mtPlaceFlat, 0#32⟩, ⟨0, 0, Facts.mtPlaceFlat, 0#32⟩]
    = .error (.illegal "occupied") := by rfl

/-- `moveSafe_of_legal` on a placement written with a junk `Slides` word: its normal form is `moveSafe`, the raw
value is not (it is not normal) -/
example : moveSafe (realEnv #[]) (normalize ⟨0, 0, Facts.mtPlaceFlat, 0x3#32⟩) = true ∧
    moveSafe (realEnv #[]) ⟨0, 0, Facts.mtPlaceFlat, 0x3#32⟩ = false ∧
    isNormal ⟨0, 0, Facts.mtPlaceFlat, 0x3#32⟩ = false := by decide

end C12
