import TakVerif.Props.C07_compose
import TakVerif.Proofs.FPATotal

/-! # C07 / C20 — the FPA rule's notes are a function of the game record (`fixes/C07-fpa-record-notes.diff`)

Before the patch the rule objects of `cmd/internal/playtak/fpa.go` remembered squares across calls and
`Friendly.GetMove` showed them only the newest pair of the record: a game resumed inside the opening (several plies
replayed in one burst) or an `Undo` of a scripted ply left the notes unset or stale — the rule's script panicked
(`dir`: "bad dir() call", a thinker goroutine of the CURRENT invocation: the process dies, C07) or the bot resigned a
correctly played opening.  With the patch `GetMove` shows the rule the whole record, oldest move first, and `LegalMove`
on a start position forgets the last game.

* `notes_irrelevant`, `call_notes_irrelevant` – **every** reachable state of the composed system, every event list: what a
  `Friendly.GetMove` call of the current thinker does (action, notes left behind) does not depend on the notes the rule
  value held on entry.
* `resume_no_panic`, `cairn_undo_no_resign`, `doubleStack_resume_no_resign` – the three failing histories in the composed
  system with the patch; `*_pinned`: the same schedules on the model of the tree before it (`replay := false`).
The schedules are `corpus/C07/compose-fpa-undo-resume.ops`, replayed on the real code on every check. -/
namespace C07
open Tak Tak.Bot Tak.Glue Tak.FPA Tak.Compose

/-! ## the notes on entry do not matter -/

theorem replay_first_reset (var : Variant) (r r' : Rule) (v : View) (m : Move) (rest : List (View × Move))
    (h0 : v.ply = 0) : replay var r ((v, m) :: rest) = replay var r' ((v, m) :: rest) := by
  unfold replay legalMoveR
  simp only [h0, if_true]

/-- **`notes_irrelevant`** — on a record that ends in a start position (ply 0), holds one position more than moves and at
least one move, the rule check `Friendly.GetMove` starts with — replay of the older pairs, `LegalMove` on the newest —
gives the same verdict and leaves the same notes whatever the rule value remembered on entry. -/
theorem notes_irrelevant (var : Variant) (r r' : Rule) (g : GameRec) (p p0 : Pos)
    (hlast : g.positions.getLast? = some p0) (h0 : p0.move = 0)
    (hshape : g.positions.length = g.moves.length + 1) (hm : g.moves ≠ []) (hp : p.move > 0) :
    prevCheck var r g p = prevCheck var r' g p := by
  obtain ⟨ps, hps⟩ : ∃ ps, g.positions.reverse = p0 :: ps := by
    have := List.getLast?_eq_head?_reverse (xs := g.positions)
    rw [hlast] at this
    cases hr : g.positions.reverse with
    | nil => rw [hr] at this; cases this
    | cons a ps =>
      rw [hr] at this
      simp only [List.head?_cons, Option.some.injEq] at this
      exact ⟨ps, by rw [this]⟩
  unfold prevCheck
  simp only [hp, if_true]
  unfold entryRule olderPairs
  have hlen : g.positions.reverse.length = g.moves.reverse.length + 1 := by
    simp only [List.length_reverse]; exact hshape
  have hle : ¬ g.positions.reverse.length < g.moves.reverse.dropLast.length := by
    simp only [List.length_dropLast, List.length_reverse] at hlen ⊢; omega
  simp only [hle, if_false]
  rw [hps]
  cases hms : g.moves.reverse.dropLast with
  | cons m0 ms' =>
    simp only [List.zip_cons_cons, List.map_cons]
    rw [replay_first_reset var r r' (viewOfPos p0) m0 _ h0]
  | nil =>
    -- one move in the record: the newest pair is the first move of the game, judged by a fresh rule
    have h1 : g.moves.length = 1 := by
      have := congrArg List.length hms
      simp only [List.length_dropLast, List.length_reverse, List.length_nil] at this
      have : g.moves.length ≠ 0 := fun h => hm (List.length_eq_zero_iff.mp h)
      omega
    have h2 : g.positions.length = 2 := by omega
    match hg : g.positions, hg2 : g.moves with
    | [a, b], [m] =>
      have hb : b = p0 := by
        rw [hg] at hlast
        simpa using hlast
      subst hb
      simp only [List.zip_nil_right, List.map_nil, replay, prevOf, hg, hg2]
      unfold legalMoveR
      have : (viewOfPos b).ply = 0 := h0
      simp only [this, if_true]
    | [], _ => rw [hg] at h2; simp at h2
    | [_], _ => rw [hg] at h2; simp at h2
    | _ :: _ :: _ :: _, _ => rw [hg] at h2; simp at h2
    | [_, _], [] => rw [hg2] at h1; simp at h1
    | [_, _], _ :: _ :: _ => rw [hg2] at h1; simp at h1

/-- … so the whole call is the same: same action, same notes afterwards -/
theorem friendly_notes_irrelevant (var : Variant) (r r' : Rule) (g : GameRec) (p p0 : Pos) (o : CheckOracle)
    (hlast : g.positions.getLast? = some p0) (h0 : p0.move = 0)
    (hshape : g.positions.length = g.moves.length + 1) (hm : g.moves ≠ []) (hp : p.move > 0) :
    Glue.friendlyGetMove (some (var, r)) g p o = Glue.friendlyGetMove (some (var, r')) g p o := by
  rw [friendly_cases, friendly_cases, fpaCheck_some, fpaCheck_some,
    notes_irrelevant var r r' g p p0 hlast h0 hshape hm hp]

variable {σ χ : Type}

/-- **`call_notes_irrelevant`** — the composed system (patched `Friendly`, any FPA variant), every colour, size 3..8, clock
and EVERY event list (undo, replayed history, thinkers in any order): in the state reached, as long as the protocol
goroutine has not panicked and the record holds a move, the `GetMove` call of the thinker of the current invocation, when
started on a position that is not a start position, computes the same action and leaves the same notes **whatever notes
the rule value holds** — those the earlier calls of this game left (`s.fpa`), those of an earlier game, of an undone
line, or none.  The notes are a function of the record `playtak/bot` keeps, which C07's invariant ties to the server's
history. -/
theorem call_notes_irrelevant (c : Compose.Conf) (var : Variant) (hw : c.who = .friendly (some var)) (hrep : c.replay = true)
    (hfix : c.bot.fixed = true) (hsize : 3 ≤ c.size ∧ c.size ≤ 8) (S : Searcher σ χ) (secs : Int) (eng0 : σ)
    (evs : List (Compose.Ev χ)) (chk : CheckOracle) (r r' : Rule)
    (hnc : ¬ (Compose.run c S (Compose.start c secs eng0) evs).b.crashed)
    (hm : (Compose.run c S (Compose.start c secs eng0) evs).b.moves ≠ [])
    (hp : (Compose.run c S (Compose.start c secs eng0) evs).b.cur.pos.move > 0) :
    glueCall c (some (var, r)) (Compose.run c S (Compose.start c secs eng0) evs).b
      (Compose.run c S (Compose.start c secs eng0) evs).b.cur chk =
    glueCall c (some (var, r')) (Compose.run c S (Compose.start c secs eng0) evs).b
      (Compose.run c S (Compose.start c secs eng0) evs).b.cur chk := by
  obtain ⟨hs, _, _⟩ := composed_loop_facts c hfix hsize S secs eng0 evs
  obtain ⟨p0, hp0, hP0⟩ := pinv_startBot c secs hsize
  have hA : ∀ (p : Pos) (m : Move) (q : Pos), p.cfg.size = c.size → p.apply c.bot.basis m = .ok q → q.cfg.size = c.size :=
    fun p m q hp ha => by rw [apply_cfg ha]; exact hp
  have hP : PInv (fun p => p.cfg.size = c.size) p0 (Compose.run c S (Compose.start c secs eng0) evs).b := by
    obtain ⟨bevs, hb⟩ := compose_refines c S secs eng0 evs
    rw [hb]
    exact pinv_run hA c.bot rfl hP0 bevs
  generalize Compose.run c S (Compose.start c secs eng0) evs = s at *
  unfold glueCall glueOn
  rw [hw]
  simp only [hrep, if_true]
  apply Compose.friendlyOf_congr
  rw [fpaCheck_some, fpaCheck_some]
  rw [notes_irrelevant var r r' { color := c.bot.color, size := c.size, positions := s.b.positions, moves := s.b.moves }
    s.b.cur.pos p0 (hP.last hnc) hp0 (hs.core.shape hnc) hm hp]

/-! ## the three histories -/

namespace Ex
/-- the model of the tree before `fixes/C07-fpa-record-notes.diff` -/
def pinned (c : Compose.Conf) : Compose.Conf := { c with replay := false }
end Ex

open Ex

/-- **`doubleStack_resume_panics_composed_pinned`** — before the patch: bot White, double stack, 4×4, a game resumed at
ply 4 (`a3` + clock line, then `a1 a1> b3` in one burst + clock line): the thinker of the current invocation accepts `b3`
and asks the rule for White's return slide — `dir(0,0,0,0)`: the thinker goroutine panics, the process is gone while
the server's game goes on. -/
theorem doubleStack_resume_panics_composed_pinned :
    (go (pinned (conf .white 4 (.friendly (some .doubleStack)) true)) dsPanicEvs).dead = some (.panic "bad dir() call") ∧
    (go (pinned (conf .white 4 (.friendly (some .doubleStack)) true)) dsPanicEvs).b.status = .running := by
  decide +kernel

/-- **`resume_no_panic`** — the same schedule with the patch: nobody panics, the two calls are "not my turn" and the
scripted return slide `b1<`, which the loop transmits once the call returns. -/
theorem resume_no_panic :
    (go (conf .white 4 (.friendly (some .doubleStack)) true) dsPanicEvs).dead = none ∧
    ((go (conf .white 4 (.friendly (some .doubleStack)) true) dsPanicEvs).calls.map (·.act)) = [.noMove, .move (slideL 1 0)] ∧
    (go (conf .white 4 (.friendly (some .doubleStack)) true) (dsPanicEvs ++ [.leave 2 zm])).b.sent = [.move (slideL 1 0)] ∧
    (go (conf .white 4 (.friendly (some .doubleStack)) true) (dsPanicEvs ++ [.leave 2 zm])).b.moves.length = 5 := by
  decide +kernel

/-- **`cairn_undo_resigns_composed_pinned`** — before the patch: the cairn opening (bot White, 5×5: `a1 e5 b3 c2 b3>`), the
opponent's undo of the scripted slide is granted, and the re-check of `c2` resigns the game (`Resign`, `Tell cairnErrors[3]`) -/
theorem cairn_undo_resigns_composed_pinned :
    ((go (pinned (conf .white 5 (.friendly (some .cairn)) true)) cairnEvs).calls.map (·.act)).getLast? = some (.resign (.cairn 3)) ∧
    glueWire (go (pinned (conf .white 5 (.friendly (some .cairn)) true)) cairnEvs).wire = [.resign, .tell (.cairn 3)] := by
  decide +kernel

/-- **`cairn_undo_no_resign`** — with the patch the re-check accepts `c2`, the bot scripts `b3>` again; nothing is sent
from inside `GetMove` -/
theorem cairn_undo_no_resign :
    ((go (conf .white 5 (.friendly (some .cairn)) true) cairnEvs).calls.map (·.act)).getLast? = some (.move (slideR 1 2)) ∧
    glueWire (go (conf .white 5 (.friendly (some .cairn)) true) cairnEvs).wire = [] ∧
    (go (conf .white 5 (.friendly (some .cairn)) true) cairnEvs).dead = none := by
  decide +kernel

/-- **`doubleStack_resume_resigns_composed_pinned`** — before the patch: bot Black, 5×5, `c3 d4 d4<` replayed in one burst:
the bot scripts `b1` (next to the zero square) and resigns on White's correct return `c4>` -/
theorem doubleStack_resume_resigns_composed_pinned :
    ((go (pinned (conf .black 5 (.friendly (some .doubleStack)) true)) dsEvs).calls.map (·.act)) =
      [.noMove, .move (place 1 0), .noMove, .resign (.doubleStack 4)] := by
  decide +kernel

/-- **`doubleStack_resume_no_resign`** — with the patch: the bot scripts `b3` (next to its stone on `c3`), accepts White's
return and scripts the stacking slide `b3>`; no resignation -/
theorem doubleStack_resume_no_resign :
    ((go (conf .black 5 (.friendly (some .doubleStack)) true) dsEvs).calls.map (·.act)) =
      [.noMove, .move (place 1 2), .noMove, .move (slideR 1 2)] ∧
    glueWire (go (conf .black 5 (.friendly (some .doubleStack)) true) dsEvs).wire = [] := by
  decide +kernel

/-- non-vacuity of `call_notes_irrelevant`: the state after the burst of `dsPanicEvs` (before thinker 2 enters) is
reachable, not crashed, holds four moves, and the current thinker stands on a ply-4 position -/
example :
    let s := go (conf .white 4 (.friendly (some .doubleStack)) true) (dsPanicEvs.take 8)
    s.b.status = .running ∧ s.b.moves.length = 4 ∧ s.b.cur.pos.move = 4 ∧
    (conf .white 4 (.friendly (some .doubleStack)) true).replay = true := by
  decide +kernel

end C07
