import TakVerif.Spec.Tak
namespace C03
theorem placeholder : True := trivial
end C03
