import TakVerif.Proofs.EngineLegalSet

/-! # C03 — the move generator lists every legal move exactly once, none off the board

Objects: `Tak.Pos.allMoves` mirrors `Position.AllMoves` and `Tak.slidesTable` mirrors the `slides` table
built by `init`/`calculateSlides` (`tak/move.go`), both tied to the Go code by `./check C03` on every run.
`Spec.step` is the rule book over plain lists, `Spec.abs` the list-level view of a bit-level position,
`Spec.decode` the reading of a raw `Move` value, `Spec.compositions` the enumeration of drop lists from
first principles (`Spec/Shapes.lean`).  All theorems are for **every** position / word / move in the stated
domain; nothing below is proved by sampling.  (`decide` appears only in the `example`s.) -/
namespace C03
open Tak Spec Tak.Proofs

/-! ## 1. the `slides` table -/

/-- `Spec.compositions h` = the non-empty lists of positive numbers with sum ≤ h … -/
theorem compositions_spec (h : Nat) (l : List Nat) :
    l ∈ compositions h ↔ l ≠ [] ∧ (∀ d ∈ l, 1 ≤ d) ∧ l.sum ≤ h := mem_compositions h l

/-- … each listed once. -/
theorem compositions_nodup (h : Nat) : (compositions h).Nodup := Tak.Proofs.compositions_nodup h

/-- Row `h` of the engine's table is, entry by entry and in order, `MkSlides` of the compositions of at most `h`
(structural proof over the recursion of `calculateSlides`, not an evaluation of the table). -/
theorem slides_row (h : Nat) (hh : h ≤ 8) :
    slidesTable.getD h [] = (compositions h).map encodeDrops := slidesTable_row h hh

/-- **slides_table**: a 32-bit word is in `slides[h]` iff the iterator reads a non-empty drop list from it,
every drop is in 1..8, the drops sum to at most `h`, and the word is exactly the packing of that list
(the last conjunct holds for every word, see `encode_elems`; it is kept to make the statement self-contained). -/
theorem slides_table (h : Nat) (_h1 : 1 ≤ h) (h8 : h ≤ 8) (s : BitVec 32) :
    s ∈ slidesTable.getD h [] ↔
      (Slides.elems s ≠ [] ∧ (∀ d ∈ Slides.elems s, 1 ≤ d ∧ d ≤ 8) ∧ (Slides.elems s).sum ≤ h ∧
        s = encodeDrops (Slides.elems s)) := Tak.Proofs.slides_table h h8 s

/-- no word twice in a row of the table -/
theorem slides_nodup (h : Nat) (h8 : h ≤ 8) : (slidesTable.getD h []).Nodup := Tak.Proofs.slides_nodup h h8

/-- `Slides.Prepend` conses onto what the iterator yields -/
theorem elems_prepend (s : BitVec 32) (i : Nat) (h1 : 1 ≤ i) (hi : i ≤ 15) (hs : s.toNat < 2^28) :
    Slides.elems (Slides.prepend s i) = i :: Slides.elems s := Tak.Proofs.elems_prepend s i h1 hi hs

/-- every word is the packing of what its iterator yields (so `Move.Equal` on slides compares drop lists) -/
theorem encode_elems (s : BitVec 32) : encodeDrops (Slides.elems s) = s := Tak.Proofs.encode_elems s

/-- the iterator reads back any list of at most 8 drops in 1..15 -/
theorem elems_encode (l : List Nat) (hl : l.length ≤ 8) (hd : ∀ d ∈ l, 1 ≤ d ∧ d ≤ 15) :
    Slides.elems (encodeDrops l) = l := Tak.Proofs.elems_encode l hl hd

example : (0x121#32) ∈ slidesTable.getD 4 [] :=
  (slides_table 4 (by decide) (by decide) _).2 (by decide)
example : (0x121#32) ∉ slidesTable.getD 3 [] :=
  fun h => absurd ((slides_table 3 (by decide) (by decide) _).1 h).2.2.1 (by decide)
example : (0x101#32) ∉ slidesTable.getD 8 [] :=   -- interior zero nibble
  fun h => absurd (((slides_table 8 (by decide) (by decide) _).1 h).2.1 0 (by decide)).1 (by decide)
example : (slidesTable.getD 8 []).length = 255 := by decide +kernel
example : Slides.elems (Slides.prepend 0x21#32 3) = [3, 1, 2] := by decide

/-! ## 2. the edge mask -/

/-- **mask test**: for a table entry, `s & ^((1 << 4c) - 1) == 0` iff the slide has at most `c` drops -/
theorem mask_test (h : Nat) (h8 : h ≤ 8) (s : BitVec 32) (hs : s ∈ slidesTable.getD h []) (c : Nat) (hc : c ≤ 8) :
    s &&& ~~~((1#32 <<< (4*c)) - 1#32) = 0#32 ↔ (Slides.elems s).length ≤ c :=
  Tak.Proofs.mask_test h h8 s hs c hc

/-- for arbitrary words the mask tests the magnitude -/
theorem mask_test_toNat (s : BitVec 32) (c : Nat) (hc : c ≤ 8) :
    s &&& ~~~((1#32 <<< (4*c)) - 1#32) = 0#32 ↔ s.toNat < 2^(4*c) := Tak.Proofs.mask_test_toNat s c hc

example : (0x121#32) &&& ~~~((1#32 <<< (4*3)) - 1#32) = 0#32 ∧ (0x121#32) &&& ~~~((1#32 <<< (4*2)) - 1#32) ≠ 0#32 := by decide

/-! ## 3. the generated list: on the board, no repetition -/

/-- `AllMoves` as a comprehension: per square the placements, nothing, or the masked table rows -/
theorem allMoves_eq (p : Pos) :
    p.allMoves = (List.range p.cfg.size).flatMap (fun x => (List.range p.cfg.size).flatMap (fun y => sqMoves p x y)) :=
  Tak.Proofs.allMoves_eq p

/-- **allMoves_onboard**: every generated move starts on the board, has a placement or slide type code, and
`Move.Dest` (no `int8` wrap-around, no "bad type" panic) is on the board.  Needs nothing but size ≤ 8
(array lengths are irrelevant: an out-of-range `Height` read is `0` in the model and a panic in Go). -/
theorem allMoves_onboard (p : Pos) (_h3 : 3 ≤ p.cfg.size) (h8 : p.cfg.size ≤ 8) (m : Tak.Move) (hm : m ∈ p.allMoves) :
    0 ≤ m.x ∧ m.x < p.cfg.size ∧ 0 ≤ m.y ∧ m.y < p.cfg.size ∧
    (m.type = Facts.mtPlaceFlat ∨ m.type = Facts.mtPlaceStanding ∨ m.type = Facts.mtPlaceCapstone ∨
     m.type = Facts.mtSlideLeft ∨ m.type = Facts.mtSlideRight ∨ m.type = Facts.mtSlideUp ∨ m.type = Facts.mtSlideDown) ∧
    ∃ dx dy : Int, m.dest = some (dx, dy) ∧ 0 ≤ dx ∧ dx < p.cfg.size ∧ 0 ≤ dy ∧ dy < p.cfg.size :=
  allMoves_onboard' p h8 m hm

/-- **allMoves_nodup**: no move value occurs twice … -/
theorem allMoves_nodup (p : Pos) (h8 : p.cfg.size ≤ 8) : p.allMoves.Nodup := allMoves_nodup' p h8

/-- … and no two entries are `Move.Equal` -/
theorem allMoves_no_two_equal (p : Pos) (h8 : p.cfg.size ≤ 8) :
    p.allMoves.Pairwise (fun a b => a.equal b = false) := allMoves_pairwise_not_equal p h8

/-! ## 4. completeness and the legal move set -/

/-- what `WFlite` says (the only facts about the position that completeness uses; both are conjuncts of the
position invariant `WF` of DESIGN §3, and hold of `Pos.new`, see `wflite_new`) -/
theorem wflite_iff (p : Pos) :
    WFlite p ↔ 3 ≤ p.cfg.size ∧ p.cfg.size ≤ 8 ∧
      ∀ i, i < p.cfg.size * p.cfg.size →
        (p.height.getD i 0 = 0#8 ↔ (p.white.getLsbD i = false ∧ p.black.getLsbD i = false)) :=
  ⟨fun h => ⟨h.1, h.2, h.3⟩, fun h => ⟨h.1, h.2.1, h.2.2⟩⟩

/-- the same, read at list level: `Height[i] == 0` exactly where the square of `abs p` is empty -/
theorem wflite_iff_abs (p : Pos) :
    WFlite p ↔ 3 ≤ p.cfg.size ∧ p.cfg.size ≤ 8 ∧
      ∀ i, i < p.cfg.size * p.cfg.size → (p.height.getD i 0 = 0#8 ↔ (abs p).squares.getD i [] = []) := by
  rw [wflite_iff]
  have key : ∀ i, i < p.cfg.size * p.cfg.size → (abs p).squares.getD i [] = p.squareAt i := by
    intro i hi; simp [abs, List.getD, hi]
  constructor
  · rintro ⟨a, b, c⟩
    refine ⟨a, b, fun i hi => ?_⟩
    rw [key i hi, squareAt_nil_iff]; exact c i hi
  · rintro ⟨a, b, c⟩
    refine ⟨a, b, fun i hi => ?_⟩
    rw [← squareAt_nil_iff, ← key i hi]; exact c i hi

theorem wflite_new (cfg : Cfg) (p : Pos) (h : Pos.new cfg = .ok p) : WFlite p := by
  unfold Pos.new at h
  split at h
  · cases h
  simp only [] at h
  split at h
  · cases h
  rename_i hs
  injection h with h
  subst h
  refine ⟨by simp; omega, by simp; omega, ?_⟩
  intro i hi
  simp at hi
  simp [Array.getD, hi]

/-- **allMoves_complete**: every non-pass raw move (any `int8` coordinates, any type byte, any 32-bit slide word)
that the rule book accepts on `abs p` is `Move.Equal` to a generated move.
Together with C01 (`Pos.apply` succeeds exactly when `Spec.step` does) this is "every non-pass move the engine is
willing to apply is one of the generated moves". -/
theorem allMoves_complete (p : Pos) (wf : WFlite p) (m : Tak.Move) (hnp : m.type ≠ Facts.mtPass)
    (hl : Spec.step (abs p) (decode m) ≠ none) : ∃ m' ∈ p.allMoves, m'.equal m = true :=
  allMoves_complete' p wf m hnp hl

/-- **allMoves_complete_engine**: the same against the engine itself — every non-pass raw move that `Pos.apply`
(the statement-for-statement model of `Position.MovePreallocated`, tied to Go by C01's and this property's
correspondence) applies successfully is `Move.Equal` to a generated move.  Proved directly from the acceptance
tests of `Pos.apply` (type dispatch, opening rule, bounds check, occupancy, reserve bytes, carry limits, owner
bit, the per-step bounds check of the drop loop); it does not use the rule book or C01. -/
theorem allMoves_complete_engine (basis : Array W) (p : Pos) (wf : WFlite p) (m : Tak.Move) (q : Pos)
    (hnp : m.type ≠ Facts.mtPass) (h : p.apply basis m = .ok q) : ∃ m' ∈ p.allMoves, m'.equal m = true :=
  allMoves_complete_apply' basis p wf m q hnp h

/-- **allMoves_sound_shape**: a generated placement is on a `Height == 0` square with slide word 0, a wall/capstone
only from ply 2, a capstone only while the mover's capstone byte is non-zero; a generated slide comes after the
opening from a stack whose mover bit is set, its drops are all ≥ 1, non-empty, and sum to at most
min(height, size) (and by `allMoves_onboard` it stays on the board).  What is *not* decided by the generator —
walls and capstones in the path — is what the legality filter removes. -/
theorem allMoves_sound_shape (p : Pos) (h8 : p.cfg.size ≤ 8) (m : Tak.Move) (hm : m ∈ p.allMoves) :
    (m.isSlide = false ∧
      p.height.getD (m.y.toNat * p.cfg.size + m.x.toNat) 0 = 0#8 ∧ m.slides = 0#32 ∧
      (m.type ≠ Facts.mtPlaceFlat → p.move ≥ 2) ∧ (m.type = Facts.mtPlaceCapstone → capFlag p = true)) ∨
    (m.isSlide = true ∧
      p.move ≥ 2 ∧ Slides.elems m.slides ≠ [] ∧ (∀ d ∈ Slides.elems m.slides, 1 ≤ d) ∧
      (Slides.elems m.slides).sum ≤ (p.height.getD (m.y.toNat * p.cfg.size + m.x.toNat) 0).toNat ∧
      (Slides.elems m.slides).sum ≤ p.cfg.size ∧
      (p.toMove = .white → p.white.getLsbD (m.y.toNat * p.cfg.size + m.x.toNat) = true) ∧
      (p.toMove = .black → p.black.getLsbD (m.y.toNat * p.cfg.size + m.x.toNat) = true)) :=
  allMoves_sound_shape' p h8 m hm

/-- **legal_filter_eq**: with `legal p m := (Spec.step (abs p) (decode m)).isSome`, the list
`p.allMoves.filter (legal p)` that search, solvers and random play iterate over
(a) contains for every legal non-pass raw move exactly one entry `Equal` to it,
(b) contains only legal, non-pass, on-board moves,
(c) has no repeated value and no two `Equal` entries. -/
theorem legal_filter_eq (p : Pos) (wf : WFlite p) :
    (∀ m, m.type ≠ Facts.mtPass → legal p m = true →
        ∃ m', (m' ∈ p.allMoves.filter (legal p) ∧ m'.equal m = true) ∧
          ∀ m'', m'' ∈ p.allMoves.filter (legal p) → m''.equal m = true → m'' = m') ∧
    (∀ m' ∈ p.allMoves.filter (legal p), legal p m' = true ∧ m'.type ≠ Facts.mtPass ∧ OnBoard p.cfg.size m') ∧
    (p.allMoves.filter (legal p)).Nodup ∧
    (p.allMoves.filter (legal p)).Pairwise (fun a b => a.equal b = false) := legal_filter_eq' p wf

/-- **engine_filter_eq**: the same for the engine's own notion of legality, `accepted basis p m := (p.apply basis m).toBool`
("`Position.Move` returns no error"): `AllMoves` filtered by `Move` — the list `search`, the solvers and random play
iterate over — has exactly one entry `Equal` to each non-pass move the engine applies, only on-board non-pass moves,
no repetition.  Uses that `MovePreallocated` never reads the slide word of a non-slide (`apply_congr_nonslide`). -/
theorem engine_filter_eq (basis : Array W) (p : Pos) (wf : WFlite p) :
    (∀ m, m.type ≠ Facts.mtPass → accepted basis p m = true →
        ∃ m', (m' ∈ p.allMoves.filter (accepted basis p) ∧ m'.equal m = true) ∧
          ∀ m'', m'' ∈ p.allMoves.filter (accepted basis p) → m''.equal m = true → m'' = m') ∧
    (∀ m' ∈ p.allMoves.filter (accepted basis p),
        accepted basis p m' = true ∧ m'.type ≠ Facts.mtPass ∧ OnBoard p.cfg.size m') ∧
    (p.allMoves.filter (accepted basis p)).Nodup ∧
    (p.allMoves.filter (accepted basis p)).Pairwise (fun a b => a.equal b = false) := engine_filter_eq' basis p wf

/-- **legalMoves_perm**: the filtered generator list is a permutation of `Spec.legalMoves (abs p)` — the list the
correspondence check compares, on every sampled position, with Go's `AllMoves` filtered by `Move`. -/
theorem legalMoves_perm (p : Pos) (wf : WFlite p) :
    (p.allMoves.filter (legal p)).Perm (Spec.legalMoves (abs p)) := legalMoves_perm' p wf

/-- the rule-book enumeration does not depend on the engine's table: built from `Spec.compositions` it is the same list -/
theorem legalMoves_table_free (s : State) : legalMovesC s = legalMoves s := legalMovesC_eq s

/-! ### non-vacuity -/

/-- 3×3, ply 2 (white to move): a white flat on a1, a black flat on b1 -/
def exPos : Pos :=
  { cfg := ⟨3, 10, 0, false⟩, c := Gen.precompute 3
    whiteStones := 9#8, whiteCaps := 0#8, blackStones := 9#8, blackCaps := 0#8
    move := 2, white := 1#64, black := 2#64, standing := 0#64, caps := 0#64
    height := #[1#8, 1#8, 0#8, 0#8, 0#8, 0#8, 0#8, 0#8, 0#8]
    stacks := Array.replicate 9 0#64, wgroups := [], bgroups := [], hash := 0#64 }

theorem exPos_wf : WFlite exPos := ⟨by decide, by decide, by decide⟩

/-- 5×5, ply 11 (black to move): a black capstone on a stack of 7 in the corner a1 (taller than the carry limit 5),
a white wall on c1, a black flat on a3; black has no capstone left -/
def exPos2 : Pos :=
  { cfg := ⟨5, 21, 1, false⟩, c := Gen.precompute 5
    whiteStones := 15#8, whiteCaps := 1#8, blackStones := 17#8, blackCaps := 0#8
    move := 11, white := 4#64, black := 1025#64, standing := 4#64, caps := 1#64
    height := #[7#8, 0#8, 1#8, 0#8, 0#8, 0#8, 0#8, 0#8, 0#8, 0#8, 1#8, 0#8, 0#8, 0#8, 0#8,
                0#8, 0#8, 0#8, 0#8, 0#8, 0#8, 0#8, 0#8, 0#8, 0#8]
    stacks := (Array.replicate 25 0#64).set! 0 0b101010#64, wgroups := [], bgroups := [], hash := 0#64 }

theorem exPos2_wf : WFlite exPos2 := ⟨by decide, by decide, by decide⟩

-- a legal slide given with an out-of-list representation is found in the list
example : ∃ m' ∈ exPos.allMoves, m'.equal ⟨0, 0, Facts.mtSlideRight, 1#32⟩ = true :=
  allMoves_complete exPos exPos_wf _ (by decide) (by decide)
-- the engine applies that slide (and a 5-piece carry off the tall corner stack): hypotheses of `allMoves_complete_engine`
example : (exPos.apply (Array.replicate 64 0#64) ⟨0, 0, Facts.mtSlideRight, 1#32⟩).toBool = true := by decide +kernel
example : (exPos2.apply (Array.replicate 64 0#64) ⟨0, 0, Facts.mtSlideUp, 0x1112#32⟩).toBool = true := by decide +kernel
-- a legal placement written with a junk slide word is `Equal` to a listed one
example : ∃ m' ∈ exPos.allMoves, m'.equal ⟨2, 2, Facts.mtPlaceStanding, 0xdead#32⟩ = true :=
  allMoves_complete exPos exPos_wf _ (by decide) (by decide)
-- the tall corner stack (7 high, carry limit 5): carrying 5 up the a-file as 2+1+1+1 is legal … and listed
example : legal exPos2 ⟨0, 0, Facts.mtSlideUp, 0x1112#32⟩ = true := by decide
example : (⟨0, 0, Facts.mtSlideUp, 0x1112#32⟩ : Tak.Move) ∈ exPos2.allMoves := by decide +kernel
-- the capstone alone may flatten the wall two squares to the right only at the end: 1 then 1 is legal, 2 is not
example : legal exPos2 ⟨0, 0, Facts.mtSlideRight, 0x11#32⟩ = true ∧ legal exPos2 ⟨0, 0, Facts.mtSlideRight, 0x21#32⟩ = false := by decide
example : accepted (Array.replicate 64 0#64) exPos2 ⟨4, 4, Facts.mtPlaceFlat, 0x77#32⟩ = true := by decide +kernel
example : exPos.allMoves.length = 16 ∧ (exPos.allMoves.filter (legal exPos)).length = 16 := by decide
example : exPos2.allMoves.length = 107 ∧ (exPos2.allMoves.filter (legal exPos2)).length = 86 := by decide +kernel
example : (⟨0, 0, Facts.mtSlideRight, 1#32⟩ : Tak.Move) ∈ exPos.allMoves := by decide
-- the hypotheses of the list-level theorems are met by these positions
example : exPos2.allMoves.Nodup := allMoves_nodup exPos2 (by decide)
example : ∃ dx dy : Int, (⟨0, 0, Facts.mtSlideUp, 0x1112#32⟩ : Tak.Move).dest = some (dx, dy) ∧ 0 ≤ dx ∧ dx < 5 ∧ 0 ≤ dy ∧ dy < 5 :=
  (allMoves_onboard exPos2 (by decide) (by decide) _ (by decide +kernel)).2.2.2.2.2
example : (exPos2.allMoves.filter (legal exPos2)).Perm (Spec.legalMoves (abs exPos2)) := legalMoves_perm exPos2 exPos2_wf
example : (exPos2.allMoves.filter (legal exPos2)).Nodup := (legal_filter_eq exPos2 exPos2_wf).2.2.1
example : ∃ p, Pos.new ⟨5, 0, 0, false⟩ = .ok p ∧ p.allMoves.length = 25 := ⟨_, rfl, by decide⟩

end C03
