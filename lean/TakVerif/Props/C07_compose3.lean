import TakVerif.Props.C07_fpa2
import TakVerif.Props.C04_total
import TakVerif.Proofs.SearchTotalBot

/-! # C07 — the bot with the alpha-beta model as searching player never loses a thinker goroutine

`Props/C07_compose2.lean` reduced "a thinker goroutine is lost" to "`Search.getMove` took an `.error` exit on the
position the call was handed, from the state the previous calls left" and stopped there
(`bot_never_dead_minimax_statement`, `bot_never_dead_minimax_partial`): no theorem said the search model returns.
`Props/C04_total.lean` says it: `getMove_total_tak`.  Here the two are composed.

`bot_never_dead_minimax_statement` as written quantifies over EVERY `Search.Cfg`; for two kinds of configuration it is
false — and so is the real engine's behaviour: `Depth > maxDepth` (`ai.stack[ply]` index out of range once the search
is 16 plies deep) and a table of 0 entries (`TableMem ∈ 1..31`: integer divide by zero in `ttGet`,
`C04.empty_table_panics`).  `bot_never_dead_minimax` is the statement with exactly these two excluded
(`scfg.depth ≤ 15`, `scfg.tableEntries ≠ some 0`); nothing else is added.

The invariant carried through the event list is `C04.EngTak c.size` on the engine state and `NTak c.size` (board size
as configured, `len(Height) = size²`) on every position the bot holds — the start position has it
(`pinv_startBot_nTak`), every applied move keeps it (`Search.nTak_apply`). -/
namespace C07
open Tak Tak.Bot Tak.Glue Tak.FPA Tak.Compose Spec.FPA

variable {σ χ : Type}

/-- the positions the bot holds at the start are `size`×`size` with `size²` heights -/
theorem pinv_startBot_nTak (c : Compose.Conf) (secs : Int) (hsize : 3 ≤ c.size ∧ c.size ≤ 8) :
    ∃ p0, p0.move = 0 ∧ PInv (Search.NTak c.size) p0 (startBot c secs) := by
  obtain ⟨p0, hp⟩ := startBot_ok c hsize
  have hsz : Search.NTak c.size p0 := by
    obtain ⟨_, _, rfl⟩ := Tak.new_ok hp
    refine ⟨takCfg_size c, ?_⟩
    simp only [Array.size_replicate]
    rw [takCfg_size]
  have hmv : p0.move = 0 := by
    obtain ⟨_, _, rfl⟩ := Tak.new_ok hp
    rfl
  refine ⟨p0, hmv, ?_⟩
  unfold startBot
  rw [hp]
  dsimp only
  refine ⟨hsz, ?_, ?_, hsz, fun _ => rfl, fun _ => List.mem_cons_self, fun _ => List.mem_cons_self⟩
  · intro q hq
    have hq' : q ∈ [p0] := hq
    simp only [List.mem_singleton] at hq'
    rw [hq']; exact hsz
  · intro t ht; cases ht

/-- `never_dead_of_deadBySearch` for a searching player that answers on the positions of a play-closed set `A` the bot
starts in (instead of: on every position of the board size) -/
theorem never_dead_of_deadBySearch_on (c : Compose.Conf) (S : Searcher σ χ) (G : σ → Prop) (A : Pos → Prop)
    (hA : ∀ p m q, A p → p.apply c.bot.basis m = .ok q → A q)
    (hz : ∀ p q, A p → p.apply c.bot.basis Bot.zeroMove ≠ .ok q)
    (hS : ∀ x p e m e', A p → G e → S.run x p e = .ok (m, e') → G e')
    (hT : ∀ x p e, A p → G e → ∃ r, S.run x p e = .ok r)
    (secs : Int) (eng0 : σ) (h0 : G eng0) {p0 : Pos} (hP : PInv A p0 (startBot c secs)) (evs : List (Compose.Ev χ))
    (hD : DeadBySearch S (Compose.run c S (Compose.start c secs eng0) evs)) :
    (Compose.run c S (Compose.start c secs eng0) evs).dead = none := by
  obtain ⟨hC, hP'⟩ := cinv_run (A := A) hA hS hz _ hP (cinv_start c S G secs eng0 h0) evs
  cases hd : (Compose.run c S (Compose.start c secs eng0) evs).dead with
  | none => rfl
  | some e =>
    exfalso
    obtain ⟨call, x, lim, fl, hin, _, hrun⟩ := hD e hd
    obtain ⟨_, t, ht, hpos⟩ := hC.inside call hin
    have hsz : A call.pos := by
      rw [← hpos]
      have hmem : t ∈ thinkers (Compose.run c S (Compose.start c secs eng0) evs).b := List.mem_of_getElem? ht
      unfold thinkers at hmem
      simp only [List.mem_append, List.mem_singleton] at hmem
      rcases hmem with hm | rfl
      · exact hP'.old t hm
      · exact hP'.cur
    obtain ⟨r, hr⟩ := hT x call.pos _ hsz hC.eng
    rw [hr] at hrun
    cases hrun

/-- every `GetMove` of the alpha-beta model on a position of `NTak n` keeps `EngTak n` … -/
theorem minimax_keeps_engTak (basis : Array W) (ev : Pos → Int) (sym : Pos → List Search.H) (scfg : Search.Cfg)
    (hdepth : scfg.depth ≤ 15) (n : Nat) (h8 : n ≤ 8) :
    ∀ x p e m e', Search.NTak n p → C04.EngTak n e → (minimaxOK basis ev sym scfg).run x p e = .ok (m, e') → C04.EngTak n e' := by
  intro x p e m e' hp he hrun
  obtain ⟨m0, s0, h, h1, _⟩ := C04.getMove_total_tak basis ev sym n h8 scfg hdepth (C04.OrderOK.sub x.2) p hp e he
  have hrun' : Search.getMove (Search.takGame basis ev sym) scfg x.1 p e = .ok (m, e') := hrun
  rw [h] at hrun'
  cases hrun'
  exact h1

/-- … and returns -/
theorem minimax_total (basis : Array W) (ev : Pos → Int) (sym : Pos → List Search.H) (scfg : Search.Cfg)
    (hdepth : scfg.depth ≤ 15) (n : Nat) (h8 : n ≤ 8) :
    ∀ x p e, Search.NTak n p → C04.EngTak n e → ∃ r, (minimaxOK basis ev sym scfg).run x p e = .ok r := by
  intro x p e hp he
  obtain ⟨m0, s0, h, _, _⟩ := C04.getMove_total_tak basis ev sym n h8 scfg hdepth (C04.OrderOK.sub x.2) p hp e he
  exact ⟨(m0, s0), h⟩

/-- the closing step shared by the forms below -/
theorem minimax_never_dead_of (c : Compose.Conf) (hsize : 3 ≤ c.size ∧ c.size ≤ 8)
    (ev : Pos → Int) (sym : Pos → List Search.H) (scfg : Search.Cfg)
    (hdepth : scfg.depth ≤ 15) (htbl : scfg.tableEntries ≠ some 0) (secs : Int)
    (evs : List (Compose.Ev { o : Search.Oracle Move // Search.OrderOK o }))
    (hD : DeadBySearch (minimaxOK c.bot.basis ev sym scfg)
      (Compose.run c (minimaxOK c.bot.basis ev sym scfg)
        (Compose.start c secs (Search.Eng.new (Search.takGame c.bot.basis ev sym) scfg)) evs)) :
    (Compose.run c (minimaxOK c.bot.basis ev sym scfg)
      (Compose.start c secs (Search.Eng.new (Search.takGame c.bot.basis ev sym) scfg)) evs).dead = none ∧
    C04.EngTak c.size (Compose.run c (minimaxOK c.bot.basis ev sym scfg)
      (Compose.start c secs (Search.Eng.new (Search.takGame c.bot.basis ev sym) scfg)) evs).eng := by
  obtain ⟨p0, _, hP⟩ := pinv_startBot_nTak c secs hsize
  have hA : ∀ (p : Pos) (m : Move) (q : Pos), Search.NTak c.size p → p.apply c.bot.basis m = .ok q → Search.NTak c.size q :=
    fun p m q hp ha => Search.nTak_apply hp ha
  have hz : ∀ (p q : Pos), Search.NTak c.size p → p.apply c.bot.basis Bot.zeroMove ≠ .ok q :=
    fun p q hp => zero_rejected c.bot.basis c.size hsize p q hp.1
  have h0 := C04.engTak_new c.bot.basis ev sym c.size scfg htbl
  refine ⟨never_dead_of_deadBySearch_on c (minimaxOK c.bot.basis ev sym scfg) (C04.EngTak c.size) (Search.NTak c.size) hA hz
    (minimax_keeps_engTak c.bot.basis ev sym scfg hdepth c.size hsize.2)
    (minimax_total c.bot.basis ev sym scfg hdepth c.size hsize.2) secs _ h0 hP evs hD, ?_⟩
  exact (cinv_run (A := Search.NTak c.size) hA (minimax_keeps_engTak c.bot.basis ev sym scfg hdepth c.size hsize.2) hz _ hP
    (cinv_start c _ (C04.EngTak c.size) secs _ h0) evs).1.eng

/-- **`bot_never_dead_minimax`** — `bot_never_dead_minimax_statement` (Props/C07_compose2.lean) proved, with the two
configurations excluded for which it is false (`Depth > maxDepth`, a table of 0 entries).  `PlayGame` / `ObserveGame`
with the real `Friendly` (any rule or none) or `Taktician` as `Bot` and **the alpha-beta model created by `NewMinimax`
as its searching player**: any colour, board size 3..8, clock, evaluator, symmetry-hash function, every option
combination, table size ≥ 1 or none, and EVERY event list (server lines incl. undo and replayed history, grace timer,
thinkers entering `GetMove` in any order the lock allows, returning at once, late or after cancellation; every cancel /
sort / random oracle per call) with sane check verdicts (`ChkOK`) and `RuleOK`: **no thinker goroutine is ever lost**
(`dead = none`), and the engine state satisfies `EngTak` after every event. -/
theorem bot_never_dead_minimax (c : Compose.Conf) (hguard : c.guard = true) (hrep : c.replay = true)
    (hfix : c.bot.fixed = true) (hsize : 3 ≤ c.size ∧ c.size ≤ 8)
    (ev : Pos → Int) (sym : Pos → List Search.H) (scfg : Search.Cfg)
    (hdepth : scfg.depth ≤ 15) (htbl : scfg.tableEntries ≠ some 0) (secs : Int)
    (evs : List (Compose.Ev { o : Search.Oracle Move // Search.OrderOK o }))
    (hchk : ChkOK c (minimaxOK c.bot.basis ev sym scfg)
      (Compose.start c secs (Search.Eng.new (Search.takGame c.bot.basis ev sym) scfg)) evs)
    (hrule : RuleOK c (minimaxOK c.bot.basis ev sym scfg)
      (Compose.start c secs (Search.Eng.new (Search.takGame c.bot.basis ev sym) scfg)) evs) :
    (Compose.run c (minimaxOK c.bot.basis ev sym scfg)
      (Compose.start c secs (Search.Eng.new (Search.takGame c.bot.basis ev sym) scfg)) evs).dead = none :=
  (minimax_never_dead_of c hsize ev sym scfg hdepth htbl secs evs
    (bot_dead_only_by_search c hguard hrep hfix hsize _ secs _ evs hchk hrule)).1

/-- **`bot_never_dead_minimax_declining`** — the tree as it is now (with `fixes/C07-fpa-script-declines.diff`, /repo
89e66ee: a script that panics declines): `RuleOK` is not needed, for ANY rule (double stack and cairn included) —
`MovesOK` (the moves of the record are placements or slides whenever a thinker is let in) takes its place.  `Friendly`
with any rule or none, or `Taktician`, with the alpha-beta model as searching player: no thinker goroutine is ever
lost. -/
theorem bot_never_dead_minimax_declining (c : Compose.Conf) (hguard : c.guard = true) (hrep : c.replay = true)
    (hdec : c.decline = true) (hfix : c.bot.fixed = true) (hsize : 3 ≤ c.size ∧ c.size ≤ 8)
    (ev : Pos → Int) (sym : Pos → List Search.H) (scfg : Search.Cfg)
    (hdepth : scfg.depth ≤ 15) (htbl : scfg.tableEntries ≠ some 0) (secs : Int)
    (evs : List (Compose.Ev { o : Search.Oracle Move // Search.OrderOK o }))
    (hchk : ChkOK c (minimaxOK c.bot.basis ev sym scfg)
      (Compose.start c secs (Search.Eng.new (Search.takGame c.bot.basis ev sym) scfg)) evs)
    (hmoves : MovesOK c (minimaxOK c.bot.basis ev sym scfg)
      (Compose.start c secs (Search.Eng.new (Search.takGame c.bot.basis ev sym) scfg)) evs) :
    (Compose.run c (minimaxOK c.bot.basis ev sym scfg)
      (Compose.start c secs (Search.Eng.new (Search.takGame c.bot.basis ev sym) scfg)) evs).dead = none :=
  (minimax_never_dead_of c hsize ev sym scfg hdepth htbl secs evs
    (bot_dead_only_by_search_declining c hguard hrep hdec hfix hsize _ secs _ evs hchk hmoves)).1


/-! ## the end-to-end form: no hypothesis about reachable states but the sanity of the check verdicts -/

/-- a move of known origin (the zero move, or generated by `AllMoves` for a 3..8 board) is not the pass -/
theorem fromGen_not_pass (basis : Array W) (ev : Pos → Int) (sym : Pos → List Search.H) (m : Move)
    (h : C04.FromGen (Search.takGame basis ev sym) C04.SizeOK m) : m.type ≠ Facts.mtPass := by
  rcases h with rfl | ⟨q, hq, hm⟩
  · show (0 : Nat) ≠ Facts.mtPass
    decide
  · have hob := Tak.Proofs.allMoves_onboard' q hq.2 m hm
    obtain ⟨_, _, _, _, ht, _⟩ := hob
    have := Tak.Proofs.types_cases
    omega

/-- the thinker a call in progress belongs to was started on a position of `A` -/
theorem inside_pos_of_pinv {c : Compose.Conf} {S : Searcher σ χ} {G : σ → Prop} {A : Pos → Prop} {p0 : Pos}
    {s : Compose.St σ χ} (hC : CInv c S G s) (hP : PInv A p0 s.b) :
    ∀ call, s.inside = some call → A call.pos := by
  intro call hin
  obtain ⟨_, t, ht, hpos⟩ := hC.inside call hin
  rw [← hpos]
  have hmem : t ∈ thinkers s.b := List.mem_of_getElem? ht
  unfold thinkers at hmem
  simp only [List.mem_append, List.mem_singleton] at hmem
  rcases hmem with hm | rfl
  · exact hP.old t hm
  · exact hP.cur

/-- `movesOK_run` for a searching player that never answers the pass from a state satisfying its invariant, on the
positions of `A` -/
theorem movesOK_run_on (c : Compose.Conf) (S : Searcher σ χ) (G : σ → Prop) (A : Pos → Prop)
    (hA : ∀ p m q, A p → p.apply c.bot.basis m = .ok q → A q)
    (hz : ∀ p q, A p → p.apply c.bot.basis Bot.zeroMove ≠ .ok q)
    (hS : ∀ x p e m e', A p → G e → S.run x p e = .ok (m, e') → G e')
    (hSP : ∀ x p e m e', A p → G e → S.run x p e = .ok (m, e') → m.type ≠ Facts.mtPass) {p0 : Pos}
    (evs : List (Compose.Ev χ)) :
    ∀ (s : Compose.St σ χ), CInv c S G s → PInv A p0 s.b → Bot.MInv s.b →
      (∀ e ∈ evs, Compose.EvNoPass e) → MovesOK c S s evs := by
  induction evs with
  | nil => intro _ _ _ _ _; trivial
  | cons e es ih =>
    intro s hC hP hM hev
    refine ⟨?_, ih _ (cinv_step (A := A) hS hz hP hC e) (pinv_composed_step hA S hP e)
      (Compose.minv_composed_step_on hSP (inside_pos_of_pinv hC hP) hC hM e (hev e (List.mem_cons_self ..)))
      (fun e' he' => hev e' (List.mem_cons_of_mem _ he'))⟩
    cases e with
    | enter k chk => exact fun _ => hM
    | _ => trivial

/-- both engine invariants: the one of the totality proof and the one of the provenance proof -/
def EngBoth (basis : Array W) (ev : Pos → Int) (sym : Pos → List Search.H) (n : Nat) (e : Search.Eng Move) : Prop :=
  C04.EngTak n e ∧ EngInv basis ev sym e

/-- **`bot_never_dead_minimax_events`** — the end-to-end statement for the tree as it is now (guard, record notes,
declining scripts: /repo 89e66ee): `Friendly` with ANY rule or none, or `Taktician`, **with the alpha-beta model as
searching player** (any evaluator, every option combination, no table or ≥ 1 entries, `Depth ≤ 15`), any colour, size
3..8, clock and EVERY event list in which no server line parses to the pass and the check verdicts are sane: **no thinker
goroutine is ever lost**.  Nothing is assumed about the searching player any more: that it returns is
`C04.getMove_total_tak`, that it never answers the pass is `Search.getMove_engOK` (its answer is the zero move or a
generated move). -/
theorem bot_never_dead_minimax_events (c : Compose.Conf) (hguard : c.guard = true) (hrep : c.replay = true)
    (hdec : c.decline = true) (hfix : c.bot.fixed = true) (hsize : 3 ≤ c.size ∧ c.size ≤ 8)
    (ev : Pos → Int) (sym : Pos → List Search.H) (scfg : Search.Cfg)
    (hdepth : scfg.depth ≤ 15) (htbl : scfg.tableEntries ≠ some 0) (secs : Int)
    (evs : List (Compose.Ev { o : Search.Oracle Move // Search.OrderOK o }))
    (hchk : ChkOK c (minimaxOK c.bot.basis ev sym scfg)
      (Compose.start c secs (Search.Eng.new (Search.takGame c.bot.basis ev sym) scfg)) evs)
    (hev : ∀ e ∈ evs, Compose.EvNoPass e) :
    (Compose.run c (minimaxOK c.bot.basis ev sym scfg)
      (Compose.start c secs (Search.Eng.new (Search.takGame c.bot.basis ev sym) scfg)) evs).dead = none := by
  refine bot_never_dead_minimax_declining c hguard hrep hdec hfix hsize ev sym scfg hdepth htbl secs evs hchk ?_
  obtain ⟨p0, _, hP⟩ := pinv_startBot_nTak c secs hsize
  have hA : ∀ (p : Pos) (m : Move) (q : Pos), Search.NTak c.size p → p.apply c.bot.basis m = .ok q → Search.NTak c.size q :=
    fun p m q hp ha => Search.nTak_apply hp ha
  have hz : ∀ (p q : Pos), Search.NTak c.size p → p.apply c.bot.basis Bot.zeroMove ≠ .ok q :=
    fun p q hp => zero_rejected c.bot.basis c.size hsize p q hp.1
  have hS : ∀ x p e m e', Search.NTak c.size p → EngBoth c.bot.basis ev sym c.size e →
      (minimaxOK c.bot.basis ev sym scfg).run x p e = .ok (m, e') → EngBoth c.bot.basis ev sym c.size e' :=
    fun x p e m e' hp he hrun =>
      ⟨minimax_keeps_engTak c.bot.basis ev sym scfg hdepth c.size hsize.2 x p e m e' hp he.1 hrun,
       minimax_keeps_engInv c.bot.basis ev sym scfg c.size hsize x p e m e' hp.1 he.2 hrun⟩
  have hSP : ∀ x p e m e', Search.NTak c.size p → EngBoth c.bot.basis ev sym c.size e →
      (minimaxOK c.bot.basis ev sym scfg).run x p e = .ok (m, e') → m.type ≠ Facts.mtPass := by
    intro x p e m e' hp he hrun
    have hPr := C04.prov_noTable (C04.sizeOK_closed c.bot.basis ev sym) (C04.OrderOK.sub x.2)
    exact fromGen_not_pass c.bot.basis ev sym m
      (Search.getMove_engOK hPr scfg p ⟨by rw [hp.1]; exact hsize.1, by rw [hp.1]; exact hsize.2⟩ (Or.inl rfl) e he.2
        (m, e') hrun).2
  refine movesOK_run_on c _ (EngBoth c.bot.basis ev sym c.size) (Search.NTak c.size) hA hz hS hSP evs _
    (cinv_start c _ _ secs _ ⟨C04.engTak_new c.bot.basis ev sym c.size scfg htbl, engInv_new c.bot.basis ev sym scfg⟩) hP ?_ hev
  intro m hm
  have : (startBot c secs).moves = [] := by
    unfold startBot
    split <;> rfl
  have hm' : m ∈ (startBot c secs).moves := hm
  rw [this] at hm'
  cases hm'

/-- the statement of `Props/C07_compose2.lean`, restricted to the configurations on which it can hold -/
theorem bot_never_dead_minimax_statement_of_cfg :
    ∀ (c : Compose.Conf), c.guard = true → c.replay = true → c.bot.fixed = true → 3 ≤ c.size ∧ c.size ≤ 8 →
      ∀ (ev : Pos → Int) (sym : Pos → List Search.H) (scfg : Search.Cfg), scfg.depth ≤ 15 → scfg.tableEntries ≠ some 0 →
        ∀ (secs : Int) (evs : List (Compose.Ev { o : Search.Oracle Move // Search.OrderOK o })),
        ChkOK c (minimaxOK c.bot.basis ev sym scfg)
          (Compose.start c secs (Search.Eng.new (Search.takGame c.bot.basis ev sym) scfg)) evs →
        RuleOK c (minimaxOK c.bot.basis ev sym scfg)
          (Compose.start c secs (Search.Eng.new (Search.takGame c.bot.basis ev sym) scfg)) evs →
        (Compose.run c (minimaxOK c.bot.basis ev sym scfg)
          (Compose.start c secs (Search.Eng.new (Search.takGame c.bot.basis ev sym) scfg)) evs).dead = none :=
  fun c hg hr hf hs ev sym scfg hd ht secs evs hchk hrule =>
    bot_never_dead_minimax c hg hr hf hs ev sym scfg hd ht secs evs hchk hrule

/-- the hypotheses are satisfiable: the default engine of the bots (`Depth` 0 ↦ `maxDepth` = 15 after `NewMinimax`'s
normalisation, no table as in `friendly.go`'s check engine, or a table of any positive number of entries), any size 3..8;
for the empty event list `ChkOK`, `RuleOK` and `MovesOK` hold trivially, for longer ones see the examples of
`Props/C07_compose2.lean` / `C07_fpa2.lean` -/
example : ((15 : Int) ≤ 15 ∧ (none : Option Nat) ≠ some 0 ∧ (some 3276800 : Option Nat) ≠ some 0) ∧
    C04.EngTak 5 (Search.Eng.new (Search.takGame (Array.replicate 64 0#64) Search.evalMat) { depth := 15, tableEntries := some 3276800 }) :=
  ⟨⟨by decide, by decide, by decide⟩, C04.engTak_new _ _ _ 5 _ (by decide)⟩

end C07
