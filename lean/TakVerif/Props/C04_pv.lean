import TakVerif.Proofs.PvHeadAnalyze
import TakVerif.Proofs.PvHeadNonEmpty
import TakVerif.Proofs.SearchToy
import TakVerif.Proofs.ApplyCfg
import TakVerif.Proofs.TPSRead
import TakVerif.Props.C11_legal

/-! # C04 (alpha-beta part) — where the principal variation comes from, for **every** configuration

`Props/C04_ab.lean` proves the PV head legal for precise options without a table.  This file removes both
restrictions and derives, from the search model itself, the two facts other theorems take as hypotheses about "the
searcher" (`C17.SearcherLegal/SearcherGenerated`, `C07`'s "no searching player returns the pass"):

* the head of the PV `Analyze` returns is accepted by `MovePreallocated` in the analysed position
  (`analyze_pv_head_generated`), and so is the move `GetMove` picks (`getMove_generated`);
* **every** move of the PV (and every hint the engine keeps: table entries, response map, PV buffers) is a move the
  generator produced for some position visited in this or an earlier call, or the zero move of a new engine
  (`FromGen`) — the search never invents a move value.  For Tak this makes the head *literally* a member of
  `AllMoves` of the analysed position (`analyze_pv_head_generated_tak`), in particular never the pass and never a
  placement with a junk `Slides` word;
* the **whole** PV replays legally when the value lies in `[MinEval, MaxEval]`, in particular when it is not
  decisive (`pv_replays`) — the clause C04 states for non-decisive values, which `DESIGN` carried as `pv_replays_partial`.

All for every option combination (sorting, table of any size, null move, slide reduction, multi-cut, symmetry
de-duplication, depth, evaluation budget, randomisation), every cancel oracle (not necessarily monotone) and every
membership-preserving move order.

**The engine state.**  "Any engine state" is false for the generated-ness claim and for one path of the legality claim:
* a hint that happens to be accepted is *played*; a table entry holding a placement with a junk `Slides` word, or
  the pass, becomes the PV head (`junk_hint_becomes_pv_head`, by evaluation on the 3×3 board);
* `Analyze` returns the move of an **exact** root table entry *without re-validation* when no iteration completes
  (entry at least as deep as `Cfg.Depth`, or cancellation during the first iteration) — `stale_exact_entry_is_returned`.
So the theorems assume `EngOK g Q D s`: the hints are `Q`-moves, and the move of every exact entry is accepted in
every position of `D` that would find it.  A new engine satisfies it (`engOK_new`), every call keeps it
(`analyze_pv_head_generated`, `getMove_generated`, `history_engOK`) — so it holds in every state an engine can
reach.  With a table, `D` is the set of positions the engine is used on, closed under moves, without a hash
collision (`TableDom`); without a table nothing is assumed (`D = ∅`). -/
namespace C04
open Search Tak

variable {P M : Type} [DecidableEq M]

/-! ## vocabulary -/

/-- a move value with a known origin: the zero move (`tak.Move{}`, what a new engine's buffers hold) or a move
`AllMoves` produced for a position of `N` -/
def FromGen (g : Game P M) (N : P → Prop) (m : M) : Prop := m = g.zeroMove ∨ ∃ q, N q ∧ m ∈ g.allMoves q

/-- the positions an engine **with a table** is used on: closed under applied moves, no two with the same hash -/
structure TableDom (g : Game P M) (D : P → Prop) : Prop where
  closed : ∀ p m c, D p → g.apply p m = .ok c → D c
  inj : ∀ p q, D p → D q → g.hash p = g.hash q → p = q

/-- `sort.Sort` returns moves of the list it was given (the half of `OrderOK` that provenance needs) -/
def OrderSub (o : Oracle M) : Prop := ∀ k (l : List M) x, x ∈ o.order k l → x ∈ l

omit [DecidableEq M] in
theorem OrderOK.sub {o : Oracle M} (h : OrderOK o) : OrderSub o := fun k l x hx => (h k l x).1 hx

omit [DecidableEq M] in
/-- the induction's hypotheses for an engine with a table used on `D` -/
theorem prov_table {g : Game P M} {D : P → Prop} (hD : TableDom g D) {o : Oracle M} (ho : OrderSub o) :
    Prov g o (FromGen g D) D D where
  gen := fun p hp m hm => Or.inr ⟨p, hp, hm⟩
  ord := fun k l x hl hx => hl x (ho k l x hx)
  closed := hD.closed
  compat := by
    intro p q m hp hq hh hacc
    rw [hD.inj q p hq hp hh]; exact hacc

omit [DecidableEq M] in
/-- … and without a table, for any set `N` of positions closed under applied moves: nothing about hashes -/
theorem prov_noTable {g : Game P M} {N : P → Prop} (hN : ∀ p m c, N p → g.apply p m = .ok c → N c)
    {o : Oracle M} (ho : OrderSub o) : Prov g o (FromGen g N) N (fun _ => False) where
  gen := fun p hp m hm => Or.inr ⟨p, hp, hm⟩
  ord := fun k l x hl hx => hl x (ho k l x hx)
  closed := hN
  compat := fun _ _ _ _ hq => absurd hq id

omit [DecidableEq M] in
/-- a new engine holds the zero move only -/
theorem engOK_new_fromGen (g : Game P M) (N D : P → Prop) (cfg : Search.Cfg) :
    EngOK g (FromGen g N) D (Eng.new g cfg) := engOK_new (Q := FromGen g N) (Or.inl rfl) cfg

/-! ## 1. the PV head: accepted, and of known origin -/

/-- **`analyze_pv_head_generated`** — every configuration, every cancel oracle, every move order that keeps the
generated set, every engine state that is `EngOK` (= every state reachable from a new engine, see the module note):
the PV `Analyze` returns consists of `Q`-moves, its head is accepted by `MovePreallocated` in the analysed position,
and the engine state is `EngOK` again.
Hypotheses about the game, all at the analysed position only: `Move.Equal` moves act alike and the zero move equals
no generated move (`GenOK`), some generated move is accepted (C04's "the game is not over" for Tak), the children's
evaluations do not exceed `MaxEval` (C18).  `hD`: with a table the position is one of `D`. -/
theorem analyze_pv_head_generated {g : Game P M} {o : Oracle M} {Q : M → Prop} {N D : P → Prop}
    (hP : Prov g o Q N D) (hord : OrderOK o) (cfg : Search.Cfg) (p : P) (hN : N p)
    (hgen : GenOK g p) (hmove : ∃ m ∈ g.allMoves p, Accepts g p m)
    (hev : ∀ m c, g.apply p m = .ok c → g.eval c ≤ Facts.maxEval)
    (s : Eng M) (hs : EngOK g Q D s) (hD : s.hasTable = true → D p) :
    Sat (analyze g cfg o p s) (fun x =>
      EngOK g Q D x.2 ∧ (∀ m ∈ x.1.1, Q m) ∧ ∀ m rest, x.1.1 = m :: rest → Accepts g p m ∧ Q m) := by
  refine (analyze_head hP hord cfg p hN hgen hmove hev s hs hD).mono ?_
  rintro x ⟨h1, h2, h3⟩
  exact ⟨h1, h2, fun m rest h => ⟨h3 m rest h, h2 m (by rw [h]; exact List.mem_cons_self)⟩⟩

/-- **`getMove_generated`**: the same for `GetMove` — without and with the randomised choice, for every random stream,
window and scale: the move returned is the zero move (only when `Analyze` returned an empty PV: cancelled before the
first iteration completed) or an accepted `Q`-move -/
theorem getMove_generated {g : Game P M} {o : Oracle M} {Q : M → Prop} {N D : P → Prop}
    (hP : Prov g o Q N D) (hord : OrderOK o) (cfg : Search.Cfg) (p : P) (hN : N p)
    (hgen : GenOK g p) (hmove : ∃ m ∈ g.allMoves p, Accepts g p m)
    (hev : ∀ m c, g.apply p m = .ok c → g.eval c ≤ Facts.maxEval)
    (s : Eng M) (hs : EngOK g Q D s) (hD : s.hasTable = true → D p) :
    Sat (getMove g cfg o p s) (fun x =>
      EngOK g Q D x.2 ∧ (x.1 = g.zeroMove ∨ (Q x.1 ∧ Accepts g p x.1))) :=
  getMove_prov hP hord cfg p hN hgen hmove hev s hs hD

/-- **`analyzeAll_heads_generated`**: the same for `AnalyzeAll` — every line it lists consists of `Q`-moves and starts with
a move accepted in the analysed position (the lines it adds to `Analyze`'s PV moreover replay in full:
`Search.analyzeAllFrom_q`, `LineOK`) -/
theorem analyzeAll_heads_generated {g : Game P M} {o : Oracle M} {Q : M → Prop} {N D : P → Prop}
    (hP : Prov g o Q N D) (hord : OrderOK o) (cfg : Search.Cfg) (p : P) (hN : N p)
    (hgen : GenOK g p) (hmove : ∃ m ∈ g.allMoves p, Accepts g p m)
    (hev : ∀ m c, g.apply p m = .ok c → g.eval c ≤ Facts.maxEval)
    (s : Eng M) (hs : EngOK g Q D s) (hD : s.hasTable = true → D p) :
    Sat (analyzeAll g cfg o p s) (fun x => EngOK g Q D x.2 ∧
      ∀ l ∈ x.1.1, (∀ y ∈ l, Q y) ∧ ∃ y ys, l = y :: ys ∧ Accepts g p y) :=
  analyzeAll_lines hP hord cfg p hN hgen hmove hev s hs hD

/-- **an `Analyze` that is not cancelled reports a move**: when the cancel flag is never set, `Cfg.Depth ≥ 1` and the
position is not over, the returned PV is not empty — every configuration, **any** engine state, any game.  (With
`analyze_pv_head_generated`: its head is then a legal move.  A cancelled call may return the empty PV; the TEI engine
then writes no `bestmove`, `GetMove` returns the zero move.) -/
theorem analyze_pv_nonempty {g : Game P M} {o : Oracle M} (hnc : NoCancel o) (cfg : Search.Cfg) (hdepth : 1 ≤ cfg.depth)
    (p : P) (hov : g.over p = false) (s : Eng M) :
    Sat (analyze g cfg o p s) (fun x => x.1.1 ≠ []) :=
  analyze_nonempty hnc cfg hdepth p hov s

/-- its hypotheses on the heap game: the quiet oracle never cancels, a heap of 7 is not over -/
example : NoCancel (Oracle.quiet : Oracle Nat) ∧ Toy.game.over 7 = false := ⟨Toy.quiet_nc, rfl⟩

/-- **provenance alone** needs nothing about the game: every move of the returned PV is a `Q`-move and the engine
state stays `EngOK`, whatever the position (finished, without moves, …) -/
theorem analyze_pv_provenance {g : Game P M} {o : Oracle M} {Q : M → Prop} {N D : P → Prop}
    (hP : Prov g o Q N D) (cfg : Search.Cfg) (p : P) (hN : N p) (s : Eng M) (hs : EngOK g Q D s) :
    Sat (analyze g cfg o p s) (fun x => EngOK g Q D x.2 ∧ ∀ m ∈ x.1.1, Q m) :=
  analyze_prov hP cfg p hN s hs

/-- **every state an engine reaches is `EngOK`**: after any history of `Analyze` calls (`Search.runCalls`: any
positions of `N`, any oracles) started from an `EngOK` state — in particular from `NewMinimax` -/
theorem history_engOK {g : Game P M} {Q : M → Prop} {N D : P → Prop} (cfg : Search.Cfg) :
    ∀ (h : History P M) (s : Eng M), (∀ x ∈ h, N x.1 ∧ Prov g x.2 Q N D) → EngOK g Q D s →
      Sat (runCalls g cfg h s) (fun x => EngOK g Q D x.2) := by
  intro h
  induction h with
  | nil => intro s _ hs; exact Sat.ok hs
  | cons c rest ih =>
    intro s hh hs
    obtain ⟨p, o⟩ := c
    simp only [runCalls]
    have ha := analyze_prov (hh (p, o) List.mem_cons_self).2 cfg p (hh (p, o) List.mem_cons_self).1 s hs
    cases hr : analyze g cfg o p s with
    | error e => exact Sat.error
    | ok x =>
      obtain ⟨r, s1⟩ := x
      have hs1 := (ha _ hr).1
      dsimp only at hs1 ⊢
      have hrest := ih s1 (fun x hx => hh x (List.mem_cons_of_mem _ hx)) hs1
      cases hr2 : runCalls g cfg rest s1 with
      | error e => exact Sat.error
      | ok y =>
        obtain ⟨rs, s2⟩ := y
        exact Sat.ok (hrest (rs, s2) hr2)

/-! ## 2. the whole PV replays -/

/-- **`pv_replays`** — C04's last clause at full strength: whenever the value `Analyze` reports lies in
`[MinEval, MaxEval]` — in particular whenever it is not a decisive win or loss — the **whole** reported PV replays
legally from the analysed position.  Every configuration, every oracle, nothing assumed about the game.
Engine state: arbitrary without a table; with a table `EngOK` on a collision-free domain (needed only for the move
of an exact root entry that is returned unsearched).

What `pv_replays_partial` was missing: (i) a `pvSearch` value strictly inside its window makes the node *improve* on
a played move whose own sub-PV comes from a full-window search with a value strictly inside the negated window —
zero-window results (whose PV tail is a stale buffer) are re-searched before they can improve without a cut-off — so
"exact" propagates down the PV; (ii) the root window is `(MinEval-1, MaxEval+1)`.  A PV can hold junk only behind a
move whose value fell on or outside the window, which the root never reports for a value in range. -/
theorem pv_replays {g : Game P M} {o : Oracle M} {N D : P → Prop}
    (hP : Prov g o (fun _ => True) N D) (cfg : Search.Cfg) (p : P) (hN : N p)
    (s : Eng M) (hs : EngOK g (fun _ => True) D s) (hD : s.hasTable = true → D p) :
    Sat (analyze g cfg o p s) (fun x =>
      (Facts.minEval ≤ x.1.2.1 ∧ x.1.2.1 ≤ Facts.maxEval → Replays g p x.1.1) ∧
      (-Facts.winThreshold ≤ x.1.2.1 ∧ x.1.2.1 ≤ Facts.winThreshold → Replays g p x.1.1)) := by
  refine (analyze_replays hP cfg p hN s hs hD).mono ?_
  intro x h
  refine ⟨fun hv => h hv.1 hv.2, fun hv => h ?_ ?_⟩
  · have := hv.1; simp only [Facts.minEval, Facts.winThreshold] at this ⊢; omega
  · have := hv.2; simp only [Facts.maxEval, Facts.winThreshold] at this ⊢; omega

/-- `pv_replays` for an engine **without a table**: every engine state, every game, no hypothesis at all -/
theorem pv_replays_noTable (g : Game P M) (o : Oracle M) (cfg : Search.Cfg) (p : P) (s : Eng M)
    (hs : s.hasTable = false) :
    Sat (analyze g cfg o p s) (fun x =>
      -Facts.winThreshold ≤ x.1.2.1 ∧ x.1.2.1 ≤ Facts.winThreshold → Replays g p x.1.1) :=
  (pv_replays (prov_trivial g o) cfg p trivial s (engOK_trivial g s) (fun h => by rw [hs] at h; cases h)).mono
    (fun _ h => h.2)

omit [DecidableEq M] in
/-- the induction's hypotheses for `pv_replays` with a table -/
theorem prov_replays_table {g : Game P M} {D : P → Prop} (hD : TableDom g D) (o : Oracle M) :
    Prov g o (fun _ => True) D D where
  gen := fun _ _ _ _ => trivial
  ord := fun _ _ _ _ _ => trivial
  closed := hD.closed
  compat := by
    intro p q m hp hq hh hacc
    rw [hD.inj q p hq hp hh]; exact hacc

/-- `pv_replays` for an engine **with a table** used on a collision-free domain, after any history from a new engine -/
theorem pv_replays_table {g : Game P M} {D : P → Prop} (hD : TableDom g D) (o : Oracle M) (cfg : Search.Cfg)
    (p : P) (hp : D p) (s : Eng M) (hs : EngOK g (fun _ => True) D s) :
    Sat (analyze g cfg o p s) (fun x =>
      -Facts.winThreshold ≤ x.1.2.1 ∧ x.1.2.1 ≤ Facts.winThreshold → Replays g p x.1.1) :=
  (pv_replays (prov_replays_table hD o) cfg p hp s hs (fun _ => hp)).mono (fun _ h => h.2)

/-! ### non-vacuity on the heap game

A heap of 7, a table of two entries, all options on: the hypotheses hold (`Toy.game` has an injective hash on all of
`Fin 32`), and the model returns a four-move line with the non-decisive value 0 … -/
example : TableDom Toy.game (fun _ => True) ∧ OrderOK (Oracle.quiet : Oracle Nat) ∧ GenOK Toy.game 7 ∧
    (∃ m ∈ Toy.game.allMoves 7, Accepts Toy.game 7 m) ∧
    (∀ m c, Toy.game.apply 7 m = .ok c → Toy.game.eval c ≤ Facts.maxEval) :=
  ⟨⟨fun _ _ _ _ _ => trivial, fun p q _ _ h => Toy.hashInj p q h⟩, Toy.quiet_order, Toy.gameOK.gen 7,
   ⟨1, by decide, ⟨6, rfl⟩⟩, fun _ c _ => (Toy.evalBounded c).2⟩

example : (match analyze Toy.game { depth := 4, tableEntries := some 2, opts := { multiCut := true } } Oracle.quiet 7
      (Eng.new Toy.game { depth := 4, tableEntries := some 2 }) with
    | .ok ((pv, v, _), _) => some (pv, v)
    | .error _ => none) = some ([1, 1, 1, 1], 0) := by decide +kernel

/-! ## 3. why "any engine state" is too much: two evaluated counterexamples on the 3×3 board -/

namespace Ex
def basis : Array W := Array.replicate 64 0#64
def g : Game Pos Move := takGame basis evalMat
/-- the empty 3×3 board, White to move -/
def start : Pos := TPS.startPos 3 0
/-- a flat on b2 carrying a junk `Slides` word -/
def junk : Move := ⟨1, 1, Facts.mtPlaceFlat, 0xbeef#32⟩
def cfg1 : Search.Cfg := { depth := 1, tableEntries := some 1, opts := { noSort := true } }
/-- a one-entry table whose entry (a lower bound of depth 0 for this very position) holds the junk move as its hint -/
def dirty : Eng Move :=
  { Eng.new g cfg1 with table := #[⟨g.hash start, 0, junk, Facts.lowerBound, 0⟩] }
/-- the same table with the entry marked exact and deep: `Analyze` does not search at all -/
def stale (m : Move) : Eng Move :=
  { Eng.new g cfg1 with table := #[⟨g.hash start, 7, m, Facts.exactBound, 1⟩] }
end Ex

/-- **a hint that is accepted is played**: from an engine state whose table holds a junk-`Slides` placement as the
hint of the analysed position, the PV head *is* that junk move — accepted by `MovePreallocated`, `Move.Equal` to the
generated b2, but not a member of `AllMoves`.  (Such a state is not reachable from a new engine: `FromGen`.) -/
theorem junk_hint_becomes_pv_head :
    (match analyze Ex.g Ex.cfg1 Oracle.quiet Ex.start Ex.dirty with
      | .ok ((pv, _, _), _) => some pv
      | .error _ => none) = some [Ex.junk] ∧
    Ex.junk ∉ Ex.start.allMoves ∧ (Ex.start.apply Ex.basis Ex.junk).isOk = true ∧
    (⟨1, 1, Facts.mtPlaceFlat, 0#32⟩ : Move) ∈ Ex.start.allMoves ∧
    Move.equal ⟨1, 1, Facts.mtPlaceFlat, 0#32⟩ Ex.junk = true := by
  decide +kernel

/-- **the move of an exact root entry is returned unsearched** when it already covers `Cfg.Depth`: here a slide,
which nothing accepts on the empty board.  (Not reachable from a new engine on a collision-free domain: `EngOK`.) -/
theorem stale_exact_entry_is_returned :
    let m : Move := ⟨0, 0, Facts.mtSlideRight, 1#32⟩
    (match analyze Ex.g Ex.cfg1 Oracle.quiet Ex.start (Ex.stale m) with
      | .ok ((pv, v, _), _) => some (pv, v)
      | .error _ => none) = some ([m], 7) ∧
    (Ex.start.apply Ex.basis m).isOk = false := by
  decide +kernel

/-! ## 4. Tak: the PV head is literally a generated move -/

/-- the positions of board size 3..8 (closed under `MovePreallocated`, which never touches the configuration) -/
def SizeOK (p : Pos) : Prop := 3 ≤ p.cfg.size ∧ p.cfg.size ≤ 8

theorem sizeOK_closed (basis : Array W) (ev : Pos → Int) (sym : Pos → List H) :
    ∀ p m c, SizeOK p → (takGame basis ev sym).apply p m = .ok c → SizeOK c := by
  intro p m c hp hap
  have : c.cfg = p.cfg := Tak.apply_cfg (basis := basis) hap
  unfold SizeOK; rw [this]; exact hp

/-- `Move.Equal` moves are applied alike (unconditionally), and generated moves have a non-zero type -/
theorem tak_genOK (basis : Array W) (ev : Pos → Int) (sym : Pos → List H) (p : Pos) (h8 : p.cfg.size ≤ 8) :
    GenOK (takGame basis ev sym) p where
  eqSound := by
    intro a b he
    show p.apply basis a = p.apply basis b
    obtain ⟨hx, hy, ht, hs⟩ := Tak.Proofs.equal_fields _ _ he
    by_cases hsl : a.isSlide = true
    · have : a = b := by
        have := hs hsl
        cases a; cases b; simp_all
      rw [this]
    · exact Tak.Proofs.apply_congr_nonslide basis p a b hx hy ht (by simpa using hsl)
  zeroNe := by
    intro m hm
    show Move.equal ⟨0, 0, 0, 0#32⟩ m = false
    cases he : Move.equal ⟨0, 0, 0, 0#32⟩ m with
    | false => rfl
    | true =>
      obtain ⟨_, _, ht, _⟩ := Tak.Proofs.equal_fields _ _ he
      obtain ⟨_, _, _, _, ht', _⟩ := Tak.Proofs.allMoves_onboard' p h8 m hm
      have tc := Tak.Proofs.types_cases
      dsimp only at ht
      omega

/-- the zero move `tak.Move{}` is accepted nowhere (its type code is none of the eight `MovePreallocated` dispatches on) -/
theorem zero_not_accepted (basis : Array W) (p c : Pos) (h3 : 3 ≤ p.cfg.size) (h8 : p.cfg.size ≤ 8) :
    p.apply basis ⟨0, 0, 0, 0#32⟩ ≠ .ok c := by
  intro hc
  have hs := Tak.Proofs.apply_legalShape' basis p _ c h3 h8 (by decide) hc
  rcases Tak.PTN.legalShape_kind hs with ⟨h1, _⟩ | ⟨_, h2, _⟩
  · revert h1; decide
  · revert h2; decide

/-- a move of known origin that is accepted somewhere is not the pass and is in normal form (no junk `Slides` word) -/
theorem fromGen_accepted_shape (basis : Array W) (ev : Pos → Int) (sym : Pos → List H) (p c : Pos)
    (h3 : 3 ≤ p.cfg.size) (h8 : p.cfg.size ≤ 8) (m : Move) (hq : FromGen (takGame basis ev sym) SizeOK m)
    (hc : p.apply basis m = .ok c) : m.type ≠ Facts.mtPass ∧ Notation.normalize m = m := by
  rcases hq with hz | ⟨q, hq, hm⟩
  · have hz' : m = ⟨0, 0, 0, 0#32⟩ := hz
    subst hz'
    exact absurd hc (zero_not_accepted basis p c h3 h8)
  · have hs := Tak.Proofs.allMoves_legalShape' q hq.1 hq.2 m hm
    exact ⟨Tak.Proofs.legalShape_not_pass hs, Tak.Proofs.legalShape_normal hs⟩

/-- **a move of known origin that `MovePreallocated` accepts is a generated move of that position** (C03
completeness + C11: the generator's moves are in normal form, and the zero move is accepted nowhere) -/
theorem fromGen_accepted_mem (basis : Array W) (ev : Pos → Int) (sym : Pos → List H) (p : Pos) (hwf : WF basis p)
    (m : Move) (hq : FromGen (takGame basis ev sym) SizeOK m) (hacc : Accepts (takGame basis ev sym) p m) :
    m ∈ p.allMoves := by
  obtain ⟨c, hc⟩ := hacc
  have hc' : p.apply basis m = .ok c := hc
  obtain ⟨hnp, hn⟩ := fromGen_accepted_shape basis ev sym p c hwf.size_ge hwf.size_le m hq hc'
  have := C11.normalize_mem_allMoves basis p c m hwf hnp hc'
  rw [hn] at this
  exact this

/-- **`analyze_pv_head_generated_tak`** — on the Tak instance, for an engine **without a table** in any state whose
hints are of known origin (a new engine, or any engine after any calls): the head of the PV `Analyze` returns for a
well-formed position (`WF`, C01's invariant) with a legal move is **literally** a member of `AllMoves` of that
position and is accepted by `MovePreallocated`; so it is never the pass, never a placement with a junk `Slides` word
(`C17.SearcherGenerated`'s conclusion).  Every option combination, cancel oracle and move order.
`hev` is C18's bound for the evaluator in use; `hmove` is C04's "a position that is not over has a legal move". -/
theorem analyze_pv_head_generated_tak (basis : Array W) (ev : Pos → Int) (sym : Pos → List H)
    {o : Oracle Move} (hord : OrderOK o) (cfg : Search.Cfg) (p : Pos) (hwf : WF basis p)
    (hmove : ∃ m ∈ p.allMoves, (p.apply basis m).isOk = true)
    (hev : ∀ m c, p.apply basis m = .ok c → ev c ≤ Facts.maxEval)
    (s : Eng Move) (hnt : s.hasTable = false)
    (hs : EngOK (takGame basis ev sym) (FromGen (takGame basis ev sym) SizeOK) (fun _ => False) s) :
    Sat (analyze (takGame basis ev sym) cfg o p s) (fun x =>
      EngOK (takGame basis ev sym) (FromGen (takGame basis ev sym) SizeOK) (fun _ => False) x.2 ∧
      ∀ m rest, x.1.1 = m :: rest → m ∈ p.allMoves ∧ (p.apply basis m).isOk = true) := by
  have hP := prov_noTable (sizeOK_closed basis ev sym) (OrderOK.sub hord)
  have hmove' : ∃ m ∈ (takGame basis ev sym).allMoves p, Accepts (takGame basis ev sym) p m := by
    obtain ⟨m, hm, hok⟩ := hmove
    refine ⟨m, hm, ?_⟩
    cases ha : p.apply basis m with
    | ok c => exact ⟨c, ha⟩
    | error e => rw [ha] at hok; cases hok
  refine (analyze_pv_head_generated hP hord cfg p ⟨hwf.size_ge, hwf.size_le⟩
    (tak_genOK basis ev sym p hwf.size_le) hmove' hev s hs (fun h => by rw [hnt] at h; cases h)).mono ?_
  rintro x ⟨h1, _, h3⟩
  refine ⟨h1, fun m rest h => ?_⟩
  obtain ⟨hacc, hq⟩ := h3 m rest h
  refine ⟨fromGen_accepted_mem basis ev sym p hwf m hq hacc, ?_⟩
  obtain ⟨c, hc⟩ := hacc
  have hc' : p.apply basis m = .ok c := hc
  rw [hc']; rfl

/-- the same **with a table**, on a set `D` of well-sized positions closed under moves and free of hash collisions -/
theorem analyze_pv_head_generated_tak_table (basis : Array W) (ev : Pos → Int) (sym : Pos → List H)
    {D : Pos → Prop} (hD : TableDom (takGame basis ev sym) D) (hsz : ∀ q, D q → SizeOK q)
    {o : Oracle Move} (hord : OrderOK o) (cfg : Search.Cfg) (p : Pos) (hp : D p) (hwf : WF basis p)
    (hmove : ∃ m ∈ p.allMoves, (p.apply basis m).isOk = true)
    (hev : ∀ m c, p.apply basis m = .ok c → ev c ≤ Facts.maxEval)
    (s : Eng Move) (hs : EngOK (takGame basis ev sym) (FromGen (takGame basis ev sym) D) D s) :
    Sat (analyze (takGame basis ev sym) cfg o p s) (fun x =>
      EngOK (takGame basis ev sym) (FromGen (takGame basis ev sym) D) D x.2 ∧
      ∀ m rest, x.1.1 = m :: rest → m ∈ p.allMoves ∧ (p.apply basis m).isOk = true) := by
  have hP := prov_table hD (OrderOK.sub hord)
  have hmove' : ∃ m ∈ (takGame basis ev sym).allMoves p, Accepts (takGame basis ev sym) p m := by
    obtain ⟨m, hm, hok⟩ := hmove
    refine ⟨m, hm, ?_⟩
    cases ha : p.apply basis m with
    | ok c => exact ⟨c, ha⟩
    | error e => rw [ha] at hok; cases hok
  refine (analyze_pv_head_generated hP hord cfg p hp
    (tak_genOK basis ev sym p hwf.size_le) hmove' hev s hs (fun _ => hp)).mono ?_
  rintro x ⟨h1, _, h3⟩
  refine ⟨h1, fun m rest h => ?_⟩
  obtain ⟨hacc, hq⟩ := h3 m rest h
  have hq' : FromGen (takGame basis ev sym) SizeOK m := by
    rcases hq with hz | ⟨q, hq, hm⟩
    · exact Or.inl hz
    · exact Or.inr ⟨q, hsz q hq, hm⟩
  refine ⟨fromGen_accepted_mem basis ev sym p hwf m hq' hacc, ?_⟩
  obtain ⟨c, hc⟩ := hacc
  have hc' : p.apply basis m = .ok c := hc
  rw [hc']; rfl

/-- **`getMove_generated_tak`**: the move `GetMove` returns on the Tak instance (no table; with or without the
randomised choice, any random stream) is the zero move — only when `Analyze` was cancelled before its first
iteration completed — or literally a member of `AllMoves` of the position, accepted by `MovePreallocated` -/
theorem getMove_generated_tak (basis : Array W) (ev : Pos → Int) (sym : Pos → List H)
    {o : Oracle Move} (hord : OrderOK o) (cfg : Search.Cfg) (p : Pos) (hwf : WF basis p)
    (hmove : ∃ m ∈ p.allMoves, (p.apply basis m).isOk = true)
    (hev : ∀ m c, p.apply basis m = .ok c → ev c ≤ Facts.maxEval)
    (s : Eng Move) (hnt : s.hasTable = false)
    (hs : EngOK (takGame basis ev sym) (FromGen (takGame basis ev sym) SizeOK) (fun _ => False) s) :
    Sat (getMove (takGame basis ev sym) cfg o p s) (fun x =>
      EngOK (takGame basis ev sym) (FromGen (takGame basis ev sym) SizeOK) (fun _ => False) x.2 ∧
      (x.1 = ⟨0, 0, 0, 0#32⟩ ∨ (x.1 ∈ p.allMoves ∧ (p.apply basis x.1).isOk = true))) := by
  have hP := prov_noTable (sizeOK_closed basis ev sym) (OrderOK.sub hord)
  have hmove' : ∃ m ∈ (takGame basis ev sym).allMoves p, Accepts (takGame basis ev sym) p m := by
    obtain ⟨m, hm, hok⟩ := hmove
    refine ⟨m, hm, ?_⟩
    cases ha : p.apply basis m with
    | ok c => exact ⟨c, ha⟩
    | error e => rw [ha] at hok; cases hok
  refine (getMove_generated hP hord cfg p ⟨hwf.size_ge, hwf.size_le⟩
    (tak_genOK basis ev sym p hwf.size_le) hmove' hev s hs (fun h => by rw [hnt] at h; cases h)).mono ?_
  rintro x ⟨h1, h2⟩
  refine ⟨h1, ?_⟩
  rcases h2 with h2 | ⟨hq, hacc⟩
  · exact Or.inl h2
  · refine Or.inr ⟨fromGen_accepted_mem basis ev sym p hwf _ hq hacc, ?_⟩
    obtain ⟨c, hc⟩ := hacc
    have hc' : p.apply basis x.1 = .ok c := hc
    rw [hc']; rfl

/-- non-vacuity on the 3×3 start position with the material evaluator and a new engine: the hypotheses about the
position hold, and the model's answer is a generated move -/
example : (∃ m ∈ Ex.start.allMoves, (Ex.start.apply Ex.basis m).isOk = true) ∧
    (match analyze Ex.g { depth := 2, opts := { noSort := true } } Oracle.quiet Ex.start
        (Eng.new Ex.g { depth := 2 }) with
      | .ok ((pv, _, _), _) => pv.head?.map (fun m => decide (m ∈ Ex.start.allMoves))
      | .error _ => none) = some true := by
  refine ⟨⟨⟨0, 0, Facts.mtPlaceFlat, 0#32⟩, by decide +kernel, by decide +kernel⟩, by decide +kernel⟩

end C04
