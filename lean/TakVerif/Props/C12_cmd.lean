import TakVerif.Props.C12
import TakVerif.Proofs.CmdAnalyze

/-!
# C12 at its consumer: which position `taktician analyze` analyses

`Tak.CmdAnalyze` (`Impl/CmdAnalyze.lean`) mirrors `cmd/internal/analyze`: `Execute` parses the PTN file, turns
`-white` / `-black` / `-move n` into the arguments of `PositionAtMove`, optionally plays the `-variation` moves, and
hands the position to the analyzer (minimax, `-prove`, `-dfpn`); with `-all` it walks the file with the `Iterator`
and analyses every position shown.  The model prints *items* (`Item`): each report of an analyzer carries the position
it is about, and the printed text is `Item.render` of them (compared line by line with the real command by generator
`C12cmd`).

* `analyze_colour_table` — the flag table: `-white` and `-black` together are refused; one of them is the colour;
  neither: White when `-move n` is given (n ≠ 0), "final position" otherwise.  Hence (`analyze_never_rejected_combination`)
  the command never passes the combination `PositionAtMove` refuses (`NoColor` with `n ≠ 0`).
* `analyze_position_spec` — without `-all` and `-variation`: the position handed to the analyzer is the one C12
  specifies for (n, colour): the position of the first frame of the replay whose marker is n and whose side to move is
  the colour, the final position for n ≤ 0; a request beyond the recorded game or a file with an illegal move prints
  nothing and leaves through `log.Fatal`.  Everything printed is a report about that one position.
* `analyze_variation_spec` — `-variation`: the pieces between single blanks are read by `ParseMove` and played in order.
* `analyze_all_spec` — `-all`: the `%d. %s` lines name, in order, the positions the iterator shows up to (excluding)
  the first finished one, of the colours the flags admit (note: `-move n` without a colour flag admits White only);
  every report is about one of them.
* `analyze_position_linked` — the same for files read from text with the byte-level models of `ParseMove` / `ParseTPS`
  (`PTN.realEnv`): no hypothesis beyond "the file parses and its start position exists". -/
namespace C12
open Tak PTN Tak.CmdAnalyze

variable {E : Type}

/-- **the flag table** of `Execute` -/
theorem analyze_colour_table (f : Flags) :
    (f.white = true → f.black = true → selectColor f = none) ∧
    (f.white = true → f.black = false → selectColor f = some .white) ∧
    (f.white = false → f.black = true → selectColor f = some .black) ∧
    (f.white = false → f.black = false → f.move ≠ 0 → selectColor f = some .white) ∧
    (f.white = false → f.black = false → f.move = 0 → selectColor f = some .none) := by
  unfold selectColor
  refine ⟨?_, ?_, ?_, ?_, ?_⟩ <;> intros <;> simp [*]

/-- the command never asks `PositionAtMove` for "no colour, but a move number" (the combination it refuses) -/
theorem analyze_never_rejected_combination (f : Flags) (c : Color) (h : selectColor f = some c) :
    ¬(c = .none ∧ f.move ≠ 0) := by
  unfold selectColor at h
  rintro ⟨hc, hm⟩
  split at h
  · cases h
  · split at h
    · cases h; cases hc
    · split at h
      · cases h; cases hc
      · split at h
        · cases h; cases hc
        · rename_i hm'; exact hm' (by simpa using hm)

/-- **which position is analysed** (no `-all`, no `-variation`).  With `fs`, `e` the frames and error flag of the
list-level replay of the file (`C12.frames_spec` says what they are): the selection `Execute` makes is the answer C12
specifies for `(move, colour)`; everything the command prints is a report about that one position; and when there is
no such position the command prints nothing and leaves through `log.Fatal`. -/
theorem analyze_position_spec (env : Env) (eng : Engines E) (f : Flags) (input : Bytes)
    (hall : f.all = false) (hvar : f.variation = [])
    (parsed : File) (p0 : Pos) (hparse : parsePTN env input = .ok parsed)
    (hinit : initialPosition env parsed = .ok p0) (hnz : NoZero parsed.ops)
    (c : Color) (hc : selectColor f = some c) :
    AtSpec (selectPosition env parsed f c) f.move c
      (specFrames env.basis parsed.ops 0 p0).1 (specFrames env.basis parsed.ops 0 p0).2 none ∧
    (∀ i ∈ (execute env eng f input).1, ∃ p, selectPosition env parsed f c = .ok p ∧ Report eng f p i) ∧
    (∀ w, selectPosition env parsed f c = .error (.illegal w) → execute env eng f input = ([], .error (.fatal w))) := by
  refine ⟨?_, ?_, ?_⟩
  · have h := (positionAtMove_spec env parsed p0 hinit hnz f.move c).2 (analyze_never_rejected_combination f c hc)
    have hsel : selectPosition env parsed f c = positionAtMove env parsed f.move c := by
      unfold selectPosition
      cases positionAtMove env parsed f.move c with
      | error e => rfl
      | ok p => simp [hvar]
    rw [hsel]; exact h
  · intro i hi
    obtain ⟨p, ⟨parsed', c', hp', hc', hsel⟩, hrep⟩ := execute_single_report env eng f input hall i hi
    rw [hparse] at hp'; cases hp'
    rw [hc] at hc'; cases hc'
    exact ⟨p, hsel, hrep⟩
  · intro w hw
    exact execute_single_fatal env eng f input hall parsed c w hparse hc hw

/-- `-white` with `-black`: nothing is printed, `log.Fatal` -/
theorem analyze_exclusive (env : Env) (eng : Engines E) (f : Flags) (input : Bytes) (parsed : File)
    (hparse : parsePTN env input = .ok parsed) (hw : f.white = true) (hb : f.black = true) :
    execute env eng f input = ([], .error (.fatal "-white and -black are exclusive")) := by
  unfold execute
  rw [hparse]
  simp [selectColor, hw, hb, stop]

/-- **`-variation`**: when the variation is accepted, its pieces between single blanks are moves `ParseMove` reads
(`ms`), and the analysed position is the selected one with `ms` played in order -/
theorem analyze_variation_spec (env : Env) (p q : Pos) (v : Bytes) (h : applyVariation env p v = .ok q) :
    ∃ ms, (Go.split 32 v).mapM env.parseMove = .ok ms ∧ applyAll env.basis p ms = .ok q := by
  unfold applyVariation at h
  generalize Go.split 32 v = parts at h
  induction parts generalizing p with
  | nil =>
    simp only [applyVariationLoop] at h
    cases h
    exact ⟨[], rfl, rfl⟩
  | cons s rest ih =>
    simp only [applyVariationLoop] at h
    cases hm : env.parseMove s with
    | error e => rw [hm] at h; cases h
    | ok m =>
      rw [hm] at h
      dsimp only at h
      cases ha : p.apply env.basis m with
      | error e => rw [ha] at h; cases e <;> cases h
      | ok n =>
        rw [ha] at h
        obtain ⟨ms, hms, hall⟩ := ih n h
        refine ⟨m :: ms, ?_, ?_⟩
        · rw [List.mapM_cons, hm, hms]; rfl
        · simp [applyAll, ha, hall]

/-- **`-all`**: with `fs` the frames of the replay, the `%d. %s` lines name (in order) a prefix of the positions of
`fs` before the first finished one whose side to move the colour flags admit — all of them when the run is not cut
short — and every other printed item is a report about one of these positions. -/
theorem analyze_all_spec (env : Env) (eng : Engines E) (f : Flags) (input : Bytes) (hall : f.all = true)
    (parsed : File) (p0 : Pos) (hparse : parsePTN env input = .ok parsed)
    (hinit : initialPosition env parsed = .ok p0) (hnz : NoZero parsed.ops)
    (c : Color) (hc : selectColor f = some c) :
    labelsOf (execute env eng f input).1 <+: allTargets c (specFrames env.basis parsed.ops 0 p0).1 ∧
    ((execute env eng f input).2 = .ok () →
      labelsOf (execute env eng f input).1 = allTargets c (specFrames env.basis parsed.ops 0 p0).1) ∧
    (∀ i ∈ (execute env eng f input).1,
      ∃ p ∈ allTargets c (specFrames env.basis parsed.ops 0 p0).1, (∃ m, i = .plyLabel p m) ∨ Report eng f p i) := by
  obtain ⟨it0, hit, hcol⟩ := iterator_spec env parsed p0 hinit hnz
  have hinv := (iterator_inv env parsed it0 hit).1
  have hexec : execute env eng f input =
      Out.bind (buildAnalysis eng f p0) fun w =>
      Out.bind (buildAnalysis eng f p0) fun b =>
      Out.bind (allLoop env eng f c (parsed.ops.length + 2) it0 w b) fun it =>
        match it.err with
        | some e => stop (Stop.ofErr e)
        | none => done () := by
    unfold execute
    rw [hparse]
    simp only [hc, hall, Bool.not_true, Bool.false_eq_true, if_false, hinit, hit]
    rfl
  rw [hexec]
  cases hw : buildAnalysis eng f p0 with
  | mk lw rw' =>
    have hlw : lw = [] := by have := buildAnalysis_fst eng f p0; rw [hw] at this; exact this
    subst hlw
    cases rw' with
    | error s => simp [Out.bind, labelsOf]
    | ok w =>
      simp only [Out.bind, List.nil_append]
      have hspec := allLoop_spec env eng f c (parsed.ops.length + 2) it0 w w _ _ hinv hcol
      cases hl : allLoop env eng f c (parsed.ops.length + 2) it0 w w with
      | mk l r =>
        rw [hl] at hspec
        cases r with
        | error s =>
          refine ⟨by simpa using hspec.1, ?_, by simpa using hspec.2.2⟩
          intro h; simp at h
        | ok it =>
          have heq := hspec.2.1 ⟨it, rfl⟩
          cases herr : it.err with
          | some e =>
            simp only [herr]
            refine ⟨by simpa [stop] using hspec.1, ?_, by simpa [stop] using hspec.2.2⟩
            intro h; simp [stop] at h
          | none =>
            simp only [herr]
            refine ⟨by simpa [done] using hspec.1, ?_, by simpa [done] using hspec.2.2⟩
            intro _; simpa [done] using heq

/-- **Files read from text** (`PTN.realEnv`: the byte-level models of `ParseMove`, `FormatMove`, `ParseTPS`): the
two selection theorems without the `NoZero` hypothesis — whatever `ParsePTN` returns satisfies it. -/
theorem analyze_position_linked (basis : Array W) (eng : Engines E) (f : Flags) (input : Bytes)
    (parsed : File) (p0 : Pos) (hparse : parsePTN (realEnv basis) input = .ok parsed)
    (hinit : initialPosition (realEnv basis) parsed = .ok p0) (c : Color) (hc : selectColor f = some c) :
    (f.all = false → f.variation = [] →
      AtSpec (selectPosition (realEnv basis) parsed f c) f.move c
        (specFrames basis parsed.ops 0 p0).1 (specFrames basis parsed.ops 0 p0).2 none ∧
      (∀ i ∈ (execute (realEnv basis) eng f input).1,
        ∃ p, selectPosition (realEnv basis) parsed f c = .ok p ∧ Report eng f p i)) ∧
    (f.all = true →
      labelsOf (execute (realEnv basis) eng f input).1 <+: allTargets c (specFrames basis parsed.ops 0 p0).1 ∧
      (∀ i ∈ (execute (realEnv basis) eng f input).1,
        ∃ p ∈ allTargets c (specFrames basis parsed.ops 0 p0).1, (∃ m, i = .plyLabel p m) ∨ Report eng f p i)) := by
  have hnz := parsePTN_noZero_linked basis input parsed hparse
  constructor
  · intro hall hvar
    have h := analyze_position_spec (realEnv basis) eng f input hall hvar parsed p0 hparse hinit hnz c hc
    exact ⟨h.1, h.2.1⟩
  · intro hall
    have h := analyze_all_spec (realEnv basis) eng f input hall parsed p0 hparse hinit hnz c hc
    exact ⟨h.1, h.2.2⟩

/-! #### a concrete record: `[Size "3"] 1. a1 b2 2. c3 {x} 3.` (`exFile` of `Props/C12.lean`) -/

/-- `-move 2` alone means White's move 2: the position after `a1 b2` (ply 2, White to move) -/
example : selectColor { move := 2 } = some .white ∧
    (selectPosition exEnv exFile { move := 2 } .white).toOption.map (fun p => (p.move, p.toMove)) = some (2, .white) := by
  decide

/-- `-move 1 -black`: after `a1`; no flags: the final position (ply 3); `-move 3 -white`: beyond the record
(the trailing marker `3.` belongs to the final position, where Black is to move) -/
example :
    (selectPosition exEnv exFile { move := 1, black := true } .black).toOption.map (·.move) = some 1 ∧
    (selectPosition exEnv exFile {} .none).toOption.map (·.move) = some 3 ∧
    (selectPosition exEnv exFile { move := 3, white := true } .white).toOption = none ∧
    (selectPosition exEnv exFile { move := 3, black := true } .black).toOption.map (·.move) = some 3 := by
  decide

/-- `-variation "b1 c1"` after `-move 2`: two more plies -/
example : (selectPosition exEnv exFile { move := 2, variation := Go.lit "b1 c1" } .white).toOption.map (·.move) = some 4 ∧
    (selectPosition exEnv exFile { move := 2, variation := Go.lit "b1  c1" } .white).toOption = none := by
  decide

/-- `-all -black`: only the position after `a1` (Black to move at ply 1; ply 3 is also Black's: both are targets) -/
example : ∃ p0, initialPosition exEnv exFile = .ok p0 ∧
    (allTargets .black (specFrames exEnv.basis exFile.ops 0 p0).1).map (·.move) = [1, 3] ∧
    (allTargets .none (specFrames exEnv.basis exFile.ops 0 p0).1).map (·.move) = [0, 1, 2, 3] :=
  ⟨_, rfl, by decide, by decide⟩

end C12
