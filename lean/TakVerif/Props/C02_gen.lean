import TakVerif.Impl.Position
import TakVerif.Generated.FuncsOver

/-! Tie #1 for C02 (game end): the decision logic of `tak/game.go` `ToMove`, `countFlats`, `flatsWinner` and the
reserve / full-board test of `GameOver`, and `bitboard.Flood`, are regenerated from the source on every run
(`Generated/FuncsTak.lean`, `FuncsOver.lean`); the hand model of `Impl/Position.lean`, `Impl/Bitboard.lean` is proved equal to them.
`Position` is not translatable as a whole (slices): the regenerated functions take exactly the fields they read as
parameters (`p_White`, `p_cfg_c_Mask` …); `hasRoad()` (a loop over the group slices) enters `GameOver` as a parameter
and stays a hand-written mirror.  `bitboard.Popcount` is the `math/bits` intrinsic: `Gen.popcount64` is a fixed
definition in the generated prelude (gen checks that `Popcount` still is the single call `bits.OnesCount64(x)`). -/
namespace C02
open Tak

/-- a model colour as the Go byte -/
def colorByte (c : Color) : BitVec 8 := BitVec.ofNat 8 c.code

/-- `bitboard.Popcount`: the model's popcount is the (fixed, not regenerated) `Gen.popcount64` the regenerated callers use -/
theorem popcount_is_source (x : W) : (popcount x : Int) = Gen.popcount64 x := by
  have h : ∀ n x, popcountFuel n x = Gen.popcount64_loop n x := by
    intro n; induction n with
    | zero => intro x; rfl
    | succ n ih => intro x; simp only [popcountFuel, Gen.popcount64_loop, ih]
  simp [popcount, Gen.popcount64, h]

/-- `bitboard.Flood`: the model's fuelled fixpoint loop is the regenerated one (same fuel 66; `none` = fuel
exhausted, excluded by `Proofs.Flood.flood_isSome`) -/
theorem flood_is_source (c : Consts) (within seed : W) : flood c within seed = Gen.flood c within seed := by
  have h : ∀ n seed, floodFuel c within n seed = Gen.flood_loop0 c within n seed := by
    intro n; induction n with
    | zero => intro s; rfl
    | succ n ih => intro s; simp only [floodFuel, Gen.flood_loop0, ih]
  exact h 66 seed

/-- `Position.ToMove` (`p.move%2` is Go's truncated remainder; the model uses `%` on `Int`) -/
theorem toMove_is_source (p : Pos) : colorByte p.toMove = Gen.positionToMove p.move := by
  unfold Pos.toMove Gen.positionToMove colorByte
  have h : (Int.tmod p.move 2 == 0) = (p.move % 2 == 0) := by
    have : Int.tmod p.move 2 = 0 ↔ p.move % 2 = 0 := by
      rw [← Int.dvd_iff_tmod_eq_zero, Int.dvd_iff_emod_eq_zero]
    by_cases h0 : p.move % 2 = 0
    · rw [h0, this.mpr h0]
    · have h1 : ¬ Int.tmod p.move 2 = 0 := fun hh => h0 (this.mp hh)
      have e1 : (Int.tmod p.move 2 == 0) = false := by simpa using h1
      have e2 : (p.move % 2 == 0) = false := by simpa using h0
      rw [e1, e2]
  rw [h]
  by_cases h0 : p.move % 2 = 0 <;> simp [h0, Color.code, Facts.colorWhite, Facts.colorBlack]

/-- `Position.countFlats` -/
theorem countFlats_is_source (p : Pos) :
    ((p.countFlats.1 : Int), (p.countFlats.2 : Int)) = Gen.positionCountFlats p.black p.caps p.standing p.white := by
  simp [Pos.countFlats, Gen.positionCountFlats, popcount_is_source]

/-- `Position.flatsWinner` -/
theorem flatsWinner_is_source (p : Pos) :
    colorByte p.flatsWinner = Gen.positionFlatsWinner p.black p.caps p.standing p.white p.cfg.blackWinsTies := by
  unfold Gen.positionFlatsWinner Pos.flatsWinner
  rw [← countFlats_is_source]
  generalize p.countFlats = cf
  obtain ⟨cw, cb⟩ := cf
  simp only []
  by_cases h1 : cw > cb
  · have : (cw : Int) > cb := by omega
    simp [h1, this, colorByte, Color.code, Facts.colorWhite]
  · by_cases h2 : cb > cw
    · have a : ¬ (cw : Int) > cb := by omega
      have b : (cb : Int) > cw := by omega
      simp [h1, h2, a, b, colorByte, Color.code, Facts.colorBlack]
    · have a : ¬ (cw : Int) > cb := by omega
      have b : ¬ (cb : Int) > cw := by omega
      cases p.cfg.blackWinsTies <;> simp [h1, h2, a, b, colorByte, Color.code, Facts.colorBlack]

/-- `Position.GameOver`: the model's decision (road first, then "a player is out of pieces or the board is full",
then the flat count) is the regenerated function applied to the fields of the position and to the model's `hasRoad` -/
theorem gameOver_is_source (p : Pos) :
    (p.gameOver.1, colorByte p.gameOver.2) =
      Gen.positionGameOver p.black p.caps p.standing p.white p.blackCaps p.blackStones p.cfg.blackWinsTies p.c.Mask
        (colorByte p.hasRoad.1, p.hasRoad.2) p.whiteCaps p.whiteStones := by
  unfold Gen.positionGameOver Pos.gameOver
  rw [← flatsWinner_is_source]
  generalize p.hasRoad = hr
  obtain ⟨col, ok⟩ := hr
  cases ok
  · simp only []
    by_cases hc : ((p.whiteStones != 0#8 || p.whiteCaps != 0#8) && (p.blackStones != 0#8 || p.blackCaps != 0#8) &&
        (p.white ||| p.black) != p.c.Mask) = true
    · simp only [hc, if_true]; simp [colorByte, Color.code]
    · simp only [hc]; simp
  · simp

example : Gen.positionGameOver 0#64 0#64 0#64 0x1ff#64 0#8 5#8 false 0x1ff#64 (128#8, false) 0#8 1#8 = (true, 128#8) := by decide

end C02
