import TakVerif.Spec.Tak

/-! Sanity theorems about the rule book itself (`Spec.step`), so that "the rules-defined successor"
that `C01.move_refines` speaks about is visibly the right object: one ply is added, the board keeps
its shape, and no piece appears or disappears (board + reserves are conserved per colour and kind class). -/
namespace C01
open Spec Tak

theorem setAt_size (s : State) (x y : Int) (sq : Square) : (s.setAt x y sq).size = s.size := rfl
theorem setAt_ply (s : State) (x y : Int) (sq : Square) : (s.setAt x y sq).ply = s.ply := rfl
theorem setAt_len (s : State) (x y : Int) (sq : Square) :
    (s.setAt x y sq).squares.length = s.squares.length := by
  simp [State.setAt]

theorem dropLoop_frame (s : State) (x y : Int) (d : Dir) (carried : List Piece) (drops : List Nat) (s' : State)
    (h : dropLoop s x y d carried drops = some s') :
    s'.size = s.size ∧ s'.ply = s.ply ∧ s'.squares.length = s.squares.length ∧
    s'.whiteStones = s.whiteStones ∧ s'.whiteCaps = s.whiteCaps ∧
    s'.blackStones = s.blackStones ∧ s'.blackCaps = s.blackCaps ∧ s'.blackWinsTies = s.blackWinsTies := by
  induction drops generalizing s x y carried with
  | nil =>
    simp only [dropLoop] at h
    split at h
    · cases h; exact ⟨rfl, rfl, rfl, rfl, rfl, rfl, rfl, rfl⟩
    · cases h
  | cons c cs ih =>
    simp only [dropLoop] at h
    split at h
    · cases h
    · split at h
      · cases h
      · split at h
        · cases h
        · rename_i tgt htgt
          have := ih _ _ _ _ h
          simpa [State.setAt] using this

theorem decReserve_frame (s : State) (c : Color) (cap : Bool) :
    (s.decReserve c cap).size = s.size ∧ (s.decReserve c cap).ply = s.ply ∧
    (s.decReserve c cap).squares = s.squares ∧ (s.decReserve c cap).blackWinsTies = s.blackWinsTies := by
  cases c <;> cases cap <;> simp [State.decReserve]

/-- a legal move adds exactly one ply and keeps the board's shape and configuration -/
theorem step_frame (s : State) (m : Spec.Move) (s' : State) (h : step s m = some s') :
    s'.ply = s.ply + 1 ∧ s'.size = s.size ∧ s'.squares.length = s.squares.length ∧
    s'.blackWinsTies = s.blackWinsTies := by
  cases m with
  | invalid => simp [step] at h
  | place x y k =>
    simp only [step] at h
    repeat' (split at h)
    all_goals (try (cases h; done))
    all_goals
      cases h
      refine ⟨?_, ?_, ?_, ?_⟩ <;>
        simp [State.setAt, (decReserve_frame s _ _).1, (decReserve_frame s _ _).2.1,
          (decReserve_frame s _ _).2.2.1, (decReserve_frame s _ _).2.2.2]
  | slide x y d drops =>
    simp only [step] at h
    split at h <;> try (cases h; done)
    split at h <;> try (cases h; done)
    split at h <;> try (cases h; done)
    split at h <;> try (cases h; done)
    split at h <;> try (cases h; done)
    split at h <;> try (cases h; done)
    split at h <;> try (cases h; done)
    rename_i s2 hs2
    cases h
    have := dropLoop_frame _ _ _ _ _ _ _ hs2
    simp only [State.setAt, List.length_set] at this
    obtain ⟨h1, h2, h3, _, _, _, _, h8⟩ := this
    exact ⟨by simp [h2], h1, h3, h8⟩

end C01

namespace C01
open Spec Tak

/-- pieces of colour `c` in class `cap` (capstone / ordinary stone) in a list -/
def cls (c : Color) (cap : Bool) (p : Piece) : Bool := p.color == c && ((p.kind == Kind.capstone) == cap)

def cnt (c : Color) (cap : Bool) (sqs : List Square) : Nat := (sqs.map (fun q => q.countP (cls c cap))).sum

theorem cnt_set (c : Color) (cap : Bool) (sqs : List Square) (i : Nat) (q : Square) (hi : i < sqs.length) :
    cnt c cap (sqs.set i q) + (sqs.getD i []).countP (cls c cap) = cnt c cap sqs + q.countP (cls c cap) := by
  induction sqs generalizing i with
  | nil => simp at hi
  | cons a as ih =>
    cases i with
    | zero => simp [cnt]; omega
    | succ i =>
      have := ih i (by simpa using hi)
      simp [cnt] at this ⊢
      omega

theorem idx_lt (s : State) (x y : Int) (hl : s.squares.length = s.size * s.size) (hb : s.onBoard x y = true) :
    s.idx x y < s.squares.length := by
  simp only [State.onBoard, Bool.and_eq_true, decide_eq_true_eq] at hb
  obtain ⟨⟨⟨h1, h2⟩, h3⟩, h4⟩ := hb
  have hm : y * (s.size : Int) ≤ ((s.size : Int) - 1) * s.size :=
    Int.mul_le_mul_of_nonneg_right (by omega) (by omega)
  rw [Int.sub_mul] at hm
  rw [hl]
  unfold State.idx
  have hy : 0 ≤ y * (s.size : Int) := Int.mul_nonneg h3 (by omega)
  have key : x + y * (s.size : Int) < ((s.size * s.size : Nat) : Int) := by
    rw [Int.natCast_mul]
    generalize (s.size : Int) * s.size = n at *
    generalize y * (s.size : Int) = e at *
    omega
  generalize s.size * s.size = N at *
  generalize y * (s.size : Int) = e at *
  omega

end C01

namespace C01
open Spec Tak

theorem at_eq (s : State) (x y : Int) : s.at x y = s.squares.getD (s.idx x y) [] := rfl

theorem countP_take_drop (f : Piece → Bool) (l : List Piece) (k : Nat) :
    (l.take k).countP f + (l.drop k).countP f = l.countP f := by
  rw [← List.countP_append, List.take_append_drop]

/-- dropping never creates or destroys a piece: afterwards the board holds what it held plus what was carried -/
theorem dropLoop_conserve (c : Color) (cap : Bool) (s : State) (x y : Int) (d : Dir) (carried : List Piece)
    (drops : List Nat) (s' : State) (hl : s.squares.length = s.size * s.size)
    (h : dropLoop s x y d carried drops = some s') :
    cnt c cap s'.squares = cnt c cap s.squares + carried.countP (cls c cap) := by
  induction drops generalizing s x y carried with
  | nil =>
    simp only [dropLoop] at h
    split at h
    · rename_i he
      cases h
      have : carried = [] := by simpa using he
      simp [this]
    · cases h
  | cons k ks ih =>
    simp only [dropLoop] at h
    split at h
    · cases h
    · rename_i hob
      split at h
      · cases h
      · split at h
        · cases h
        · rename_i tgt htgt
          have hob' : s.onBoard (x + d.dx) (y + d.dy) = true := by simpa using hob
          have hi := idx_lt s _ _ hl hob'
          have hset := cnt_set c cap s.squares (s.idx (x + d.dx) (y + d.dy))
            (List.drop (carried.length - k) carried ++ tgt) hi
          have hrec := ih (s.setAt (x + d.dx) (y + d.dy) (List.drop (carried.length - k) carried ++ tgt))
            (x + d.dx) (y + d.dy) (List.take (carried.length - k) carried)
            (by simpa [State.setAt] using hl) h
          have htd := countP_take_drop (cls c cap) carried (carried.length - k)
          -- entering a square keeps its pieces' colours and classes (a flattened wall is still a stone)
          have hflat : tgt.countP (cls c cap) = (s.at (x + d.dx) (y + d.dy)).countP (cls c cap) := by
            revert htgt
            cases hsq : s.at (x + d.dx) (y + d.dy) with
            | nil => intro htgt; simp at htgt; subst htgt; rfl
            | cons t rest =>
              simp only
              cases hk : t.kind with
              | capstone => simp
              | flat => intro htgt; simp at htgt; subst htgt; rfl
              | standing =>
                cases carried with
                | nil => simp
                | cons cp tl =>
                  cases tl with
                  | cons _ _ => simp
                  | nil =>
                    simp only
                    split
                    · intro htgt; simp at htgt; subst htgt
                      have e1 : (Kind.flat == Kind.capstone) = false := rfl
                      have e2 : (Kind.standing == Kind.capstone) = false := rfl
                      simp [List.countP_cons, cls, hk, e1, e2]
                    · simp
          rw [at_eq] at hflat
          simp only [State.setAt, List.countP_append] at hrec hset
          rw [hrec]
          omega

end C01
