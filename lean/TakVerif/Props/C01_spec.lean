import TakVerif.Proofs.SpecConserve

/-! Sanity theorems about the rule book itself (`Spec.step`), so that "the rules-defined successor" that
`C01.move_refines` speaks about is visibly the right object. Helper lemmas: `Proofs/SpecConserve.lean`. -/
namespace C01
open Spec Tak SpecProofs

/-- a legal move adds exactly one ply and keeps the board's shape and configuration -/
theorem step_frame (s : State) (m : Spec.Move) (s' : State) (h : step s m = some s') :
    s'.ply = s.ply + 1 ∧ s'.size = s.size ∧ s'.squares.length = s.squares.length ∧
    s'.blackWinsTies = s.blackWinsTies := SpecProofs.step_frame s m s' h

/-- **no piece appears or disappears**: a legal move conserves, for each colour, the number of ordinary stones
(flats + walls; a flattened wall stays a stone) and of capstones, counted over board + reserve -/
theorem step_conserves (s : State) (m : Spec.Move) (s' : State) (c : Color) (cap : Bool)
    (hl : s.squares.length = s.size * s.size) (h : step s m = some s') :
    total c cap s' = total c cap s := SpecProofs.step_conserves s m s' c cap hl h

/-- non-vacuity: a 3×3 game with two placements, a flat on a flat, and a two-piece slide all pass through `step` -/
def s0 : State := { size := 3, blackWinsTies := false, squares := List.replicate 9 [], ply := 0,
                    whiteStones := 10, whiteCaps := 0, blackStones := 10, blackCaps := 0 }

def play (s : State) : List Spec.Move → Option State
  | [] => some s
  | m :: ms => (step s m).bind (fun s' => play s' ms)

def demoLine : List Spec.Move :=
  [.place 0 0 .flat, .place 2 2 .flat, .place 1 0 .flat, .place 1 1 .standing,
   .slide 1 0 .left [1], .place 2 0 .flat, .slide 0 0 .up [1, 1]]

example : (play s0 demoLine).isSome = true := by decide
example : s0.squares.length = s0.size * s0.size := by decide
example : ((play s0 demoLine).map (total Color.white false)) = some (total Color.white false s0) := by decide
example : ((play s0 demoLine).map (·.ply)) = some 7 := by decide

end C01
