import TakVerif.Proofs.TakGameInst
import TakVerif.Proofs.TakGameBisimTak

/-! # C05 for the Tak instance — no hypothesis left about "the game"

`Props/C05.lean` proves the search theorems for an abstract `Search.Game` under `GameOK`, `EvalBounded`/`EvalOK`,
`Live`, `HashInj`.  Here they are stated for the real instance `Search.takGame basis ev sym` (the model of the calls
`ai/minimax.go` makes on a `*tak.Position`, tied to the Go code by the C04/C05/C16 correspondence), with
hypotheses about the analysed **position** and the **engine state** only:

* `Search.GoodPos basis p`: C01's invariant `WF`, at most 64 pieces in the game, the opening-reserve condition
  `OpenOK`, analysed group lists.  True of the start position of every default 3×3 … 6×6 game
  (`Search.goodPos_new`) and kept by every applied move, so true of every position reached by play
  (`Search.goodPos_reachable`).
* ply + 15 ≤ 2·10^6 where the evaluator's full range matters (C18: beyond that the terminal scores of the real
  evaluator leave `[MinEval, MaxEval]`), `Cfg.Depth ≤ 15` (= `maxDepth`, the length of `ai.stack`).
* `Search.EngGood Search.IMt s`: no **pass move** among the hints of the engine state (table moves, response map,
  PV buffers).  `MovePreallocated` accepts a pass although `AllMoves` never generates one, so with a pass among the
  hints the search would play it and `pvSearch ≠ negamax`; a new engine has none (`Search.engGood_new`) and every
  `Analyze`/`GetMove`/`AnalyzeAll` call keeps it so (part of each postcondition below).
* the evaluator: `Search.EvBounded basis ev` / `Search.EvInside basis ev` — proved for the three evaluators the engine
  and the correspondence use (`evBounded_default`: `ai.MakeEvaluator(size, nil)`, `evBounded_winner`:
  `EvaluateWinner`, `evBounded_mat`: the harness's material evaluator), from C18.

How: `Search.Game.restrict` (the game on the domain), `Search.analyze_sim` (the search cannot tell it from the raw
instance), C03 (`allMoves_complete_engine`) for `GameOK`, C01 for the closure of the domain, C02/C01 for liveness
(`Tak.tak_has_move`), C18 for the evaluators.  `Precise`, `NoCancel`, `OrderOK` are as in `Props/C05.lean`. -/
namespace C05
open Search Tak

/-- **`Analyze` is exact on Tak** (no table, precise options, any move order, any stale non-pass hints): for a good,
unfinished position the call reports a depth `d ∈ 1..Cfg.Depth`, is not marked cancelled, its value is the negamax
value of the position at depth `d` — over the legal moves `AllMoves` generates and `MovePreallocated` accepts, with
`ev` at the horizon and at finished games — and the first PV move is accepted by `MovePreallocated` and attains it. -/
theorem analyze_exact_tak (basis : Array W) (ev : Pos → Int) (sym : Pos → List H) (hev : EvBounded basis ev)
    {cfg : Search.Cfg} (hpr : Precise cfg.opts) {o : Oracle Move} (hnc : NoCancel o) (hord : OrderOK o)
    (p : Pos) (hp : GoodPos basis p) (hply : p.move + 15 ≤ 2000000) (hov : p.gameOver.1 = false)
    (hdepth : 1 ≤ cfg.depth) (hdmax : cfg.depth ≤ 15)
    (s : Eng Move) (hs : s.hasTable = false) (hgood : EngGood IMt s) :
    Sat (analyze (takGame basis ev sym) cfg o p s) (fun x =>
      let ms := x.1.1; let v := x.1.2.1; let st := x.1.2.2
      x.2.hasTable = false ∧ st.canceled = false ∧ 1 ≤ st.depth ∧ st.depth ≤ cfg.depth ∧
      v = negamax (takGame basis ev sym) st.depth.toNat p ∧
      (∃ m rest c, ms = m :: rest ∧ p.apply basis m = .ok c ∧
        v = -(negamax (takGame basis ev sym) (st.depth.toNat - 1) c)) ∧
      EngGood IMt x.2 ∧ ∀ m ∈ ms, m.type ≠ Facts.mtPass) :=
  analyze_exact_restr (takRestr basis ev sym TakD (some 2000000) (domClosed_takD basis))
    (takRestrOK basis ev sym TakD (some 2000000)) (tak_evBounded basis ev sym TakD (fun _ h => h) hev)
    (tak_live basis ev sym TakD (some 2000000) (fun _ h => h)) hpr hnc hord p
    (goodPos_rank basis hp (by have : Facts.maxDepth = 15 := rfl; omega)) hov hdepth
    (by have : Facts.maxDepth = 15 := rfl; omega) s hs hgood

/-- **`AnalyzeAll` on Tak lists exactly the first moves that attain the value** (setting of `analyze_exact_tak`); no
listed line starts with the pass -/
theorem analyzeAll_exact_tak (basis : Array W) (ev : Pos → Int) (sym : Pos → List H) (hev : EvBounded basis ev)
    {cfg : Search.Cfg} (hpr : Precise cfg.opts) {o : Oracle Move} (hnc : NoCancel o) (hord : OrderOK o)
    (p : Pos) (hp : GoodPos basis p) (hply : p.move + 15 ≤ 2000000) (hov : p.gameOver.1 = false)
    (hdepth : 1 ≤ cfg.depth) (hdmax : cfg.depth ≤ 15)
    (s : Eng Move) (hs : s.hasTable = false) (hgood : EngGood IMt s) :
    Sat (analyzeAll (takGame basis ev sym) cfg o p s) (fun x =>
      let lines := x.1.1; let v := x.1.2.1; let st := x.1.2.2
      1 ≤ st.depth ∧ st.depth ≤ cfg.depth ∧
      v = negamax (takGame basis ev sym) st.depth.toNat p ∧
      (∀ line ∈ lines, ∃ m rest c, line = m :: rest ∧ m.type ≠ Facts.mtPass ∧ p.apply basis m = .ok c ∧
        v = -(negamax (takGame basis ev sym) (st.depth.toNat - 1) c)) ∧
      (∀ m ∈ p.allMoves, ∀ c, p.apply basis m = .ok c →
        v = -(negamax (takGame basis ev sym) (st.depth.toNat - 1) c) →
        ∃ line ∈ lines, ∃ m' rest, line = m' :: rest ∧ p.apply basis m' = .ok c) ∧ EngGood IMt x.2) :=
  analyzeAll_exact_restr (takRestr basis ev sym TakD (some 2000000) (domClosed_takD basis))
    (takRestrOK basis ev sym TakD (some 2000000)) (tak_evBounded basis ev sym TakD (fun _ h => h) hev)
    (tak_live basis ev sym TakD (some 2000000) (fun _ h => h)) hpr hnc hord p
    (goodPos_rank basis hp (by have : Facts.maxDepth = 15 := rfl; omega)) hov hdepth
    (by have : Facts.maxDepth = 15 := rfl; omega) s hs hgood

/-- **`verdict_complete_no_table` on Tak**: a forced result within the reported depth is reported -/
theorem verdict_complete_no_table_tak (basis : Array W) (ev : Pos → Int) (sym : Pos → List H)
    (hev : EvBounded basis ev)
    {cfg : Search.Cfg} (hpr : Precise cfg.opts) {o : Oracle Move} (hnc : NoCancel o) (hord : OrderOK o)
    (p : Pos) (hp : GoodPos basis p) (hply : p.move + 15 ≤ 2000000) (hov : p.gameOver.1 = false)
    (hdepth : 1 ≤ cfg.depth) (hdmax : cfg.depth ≤ 15)
    (s : Eng Move) (hs : s.hasTable = false) (hgood : EngGood IMt s) :
    Sat (analyze (takGame basis ev sym) cfg o p s) (fun x =>
      (negamax (takGame basis ev sym) x.1.2.2.depth.toNat p > Facts.winThreshold → x.1.2.1 > Facts.winThreshold) ∧
      (negamax (takGame basis ev sym) x.1.2.2.depth.toNat p < -Facts.winThreshold →
        x.1.2.1 < -Facts.winThreshold)) := by
  refine (analyze_exact_tak basis ev sym hev hpr hnc hord p hp hply hov hdepth hdmax s hs hgood).mono ?_
  rintro x ⟨_, _, _, _, hv, _⟩
  rw [hv]
  exact ⟨id, id⟩

/-! ## with a transposition table

The table theorems need the `NoCollision` hypothesis.  For Tak it cannot be `HashInj` ("equal hashes, equal
positions"): `Position.Hash` ignores the ply counter, so a position and the same board four reversible plies later
collide by design.  The generic theorems were therefore weakened to `Search.HashOK` (equal hashes ⇒ the same
three-valued negamax class at every depth); on a domain: `Search.HashOKOn`.

* `TakHashOK basis ev sym D`: `HashOKOn` on the good positions satisfying `D` — a *semantic* hypothesis;
  `verdict_sound_tak_partial`, `verdict_complete_tak_partial` are stated with it, for every evaluator that is not decisive
  on unfinished positions and every move-closed `D`.
* the hypothesis the property names — among the positions of the game played from a good `root`
  (`Search.InGame basis root`), equal hashes ⇒ `Pos.equal` (same board, same side to move) — suffices for evaluators
  whose verdict class depends on the game end and the side to move only (`Search.EvVerdictCongr`; `EvaluateWinner`:
  `evVerdictCongr_winner`): `verdict_sound_tak`, `verdict_complete_tak`.  This rests on
  `C06.takGame_equalIsBisimFrom` (`Position.Equal` is a bisimulation on the positions of one game: positions that differ
  in the ply counter only have `Equal` successors and the same game end) and `Search.negamax_cls_congr`.
  **Not covered**: `MakeEvaluator(size, nil)` and the material evaluator in these two theorems — their terminal scores
  depend on the ply counter, so beyond ply 2·10^6 two `Equal` positions need not have evaluations of the same class
  (C18 `terminal_beyond_bound`), and a move-closed domain cannot bound the ply; for them the `_partial` forms apply. -/

/-- **`verdict_sound` on Tak** (partial: the semantic `TakHashOK` instead of a hypothesis about hashes alone): any history of `Analyze` calls on
one engine starting new — any good positions of `D`, any table size or none, every call with its own move order and
cancellation pattern — in a precise configuration: every reported value above `WinThreshold` is a forced win of the
analysed position (some negamax value over the real legal moves is above the threshold), every value below
`-WinThreshold` a forced loss; and the engine ends without pass hints. -/
theorem verdict_sound_tak_partial (basis : Array W) (ev : Pos → Int) (sym : Pos → List H) (hev : EvInside basis ev)
    (D : Pos → Prop) (hD : DomClosed basis D) (hDt : ∀ q, D q → TakD q) (hcol : TakHashOK basis ev sym D)
    {cfg : Search.Cfg} (hpr : Precise cfg.opts) (h : History Pos Move)
    (hh : ∀ x ∈ h, OrderOK x.2 ∧ TakDom basis D x.1) :
    Sat (runCalls (takGame basis ev sym) cfg h (Eng.new (takGame basis ev sym) cfg)) (fun x =>
      EngGood IMt x.2 ∧
      ∀ y ∈ x.1, (y.2 > Facts.winThreshold → Win (takGame basis ev sym) y.1) ∧
                 (y.2 < -Facts.winThreshold → Loss (takGame basis ev sym) y.1)) :=
  verdict_sound_restr (takRestr basis ev sym D none hD) (takRestrOK basis ev sym D none)
    (tak_evInside basis ev sym D none hDt hev) (tak_live basis ev sym D none hDt)
    (fun _ _ _ hp => takS_none_rank basis D hp) (takHashOK_dom hcol) hpr h
    (fun x hx => ⟨(hh x hx).1, (takS_none_iff basis D 0 x.1).mpr (hh x hx).2⟩)

/-- **`verdict_complete` on Tak** (partial, as above): after any such history (cancel flags monotone), an uncancelled
`Analyze` of an unfinished good position of `D` reports every forced win / loss that exists within the depth it
reports -/
theorem verdict_complete_tak_partial (basis : Array W) (ev : Pos → Int) (sym : Pos → List H)
    (hev : EvInside basis ev)
    (D : Pos → Prop) (hD : DomClosed basis D) (hDt : ∀ q, D q → TakD q) (hcol : TakHashOK basis ev sym D)
    {cfg : Search.Cfg} (hpr : Precise cfg.opts) (h : History Pos Move)
    (hh : ∀ x ∈ h, OrderOK x.2 ∧ TakDom basis D x.1) (hmono : ∀ x ∈ h, x.2.Monotone)
    (p : Pos) (hp : TakDom basis D p) (hov : p.gameOver.1 = false) {o : Oracle Move} (hnc : NoCancel o)
    (hord' : OrderOK o) (rs : List (Pos × Int)) (s : Eng Move) (r : List Move × Int × Stats) (s' : Eng Move)
    (h1 : runCalls (takGame basis ev sym) cfg h (Eng.new (takGame basis ev sym) cfg) = .ok (rs, s))
    (h2 : analyze (takGame basis ev sym) cfg o p s = .ok (r, s')) :
    (negamax (takGame basis ev sym) r.2.2.depth.toNat p > Facts.winThreshold → r.2.1 > Facts.winThreshold) ∧
    (negamax (takGame basis ev sym) r.2.2.depth.toNat p < -Facts.winThreshold → r.2.1 < -Facts.winThreshold) :=
  verdict_complete_restr (takRestr basis ev sym D none hD) (takRestrOK basis ev sym D none)
    (tak_evInside basis ev sym D none hDt hev) (tak_live basis ev sym D none hDt)
    (fun _ _ _ hp => takS_none_rank basis D hp) (takHashOK_dom hcol) hpr h
    (fun x hx => ⟨(hh x hx).1, (takS_none_iff basis D 0 x.1).mpr (hh x hx).2⟩) hmono p
    ((takS_none_iff basis D 0 p).mpr hp) hov hnc hord' rs s r s' h1 h2

/-- **`verdict_sound` on Tak**, hypotheses about hashes and positions only: `root` a good position (e.g. a start
position), every analysed position a position of the game from `root`, and no collision among those positions in the
property's sense (equal hashes ⇒ same board and side to move).  Then, for every evaluator whose verdict depends on game end
and mover only and that is not decisive on unfinished positions (`EvaluateWinner`), any history of `Analyze` calls on one
engine starting new, any table size, each call with its own move order and cancellation pattern, in a precise
configuration: every reported value beyond `±WinThreshold` is a real forced win / loss. -/
theorem verdict_sound_tak (basis : Array W) (ev : Pos → Int) (sym : Pos → List H) (hev : EvInside basis ev)
    (hevc : EvVerdictCongr ev) (root : Pos) (hroot : GoodPos basis root)
    (hcol : ∀ p q, InGame basis root p → InGame basis root q → p.hashOf = q.hashOf → p.equal q = true)
    {cfg : Search.Cfg} (hpr : Precise cfg.opts) (h : History Pos Move)
    (hh : ∀ x ∈ h, OrderOK x.2 ∧ InGame basis root x.1) :
    Sat (runCalls (takGame basis ev sym) cfg h (Eng.new (takGame basis ev sym) cfg)) (fun x =>
      EngGood IMt x.2 ∧
      ∀ y ∈ x.1, (y.2 > Facts.winThreshold → Win (takGame basis ev sym) y.1) ∧
                 (y.2 < -Facts.winThreshold → Loss (takGame basis ev sym) y.1)) :=
  verdict_sound_tak_partial basis ev sym hev (fun q => TakD q ∧ InGame basis root q) (domClosed_inGame basis root)
    (fun _ h => h.1) (hashOKOn_of_noCollision basis ev sym hevc root hroot hcol) hpr h
    (fun x hx => ⟨(hh x hx).1, (goodPos_inGame basis hroot (hh x hx).2).1,
      (goodPos_inGame basis hroot (hh x hx).2).2, (hh x hx).2⟩)

/-- **`verdict_complete` on Tak**, hypotheses as in `verdict_sound_tak` -/
theorem verdict_complete_tak (basis : Array W) (ev : Pos → Int) (sym : Pos → List H) (hev : EvInside basis ev)
    (hevc : EvVerdictCongr ev) (root : Pos) (hroot : GoodPos basis root)
    (hcol : ∀ p q, InGame basis root p → InGame basis root q → p.hashOf = q.hashOf → p.equal q = true)
    {cfg : Search.Cfg} (hpr : Precise cfg.opts) (h : History Pos Move)
    (hh : ∀ x ∈ h, OrderOK x.2 ∧ InGame basis root x.1) (hmono : ∀ x ∈ h, x.2.Monotone)
    (p : Pos) (hp : InGame basis root p) (hov : p.gameOver.1 = false) {o : Oracle Move} (hnc : NoCancel o)
    (hord' : OrderOK o) (rs : List (Pos × Int)) (s : Eng Move) (r : List Move × Int × Stats) (s' : Eng Move)
    (h1 : runCalls (takGame basis ev sym) cfg h (Eng.new (takGame basis ev sym) cfg) = .ok (rs, s))
    (h2 : analyze (takGame basis ev sym) cfg o p s = .ok (r, s')) :
    (negamax (takGame basis ev sym) r.2.2.depth.toNat p > Facts.winThreshold → r.2.1 > Facts.winThreshold) ∧
    (negamax (takGame basis ev sym) r.2.2.depth.toNat p < -Facts.winThreshold → r.2.1 < -Facts.winThreshold) :=
  verdict_complete_tak_partial basis ev sym hev (fun q => TakD q ∧ InGame basis root q) (domClosed_inGame basis root)
    (fun _ h => h.1) (hashOKOn_of_noCollision basis ev sym hevc root hroot hcol) hpr h
    (fun x hx => ⟨(hh x hx).1, (goodPos_inGame basis hroot (hh x hx).2).1,
      (goodPos_inGame basis hroot (hh x hx).2).2, (hh x hx).2⟩) hmono p
    ⟨(goodPos_inGame basis hroot hp).1, (goodPos_inGame basis hroot hp).2, hp⟩ hov hnc hord' rs s r s' h1 h2

/-! ### a concrete 3×3 instance (everything evaluated by the kernel) -/

namespace ExTak

def basis : Array W := Array.replicate 64 0#64
def start : Pos := match Pos.new ⟨3, 0, 0, false⟩ with | .ok p => p | .error _ => default
/-- a1 (a black flat, placed by White), c3 (a white flat, placed by Black), then White b3, Black b1 -/
def moves : List Move :=
  [⟨0, 0, Facts.mtPlaceFlat, 0⟩, ⟨2, 2, Facts.mtPlaceFlat, 0⟩, ⟨1, 2, Facts.mtPlaceFlat, 0⟩, ⟨1, 0, Facts.mtPlaceFlat, 0⟩]
/-- 3×3 after a1 c3 b3 b1: White (flats on b3, c3) to move wins by a3 -/
def mid : Pos := match start.applyAll basis moves with | .ok p => p | .error _ => default
def cfg : Search.Cfg := { depth := 3, opts := { noSort := true, noNullMove := true, noReduceSlides := true } }

theorem start_ok : Pos.new ⟨3, 0, 0, false⟩ = .ok start := rfl
theorem mid_ok : start.applyAll basis moves = .ok mid := by
  have hb : (start.applyAll basis moves).toBool = true := by decide +kernel
  unfold mid
  cases h : start.applyAll basis moves with
  | ok p => rfl
  | error e => rw [h] at hb; cases hb
theorem mid_good : GoodPos basis mid :=
  goodPos_reachable basis moves start mid (goodPos_new basis 3 false start (by decide) start_ok) (by decide) mid_ok

end ExTak

/-- all hypotheses of `analyze_exact_tak` hold of the 3×3 position after a1 c3 b3 b1 with a new engine … -/
example : EvBounded ExTak.basis evalWinner ∧ Precise ExTak.cfg.opts ∧ NoCancel (Oracle.quiet : Oracle Move) ∧
    OrderOK (Oracle.quiet : Oracle Move) ∧ GoodPos ExTak.basis ExTak.mid ∧ ExTak.mid.move + 15 ≤ 2000000 ∧
    ExTak.mid.gameOver.1 = false ∧ (Eng.new (takGame ExTak.basis evalWinner) ExTak.cfg).hasTable = false ∧
    EngGood IMt (Eng.new (takGame ExTak.basis evalWinner) ExTak.cfg) :=
  ⟨evBounded_winner _, ⟨rfl, rfl, rfl, rfl⟩, fun _ _ => rfl, fun _ _ _ => Iff.rfl, ExTak.mid_good, by decide +kernel,
   by decide +kernel, rfl,
   engGood_new (takRestr ExTak.basis evalWinner (fun _ => []) TakD none (domClosed_takD _)) ExTak.cfg⟩

/-- … and the model returns: White's win is found at depth 1 (value `WinBase`, PV a3) -/
example : (match analyze (takGame ExTak.basis evalWinner) ExTak.cfg Oracle.quiet ExTak.mid
      (Eng.new (takGame ExTak.basis evalWinner) ExTak.cfg) with
    | .ok ((ms, v, st), _) => some (ms, v, st.depth)
    | .error _ => none) = some ([⟨0, 2, Facts.mtPlaceFlat, 0⟩], Facts.winBase, 1) := by decide +kernel

/-- the position-side hypotheses of the table theorems hold of the same position with `D := TakD` (`DomClosed`, `D ⊆ TakD`,
`TakDom`), for the three evaluators; and a history on a 16-entry table returns in the model: the win, a cancelled call
(seeded by the root's exact entry: still the win), and the start position (nothing decided at depth 3) -/
example : DomClosed ExTak.basis TakD ∧ TakDom ExTak.basis TakD ExTak.mid ∧ TakDom ExTak.basis TakD ExTak.start ∧
    EvInside ExTak.basis evalWinner ∧ EvInside ExTak.basis evalMat ∧ EvInside ExTak.basis evalDefault ∧
    (match runCalls (takGame ExTak.basis evalWinner) { ExTak.cfg with tableEntries := some 16 }
        [(ExTak.mid, Oracle.quiet), (ExTak.mid, { Oracle.quiet with cancel := fun _ e => decide (2 ≤ e) }),
         (ExTak.start, Oracle.quiet)]
        (Eng.new (takGame ExTak.basis evalWinner) { ExTak.cfg with tableEntries := some 16 }) with
      | .ok (rs, _) => some (rs.map (fun y => y.2))
      | .error _ => none) = some [Facts.winBase, Facts.winBase, 0] :=
  ⟨domClosed_takD _, ⟨ExTak.mid_good.1, ExTak.mid_good.2⟩,
   ⟨(goodPos_new ExTak.basis 3 false ExTak.start (by decide) ExTak.start_ok).1,
    (goodPos_new ExTak.basis 3 false ExTak.start (by decide) ExTak.start_ok).2⟩,
   evInside_winner _, evInside_mat _, evInside_default _, by decide +kernel⟩

/-- the hypotheses of `verdict_sound_tak` other than the no-collision hypothesis itself hold with `root` the 3×3 start
position, the position `ExTak.mid` of that game and `EvaluateWinner` -/
example : EvInside ExTak.basis evalWinner ∧ EvVerdictCongr evalWinner ∧ GoodPos ExTak.basis ExTak.start ∧
    InGame ExTak.basis ExTak.start ExTak.start ∧ InGame ExTak.basis ExTak.start ExTak.mid :=
  ⟨evInside_winner _, evVerdictCongr_winner, goodPos_new ExTak.basis 3 false ExTak.start (by decide) ExTak.start_ok,
   .refl,
   inGame_applyAll ExTak.basis (goodPos_new ExTak.basis 3 false ExTak.start (by decide) ExTak.start_ok) ExTak.moves
     ExTak.start ExTak.mid .refl (by decide) ExTak.mid_ok⟩

end C05
