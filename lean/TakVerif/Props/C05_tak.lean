import TakVerif.Proofs.TakGameInst

/-! # C05 for the Tak instance — no hypothesis left about "the game"

`Props/C05.lean` proves the search theorems for an abstract `Search.Game` under `GameOK`, `EvalBounded`/`EvalOK`,
`Live`, `HashInj`.  Here they are stated for the real instance `Search.takGame basis ev sym` (the model of the calls
`ai/minimax.go` makes on a `*tak.Position`, tied to the Go code by the C04/C05/C16 correspondence), with
hypotheses about the analysed **position** and the **engine state** only:

* `Search.GoodPos basis p`: C01's invariant `WF`, at most 64 pieces in the game, the opening-reserve condition
  `OpenOK`, analysed group lists.  True of the start position of every default 3×3 … 6×6 game
  (`Search.goodPos_new`) and kept by every applied move, so true of every position reached by play
  (`Search.goodPos_reachable`).
* ply + 15 ≤ 2·10^6 where the evaluator's full range matters (C18: beyond that the terminal scores of the real
  evaluator leave `[MinEval, MaxEval]`), `Cfg.Depth ≤ 15` (= `maxDepth`, the length of `ai.stack`).
* `Search.EngGood Search.IMt s`: no **pass move** among the hints of the engine state (table moves, response map,
  PV buffers).  `MovePreallocated` accepts a pass although `AllMoves` never generates one, so with a pass among the
  hints the search would play it and `pvSearch ≠ negamax`; a new engine has none (`Search.engGood_new`) and every
  `Analyze`/`GetMove`/`AnalyzeAll` call keeps it so (part of each postcondition below).
* the evaluator: `Search.EvBounded basis ev` / `Search.EvInside basis ev` — proved for the three evaluators the engine
  and the correspondence use (`evBounded_default`: `ai.MakeEvaluator(size, nil)`, `evBounded_winner`:
  `EvaluateWinner`, `evBounded_mat`: the harness's material evaluator), from C18.

How: `Search.Game.restrict` (the game on the domain), `Search.analyze_sim` (the search cannot tell it from the raw
instance), C03 (`allMoves_complete_engine`) for `GameOK`, C01 for the closure of the domain, C02/C01 for liveness
(`Tak.tak_has_move`), C18 for the evaluators.  `Precise`, `NoCancel`, `OrderOK` are as in `Props/C05.lean`. -/
namespace C05
open Search Tak

/-- **`Analyze` is exact on Tak** (no table, precise options, any move order, any stale non-pass hints): for a good,
unfinished position the call reports a depth `d ∈ 1..Cfg.Depth`, is not marked cancelled, its value is the negamax
value of the position at depth `d` — over the legal moves `AllMoves` generates and `MovePreallocated` accepts, with
`ev` at the horizon and at finished games — and the first PV move is accepted by `MovePreallocated` and attains it. -/
theorem analyze_exact_tak (basis : Array W) (ev : Pos → Int) (sym : Pos → List H) (hev : EvBounded basis ev)
    {cfg : Search.Cfg} (hpr : Precise cfg.opts) {o : Oracle Move} (hnc : NoCancel o) (hord : OrderOK o)
    (p : Pos) (hp : GoodPos basis p) (hply : p.move + 15 ≤ 2000000) (hov : p.gameOver.1 = false)
    (hdepth : 1 ≤ cfg.depth) (hdmax : cfg.depth ≤ 15)
    (s : Eng Move) (hs : s.hasTable = false) (hgood : EngGood IMt s) :
    Sat (analyze (takGame basis ev sym) cfg o p s) (fun x =>
      let ms := x.1.1; let v := x.1.2.1; let st := x.1.2.2
      x.2.hasTable = false ∧ st.canceled = false ∧ 1 ≤ st.depth ∧ st.depth ≤ cfg.depth ∧
      v = negamax (takGame basis ev sym) st.depth.toNat p ∧
      (∃ m rest c, ms = m :: rest ∧ p.apply basis m = .ok c ∧
        v = -(negamax (takGame basis ev sym) (st.depth.toNat - 1) c)) ∧
      EngGood IMt x.2 ∧ ∀ m ∈ ms, m.type ≠ Facts.mtPass) :=
  analyze_exact_restr (takRestr basis ev sym TakD (some 2000000) (domClosed_takD basis))
    (takRestrOK basis ev sym TakD (some 2000000)) (tak_evBounded basis ev sym TakD (fun _ h => h) hev)
    (tak_live basis ev sym TakD (some 2000000) (fun _ h => h)) hpr hnc hord p
    (goodPos_rank basis hp (by have : Facts.maxDepth = 15 := rfl; omega)) hov hdepth
    (by have : Facts.maxDepth = 15 := rfl; omega) s hs hgood

/-- **`AnalyzeAll` on Tak lists exactly the first moves that attain the value** (setting of `analyze_exact_tak`) -/
theorem analyzeAll_exact_tak (basis : Array W) (ev : Pos → Int) (sym : Pos → List H) (hev : EvBounded basis ev)
    {cfg : Search.Cfg} (hpr : Precise cfg.opts) {o : Oracle Move} (hnc : NoCancel o) (hord : OrderOK o)
    (p : Pos) (hp : GoodPos basis p) (hply : p.move + 15 ≤ 2000000) (hov : p.gameOver.1 = false)
    (hdepth : 1 ≤ cfg.depth) (hdmax : cfg.depth ≤ 15)
    (s : Eng Move) (hs : s.hasTable = false) (hgood : EngGood IMt s) :
    Sat (analyzeAll (takGame basis ev sym) cfg o p s) (fun x =>
      let lines := x.1.1; let v := x.1.2.1; let st := x.1.2.2
      1 ≤ st.depth ∧ st.depth ≤ cfg.depth ∧
      v = negamax (takGame basis ev sym) st.depth.toNat p ∧
      (∀ line ∈ lines, ∃ m rest c, line = m :: rest ∧ p.apply basis m = .ok c ∧
        v = -(negamax (takGame basis ev sym) (st.depth.toNat - 1) c)) ∧
      (∀ m ∈ p.allMoves, ∀ c, p.apply basis m = .ok c →
        v = -(negamax (takGame basis ev sym) (st.depth.toNat - 1) c) →
        ∃ line ∈ lines, ∃ m' rest, line = m' :: rest ∧ p.apply basis m' = .ok c) ∧ EngGood IMt x.2) :=
  analyzeAll_exact_restr (takRestr basis ev sym TakD (some 2000000) (domClosed_takD basis))
    (takRestrOK basis ev sym TakD (some 2000000)) (tak_evBounded basis ev sym TakD (fun _ h => h) hev)
    (tak_live basis ev sym TakD (some 2000000) (fun _ h => h)) hpr hnc hord p
    (goodPos_rank basis hp (by have : Facts.maxDepth = 15 := rfl; omega)) hov hdepth
    (by have : Facts.maxDepth = 15 := rfl; omega) s hs hgood

/-- **`verdict_complete_no_table` on Tak**: a forced result within the reported depth is reported -/
theorem verdict_complete_no_table_tak (basis : Array W) (ev : Pos → Int) (sym : Pos → List H)
    (hev : EvBounded basis ev)
    {cfg : Search.Cfg} (hpr : Precise cfg.opts) {o : Oracle Move} (hnc : NoCancel o) (hord : OrderOK o)
    (p : Pos) (hp : GoodPos basis p) (hply : p.move + 15 ≤ 2000000) (hov : p.gameOver.1 = false)
    (hdepth : 1 ≤ cfg.depth) (hdmax : cfg.depth ≤ 15)
    (s : Eng Move) (hs : s.hasTable = false) (hgood : EngGood IMt s) :
    Sat (analyze (takGame basis ev sym) cfg o p s) (fun x =>
      (negamax (takGame basis ev sym) x.1.2.2.depth.toNat p > Facts.winThreshold → x.1.2.1 > Facts.winThreshold) ∧
      (negamax (takGame basis ev sym) x.1.2.2.depth.toNat p < -Facts.winThreshold →
        x.1.2.1 < -Facts.winThreshold)) := by
  refine (analyze_exact_tak basis ev sym hev hpr hnc hord p hp hply hov hdepth hdmax s hs hgood).mono ?_
  rintro x ⟨_, _, _, _, hv, _⟩
  rw [hv]
  exact ⟨id, id⟩

/-! ### a concrete 3×3 instance (everything evaluated by the kernel) -/

namespace ExTak

def basis : Array W := Array.replicate 64 0#64
def start : Pos := match Pos.new ⟨3, 0, 0, false⟩ with | .ok p => p | .error _ => default
/-- a1 (a black flat, placed by White), c3 (a white flat, placed by Black), then White b3, Black b1 -/
def moves : List Move :=
  [⟨0, 0, Facts.mtPlaceFlat, 0⟩, ⟨2, 2, Facts.mtPlaceFlat, 0⟩, ⟨1, 2, Facts.mtPlaceFlat, 0⟩, ⟨1, 0, Facts.mtPlaceFlat, 0⟩]
/-- 3×3 after a1 c3 b3 b1: White (flats on b3, c3) to move wins by a3 -/
def mid : Pos := match start.applyAll basis moves with | .ok p => p | .error _ => default
def cfg : Search.Cfg := { depth := 3, opts := { noSort := true, noNullMove := true, noReduceSlides := true } }

theorem start_ok : Pos.new ⟨3, 0, 0, false⟩ = .ok start := rfl
theorem mid_ok : start.applyAll basis moves = .ok mid := by
  have hb : (start.applyAll basis moves).toBool = true := by decide +kernel
  unfold mid
  cases h : start.applyAll basis moves with
  | ok p => rfl
  | error e => rw [h] at hb; cases hb
theorem mid_good : GoodPos basis mid :=
  goodPos_reachable basis moves start mid (goodPos_new basis 3 false start (by decide) start_ok) (by decide) mid_ok

end ExTak

/-- all hypotheses of `analyze_exact_tak` hold of the 3×3 position after a1 c3 b3 b1 with a new engine … -/
example : EvBounded ExTak.basis evalWinner ∧ Precise ExTak.cfg.opts ∧ NoCancel (Oracle.quiet : Oracle Move) ∧
    OrderOK (Oracle.quiet : Oracle Move) ∧ GoodPos ExTak.basis ExTak.mid ∧ ExTak.mid.move + 15 ≤ 2000000 ∧
    ExTak.mid.gameOver.1 = false ∧ (Eng.new (takGame ExTak.basis evalWinner) ExTak.cfg).hasTable = false ∧
    EngGood IMt (Eng.new (takGame ExTak.basis evalWinner) ExTak.cfg) :=
  ⟨evBounded_winner _, ⟨rfl, rfl, rfl, rfl⟩, fun _ _ => rfl, fun _ _ _ => Iff.rfl, ExTak.mid_good, by decide +kernel,
   by decide +kernel, rfl,
   engGood_new (takRestr ExTak.basis evalWinner (fun _ => []) TakD none (domClosed_takD _)) ExTak.cfg⟩

/-- … and the model returns: White's win is found at depth 1 (value `WinBase`, PV a3) -/
example : (match analyze (takGame ExTak.basis evalWinner) ExTak.cfg Oracle.quiet ExTak.mid
      (Eng.new (takGame ExTak.basis evalWinner) ExTak.cfg) with
    | .ok ((ms, v, st), _) => some (ms, v, st.depth)
    | .error _ => none) = some ([⟨0, 2, Facts.mtPlaceFlat, 0⟩], Facts.winBase, 1) := by decide +kernel

end C05
