import TakVerif.Impl.DFPN
import TakVerif.Props.C01_gen
import TakVerif.Generated.FuncsProve

set_option linter.unusedSimpArgs false

/-! Tie #1 for C06: `DFPNSolver.terminalBounds` (`prove/dfpn.go`: the proof numbers of a finished or repeated position;
calls the panicking `Color.Flip` and `Position.ToMove`, builds `proofNumbers` literals with `INFINITY`) and the flag
readers of the proof-number `node` (`prove/pn.go`: `expanded`, `andNode`, `proof`, `disproof`; `int8` bit tests) are
regenerated from the source (`Generated/FuncsProve.lean`); the model's `DFPN.terminalBounds` and `PN.Node.proof` /
`disproof` - on which `C06`'s soundness theorems rest - are proved equal to them. -/
namespace C06
open Tak

/-- the model's `proofNumbers` (UInt32 fields) as the regenerated struct -/
def genPNs (b : DFPN.PNs) : Gen.proofNumbers := { phi := b.phi.toBitVec, delta := b.delta.toBitVec }

/-- `terminalBounds(g, result)`: for any game whose side to move is read from the ply like `Position.ToMove` does
(`hmove`; for positions: `C02.toMove_is_source`), any attacker and any reported result the regenerated function does not
panic and returns the model's bounds: `(0, INFINITY)` when the (defaulted) winner is the side to move, else `(INFINITY, 0)` -/
theorem terminalBounds_is_source {S M : Type} (G : PN.Game S M) (attacker : Color) (g : S) (result : Color) (ply : Int)
    (hmove : C01.colorByte (G.toMove g) = Gen.positionToMove ply) :
    Gen.terminalBounds (C01.colorByte attacker) ply (C01.colorByte result) =
      some (genPNs (DFPN.terminalBounds G attacker g result)) := by
  unfold Gen.terminalBounds DFPN.terminalBounds
  rw [← hmove, C01.colorFlip_is_source]
  generalize G.toMove g = tm
  cases attacker <;> cases result <;> cases tm <;> decide

/-- the `flags` byte of a node whose three flags are the model's booleans (the only bits the solver ever sets) -/
def flagsOf {M : Type} (n : PN.Node M) : Int :=
  (if n.irreversible then (Facts.flagIrreversible : Int) else 0) + (if n.expanded then (Facts.flagExpanded : Int) else 0) +
    (if n.isAnd then (Facts.flagAnd : Int) else 0)

/-- `node.expanded()`, `andNode()`, `proof()`, `disproof()`: the regenerated bit tests read the model's flags, and the
regenerated selectors are the model's `proof` / `disproof` -/
theorem nodeFlags_is_source {M : Type} (n : PN.Node M) :
    Gen.nodeExpanded (flagsOf n) = n.expanded ∧ Gen.nodeAndNode (flagsOf n) = n.isAnd ∧
    Gen.nodeProof n.delta.toBitVec (flagsOf n) n.phi.toBitVec = n.proof.toBitVec ∧
    Gen.nodeDisproof n.delta.toBitVec (flagsOf n) n.phi.toBitVec = n.disproof.toBitVec := by
  unfold Gen.nodeProof Gen.nodeDisproof PN.Node.proof PN.Node.disproof
  have h : ∀ a b c : Bool,
      Gen.nodeExpanded ((if a then (Facts.flagIrreversible : Int) else 0) + (if b then (Facts.flagExpanded : Int) else 0) +
        (if c then (Facts.flagAnd : Int) else 0)) = b ∧
      Gen.nodeAndNode ((if a then (Facts.flagIrreversible : Int) else 0) + (if b then (Facts.flagExpanded : Int) else 0) +
        (if c then (Facts.flagAnd : Int) else 0)) = c := by decide
  obtain ⟨h1, h2⟩ := h n.irreversible n.expanded n.isAnd
  unfold flagsOf
  rw [h1, h2]
  cases n.isAnd <;> simp

example : Gen.terminalBounds 128#8 3 0#8 = some { phi := 0#32, delta := 1073741824#32 } ∧
    Gen.terminalBounds 128#8 3 128#8 = some { phi := 1073741824#32, delta := 0#32 } ∧
    Gen.terminalBounds 1#8 3 0#8 = none := by decide
example : Gen.nodeProof 9#32 6 5#32 = 9#32 ∧ Gen.nodeProof 9#32 3 5#32 = 5#32 ∧ Gen.nodeExpanded (-126) = true := by decide

end C06
