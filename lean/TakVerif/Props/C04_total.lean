import TakVerif.Proofs.SearchTotalTak
import TakVerif.Props.C04_tak

/-! # C04 / C05 / C16 — TOTALITY of the alpha-beta model on Tak

Every other theorem about `Search.getMove` / `analyze` / `analyzeAll` is partial correctness ("if the call returns
`.ok` …").  Here: **the call returns**.  The model has these `.error` exits (each a Go panic of `ai/minimax.go` /
`ai/moves.go`): `ai.stack[ply]` beyond `maxDepth` (also: the model's recursion fuel), `stack[ply].m` / `stack[ply].pv`
/ `stack[ply-1].m` out of range, `ttGet`/`ttPut` on an empty table (integer divide by zero) or out of range, `best[0]`
of an empty `best`, a panic (or flood-fuel `hang`) inside `MovePreallocated` on a hint / generated move / the null
move, `Dest: bad type` / `Height[i]` out of range in the slide-reduction test, `rand.Int63n` with a non-positive
argument.  **None is reachable** from an engine state satisfying `EngTak n` on a position of board size `n ≤ 8` whose
`Height` array has `n²` elements (in particular every `WF` / `GoodPos` position), when `Cfg.Depth ≤ maxDepth` — for
every option combination (sorting, null move, slide reduction, multi-cut, symmetry de-duplication, `MaxEvals`,
randomisation with any window/scale), every cancel oracle, every random stream, every evaluator and symmetry-hash
function, **with and without a table** (any non-zero number of entries, any content satisfying the invariant, hash
collisions included).

**The invariant** `EngTak n` (`Search.EngT (QTak n)`): every move value the engine holds — table entries, response map,
`stack[i].pv[0]`, `stack[i].m` — is the zero move, the null-move pass or a move on the `n×n` board (`Proofs.OnBoard`:
what `AllMoves` generates); both per-ply arrays have `maxDepth` elements; table entries are at most `maxDepth` deep;
a table that exists is not empty; `st.Depth ≤ maxDepth`.  It holds of `NewMinimax` for every configuration whose table
is absent or non-empty (`engTak_new`) and is **kept by every call** (second conjunct of each theorem), so it holds in
every state an engine reaches when used on one board size.

**What is assumed, exactly** (each is necessary — see the counterexamples below):
* `cfg.depth ≤ maxDepth` (15).  `NewMinimax` maps `Depth = 0` to `maxDepth` but does not clamp a larger value: with
  `Depth = 16` the 16th nested `pvSearch` indexes `ai.stack[15]` — index out of range.
* `cfg.tableEntries ≠ some 0` for the *new* engine.  `TableMem ∈ 1..31` makes `NewMinimax` allocate
  `make([]tableEntry, 0)`, which is not `nil`, so `ttGet` computes `h % 0` — integer divide by zero
  (`empty_table_panics`).
* the position has the engine's board size (`Analyze` panics with "wrong size" otherwise – not part of the model; here:
  the invariant is indexed by `n`), `len(p.Height) = n²`, `n ≤ 8`.
* the sort oracle returns moves of the list it was given (`OrderSub`).
`EngOK … FromGen … SizeOK` (the invariant of `C04_pv`/`C07_compose`) alone is NOT enough: it does not constrain the
array lengths (`engOK_not_enough`). -/
namespace C04
open Search Tak

/-- **the engine-state invariant of the totality theorems**, for an engine used on `n×n` boards -/
def EngTak (n : Nat) (s : Eng Move) : Prop := EngT (QTak n) s

/-- `NewMinimax` establishes it: every configuration without a table or with a non-empty one, any depth, any options -/
theorem engTak_new (basis : Array W) (ev : Pos → Int) (sym : Pos → List H) (n : Nat) (cfg : Search.Cfg)
    (ht : cfg.tableEntries ≠ some 0) : EngTak n (Eng.new (takGame basis ev sym) cfg) :=
  engT_new (takGame basis ev sym) (Or.inl rfl) cfg ht

/-- well-formed positions (C01's invariant), hence all `GoodPos` positions, are positions of `NTak` -/
theorem nTak_of_wf {basis : Array W} {p : Pos} (h : WF basis p) : NTak p.cfg.size p := ⟨rfl, h.height_size⟩

theorem nTak_of_goodPos {basis : Array W} {p : Pos} (h : GoodPos basis p) : NTak p.cfg.size p := nTak_of_wf h.1.1

/-- **`getMove_total_tak`** — `GetMove` returns: from every `EngTak n` state, on every position of board size `n ≤ 8`
with `len(Height) = n²`, for `Depth ≤ 15`: every option combination, cancel oracle, random stream, evaluator, with or
without a table.  The state it leaves is `EngTak n` again and the move is the zero move or on the board. -/
theorem getMove_total_tak (basis : Array W) (ev : Pos → Int) (sym : Pos → List H) (n : Nat) (h8 : n ≤ 8)
    (cfg : Search.Cfg) (hcfg : cfg.depth ≤ 15) {o : Oracle Move} (ho : OrderSub o)
    (p : Pos) (hp : NTak n p) (s : Eng Move) (hs : EngTak n s) :
    ∃ m s', getMove (takGame basis ev sym) cfg o p s = .ok (m, s') ∧ EngTak n s' ∧ QTak n m := by
  obtain ⟨⟨m, s'⟩, hr, h1, h2⟩ := getMove_t (tGame_tak basis ev sym n h8 ho) cfg hcfg p hp (Or.inl rfl) s hs
  exact ⟨m, s', hr, h1, h2⟩

/-- **`analyze_total_tak`** — `Analyze` returns, same hypotheses; the PV consists of on-board moves (or the zero move /
pass hints of the state) and the reported depth is at most `maxDepth` -/
theorem analyze_total_tak (basis : Array W) (ev : Pos → Int) (sym : Pos → List H) (n : Nat) (h8 : n ≤ 8)
    (cfg : Search.Cfg) (hcfg : cfg.depth ≤ 15) {o : Oracle Move} (ho : OrderSub o)
    (p : Pos) (hp : NTak n p) (s : Eng Move) (hs : EngTak n s) :
    ∃ pv v st s', analyze (takGame basis ev sym) cfg o p s = .ok ((pv, v, st), s') ∧ EngTak n s' ∧
      (∀ x ∈ pv, QTak n x) ∧ st.depth ≤ 15 := by
  obtain ⟨⟨⟨pv, v, st⟩, s'⟩, hr, h1, h2, h3⟩ := analyze_t (tGame_tak basis ev sym n h8 ho) cfg hcfg p hp s hs
  exact ⟨pv, v, st, s', hr, h1, h2, h3⟩

/-- **`analyzeAll_total_tak`** — `AnalyzeAll` returns, same hypotheses -/
theorem analyzeAll_total_tak (basis : Array W) (ev : Pos → Int) (sym : Pos → List H) (n : Nat) (h8 : n ≤ 8)
    (cfg : Search.Cfg) (hcfg : cfg.depth ≤ 15) {o : Oracle Move} (ho : OrderSub o)
    (p : Pos) (hp : NTak n p) (s : Eng Move) (hs : EngTak n s) :
    ∃ r s', analyzeAll (takGame basis ev sym) cfg o p s = .ok (r, s') ∧ EngTak n s' := by
  obtain ⟨⟨r, s'⟩, hr, h1⟩ := analyzeAll_t (tGame_tak basis ev sym n h8 ho) cfg hcfg p hp s hs
  exact ⟨r, s', hr, h1⟩

/-- the form the work package asks for: a `GoodPos` position (C01's `WF`, ≤ 64 pieces, analysed groups), the engine of
its board size -/
theorem getMove_total_goodPos (basis : Array W) (ev : Pos → Int) (sym : Pos → List H)
    (cfg : Search.Cfg) (hcfg : cfg.depth ≤ 15) {o : Oracle Move} (ho : OrderSub o)
    (p : Pos) (hp : GoodPos basis p) (s : Eng Move) (hs : EngTak p.cfg.size s) :
    ∃ m s', getMove (takGame basis ev sym) cfg o p s = .ok (m, s') ∧ EngTak p.cfg.size s' :=
  let ⟨m, s', h, h1, _⟩ := getMove_total_tak basis ev sym p.cfg.size hp.1.1.size_le cfg hcfg ho p (nTak_of_goodPos hp) s hs
  ⟨m, s', h, h1⟩

/-- **a whole history of calls returns**: any list of `GetMove` calls (each with its own oracle and position of the
board size) threaded through one engine from `NewMinimax` — no call errs -/
theorem getMove_history_total (basis : Array W) (ev : Pos → Int) (sym : Pos → List H) (n : Nat) (h8 : n ≤ 8)
    (cfg : Search.Cfg) (hcfg : cfg.depth ≤ 15) :
    ∀ (calls : List ({ o : Oracle Move // OrderSub o } × { p : Pos // NTak n p })) (s : Eng Move), EngTak n s →
      ∃ s', calls.foldlM (fun s c => (getMove (takGame basis ev sym) cfg c.1.1 c.2.1 s).map (·.2)) s = .ok s' ∧
        EngTak n s' := by
  intro calls
  induction calls with
  | nil => intro s hs; exact ⟨s, rfl, hs⟩
  | cons c cs ih =>
    intro s hs
    obtain ⟨m, s1, h, h1, _⟩ := getMove_total_tak basis ev sym n h8 cfg hcfg c.1.2 c.2.1 c.2.2 s hs
    obtain ⟨s', h', h2⟩ := ih s1 h1
    refine ⟨s', ?_, h2⟩
    rw [List.foldlM_cons, h]
    exact h'

/-! ## the hypotheses are satisfiable, and necessary -/

/-- a concrete instance: the 3×3 position of `C05.ExTak` (a `GoodPos`), a new engine **with a table of 64 entries**, all
heuristics on, a randomisation window — `getMove_total_tak` applies (and the call returns for every oracle) -/
example : GoodPos C05.ExTak.basis C05.ExTak.mid ∧ C05.ExTak.mid.cfg.size = 3 ∧
    EngTak 3 (Eng.new (takGame C05.ExTak.basis evalMat)
      { depth := 15, tableEntries := some 64, randomizeWindow := 50, opts := { multiCut := true, dedupSymmetry := true } }) ∧
    OrderSub (Oracle.quiet : Oracle Move) :=
  ⟨C05.ExTak.mid_good, by decide +kernel, engTak_new _ _ _ 3 _ (by decide), fun _ _ _ h => h⟩

/-- **necessity of the table hypothesis** (`TableMem ∈ 1..31`): a new engine with a table of 0 entries panics in
`ttGet` on the first call, on any position -/
theorem empty_table_panics (basis : Array W) (ev : Pos → Int) (p : Pos) (o : Oracle Move) :
    getMove (takGame basis ev) { depth := 1, tableEntries := some 0 } o p
      (Eng.new (takGame basis ev) { depth := 1, tableEntries := some 0 }) =
      .error (.panic "ttGet: integer divide by zero") := rfl

/-- **`EngOK … FromGen … SizeOK` alone is not enough**: a state without PV buffers satisfies it, and `GetMove` panics
from it (no table: the first `pvSearch` reads `stack[0].pv`) on the unfinished 3×3 position of `C05.ExTak` -/
theorem engOK_not_enough :
    EngOK (takGame C05.ExTak.basis evalWinner) (FromGen (takGame C05.ExTak.basis evalWinner) SizeOK) (fun _ => False)
      { hasTable := false, table := #[], response := [], pv0 := #[], stackM := #[] } ∧
    (match getMove (takGame C05.ExTak.basis evalWinner) { depth := 1 } Oracle.quiet C05.ExTak.mid
        { hasTable := false, table := #[], response := [], pv0 := #[], stackM := #[] } with
      | .error (.panic site) => site
      | _ => "") = "stack[ply].pv" := by
  refine ⟨⟨?_, ?_, ?_⟩, by decide +kernel⟩
  · intro i e h; simp at h
  · intro k v h; cases h
  · intro i x h; simp at h

end C04
