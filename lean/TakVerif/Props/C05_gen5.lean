import TakVerif.Generated.FuncsSort

/-! Tie #1 for the VALUE LOOP of `moveGenerator.sortMoves` (`ai/moves.go`, regenerated into `Generated/FuncsSort.lean` by `gen/zwsort.go`
in `do` notation; work package "gen7").  `sort.Sort` is a declared oracle of the regenerated definition; what is proved here is what
the source does AROUND it: **`sortMoves_is_source`** - for every history map, every scratch buffer (nil, dirty, too short, longer), every
list and every oracle, the regenerated `sortMoves` never panics (the index guard of `s.vs[i] = …` never fires: a too short buffer is
replaced) and hands `sort.Sort` exactly the list and, for every move of it, its history value (0 when the move has none) - nothing of
the stale buffer content.  The first bridge over the `do` / `forIn` output style of translator round 7. -/
namespace C05
open Gen

/-- `mg.ai.history[m]` (the zero value when absent) -/
def histVal (hist : List (Move × Int)) (m : Move) : Int := (mapGet hist m).getD 0

/-- the writes of the value loop from index `n` on -/
def writeAll (hist : List (Move × Int)) : List Move → Nat → Array Int → Array Int
  | [], _, vs => vs
  | m :: l, n, vs => writeAll hist l (n + 1) (vs.setIfInBounds n (histVal hist m))

theorem writeAll_size (hist : List (Move × Int)) : ∀ (l : List Move) (n : Nat) (vs : Array Int), (writeAll hist l n vs).size = vs.size := by
  intro l
  induction l with
  | nil => intro n vs; rfl
  | cons m l ih => intro n vs; rw [writeAll, ih]; simp

theorem writeAll_below (hist : List (Move × Int)) : ∀ (l : List Move) (n : Nat) (vs : Array Int) (j : Nat), j < n →
    (writeAll hist l n vs)[j]? = vs[j]? := by
  intro l
  induction l with
  | nil => intro n vs j _; rfl
  | cons m l ih =>
    intro n vs j hj
    rw [writeAll, ih _ _ _ (by omega), Array.getElem?_setIfInBounds_ne (by omega)]

theorem writeAll_get (hist : List (Move × Int)) : ∀ (l : List Move) (n : Nat) (vs : Array Int), n + l.length ≤ vs.size →
    ∀ (k : Nat) (hk : k < l.length), (writeAll hist l n vs)[n + k]? = some (histVal hist l[k]) := by
  intro l
  induction l with
  | nil => intro n vs _ k hk; simp at hk
  | cons m l ih =>
    intro n vs hsz k hk
    rw [writeAll]
    cases k with
    | zero =>
      rw [Nat.add_zero, writeAll_below _ _ _ _ _ (by omega)]
      simp at hsz
      simp [Array.getElem?_setIfInBounds_self_of_lt (show n < vs.size by omega)]
    | succ k =>
      have e : n + (k + 1) = n + 1 + k := by omega
      rw [e, ih (n + 1) _ (by simp at hsz ⊢; omega) k (by simpa using hk)]
      simp

/-- the loop `for i, m := range s.ms { s.vs[i] = mg.ai.history[m] }` as the regenerated `forIn`, for any body that behaves like the emitted one -/
theorem sortLoop (hist : List (Move × Int)) (f : Move → Array Int × Int → Option (ForInStep (Array Int × Int)))
    (hf : ∀ m vs (n : Nat), n < vs.size → f m (vs, (n : Int)) = some (.yield (vs.setIfInBounds n (histVal hist m), (n : Int) + 1))) :
    ∀ (l : List Move) (vs : Array Int) (n : Nat), n + l.length ≤ vs.size →
      forIn l (vs, (n : Int)) f = some (writeAll hist l n vs, ((n + l.length : Nat) : Int)) := by
  intro l
  induction l with
  | nil => intro vs n _; rfl
  | cons m l ih =>
    intro vs n hsz
    simp at hsz
    rw [List.forIn_cons, hf m vs n (by omega)]
    have e : (n : Int) + 1 = ((n + 1 : Nat) : Int) := by omega
    simp only [Option.bind_eq_bind, Option.bind_some, e]
    rw [ih _ (n + 1) (by simp; omega), writeAll]
    congr 3
    simp; omega

/-- what `sort.Sort` is handed when the loop has run over a buffer that covers the list -/
theorem extract_writeAll (hist : List (Move × Int)) (ms : Array Move) (vs : Array Int) (h : ms.size ≤ vs.size) :
    (writeAll hist ms.toList 0 vs).extract 0 ms.size = ms.map (histVal hist) := by
  apply Array.ext
  · simp [writeAll_size]; omega
  · intro k h1 h2
    have hk : k < ms.size := by simpa using h2
    have := writeAll_get hist ms.toList 0 vs (by simpa using h) k (by simpa using hk)
    rw [Nat.zero_add] at this
    simp only [Array.getElem_extract, Nat.zero_add, Array.getElem_map]
    have hk' : k < (writeAll hist ms.toList 0 vs).size := by rw [writeAll_size]; omega
    rw [Array.getElem?_eq_getElem hk'] at this
    simpa using this

/-- the loop of the regenerated `sortMoves` on a buffer that covers the list -/
theorem sortMoves_loop (hist : List (Move × Int)) (ms : Array Move) (vs : Array Int) (h : ms.size ≤ vs.size) :
    forIn ms (vs, (0 : Int)) (fun m (__s : Array Int × Int) =>
      if (!(decide (0 ≤ __s.snd) && decide (__s.snd < Int.ofNat __s.fst.size))) = true then
        (none : Option PUnit) >>= fun _ => pure (ForInStep.yield (__s.fst.setIfInBounds __s.snd.toNat ((mapGet hist m).getD 0), __s.snd + 1))
      else pure (ForInStep.yield (__s.fst.setIfInBounds __s.snd.toNat ((mapGet hist m).getD 0), __s.snd + 1))) =
      some (writeAll hist ms.toList 0 vs, (ms.size : Int)) := by
  rw [← Array.forIn_toList]
  refine (sortLoop hist _ ?_ ms.toList vs 0 ?_).trans ?_
  · intro m vs n hn
    have g : (!(decide (0 ≤ (n : Int)) && decide ((n : Int) < Int.ofNat vs.size))) = false := by simp; omega
    simp only [g, Bool.false_eq_true, if_false, Int.toNat_natCast]
    rfl
  · simpa using h
  · simp

/-- **the value loop of `sortMoves` is the source's** - for every history map, every scratch buffer (`f.vals.slice` nil or not, of any
length and content, `f.vals.alloc` of any length and content), every list `ms` and every `sort.Sort` oracle: the regenerated `sortMoves`
returns (no index panic, no hypothesis on lengths: a buffer shorter than the list is replaced by `make`) and `mg.ms` becomes what the
oracle makes of `ms` and of exactly the history values of its moves (0 for a move without entry) - no stale buffer content reaches it. -/
theorem sortMoves_is_source (hist : List (Move × Int)) (alloc slice : Array Int) (isNil : Bool) (ms : Array Move)
    (sortO : Array Move → Array Int → Array Move) :
    Gen.moveGeneratorSortMoves hist alloc slice isNil ms sortO = some (sortO ms (ms.map (histVal hist))) := by
  unfold Gen.moveGeneratorSortMoves
  have neg : decide (Int.ofNat ms.size < 0) = false := by simp
  have fin : ∀ vs : Array Int, ms.size ≤ vs.size →
      (do
        let __s ← forIn ms (vs, (0 : Int)) (fun m (__s : Array Int × Int) =>
          if (!(decide (0 ≤ __s.snd) && decide (__s.snd < Int.ofNat __s.fst.size))) = true then
            (none : Option PUnit) >>= fun _ => pure (ForInStep.yield (__s.fst.setIfInBounds __s.snd.toNat ((mapGet hist m).getD 0), __s.snd + 1))
          else pure (ForInStep.yield (__s.fst.setIfInBounds __s.snd.toNat ((mapGet hist m).getD 0), __s.snd + 1)))
        pure (sortO ms (__s.fst.extract 0 ms.size)) : Option (Array Move)) = some (sortO ms (ms.map (histVal hist))) := by
    intro vs h
    rw [sortMoves_loop hist ms vs h]
    simp only [Option.bind_eq_bind, Option.bind_some, extract_writeAll hist ms vs h]
    rfl
  cases isNil
  · simp only [Bool.false_eq_true, if_false]
    by_cases hlt : Int.ofNat slice.size < Int.ofNat ms.size
    · simp only [hlt, decide_true, if_true, neg, Bool.false_eq_true, if_false]
      exact fin _ (by simp)
    · simp only [hlt, decide_false, Bool.false_eq_true, if_false]
      exact fin _ (by simp at hlt; omega)
  · simp only [if_true]
    by_cases hlt : Int.ofNat alloc.size < Int.ofNat ms.size
    · simp only [hlt, decide_true, if_true, neg, Bool.false_eq_true, if_false]
      exact fin _ (by simp)
    · simp only [hlt, decide_false, Bool.false_eq_true, if_false]
      exact fin _ (by simp at hlt; omega)

/-- a concrete instance: a dirty, too short buffer; one move with a history value, one without; the oracle swaps -/
example : Gen.moveGeneratorSortMoves [({ X := 1, Y := 0, Type_ := 2#8, Slides := 0#32 }, 7)] #[] #[99] false
    #[{ X := 0, Y := 0, Type_ := 2#8, Slides := 0#32 }, { X := 1, Y := 0, Type_ := 2#8, Slides := 0#32 }]
    (fun ms vs => if vs.toList = [0, 7] then ms.reverse else ms) =
    some #[{ X := 1, Y := 0, Type_ := 2#8, Slides := 0#32 }, { X := 0, Y := 0, Type_ := 2#8, Slides := 0#32 }] := by
  rw [sortMoves_is_source]
  simp [histVal, Gen.mapGet]

end C05
