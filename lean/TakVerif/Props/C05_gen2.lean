import TakVerif.Impl.Minimax
import TakVerif.Generated.FuncsSearch
import TakVerif.Proofs.GenMove
import TakVerif.Props.C02_gen
import TakVerif.Props.C05_gen

/-! Tie #1 for the SEARCH side of C05 (also used by C04 and C16): the small helpers that `pvSearch` / `zwSearch` call are
regenerated from `ai/minimax.go` on every run (`Generated/FuncsSearch.lean`, translator round 5, `gen/search.go`) and the
hand model (`Impl/Minimax.lean`, on which the search theorems rest) is proved equal to the regenerated definitions:

* `ttGet_is_source`, `ttPut_is_source`: the transposition table - the two probe slots `h % len` and `(h * hashMul) % len`,
  the no-table case (`m.table == nil`, i.e. `TableMem < 0`), the division-by-zero panic of an empty non-nil table, the cancel
  flag test of `ttPut`, the replacement rule (the first slot's entry moves to the second slot unless its hash is 0);
* `nullMoveOK_is_source`: the guard of the null-move search on the Tak instance of the model;
* `statsMerge_is_source`: `Stats.Merge`;
* `recordCut_is_source`: the cut statistics and the response map of `recordCut` (the history map, which the model replaces by
  the ordering oracle, is an extra output of the regenerated definition).

A pointer into the table is an index on both sides (`Gen.ttGet : … → Option (Option Nat)`, outer `none` = Go panics).
The only hypothesis about the table is `size < 2^64` (`uint64(len(m.table))` does not wrap). -/
namespace C05
open Tak Search

section table
variable {M : Type}

/-- a model table entry as the regenerated `tableEntry`, with the move encoded by `f` -/
def genTE (f : M → Gen.Move) (te : TEntry M) : Gen.tableEntry :=
  { hash := te.hash, value := te.value, m := f te.m, bound := BitVec.ofNat 8 te.bound, depth := te.depth }

/-- the regenerated `ttGet` read back as the model's result: a returned pointer is the entry it points to -/
def decGet (t : Array (TEntry M)) : Option (Option Nat) → Except Err (Option (TEntry M))
  | none => .error (.panic "ttGet: integer divide by zero")
  | some none => .ok none
  | some (some i) => match t[i]? with
    | some e => .ok (some e)
    | none => .error (.panic "ttGet: index")

theorem len64 (n : Nat) (hn : n < 2 ^ 64) : (BitVec.ofInt 64 (Int.ofNat n)).toNat = n := by
  simp [BitVec.ofInt_natCast, Nat.mod_eq_of_lt hn]

theorem len64_zero (n : Nat) (hn : n < 2 ^ 64) : ((BitVec.ofInt 64 (Int.ofNat n)) == 0#64) = (n == 0) := by
  have h := len64 n hn
  by_cases h0 : n = 0
  · subst h0; simp
  · have h1 : ¬ (BitVec.ofInt 64 (Int.ofNat n) = 0#64) := by
      intro hh; rw [hh] at h; simp at h; omega
    have e1 : ((BitVec.ofInt 64 (Int.ofNat n)) == 0#64) = false := by simpa using h1
    have e2 : (n == 0) = false := by simpa using h0
    rw [e1, e2]

theorem umod_len (h : H) (n : Nat) (hn : n < 2 ^ 64) : (h % BitVec.ofInt 64 (Int.ofNat n)).toNat = h.toNat % n := by
  rw [BitVec.toNat_umod, len64 n hn]

theorem hashMul_eq : BitVec.ofNat 64 Facts.hashMul = 7046029254386353131#64 := by
  simp [Facts.hashMul]

theorem slot2_eq (s : Eng M) (h : H) : slot2 s h = (h * 7046029254386353131#64).toNat % s.table.size := by
  unfold slot2; rw [hashMul_eq]

/-- **`ttGet`**: for every engine state and hash, the model's probe is the regenerated `(*MinimaxAI).ttGet` (the same outcome
class - Go panic / nil / entry - and the same entry). -/
theorem ttGet_is_source (f : M → Gen.Move) (s : Eng M) (h : H) (hsz : s.table.size < 2 ^ 64) :
    Search.ttGet s h = decGet s.table (Gen.ttGet (s.table.map (genTE f)) (!s.hasTable) h) := by
  unfold Search.ttGet Gen.ttGet
  simp only [Array.size_map, slot2_eq]
  generalize h * 7046029254386353131#64 = h2
  have hz := len64_zero s.table.size hsz
  by_cases ht : s.hasTable = true
  · simp only [ht, Bool.not_true, hz, slot1]
    by_cases h0 : s.table.size = 0
    · simp [h0, decGet]
    · have hpos : 0 < s.table.size := Nat.pos_of_ne_zero h0
      have e1 := umod_len h s.table.size hsz
      have e2 := umod_len h2 s.table.size hsz
      have l1 : h.toNat % s.table.size < s.table.size := Nat.mod_lt _ hpos
      have l2 : h2.toNat % s.table.size < s.table.size := Nat.mod_lt _ hpos
      have b0 : (s.table.size == 0) = false := by simpa using h0
      simp only [b0, e1, e2, l1, l2, decide_true, Bool.not_true, if_false, Bool.false_eq_true]
      generalize h.toNat % s.table.size = i1 at l1 ⊢
      generalize h2.toNat % s.table.size = i2 at l2 ⊢
      have g1 : ((s.table.map (genTE f)).getD i1 (default : Gen.tableEntry)).hash = s.table[i1].hash := by
        simp [Array.getD_eq_getD_getElem?, l1, genTE]
      have g2 : ((s.table.map (genTE f)).getD i2 (default : Gen.tableEntry)).hash = s.table[i2].hash := by
        simp [Array.getD_eq_getD_getElem?, l2, genTE]
      rw [g1, g2, Array.getElem?_eq_getElem l1, Array.getElem?_eq_getElem l2]
      by_cases c1 : s.table[i1].hash = h
      · have b1 : (s.table[i1].hash == h) = true := by simpa using c1
        simp only [b1, if_true]
        rw [decGet, Array.getElem?_eq_getElem l1]
      · have b1 : (s.table[i1].hash == h) = false := by simpa using c1
        by_cases c2 : s.table[i2].hash = h
        · have b2 : (s.table[i2].hash == h) = true := by simpa using c2
          simp only [b1, b2, if_true, Bool.false_eq_true, if_false]
          rw [decGet, Array.getElem?_eq_getElem l2]
        · have b2 : (s.table[i2].hash == h) = false := by simpa using c2
          simp only [b1, b2, Bool.false_eq_true, if_false]
          rw [decGet]
  · simp [ht, decGet]

/-- the regenerated `ttPut` read back as the model's result (slot index, table afterwards) -/
def decPut : Option (Option Nat × Array Gen.tableEntry) → Except Err (Option Nat × Array Gen.tableEntry)
  | none => .error (.panic "ttPut: integer divide by zero")
  | some r => .ok r

theorem map_set (f : M → Gen.Move) (t : Array (TEntry M)) (i : Nat) (e : TEntry M) :
    (t.setIfInBounds i e).map (genTE f) = (t.map (genTE f)).setIfInBounds i (genTE f e) := by
  first
  | exact Array.map_setIfInBounds ..
  | simp [Array.map_setIfInBounds]

/-- **`ttPut`**: for every engine state, hash and value `c` of the cancel flag load (`c ≠ 0` iff the model's oracle says
"cancelled" at this load), the model's `ttPut` returns the slot the regenerated `(*MinimaxAI).ttPut` returns and leaves the
table it leaves (replacement rule: the first slot's entry moves to the second slot unless its hash is 0), or both panic. -/
theorem ttPut_is_source (f : M → Gen.Move) (o : Oracle M) (s : Eng M) (h : H) (c : Int) (hsz : s.table.size < 2 ^ 64)
    (hc : (c != 0) = o.cancel s.loads s.evals) :
    (match Search.ttPut o s h with
      | .ok r => Except.ok (r.1, r.2.table.map (genTE f))
      | .error e => .error e) =
    decPut (Gen.ttPut c (s.table.map (genTE f)) (!s.hasTable) h) := by
  unfold Search.ttPut Gen.ttPut
  by_cases ht : s.hasTable = true
  · simp only [ht, Bool.not_true, Bool.false_eq_true, if_false, load, ← hc]
    by_cases hc0 : c = 0
    · have bc : (c != 0) = false := by simp [hc0]
      have hz := len64_zero s.table.size hsz
      simp only [bc, Bool.false_eq_true, if_false, ttSlotIdx, Eng.evict, Array.size_map, slot2_eq, slot1, hz]
      generalize h * 7046029254386353131#64 = h2
      by_cases h0 : s.table.size = 0
      · have b0 : (s.table.size == 0) = true := by simpa using h0
        simp only [b0, if_true, Except.bind]
        rw [decPut]
      · have hpos : 0 < s.table.size := Nat.pos_of_ne_zero h0
        have e1 := umod_len h s.table.size hsz
        have e2 := umod_len h2 s.table.size hsz
        have l1 : h.toNat % s.table.size < s.table.size := Nat.mod_lt _ hpos
        have l2 : h2.toNat % s.table.size < s.table.size := Nat.mod_lt _ hpos
        have b0 : (s.table.size == 0) = false := by simpa using h0
        simp only [b0, e1, e2, l1, l2, decide_true, Bool.not_true, if_false, Bool.false_eq_true, if_true, Except.bind,
          Bool.or_self]
        generalize h.toNat % s.table.size = i1 at l1 ⊢
        generalize h2.toNat % s.table.size = i2 at l2 ⊢
        have g1 : (s.table.map (genTE f)).getD i1 (default : Gen.tableEntry) = genTE f s.table[i1] := by
          simp [Array.getD_eq_getD_getElem?, l1]
        rw [g1, Array.getElem?_eq_getElem l1]
        have gh : (genTE f s.table[i1]).hash = s.table[i1].hash := rfl
        rw [gh]
        by_cases c1 : s.table[i1].hash = 0#64
        · have b1 : (s.table[i1].hash != 0#64) = false := by simp [c1]
          simp only [b1, Bool.false_eq_true, if_false, Array.size_map, l1, decide_true, Bool.not_true]
          rw [decPut]
        · have b1 : (s.table[i1].hash != 0#64) = true := by simp [c1]
          simp only [b1, if_true, Array.size_map, Array.size_setIfInBounds, l1, decide_true, Bool.not_true, Bool.false_eq_true,
            if_false, map_set]
          rw [decPut]
    · have bc : (c != 0) = true := by simp [hc0]
      simp only [bc, if_true]
      rw [decPut]
  · have hf : s.hasTable = false := by simpa using ht
    simp only [hf, Bool.not_false, if_true]
    rw [decPut]

end table
/-! ### `Stats.Merge` -/

/-- the model's statistics as the regenerated `Stats` (`Elapsed`, `Generated`, `Extensions` are not in the model: any values) -/
def genStats (a : Stats) (el : Int) (g x : BitVec 64) : Gen.Stats :=
  { Depth := a.depth, Canceled := a.canceled, Elapsed := el, Generated := g, Evaluated := BitVec.ofNat 64 a.evaluated,
    Scout := BitVec.ofNat 64 a.scout, Terminal := BitVec.ofNat 64 a.terminal, Visited := BitVec.ofNat 64 a.visited,
    CutNodes := BitVec.ofNat 64 a.cutNodes, NullSearch := BitVec.ofNat 64 a.nullSearch, NullCut := BitVec.ofNat 64 a.nullCut,
    Cut0 := BitVec.ofNat 64 a.cut0, Cut1 := BitVec.ofNat 64 a.cut1, CutSearch := BitVec.ofNat 64 a.cutSearch,
    ReSearch := BitVec.ofNat 64 a.reSearch, AllNodes := BitVec.ofNat 64 a.allNodes, TTHits := BitVec.ofNat 64 a.ttHits,
    TTShortcut := BitVec.ofNat 64 a.ttShortcut, Extensions := x, ReducedSlides := BitVec.ofNat 64 a.reducedSlides,
    MCSearch := BitVec.ofNat 64 a.mcSearch, MCCut := BitVec.ofNat 64 a.mcCut }

/-- **`Stats.Merge`**: the model's merge (unbounded counters) is the regenerated one modulo 2^64 in every counter; `Depth` and
`Canceled` (and `Elapsed`) stay the receiver's. -/
theorem statsMerge_is_source (a b : Stats) (el el' : Int) (g g' x x' : BitVec 64) :
    Gen.statsMerge (genStats a el g x) (genStats b el' g' x') = genStats (Stats.merge a b) el (g + g') (x + x') := by
  simp [Gen.statsMerge, genStats, Stats.merge, BitVec.ofNat_add]

example : (Gen.statsMerge (genStats { depth := 3, evaluated := 2 ^ 64 - 1 } 5 0#64 0#64) (genStats { depth := 9, evaluated := 2 } 7 0#64 0#64)).Evaluated = 1#64 := by
  decide

example : Gen.ttGet #[default, default, { hash := 5#64, value := 1, m := default, bound := 1#8, depth := 2 }] false 5#64 = some (some 2) := by
  decide

example : Gen.ttPut 0 #[default, default, { hash := 5#64, value := 1, m := default, bound := 1#8, depth := 2 }] false 8#64 =
    some (some 2, #[{ hash := 5#64, value := 1, m := default, bound := 1#8, depth := 2 }, default, { hash := 5#64, value := 1, m := default, bound := 1#8, depth := 2 }]) := by
  decide

end C05

namespace C05
open Tak Search

/-! ### `nullMoveOK` -/

/-- the regenerated `nullMoveOK` read back as the model's result (`none` = `ai.stack[ply-1]` out of range) -/
def decNull : Option Bool → Except Err Bool
  | none => .error (.panic "stack[ply-1].m")
  | some b => .ok b

/-- **`nullMoveOK`** on the Tak instance of the search model: for every option set, ply, depth, position and engine state whose
frame array has the 15 entries of `ai.stack` (move types are bytes), the model's guard of the null-move search is the
regenerated `(*MinimaxAI).nullMoveOK` applied to the frames' moves and the position's fields. -/
theorem nullMoveOK_is_source (basis : Array W) (eval : Pos → Int) (cfg : SOpts) (ply : Nat) (depth : Int) (p : Pos) (s : Eng Move)
    (hs : s.stackM.size = 15) (ht : ∀ i (h : i < s.stackM.size), s.stackM[i].type < 256) :
    Search.nullMoveOK (takGame basis eval) cfg ply depth p s =
      decNull (Gen.nullMoveOK cfg.noNullMove (s.stackM.map GenMove.genMove) (ply : Int) depth p.black (Int.ofNat p.blackStones.toNat)
        p.stacks p.white (Int.ofNat p.whiteStones.toNat)) := by
  unfold Search.nullMoveOK Gen.nullMoveOK
  by_cases hn : cfg.noNullMove = true
  · simp only [hn, if_true]; rfl
  · have hn' : cfg.noNullMove = false := by simpa using hn
    simp only [hn', Bool.false_eq_true, if_false]
    by_cases h0 : ply = 0
    · subst h0; simp [decNull, pure, Except.pure]
    · by_cases hd : depth < 3
      · have e : ((ply : Int) == 0 || decide (depth < 3)) = true := by simp [hd]
        have e' : (ply == 0 || decide (depth < 3)) = true := by simp [hd]
        simp only [e, e', if_true]; rfl
      · have e : (((ply : Int) == 0) || decide (depth < 3)) = false := by
          simp [hd]; omega
        have e' : (ply == 0 || decide (depth < 3)) = false := by simp [hd, h0]
        simp only [e, e', Bool.false_eq_true, if_false]
        by_cases hp : ply - 1 < 15
        · have hi : ply - 1 < s.stackM.size := by omega
          have g : (decide ((0 : Int) ≤ (ply : Int) - 1) && decide ((ply : Int) - 1 < 15)) = true := by
            simp; omega
          have tn : ((ply : Int) - 1).toNat = ply - 1 := by omega
          simp only [g, Bool.not_true, Bool.false_eq_true, if_false, tn, getA, Array.getElem?_eq_getElem hi, bind, Except.bind]
          have gm : (s.stackM.map GenMove.genMove).getD (ply - 1) (default : Gen.Move) = GenMove.genMove s.stackM[ply - 1] := by
            simp [Array.getD_eq_getD_getElem?, hi]
          rw [gm]
          have hty := ht (ply - 1) hi
          have ep : ((GenMove.genMove s.stackM[ply - 1]).Type_ == 1#8) = (takGame basis eval).isPass s.stackM[ply - 1] := by
            simp only [takGame, GenMove.genMove, Facts.mtPass]
            exact ofNat8_beq _ 1 hty (by omega)
          rw [ep]
          by_cases hpass : (takGame basis eval).isPass s.stackM[ply - 1] = true
          · simp only [hpass, if_true]; rfl
          · have hpass' : (takGame basis eval).isPass s.stackM[ply - 1] = false := by simpa using hpass
            simp only [hpass', Bool.false_eq_true, if_false]
            simp only [takGame]
            have pc := C02.popcount_is_source (p.white ||| p.black)
            rw [← pc]
            by_cases r1 : p.whiteStones.toNat < 3
            · have r1i : ((p.whiteStones.toNat : Nat) : Int) < 3 := by omega
              simp [r1, r1i, decNull, pure, Except.pure]
            · have r1i : ¬ ((p.whiteStones.toNat : Nat) : Int) < 3 := by omega
              by_cases r2 : p.blackStones.toNat < 3
              · have r2i : ((p.blackStones.toNat : Nat) : Int) < 3 := by omega
                simp [r1, r2, r2i, decNull, pure, Except.pure]
              · have r2i : ¬ ((p.blackStones.toNat : Nat) : Int) < 3 := by omega
                by_cases r3 : popcount (p.white ||| p.black) + 3 ≥ p.stacks.size
                · have r3' : ((p.stacks.size : Nat) : Int) ≤ (popcount (p.white ||| p.black) : Int) + 3 := by omega
                  simp [r1, r2, r1i, r2i, r3, r3', decNull, pure, Except.pure]
                · have r3' : ¬ ((p.stacks.size : Nat) : Int) ≤ (popcount (p.white ||| p.black) : Int) + 3 := by omega
                  simp [r1, r2, r1i, r2i, r3, r3', decNull, pure, Except.pure]
        · have hi : ¬ (ply - 1 < s.stackM.size) := by omega
          have g : (decide ((0 : Int) ≤ (ply : Int) - 1) && decide ((ply : Int) - 1 < 15)) = false := by
            simp; omega
          have gn : s.stackM[ply - 1]? = none := by simp; omega
          simp only [g, Bool.not_false, if_true, getA, gn, bind, Except.bind]; rfl

end C05

namespace C05
open Tak Search

example : Gen.nullMoveOK false (Array.replicate 15 (GenMove.genMove ⟨1, 1, 2, 0#32⟩)) 2 3 0#64 21 (Array.replicate 25 0#64) 0#64 21 = some true := by
  decide

example : Gen.nullMoveOK false (Array.replicate 15 (GenMove.genMove ⟨0, 0, 1, 0#32⟩)) 2 3 0#64 21 (Array.replicate 25 0#64) 0#64 21 = some false := by
  decide

/-! ### `recordCut`

`Gen.recordCut` is regenerated and executed against the real function by `fn.recordcut` on every run; `recordCut_is_source`
(work package gen6) proves the model's `recordCut` equal to it (move types are bytes, so that `genMove` is injective on the keys
of the response map).  The history map is an extra output of the regenerated definition (the model replaces `sortMoves` by the
ordering oracle). -/

/-- the response map of the model as the regenerated association list -/
def genResp (r : List (Move × Move)) : List (Gen.Move × Gen.Move) := r.map fun kv => (GenMove.genMove kv.1, GenMove.genMove kv.2)

def recordCut_statement : Prop :=
  ∀ (s : Eng Move) (m : Move) (move ply : Nat) (depth : Int) (hist : List (Gen.Move × Int)),
    s.stackM.size = 15 → (∀ i (h : i < s.stackM.size), s.stackM[i].type < 256) → (∀ kv ∈ s.response, kv.1.type < 256) →
    match Search.recordCut s m move ply,
      Gen.recordCut hist false (genResp s.response) false (BitVec.ofNat 64 s.st.cut0) (BitVec.ofNat 64 s.st.cut1)
        (BitVec.ofNat 64 s.st.cutNodes) (BitVec.ofNat 64 s.st.cutSearch) (s.stackM.map GenMove.genMove) (GenMove.genMove m)
        (move : Int) depth (ply : Int) with
    | .ok s', some (_, r', c0, c1, cn, cs) =>
      r' = genResp s'.response ∧ c0 = BitVec.ofNat 64 s'.st.cut0 ∧ c1 = BitVec.ofNat 64 s'.st.cut1 ∧
        cn = BitVec.ofNat 64 s'.st.cutNodes ∧ cs = BitVec.ofNat 64 s'.st.cutSearch
    | .error _, none => True
    | _, _ => False

theorem genMove_inj (a b : Move) (ha : a.type < 256) (hb : b.type < 256) : GenMove.genMove a = GenMove.genMove b ↔ a = b := by
  constructor
  · intro h
    cases a; cases b
    simp only [GenMove.genMove, Gen.Move.mk.injEq] at h
    obtain ⟨h1, h2, h3, h4⟩ := h
    have := congrArg BitVec.toNat h3
    simp at this ha hb
    simp [h1, h2, h4]; omega
  · intro h; rw [h]

theorem genResp_put (r : List (Move × Move)) (k v : Move) (hk : k.type < 256) (hr : ∀ kv ∈ r, kv.1.type < 256) :
    genResp (respPut r k v) = Gen.mapPut (genResp r) (GenMove.genMove k) (GenMove.genMove v) := by
  induction r with
  | nil => simp [genResp, respPut, Gen.mapPut]
  | cons kv rest ih =>
    obtain ⟨k0, v0⟩ := kv
    have h0 : k0.type < 256 := hr (k0, v0) (by simp)
    have ih' := ih (fun kv h => hr kv (by simp [h]))
    simp only [genResp, List.map_cons, respPut, Gen.mapPut] at ih' ⊢
    by_cases e : k0 = k
    · subst e; simp
    · have e' : ¬ GenMove.genMove k0 = GenMove.genMove k := fun h => e ((genMove_inj k0 k h0 hk).1 h)
      simp only [e, e', if_false, List.map_cons]
      rw [ih']

theorem ofNat64_succ (n : Nat) : BitVec.ofNat 64 n + 1#64 = BitVec.ofNat 64 (n + 1) := by
  simp [BitVec.ofNat_add]

theorem ofNat64_addInt (n k : Nat) : BitVec.ofNat 64 n + BitVec.ofInt 64 ((k : Int) + 1) = BitVec.ofNat 64 (n + (k + 1)) := by
  have : ((k : Int) + 1) = ((k + 1 : Nat) : Int) := by omega
  rw [this, BitVec.ofInt_natCast, ← BitVec.ofNat_add]

/-- **`recordCut`**: for every engine state with the 15 frames of `ai.stack` (move types are bytes, also of the keys of the response
map), every cutting move, move index, ply and depth, and every (non-nil) history map: the model's `recordCut` and the regenerated
`(*MinimaxAI).recordCut` (translated under `ai.cuts == nil`) both panic (`ai.stack[ply-1]` out of range) or leave the same response map and the
same four cut counters (modulo 2^64). -/
theorem recordCut_is_source : recordCut_statement := by
  intro s m move ply depth hist hs ht hr
  unfold Search.recordCut Gen.recordCut
  simp only [Bool.false_eq_true, if_false, ofNat64_succ]
  have hm1 : ((move : Int) == 1) = (move == 1) := by
    rw [Bool.eq_iff_iff]; simp only [beq_iff_eq]; omega
  have hm2 : ((move : Int) == 2) = (move == 2) := by
    rw [Bool.eq_iff_iff]; simp only [beq_iff_eq]; omega
  rw [hm1, hm2]
  by_cases hp : ply > 0
  · have hpi : decide ((ply : Int) > 0) = true := by simp; omega
    simp only [hp, hpi, if_true]
    by_cases hl : ply - 1 < 15
    · have hi : ply - 1 < s.stackM.size := by omega
      have g : (decide ((0 : Int) ≤ (ply : Int) - 1) && decide ((ply : Int) - 1 < 15)) = true := by simp; omega
      have tn : ((ply : Int) - 1).toNat = ply - 1 := by omega
      have gm : (s.stackM.map GenMove.genMove).getD (ply - 1) (default : Gen.Move) = GenMove.genMove s.stackM[ply - 1] := by
        simp [Array.getD_eq_getD_getElem?, hi]
      simp only [g, Bool.not_true, Bool.false_eq_true, if_false, tn, getA, Array.getElem?_eq_getElem hi, gm,
        ← genResp_put s.response s.stackM[ply - 1] m (ht _ hi) hr]
      by_cases c1 : move = 1
      · simp [c1]
      · by_cases c2 : move = 2
        · simp [c2]
        · simp [c1, c2, ofNat64_addInt]
    · have g : (decide ((0 : Int) ≤ (ply : Int) - 1) && decide ((ply : Int) - 1 < 15)) = false := by simp; omega
      have gn : s.stackM[ply - 1]? = none := by simp; omega
      simp only [g, Bool.not_false, if_true, getA, gn]
  · have hpi : decide ((ply : Int) > 0) = false := by simp; omega
    simp only [hp, hpi, if_false, Bool.false_eq_true]
    by_cases c1 : move = 1
    · simp [c1]
    · by_cases c2 : move = 2
      · simp [c2]
      · simp [c1, c2, ofNat64_addInt]

example : (Gen.recordCut [] false [] false 0#64 0#64 0#64 0#64 (Array.replicate 15 (GenMove.genMove ⟨1, 1, 2, 0#32⟩)) (GenMove.genMove ⟨0, 2, 1, 0#32⟩) 3 2 1).map
      (fun r => (r.2.1, r.2.2.2.2.1, r.2.2.2.2.2)) =
    some ([(GenMove.genMove ⟨1, 1, 2, 0#32⟩, GenMove.genMove ⟨0, 2, 1, 0#32⟩)], 1#64, 4#64) := by
  decide

end C05
