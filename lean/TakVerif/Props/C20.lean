import TakVerif.Impl.FPA
namespace C20
open Tak Tak.FPA
/-- placeholder (replaced below in this round): the centre script answers with the centre square -/
theorem center_script (v : View) (r : Rule) (h : v.ply = 0) :
    getMove .center r v = .ok (some (place (mid v) (mid v))) := by
  simp [getMove, h]
end C20
