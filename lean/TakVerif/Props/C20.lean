import TakVerif.Proofs.FPAMini
import TakVerif.Proofs.FPAFast
import TakVerif.Proofs.FPAPinned
import TakVerif.Proofs.FPAFrameTop

/-! # C20 — first-player-advantage opening scripts always produce legal, self-accepted moves

The opening is the game `Spec.FPA` over the list-level rules of Tak (`Spec.step`): the state is what
`Friendly.GetMove` sees, the rule code is the model `Tak.FPA` of `fpa.go` **with**
`fixes/C20-doublestack-black.diff` and `fixes/C20-cairn.diff`, the bot plays its scripted move whenever
the rule scripts one, and every other move (the opponent's, and the bot's own two unscripted first
stones) ranges over **all** moves of the generator `Spec.FPA.candsOf` that are legal by `Spec.step` and
accepted by the variant's own rule check.  `good` at a state says: no panic in the rule code, no
resignation over the bot's own scripted move (= the rule accepted it), and the move scripted now is legal.

`Holds var color size h` = every state reachable in at most `h` moves is good.  The scripted plies are
0..5 (centre: 0), and the acceptance of the move of ply `k` is checked by the driver at ply `k+1`, hence
horizon 6 (centre: 2).

What is assumed rather than proved here: `candsOf` lists every legal move (it is the list-level
counterpart of `Position.AllMoves`, C03; the exhaustive correspondence `fpaopts` compares the accepted sets
it yields with those of the real generator for every node of every opening, sizes 4..8), and the link
from `Spec.step` to the bit-level `Position.Move` (C01). -/
namespace C20
open Tak Tak.FPA Spec.FPA Proofs.FPA Proofs.FPAMini Proofs.FPAPinned Proofs.FPAFast Proofs.FPAFrame

/-- C20 for one variant, bot colour and board size -/
def Holds (var : Variant) (color : Color) (size horizon : Nat) : Prop :=
  ∀ (k : Nat) (t : St Spec.State), k ≤ horizon →
    Reach specBoard var color k (init size) t → good specBoard var color t = true

/-- what `good` gives at a state where the rule scripts a move: that move is legal by the rule book -/
theorem good_scripted (var : Variant) (color : Color) (t : St Spec.State) (r : Rule) (m : Move)
    (hg : good specBoard var color t = true) (ht : turn specBoard var color t = .ok (r, .scripted m)) :
    (Spec.step t.cur (Spec.decode m)).isSome = true := by
  unfold good at hg
  rw [ht] at hg
  exact hg

/-- … and at a state whose last move was the bot's scripted one, the rule check accepted it
(`Friendly.GetMove` does not resign) and the rule code did not panic -/
theorem good_self_accepted (var : Variant) (color : Color) (t : St Spec.State)
    (hg : good specBoard var color t = true) (hs : t.lastScripted = true) :
    ∃ r rep, turn specBoard var color t = .ok (r, rep) ∧ rep ≠ .resign := by
  unfold good at hg
  cases ht : turn specBoard var color t with
  | error e => simp [ht] at hg
  | ok v =>
    obtain ⟨r, rep⟩ := v
    refine ⟨r, rep, rfl, ?_⟩
    intro hr
    subst hr
    simp [ht, hs] at hg

/-! ## centre -/

set_option maxRecDepth 1000000 in
/-- **Centre variant, all sizes 4..8, both colours**: as White the bot's scripted first stone (Black's
flat on the centre square) is legal and accepted by its own rule; as Black it scripts nothing and
never panics, for every accepted first move of the opponent and every reply. -/
theorem fpa_centre : ∀ size ∈ [4, 5, 6, 7, 8], ∀ color ∈ [Color.white, Color.black],
    Holds .center color size 2 := by
  intro size hs color hc
  simp only [List.mem_cons, List.mem_nil_iff, or_false] at hs hc
  rcases hs with rfl | rfl | rfl | rfl | rfl <;> rcases hc with rfl | rfl <;>
    exact mini_sound .center _ 2 _ (by decide +kernel)

/-! ## double stack and cairn -/

/-- the full claim for the double-stack variant (proved: `fpa_doubleStack` in `Props/C20_all.lean`) -/
def fpa_doubleStack_statement : Prop :=
  ∀ size ∈ [4, 5, 6, 7, 8], ∀ color ∈ [Color.white, Color.black], Holds .doubleStack color size 6

/-- the full claim for the cairn variant (proved: `fpa_cairn` in `Props/C20_all.lean`) -/
def fpa_cairn_statement : Prop :=
  ∀ size ∈ [4, 5, 6, 7, 8], ∀ color ∈ [Color.white, Color.black], Holds .cairn color size 6

/-- **How the two statements are discharged.**  `Holds var color size 6` follows from one evaluation of the
opening game on the sparse board (`Proofs.FPAMini.mini_sound`: the evaluator is proved sound and the sparse
board is proved to be a homomorphic image of the rule book).  The evaluation is a kernel computation
(`decide +kernel`) whose cost grows with the number of openings (≈ size⁴; with this plain evaluator about
one CPU-minute and 1.5 GB per 200 openings), so it goes through the faster evaluator (`holds_of_fcheck`
below), cut into one piece per first move for the double-stack variant, and through the frame theorem for
the cairn variant (`holds_of_frame` below); the pieces are generated (`bin/gen-c20-shards.py`,
`Proofs/C20Shards/`, `Props/C20_size4..8.lean`) and `Props/C20_all.lean` combines the sizes:
`fpa_doubleStack` proves `fpa_doubleStack_statement`, `fpa_cairn` proves `fpa_cairn_statement`. -/
theorem holds_of_check (var : Variant) (color : Color) (size : Nat)
    (h : check miniBoard FM var color 6 (minit size) = true) : Holds var color size 6 :=
  mini_sound var color 6 size h

/-- The same through the faster evaluator `Proofs.FPAFast.fcheck`: at every node where the
move is free it tests only the slides from the occupied squares and the flat placements on the few
squares the variant's rule can accept at that ply (`fast_complete`: no accepted legal move of the
generator is left out), and it does not build the states after the last scripted ply (`good_late`). -/
theorem holds_of_fcheck (var : Variant) (color : Color) (size : Nat)
    (h : fcheck var color 6 (minit size) = true) : Holds var color size 6 :=
  holds_of_check var color size (fcheck_check var color 6 (minit size) h)

/-- **The cairn variant through the frame theorem** (sizes 6..8).  From ply 2 on the cairn rule reads, and the
moves it scripts or accepts touch, only the centre squares and their neighbours (`Proofs.FPAFrame.nearS`: the
squares `isCenterAdjacent` or `isCentered` accept — 12 on an even board, 5 on an odd one); the first stones
elsewhere are never looked at or moved.  `Proofs.FPAFrame.check_frame` proves that two states whose boards agree
on these squares and carry at most one piece on every other square have the same evaluation.  The claim for a
board size then follows from (`htab`) one evaluation of the opening from ply 2 for every placement of at most
one black and one white stone on these squares (`tab`: 157 entries on an even board, 31 on an odd one;
`stOfKey`), and (`hroot`) the enumeration of all pairs of first stones, each looked up in the table by the
stones it has on the squares of `mask` (`maskOK`: the mask covers `nearS`). -/
theorem holds_of_frame (color : Color) (size mask : Nat) (tab : List (Nat × Key)) (h4 : 4 ≤ size) (h64 : size ≤ 64)
    (hmask : maskOK size mask = true) (htab : tabOK color size tab = true)
    (hroot : frameCheck color size mask tab = true) : Holds .cairn color size 6 :=
  holds_of_check .cairn color size (frame_sound color size mask tab h4 h64 hmask htab hroot)

/-! ## the pinned scripts violate the claim (the three defect families, on concrete openings) -/

/-- play moves through the rule book -/
def play : Spec.State → List Move → Option Spec.State
  | s, [] => some s
  | s, m :: ms => match Spec.step s (Spec.decode m) with
    | some q => play q ms
    | none => none

def okMove : R Move → Option Move
  | .ok m => some m
  | .error _ => none

def verdict : R (Rule × Bool) → Option Bool
  | .ok (_, ok) => some ok
  | .error _ => none

/-- **Double stack, bot Black, size 4** (`a1 b1 b1<`; the same on every size).  White's detour captured
Black's stone.  The pinned script then puts Black's second stone on b1 — the square White must return
to; White's return `a1>` is legal and accepted by the rule, and captures it; the scripted stacking move
`b1<` is then a slide of a stack Black does not control: illegal.  Replayed on the real code by
`corpus/C20/pinned-failures.ops` (first line). -/
theorem fpa_doubleStack_counterexample :
    let r : Rule := { blackPlaceX := 0, blackPlaceY := 0, whitePlaceX := 1, whitePlaceY := 0, whiteTmpX := 0, whiteTmpY := 0 }
    let r' : Rule := { r with blackTmpX := 1, blackTmpY := 0 }
    ∃ s3 s4 s5,
      play (init 4).cur [⟨0,0,2,0⟩, ⟨1,0,2,0⟩, ⟨1,0,5,1⟩] = some s3 ∧
      okMove (doubleStackBlackPinned (viewOf s3) r) = some (place 1 0) ∧
      play s3 [place 1 0] = some s4 ∧
      verdict (doubleStackLegal r' (viewOf s4) ⟨0,0,6,1⟩) = some true ∧
      play s4 [⟨0,0,6,1⟩] = some s5 ∧
      (getMove .doubleStack r' (viewOf s5)).toOption = some (some ⟨1,0,5,1⟩) ∧
      Spec.step s5 (Spec.decode ⟨1,0,5,1⟩) = none := by
  refine ⟨_, _, _, rfl, ?_, rfl, ?_, rfl, ?_, ?_⟩ <;> decide +kernel

/-- **Cairn, bot Black, size 4** (`a1 b2 a3`): the pinned script answers on the diagonal towards the
centre, b2, which Black's own first stone occupies: illegal.  (`a3` is accepted as "adjacent to the
centre" only by the pinned `isCenterAdjacent`; on odd sizes the same happens with a genuinely adjacent
square, e.g. size 5 `a1 b3 c2`.) -/
theorem fpa_cairn_black_counterexample :
    let r : Rule := { whitePlaceX := 0, whitePlaceY := 2 }
    ∃ s3,
      play (init 4).cur [⟨0,0,2,0⟩, ⟨1,1,2,0⟩, ⟨0,2,2,0⟩] = some s3 ∧
      isCenterAdjacentPinned (viewOf s3) 0 2 = true ∧
      cairnBlackPinned (viewOf s3) r = place 1 1 ∧
      Spec.step s3 (Spec.decode (place 1 1)) = none := by
  refine ⟨_, rfl, ?_, ?_, ?_⟩ <;> decide +kernel

/-- the same defect with a square that really is next to the centre: size 5, `a1 b3 c2` -/
theorem fpa_cairn_black_counterexample5 :
    let r : Rule := { whitePlaceX := 2, whitePlaceY := 1 }
    ∃ s3,
      play (init 5).cur [⟨0,0,2,0⟩, ⟨1,2,2,0⟩, ⟨2,1,2,0⟩] = some s3 ∧
      isCenterAdjacent (viewOf s3) 2 1 = true ∧
      cairnBlackPinned (viewOf s3) r = place 1 2 ∧
      Spec.step s3 (Spec.decode (place 1 2)) = none := by
  refine ⟨_, rfl, ?_, ?_, ?_⟩ <;> decide +kernel

/-- **Cairn, bot White, size 4** (`a1 a2`, script `b3`, Black `b1`): the pinned rule accepts Black's
`b1` (two steps from b3, "adjacent to the centre" by the `||` slip); the pinned script then slides
b3 to c3, which is not next to Black's stone, and the rule check rejects the bot's own move — it
resigns its own game. -/
theorem fpa_cairn_white_counterexample :
    let r : Rule := { whitePlaceX := 1, whitePlaceY := 2, blackPlaceX := 1, blackPlaceY := 0 }
    ∃ s4,
      play (init 4).cur [⟨0,0,2,0⟩, ⟨0,1,2,0⟩, ⟨1,2,2,0⟩, ⟨1,0,2,0⟩] = some s4 ∧
      (isCenterAdjacentPinned (viewOf s4) 1 0 && distance 1 0 1 2 == 2) = true ∧
      okMove (cairnWhitePinned (viewOf s4) r) = some ⟨1,2,6,1⟩ ∧
      (Spec.step s4 (Spec.decode ⟨1,2,6,1⟩)).isSome = true ∧
      verdict (cairnLegal r (viewOf s4) ⟨1,2,6,1⟩) = some false := by
  refine ⟨_, rfl, ?_, ?_, ?_, ?_⟩ <;> decide +kernel

end C20
