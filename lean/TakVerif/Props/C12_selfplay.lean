import TakVerif.Proofs.SelfplayPTN
import TakVerif.Proofs.PTNRender
import TakVerif.Proofs.ApplyCfg

/-!
# C12 at a producer: the game files `taktician selfplay -out` writes (work package "selfplay2")

`writeGame` (`cmd/internal/selfplay/main.go`; `Tak.CmdSelfplay.gameFile` / `writeGame`) builds a `ptn.PTN` value from a
`Result` and renders it.  Composed with C12 (`render_parse_games`, real `FormatMove` / `ParseMove`):

* `written_game_parses_back`: for a result whose moves were accepted one after the other from the opening (what
  `game_record_and_end` says of every result of `worker`), none of them the internal pass and each in normal form, the
  bytes written parse (with or without a byte-order mark) to a file with the same tags whose moves are EXACTLY the moves
  played, in order; the tag list is `Size`, `Player1`, `Player2`, `Result` iff the final position is finished, `TPS` iff
  the opening's ply counter is not 0.
* `written_game_replays_from_start`: when the opening is the start position of its size (no `-openings` file), the parsed
  file's `InitialPosition` is the opening, so the file replays to the game played.
* `written_game_ply0_opening_lost` (observation, evaluated by the kernel): for the opening `x3/x3/2,x2 1 1` (ply 0, a
  stone on the board) the file has no TPS tag and its `InitialPosition` is the EMPTY board: the file does not replay to
  the game played.  C12 itself is not violated: the file is rendered and parsed losslessly and `InitialPosition` honours
  the tags that are there; the writer, which no listed property anchors, leaves the tag out.
-/
namespace C12
open Tak Tak.CmdSelfplay Notation Tak.Proofs
open Go (lit)
open _root_.PTN hiding Bytes

/-- **a written game file parses back to the moves played.** -/
theorem written_game_parses_back (basis : Array W) (p1 p2 : List Go.Bytes) (r : Result) (f : File)
    (hf : gameFile p1 p2 r = .ok f)
    (happ : C04.applyAll basis r.spec.opening r.moves = .ok r.position)
    (h3 : 3 ≤ r.spec.opening.cfg.size) (h8 : r.spec.opening.cfg.size ≤ 8)
    (hnp : ∀ m ∈ r.moves, m.type ≠ Facts.mtPass) (hnorm : ∀ m ∈ r.moves, isNormal m = true)
    (hply : 0 ≤ r.spec.opening.move ∧ r.spec.opening.move + r.moves.length < 2 ^ 63)
    (htags : ∀ t ∈ f.tags, tagSafe t = true) :
    CmdSelfplay.writeGame (realEnv basis) p1 p2 r = .ok (render (realEnv basis) f) ∧
    ∃ g, parsePTN (realEnv basis) (render (realEnv basis) f) = .ok g ∧
      parsePTN (realEnv basis) (0xEF :: 0xBB :: 0xBF :: render (realEnv basis) f) = .ok g ∧
      g.tags = f.tags ∧ movesOf g.ops = r.moves ∧
      (g.tags.any (fun t => t.name == lit "TPS") = true ↔ r.spec.opening.move ≠ 0) ∧
      (g.tags.any (fun t => t.name == lit "Result") = true ↔ r.position.gameOver.1 = true) := by
  refine ⟨by simp [CmdSelfplay.writeGame, hf], ?_⟩
  obtain ⟨res, tps, htg, hops, hres, hsome, htps⟩ := gameFile_shape p1 p2 r f hf
  have hmoves : movesOf f.ops = r.moves := by
    rw [hops, movesOf_append, movesOf_gameOps]
    cases res <;> simp [movesOf]
  have hgf : GameFile f := by
    refine ⟨htags, fun op hop => ?_⟩
    rw [hops, List.mem_append] at hop
    rcases hop with hop | hop
    · rcases gameOps_mem _ _ _ _ hop with ⟨n, rfl, ply, h1, h2, rfl⟩ | ⟨m, hm, rfl⟩
      · simp only
        have : 0 ≤ ply := by omega
        have e : ply.tdiv 2 = ply / 2 := Int.tdiv_eq_ediv_of_nonneg this
        rw [e]
        refine ⟨by omega, by omega⟩
      · simp only
        refine ⟨⟨r.spec.opening.cfg.size, ?_⟩, rfl, by simp⟩
        have hm' : m ∈ movesOf f.ops := by rw [hmoves]; exact hm
        obtain ⟨s, mods, hmem⟩ := (mem_movesOf f.ops m).1 hm'
        have := replay_legalShape basis f.ops r.spec.opening r.position h3 h8
          (by rw [hmoves, ← applyAll_eq_ptn]; exact happ) (by rw [hmoves]; exact hnp) s m mods hmem
        rw [(isNormal_iff m).1 (hnorm m hm)] at this
        exact this
    · cases res with
      | none => simp at hop
      | some s =>
        simp only [List.mem_singleton] at hop
        subst hop
        exact hres s rfl
  obtain ⟨g, hg1, hg2, hg3, hg4⟩ := render_parse_games basis f hgf
  refine ⟨g, hg1, hg2, hg3, ?_, ?_, ?_⟩
  · rw [← movesOf_clearSrc, hg4, movesOf_clearSrc, hmoves]
  · rw [hg3, htg]
    rcases htps with ⟨h0, rfl⟩ | ⟨h0, t, _, rfl⟩
    · cases res <;> simp [h0] <;> decide
    · cases res <;> simp [h0] <;> decide
  · rw [hg3, htg, ← hsome]
    rcases htps with ⟨h0, rfl⟩ | ⟨h0, t, _, rfl⟩
    · cases res <;> simp <;> decide
    · cases res <;> simp <;> decide

theorem applyAll_cfg (basis : Array W) : ∀ (ms : List Tak.Move) (p q : Pos), C04.applyAll basis p ms = .ok q → q.cfg = p.cfg
  | [], p, q, h => by simp only [C04.applyAll, Except.ok.injEq] at h; rw [h]
  | m :: ms, p, q, h => by
    simp only [C04.applyAll] at h
    split at h
    · rename_i q1 hq1
      rw [applyAll_cfg basis ms q1 q h, apply_cfg hq1]
    · cases h

/-- **from the start position the file replays to the game played.**  With no `-openings` file the opening is
`tak.New(Config{Size: size})`; then the parsed file has no TPS tag, its `InitialPosition` is that opening, and its moves
are the moves played: replaying the file is replaying the game. -/
theorem written_game_replays_from_start (basis : Array W) (p1 p2 : List Go.Bytes) (r : Result) (f g : File) (n : Nat)
    (hf : gameFile p1 p2 r = .ok f)
    (happ : C04.applyAll basis r.spec.opening r.moves = .ok r.position)
    (hnew : Pos.new { size := n, pieces := 0, capstones := 0, blackWinsTies := false } = .ok r.spec.opening)
    (hg : g.tags = f.tags) (hm : movesOf g.ops = r.moves) :
    initialPosition (realEnv basis) g = .ok r.spec.opening ∧
    PTN.applyAll basis r.spec.opening (movesOf g.ops) = .ok r.position := by
  refine ⟨?_, by rw [hm, ← applyAll_eq_ptn]; exact happ⟩
  obtain ⟨h3, h8, hp⟩ := new_ok hnew
  simp only at h3 h8
  have hsz : r.spec.opening.cfg.size = n := by rw [hp]
  have hmv : r.spec.opening.move = 0 := by rw [hp]
  have hcfg := applyAll_cfg basis r.moves _ _ happ
  obtain ⟨res, tps, htg, _, _, _, htps⟩ := gameFile_shape p1 p2 r f hf
  have htps' : tps = [] := by
    rcases htps with ⟨_, h⟩ | ⟨h, _⟩
    · exact h
    · exact absurd hmv h
  subst htps'
  have e1 : g.findTag tagSize = Go.itoa (n : Int) := by
    simp only [File.findTag, hg, htg, List.cons_append, List.find?]
    have : (lit "Size" == tagSize) = true := by decide
    simp only [this, hcfg, hsz]
  have e2 : g.findTag tagTPS = [] := by
    simp only [File.findTag, hg, htg, List.cons_append, List.nil_append, List.find?]
    have a : (lit "Size" == tagTPS) = false := by decide
    have b : (lit "Player1" == tagTPS) = false := by decide
    have c : (lit "Player2" == tagTPS) = false := by decide
    have d : (lit "Result" == tagTPS) = false := by decide
    cases res <;> simp [a, b, c, d, List.find?]
  unfold initialPosition
  simp only [e1, e2]
  have hat : atoi (Go.itoa (n : Int)) = some (n : Int) := by
    have : n = 3 ∨ n = 4 ∨ n = 5 ∨ n = 6 ∨ n = 7 ∨ n = 8 := by omega
    rcases this with rfl | rfl | rfl | rfl | rfl | rfl <;> decide
  rw [hat]
  simp only
  rw [if_neg (by omega)]
  simp only [List.isEmpty_nil, if_true, Int.toNat_natCast]
  exact hnew

/-- a player that always answers the flat on b1 -/
def exB1 : Player Unit :=
  { client := true, newGame := fun _ => some (), move := fun _ _ _ _ => (.move ⟨1, 0, 2, 0#32⟩, (), 0) }

/-- the opening `x3/x3/2,x2 1 1`: 3×3, a black stone on a1, White to move, ply 0 -/
def exPly0 : Pos :=
  match TPS.parseTPS (Array.replicate 64 0#64) (lit "x3/x3/2,x2 1 1") with
  | .ok p => p
  | .error _ => default

/-- **observation: a non-empty opening at ply 0 is lost in the written file.**  One game from `x3/x3/2,x2 1 1`, cut off
after one move (`b1`): the opening has a stone on the board, the file `writeGame` builds carries no TPS tag, and its
`InitialPosition` is the EMPTY 3×3 board - the file does not replay to the game played (here the replay even succeeds,
on a different board).  Not a violation of C12 as listed (the ptn package renders, parses and replays THIS file
correctly); the defect is the test `r.Initial.MoveNumber() != 0` in `cmd/internal/selfplay/main.go`. -/
theorem written_game_ply0_opening_lost :
    (match playGame (Array.replicate 64 0#64) { cutoff := 1 } exB1 exB1 ⟨exPly0, 0, 0, .white⟩ with
     | .ok r =>
       match gameFile [lit "A"] [lit "B"] r with
       | .ok f =>
         r.moves.length == 1 && r.spec.opening.black != 0#64 && r.spec.opening.move == 0 &&
         !(f.tags.any (fun t => t.name == lit "TPS")) &&
         (match initialPosition (realEnv (Array.replicate 64 0#64)) f with
          | .ok p0 => p0.black == 0#64 && p0.white == 0#64 && p0.cfg.size == 3
          | .error _ => false)
       | .error _ => false
     | .error _ => false) = true := by decide +kernel

/-- the hypotheses of `written_game_parses_back` / `written_game_replays_from_start` are satisfiable: one game of two
`b1` players from the 3×3 start position, cut off after one move -/
example :
    (match playGame (Array.replicate 64 0#64) { cutoff := 1 } exB1 exB1 ⟨C04.exStart, 0, 0, .white⟩ with
     | .ok r =>
       match gameFile [lit "A"] [lit "B"] r with
       | .ok f => r.moves.all (fun m => isNormal m && m.type != Facts.mtPass) && f.tags.all tagSafe && r.moves.length == 1 &&
           r.spec.opening.cfg.size == 3 && r.spec.opening.move == 0
       | .error _ => false
     | .error _ => false) = true := by decide +kernel

end C12
