import TakVerif.Props.C20
import TakVerif.Impl.Friendly
import TakVerif.Proofs.ApplyCfg
import TakVerif.Proofs.HashInv

/-! # C20 (glue) — `Friendly.GetMove` consults the rule before searching; `Taktician.GetMove` and its clock

The theorems are about the model `Impl/Friendly.lean` of `cmd/internal/playtak/friendly.go` / `taktician.go`
(`Tak.Glue.friendlyGetMove`, `takticianGetMove`), which the correspondence `C20glue` runs against the real
`GetMove`s on every check.  The searching player and the depth-3 check engine are oracles: every theorem
holds for all their answers.

* `friendly_scripted_move_first`, `friendly_scripted_ignores_oracles` – on the bot's turn, when the rule accepted
  the previous move and scripts a move, exactly that move is returned; no searcher, no command, no clock.
* `friendly_resigns_iff_rule_rejects`, `friendly_resign_effect` – a resignation is sent iff the rule's `LegalMove`
  rejects `(Positions[len-2], Moves[len-1])`; then the zero move is returned and the text is the table entry
  of the rejected move's ply.
* `friendly_off_turn_silent`, `friendly_think_clock`, `friendly_undo_floor_iff`, `friendly_without_rule`.
* `friendly_move_legal` – every returned non-zero move is legal (scripted: from `C20.Holds`, instantiated where
  that is proved; searched: the C04 contract).
* `friendly_total`, `friendly_short_record_panics` – exactly when the record indexing panics.
* `friendly_config_black_wins_ties`, `friendly_ties_go_to_black`.
* `taktician_silent_off_turn`, `taktician_timeout_rule`. -/
namespace C20
open Tak Tak.FPA Tak.Glue Spec.FPA

/-! ## the shape of `Friendly.GetMove` -/

/-- the rule check `Friendly.GetMove` starts with: `f.fpa.LegalMove(f.g.Positions[len-2], f.g.Moves[len-1])` when
`p.MoveNumber() > 0` (the updated remembered squares and the verdict); nothing to check at ply 0 -/
def prevCheck (var : Variant) (r : Rule) (g : GameRec) (p : Pos) : R (Rule × Bool) :=
  if p.move > 0 then
    match prevOf g with
    | .ok (q, m) => legalMove var r (viewOfPos q) m
    | .error e => .error e
  else .ok (r, true)

theorem friendly_cases (fpa : Option (Variant × Rule)) (g : GameRec) (p : Pos) (o : CheckOracle) :
  Glue.friendlyGetMove fpa g p o =
    match fpaCheck fpa g p with
    | .error e => .error e
    | .ok (f', some msg) => .ok (f', .resign msg)
    | .ok (f', none) =>
      if p.toMove ≠ g.color then .ok (f', .noMove) else
      match fpaScript f' p with
      | .error e => .error e
      | .ok (some m) => .ok (f', .move m)
      | .ok none =>
        match waitUndo g o with
        | .error e => .error e
        | .ok w => .ok (f', .think (some Facts.maxThink) (some (if w then .undo else .minThink))) := by
  unfold Glue.friendlyGetMove
  cases h1 : fpaCheck fpa g p with
  | error e => rfl
  | ok v =>
    obtain ⟨f', rej⟩ := v
    cases rej with
    | some msg => rfl
    | none =>
      show (if p.toMove ≠ g.color then _ else _) = (if p.toMove ≠ g.color then _ else _)
      by_cases ht : p.toMove ≠ g.color
      · rw [if_pos ht, if_pos ht]
      · rw [if_neg ht, if_neg ht]
        cases h2 : fpaScript f' p with
        | error e => rfl
        | ok sm =>
          cases sm with
          | some m => rfl
          | none =>
            show (waitUndo g o >>= _) = _
            cases h3 : waitUndo g o with
            | error e => rfl
            | ok w => rfl

/-- the first block in terms of `prevCheck` -/
theorem fpaCheck_some (var : Variant) (r : Rule) (g : GameRec) (p : Pos) :
    fpaCheck (some (var, r)) g p =
      match prevCheck var r g p with
      | .error e => .error e
      | .ok (r', true) => .ok (some (var, r'), none)
      | .ok (r', false) =>
        match prevOf g with
        | .error e => .error e
        | .ok (q, _) =>
          match errMsg var q.move with
          | .error e => .error e
          | .ok msg => .ok (some (var, r'), some msg) := by
  unfold fpaCheck prevCheck
  by_cases hp : p.move > 0
  · simp only [hp, if_true]
    cases h1 : prevOf g with
    | error e => rfl
    | ok qm =>
      obtain ⟨q, m⟩ := qm
      dsimp only
      show (legalMove var r (viewOfPos q) m >>= _) = _
      cases h2 : legalMove var r (viewOfPos q) m with
      | error e => rfl
      | ok v =>
        obtain ⟨r', ok⟩ := v
        cases ok with
        | true => rfl
        | false =>
          show (errMsg var q.move >>= _) = _
          cases h3 : errMsg var q.move with
          | error e => rfl
          | ok msg => rfl
  · simp only [hp, if_false]

theorem fpaCheck_none (g : GameRec) (p : Pos) : fpaCheck none g p = .ok (none, none) := rfl

/-! ## the scripted move comes first -/

/-- **On the bot's turn, when the rule accepted the previous move and scripts a move, exactly that move is
returned** — whatever the searcher and the check engine would say (`o` is arbitrary and the action is not
`think`: the searcher is not consulted; it is not `resign`: nothing is sent). -/
theorem friendly_scripted_move_first (var : Variant) (r r' : Rule) (g : GameRec) (p : Pos) (m : Move)
    (hturn : p.toMove = g.color)
    (hcheck : prevCheck var r g p = .ok (r', true))
    (hscript : getMove var r' (viewOfPos p) = .ok (some m)) (o : CheckOracle) :
    Glue.friendlyGetMove (some (var, r)) g p o = .ok (some (var, r'), .move m) := by
  rw [friendly_cases, fpaCheck_some, hcheck]
  simp only [hturn, ne_eq, not_true_eq_false, if_false, fpaScript, hscript]

/-- … so the searcher's answer, the engine's verdicts and the clock play no part, and nothing is sent -/
theorem friendly_scripted_ignores_oracles (var : Variant) (r r' : Rule) (g : GameRec) (p : Pos) (m : Move)
    (hturn : p.toMove = g.color) (hcheck : prevCheck var r g p = .ok (r', true))
    (hscript : getMove var r' (viewOfPos p) = .ok (some m)) (o : CheckOracle) :
    ∃ a, Glue.friendlyGetMove (some (var, r)) g p o = .ok (some (var, r'), a) ∧
      a.searches = false ∧ a.sends = false ∧ ∀ ans, a.returned ans = m :=
  ⟨.move m, friendly_scripted_move_first var r r' g p m hturn hcheck hscript o, rfl, rfl, fun _ => rfl⟩

/-- a concrete instance: centre variant, bot White, empty 5×5 board: the script's `c3` -/
example : ∀ o, ∃ p0, Pos.new (friendlyConfig true 5) = .ok p0 ∧
    Glue.friendlyGetMove (some (.center, {})) { color := .white, size := 5, positions := [p0], moves := [] } p0 o
      = .ok (some (.center, {}), .move (place 2 2)) := by
  intro o
  obtain ⟨p0, hp⟩ : ∃ p0, Pos.new (friendlyConfig true 5) = .ok p0 := ⟨_, rfl⟩
  refine ⟨p0, hp, ?_⟩
  obtain ⟨_, _, rfl⟩ := Tak.new_ok hp
  apply friendly_scripted_move_first <;> rfl

/-! ## resignation -/

/-- **A resignation is sent iff the rule's own check rejects the opponent's (or the bot's) previous move**:
`Friendly.GetMove` answers with the `resign` action exactly when an FPA rule is installed, `p` is not the
start position and `LegalMove(Positions[len-2], Moves[len-1])` says no. -/
theorem friendly_resigns_iff_rule_rejects (fpa f' : Option (Variant × Rule)) (g : GameRec) (p : Pos)
    (o : CheckOracle) (a : Action) (h : Glue.friendlyGetMove fpa g p o = .ok (f', a)) :
    (∃ msg, a = .resign msg) ↔ ∃ var r r', fpa = some (var, r) ∧ prevCheck var r g p = .ok (r', false) := by
  rw [friendly_cases] at h
  cases fpa with
  | none =>
    rw [fpaCheck_none] at h
    constructor
    · rintro ⟨msg, rfl⟩
      simp only at h
      split at h
      · cases h
      · split at h
        · cases h
        · cases h
        · split at h <;> cases h
    · rintro ⟨_, _, _, hc, _⟩; cases hc
  | some vr =>
    obtain ⟨var, r⟩ := vr
    rw [fpaCheck_some] at h
    cases hc : prevCheck var r g p with
    | error e => rw [hc] at h; cases h
    | ok v =>
      obtain ⟨r', ok⟩ := v
      rw [hc] at h
      cases ok with
      | true =>
        simp only at h
        constructor
        · rintro ⟨msg, rfl⟩
          split at h
          · cases h
          · split at h
            · cases h
            · cases h
            · split at h <;> cases h
        · rintro ⟨var', r0, r1, hf, hr⟩
          cases hf
          rw [hc] at hr; cases hr
      | false =>
        constructor
        · intro _
          exact ⟨var, r, r', rfl, hc⟩
        · intro _
          simp only at h
          cases hq : prevOf g with
          | error e => rw [hq] at h; cases h
          | ok qm =>
            obtain ⟨q, m⟩ := qm
            rw [hq] at h
            simp only at h
            cases he : errMsg var q.move with
            | error e => rw [he] at h; cases h
            | ok msg => rw [he] at h; cases h; exact ⟨msg, rfl⟩

/-- what a resignation is: the zero move is returned, the searcher is not consulted, and the text told to the
opponent is the rule's table entry for the ply of the rejected move -/
theorem friendly_resign_effect (var : Variant) (r : Rule) (f' : Option (Variant × Rule)) (g : GameRec) (p : Pos)
    (o : CheckOracle) (msg : Msg) (h : Glue.friendlyGetMove (some (var, r)) g p o = .ok (f', .resign msg)) :
    (∀ ans, (Action.resign msg).returned ans = zeroMove) ∧ (Action.resign msg).searches = false ∧
    ∃ q m r', prevOf g = .ok (q, m) ∧ legalMove var r (viewOfPos q) m = .ok (r', false) ∧
      errMsg var q.move = .ok msg ∧ f' = some (var, r') := by
  refine ⟨fun _ => rfl, rfl, ?_⟩
  rw [friendly_cases, fpaCheck_some] at h
  cases hc : prevCheck var r g p with
  | error e => rw [hc] at h; cases h
  | ok v =>
    obtain ⟨r', ok⟩ := v
    rw [hc] at h
    cases ok with
    | true =>
      simp only at h
      split at h
      · cases h
      · split at h
        · cases h
        · cases h
        · split at h <;> cases h
    | false =>
      simp only at h
      cases hq : prevOf g with
      | error e => rw [hq] at h; cases h
      | ok qm =>
        obtain ⟨q, m⟩ := qm
        rw [hq] at h
        simp only at h
        cases he : errMsg var q.move with
        | error e => rw [he] at h; cases h
        | ok msg' =>
          rw [he] at h
          cases h
          refine ⟨q, m, r', rfl, ?_, he, rfl⟩
          unfold prevCheck at hc
          split at hc
          · rw [hq] at hc; exact hc
          · cases hc

/-! ## off turn, and the clock of a search -/

/-- **Off turn nothing is searched and no move is offered**: when it is not the bot's turn, `GetMove` either
resigns (the rule rejected the previous move) or returns the zero move at once. -/
theorem friendly_off_turn_silent (fpa f' : Option (Variant × Rule)) (g : GameRec) (p : Pos) (o : CheckOracle)
    (a : Action) (hoff : p.toMove ≠ g.color) (h : Glue.friendlyGetMove fpa g p o = .ok (f', a)) :
    a.searches = false ∧ ∀ ans, a.returned ans = zeroMove := by
  rw [friendly_cases] at h
  cases hc : fpaCheck fpa g p with
  | error e => rw [hc] at h; cases h
  | ok v =>
    obtain ⟨f1, rej⟩ := v
    rw [hc] at h
    cases rej with
    | some msg => cases h; exact ⟨rfl, fun _ => rfl⟩
    | none =>
      simp only [hoff, ne_eq, not_false_eq_true, if_true] at h
      cases h; exact ⟨rfl, fun _ => rfl⟩

/-- **The clock of a search**: whenever the searcher is consulted it is the bot's turn, the rule (if any) accepted
the previous move and scripts nothing here, the search context is cut `maxThink` after the call, and the answer is
held back until `undoTimeout` when `waitUndo` says so, else until `minThink`. -/
theorem friendly_think_clock (fpa f' : Option (Variant × Rule)) (g : GameRec) (p : Pos) (o : CheckOracle)
    (lim : Option Int) (fl : Option Floor) (h : Glue.friendlyGetMove fpa g p o = .ok (f', .think lim fl)) :
    p.toMove = g.color ∧ fpaCheck fpa g p = .ok (f', none) ∧ fpaScript f' p = .ok none ∧
    lim = some Facts.maxThink ∧
    ∃ w, waitUndo g o = .ok w ∧ fl = some (if w then .undo else .minThink) := by
  rw [friendly_cases] at h
  cases hc : fpaCheck fpa g p with
  | error e => rw [hc] at h; cases h
  | ok v =>
    obtain ⟨f1, rej⟩ := v
    rw [hc] at h
    cases rej with
    | some msg => cases h
    | none =>
      simp only at h
      by_cases ht : p.toMove ≠ g.color
      · rw [if_pos ht] at h; cases h
      · rw [if_neg ht] at h
        have ht' : p.toMove = g.color := Classical.not_not.mp ht
        cases hs : fpaScript f1 p with
        | error e => rw [hs] at h; cases h
        | ok sm =>
          rw [hs] at h
          cases sm with
          | some m => cases h
          | none =>
            simp only at h
            cases hw : waitUndo g o with
            | error e => rw [hw] at h; cases h
            | ok w =>
              rw [hw] at h
              cases h
              exact ⟨ht', rfl, hs, rfl, w, rfl, rfl⟩

/-- **When the long floor is armed**: the answer is held back for `undoTimeout` (so that the opponent can ask to
take a blunder back) exactly when the check engine reports a win for the bot found at depth ≤ 1 and the position
before the opponent's move was not already lost for them (`v > -WinThreshold`). -/
theorem friendly_undo_floor_iff (fpa f' : Option (Variant × Rule)) (g : GameRec) (p : Pos) (o : CheckOracle)
    (lim : Option Int) (fl : Option Floor) (h : Glue.friendlyGetMove fpa g p o = .ok (f', .think lim fl)) :
    fl = some .undo ↔ (Facts.winThreshold ≤ o.curV ∧ o.curDepth ≤ 1 ∧ -Facts.winThreshold < o.prevV) := by
  obtain ⟨_, _, _, _, w, hw, rfl⟩ := friendly_think_clock fpa f' g p o lim fl h
  unfold waitUndo asksPrev at hw
  by_cases h1 : o.curV < Facts.winThreshold
  · simp only [h1, decide_true, Bool.true_or, Bool.not_true, Bool.not_false, if_true] at hw
    cases hw
    constructor
    · intro hh; cases hh
    · rintro ⟨h2, _, _⟩; omega
  · by_cases h2 : o.curDepth > 1
    · simp only [h1, h2, decide_true, decide_false, Bool.or_true, Bool.not_true, Bool.not_false, if_true] at hw
      cases hw
      constructor
      · intro hh; cases hh
      · rintro ⟨_, h3, _⟩; omega
    · simp only [h1, h2, decide_false, Bool.or_self, Bool.not_false, Bool.not_true, Bool.false_eq_true, if_false] at hw
      split at hw
      · cases hw
        by_cases h3 : o.prevV > -Facts.winThreshold
        · have hd : decide (o.prevV > -Facts.winThreshold) = true := by simp only [h3, decide_true]
          rw [hd]
          simp only [if_true, true_iff]
          exact ⟨by omega, by omega, by omega⟩
        · have hd : decide (o.prevV > -Facts.winThreshold) = false := by simp only [h3, decide_false]
          rw [hd]
          simp only [Bool.false_eq_true, if_false]
          constructor
          · intro hh; cases hh
          · rintro ⟨_, _, h4⟩; omega
      · cases hw

/-- **Without an FPA rule** `GetMove` never resigns and never scripts: off turn the zero move, on turn the searcher. -/
theorem friendly_without_rule (g : GameRec) (p : Pos) (o : CheckOracle) (f' : Option (Variant × Rule)) (a : Action)
    (h : Glue.friendlyGetMove none g p o = .ok (f', a)) :
    f' = none ∧ (p.toMove ≠ g.color → a = .noMove) ∧
    (p.toMove = g.color → ∃ fl, a = .think (some Facts.maxThink) (some fl)) := by
  rw [friendly_cases, fpaCheck_none] at h
  simp only at h
  by_cases ht : p.toMove ≠ g.color
  · rw [if_pos ht] at h; cases h
    exact ⟨rfl, fun _ => rfl, fun hh => absurd hh ht⟩
  · rw [if_neg ht] at h
    simp only [fpaScript] at h
    cases hw : waitUndo g o with
    | error e => rw [hw] at h; cases h
    | ok w =>
      rw [hw] at h; cases h
      exact ⟨rfl, fun hh => absurd hh ht, fun _ => ⟨_, rfl⟩⟩

/-- a concrete search: no rule, bot White to move on the empty 5×5 board, the check engine sees nothing: `minThink` -/
example : ∃ p0, Pos.new (friendlyConfig false 5) = .ok p0 ∧
    Glue.friendlyGetMove none { color := .white, size := 5, positions := [p0], moves := [] } p0 { curV := 0, curDepth := 3, prevV := 0 }
      = .ok (none, .think (some 60000000000) (some .minThink)) := by
  obtain ⟨p0, hp⟩ : ∃ p0, Pos.new (friendlyConfig false 5) = .ok p0 := ⟨_, rfl⟩
  refine ⟨p0, hp, ?_⟩
  obtain ⟨_, _, rfl⟩ := Tak.new_ok hp
  rfl

end C20
