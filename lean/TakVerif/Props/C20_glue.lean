import TakVerif.Props.C20
import TakVerif.Props.C20_size4
import TakVerif.Props.C20_size5
import TakVerif.Proofs.Glue
import TakVerif.Proofs.Reach
import TakVerif.Proofs.Bot
import TakVerif.Proofs.ApplyCfg
import TakVerif.Proofs.HashInv

/-! # C20 (glue) — `Friendly.GetMove` consults the rule before searching; `Taktician.GetMove` and its clock

The theorems are about the model `Impl/Friendly.lean` of `cmd/internal/playtak/friendly.go` / `taktician.go`
(`Tak.Glue.friendlyGetMove`, `takticianGetMove`), which the correspondence `C20glue` runs against the real
`GetMove`s on every check.  The searching player and the depth-3 check engine are oracles: every theorem
holds for all their answers.

* `friendly_scripted_move_first`, `friendly_scripted_ignores_oracles` – on the bot's turn, when the rule accepted
  the previous move and scripts a move, exactly that move is returned; no searcher, no command, no clock.
* `friendly_resigns_iff_rule_rejects`, `friendly_resign_effect` – a resignation is sent iff the rule's `LegalMove`
  rejects `(Positions[len-2], Moves[len-1])`; then the zero move is returned and the text is the table entry
  of the rejected move's ply.
* `friendly_off_turn_silent`, `friendly_think_clock`, `friendly_undo_floor_iff`, `friendly_without_rule`.
* `friendly_move_legal` – every returned non-zero move is legal (scripted: from `C20.Holds`, instantiated where
  that is proved; searched: the C04 contract).
* `friendly_total`, `friendly_short_record_panics` – exactly when the record indexing panics.
* `friendly_config_black_wins_ties`, `friendly_ties_go_to_black`.
* `taktician_silent_off_turn`, `taktician_timeout_rule`.
* `cairn_undo_no_resign_glue`, `doubleStack_resume_no_resign_glue` (the notes are rebuilt from the record);
  `cairn_undo_resigns_pinned`, `doubleStack_resume_resigns_pinned`: the tree before `fixes/C07-fpa-record-notes.diff`. -/
namespace C20
open Tak Tak.FPA Tak.Glue Spec.FPA

/-! ## the shape of `Friendly.GetMove` -/

/-! ## the scripted move comes first -/

/-- **On the bot's turn, when the rule accepted the previous move and scripts a move, exactly that move is
returned** — whatever the searcher and the check engine would say (`o` is arbitrary and the action is not
`think`: the searcher is not consulted; it is not `resign`: nothing is sent). -/
theorem friendly_scripted_move_first (var : Variant) (r r' : Rule) (g : GameRec) (p : Pos) (m : Move)
    (hturn : p.toMove = g.color)
    (hcheck : prevCheck var r g p = .ok (r', true))
    (hscript : getMove var r' (viewOfPos p) = .ok (some m)) (o : CheckOracle) :
    Glue.friendlyGetMove (some (var, r)) g p o = .ok (some (var, r'), .move m) := by
  rw [friendly_cases, fpaCheck_some, hcheck]
  simp only [hturn, ne_eq, not_true_eq_false, if_false, fpaScript, hscript]

/-- … so the searcher's answer, the engine's verdicts and the clock play no part, and nothing is sent -/
theorem friendly_scripted_ignores_oracles (var : Variant) (r r' : Rule) (g : GameRec) (p : Pos) (m : Move)
    (hturn : p.toMove = g.color) (hcheck : prevCheck var r g p = .ok (r', true))
    (hscript : getMove var r' (viewOfPos p) = .ok (some m)) (o : CheckOracle) :
    ∃ a, Glue.friendlyGetMove (some (var, r)) g p o = .ok (some (var, r'), a) ∧
      a.searches = false ∧ a.sends = false ∧ ∀ ans, a.returned ans = m :=
  ⟨.move m, friendly_scripted_move_first var r r' g p m hturn hcheck hscript o, rfl, rfl, fun _ => rfl⟩

/-- a concrete instance: centre variant, bot White, empty 5×5 board: the script's `c3` -/
example : ∀ o, ∃ p0, Pos.new (friendlyConfig true 5) = .ok p0 ∧
    Glue.friendlyGetMove (some (.center, {})) { color := .white, size := 5, positions := [p0], moves := [] } p0 o
      = .ok (some (.center, {}), .move (place 2 2)) := by
  intro o
  obtain ⟨p0, hp⟩ : ∃ p0, Pos.new (friendlyConfig true 5) = .ok p0 := ⟨_, rfl⟩
  refine ⟨p0, hp, ?_⟩
  obtain ⟨_, _, rfl⟩ := Tak.new_ok hp
  apply friendly_scripted_move_first <;> rfl

/-! ## resignation -/

/-- **A resignation is sent iff the rule's own check rejects the opponent's (or the bot's) previous move**:
`Friendly.GetMove` answers with the `resign` action exactly when an FPA rule is installed, `p` is not the
start position and `LegalMove(Positions[len-2], Moves[len-1])` says no. -/
theorem friendly_resigns_iff_rule_rejects (fpa f' : Option (Variant × Rule)) (g : GameRec) (p : Pos)
    (o : CheckOracle) (a : Action) (h : Glue.friendlyGetMove fpa g p o = .ok (f', a)) :
    (∃ msg, a = .resign msg) ↔ ∃ var r r', fpa = some (var, r) ∧ prevCheck var r g p = .ok (r', false) := by
  rw [friendly_cases] at h
  cases fpa with
  | none =>
    rw [fpaCheck_none] at h
    constructor
    · rintro ⟨msg, rfl⟩
      simp only at h
      split at h
      · cases h
      · split at h
        · cases h
        · cases h
        · split at h <;> cases h
    · rintro ⟨_, _, _, hc, _⟩; cases hc
  | some vr =>
    obtain ⟨var, r⟩ := vr
    rw [fpaCheck_some] at h
    cases hc : prevCheck var r g p with
    | error e => rw [hc] at h; cases h
    | ok v =>
      obtain ⟨r', ok⟩ := v
      rw [hc] at h
      cases ok with
      | true =>
        simp only at h
        constructor
        · rintro ⟨msg, rfl⟩
          split at h
          · cases h
          · split at h
            · cases h
            · cases h
            · split at h <;> cases h
        · rintro ⟨var', r0, r1, hf, hr⟩
          cases hf
          rw [hc] at hr; cases hr
      | false =>
        constructor
        · intro _
          exact ⟨var, r, r', rfl, hc⟩
        · intro _
          simp only at h
          cases hq : prevOf g with
          | error e => rw [hq] at h; cases h
          | ok qm =>
            obtain ⟨q, m⟩ := qm
            rw [hq] at h
            simp only at h
            cases he : errMsg var q.move with
            | error e => rw [he] at h; cases h
            | ok msg => rw [he] at h; cases h; exact ⟨msg, rfl⟩

/-- what a resignation is: the zero move is returned, the searcher is not consulted, and the text told to the
opponent is the rule's table entry for the ply of the rejected move; the rejection is `LegalMove`'s on the newest pair of
the record, with the notes rebuilt from the older pairs (`entryRule`) -/
theorem friendly_resign_effect (var : Variant) (r : Rule) (f' : Option (Variant × Rule)) (g : GameRec) (p : Pos)
    (o : CheckOracle) (msg : Msg) (h : Glue.friendlyGetMove (some (var, r)) g p o = .ok (f', .resign msg)) :
    (∀ ans, (Action.resign msg).returned ans = zeroMove) ∧ (Action.resign msg).searches = false ∧
    ∃ q m r1 r', prevOf g = .ok (q, m) ∧ entryRule var r g = .ok r1 ∧
      legalMoveR var r1 (viewOfPos q) m = .ok (r', false) ∧
      errMsg var q.move = .ok msg ∧ f' = some (var, r') := by
  refine ⟨fun _ => rfl, rfl, ?_⟩
  rw [friendly_cases, fpaCheck_some] at h
  cases hc : prevCheck var r g p with
  | error e => rw [hc] at h; cases h
  | ok v =>
    obtain ⟨r', ok⟩ := v
    rw [hc] at h
    cases ok with
    | true =>
      simp only at h
      split at h
      · cases h
      · split at h
        · cases h
        · cases h
        · split at h <;> cases h
    | false =>
      simp only at h
      cases hq : prevOf g with
      | error e => rw [hq] at h; cases h
      | ok qm =>
        obtain ⟨q, m⟩ := qm
        rw [hq] at h
        simp only at h
        cases he : errMsg var q.move with
        | error e => rw [he] at h; cases h
        | ok msg' =>
          rw [he] at h
          cases h
          unfold prevCheck at hc
          split at hc
          · cases her : entryRule var r g with
            | error e => rw [her] at hc; cases hc
            | ok r1 =>
              rw [her, hq] at hc
              exact ⟨q, m, r1, r', rfl, rfl, hc, he, rfl⟩
          · cases hc

/-! ## off turn, and the clock of a search -/

/-- **Off turn nothing is searched and no move is offered**: when it is not the bot's turn, `GetMove` either
resigns (the rule rejected the previous move) or returns the zero move at once. -/
theorem friendly_off_turn_silent (fpa f' : Option (Variant × Rule)) (g : GameRec) (p : Pos) (o : CheckOracle)
    (a : Action) (hoff : p.toMove ≠ g.color) (h : Glue.friendlyGetMove fpa g p o = .ok (f', a)) :
    a.searches = false ∧ ∀ ans, a.returned ans = zeroMove := by
  rw [friendly_cases] at h
  cases hc : fpaCheck fpa g p with
  | error e => rw [hc] at h; cases h
  | ok v =>
    obtain ⟨f1, rej⟩ := v
    rw [hc] at h
    cases rej with
    | some msg => cases h; exact ⟨rfl, fun _ => rfl⟩
    | none =>
      simp only [hoff, ne_eq, not_false_eq_true, if_true] at h
      cases h; exact ⟨rfl, fun _ => rfl⟩

/-- **The clock of a search**: whenever the searcher is consulted it is the bot's turn, the rule (if any) accepted
the previous move and scripts nothing here, the search context is cut `maxThink` after the call, and the answer is
held back until `undoTimeout` when `waitUndo` says so, else until `minThink`. -/
theorem friendly_think_clock (fpa f' : Option (Variant × Rule)) (g : GameRec) (p : Pos) (o : CheckOracle)
    (lim : Option Int) (fl : Option Floor) (h : Glue.friendlyGetMove fpa g p o = .ok (f', .think lim fl)) :
    p.toMove = g.color ∧ fpaCheck fpa g p = .ok (f', none) ∧ fpaScript f' p = .ok none ∧
    lim = some Facts.maxThink ∧
    ∃ w, waitUndo g o = .ok w ∧ fl = some (if w then .undo else .minThink) := by
  rw [friendly_cases] at h
  cases hc : fpaCheck fpa g p with
  | error e => rw [hc] at h; cases h
  | ok v =>
    obtain ⟨f1, rej⟩ := v
    rw [hc] at h
    cases rej with
    | some msg => cases h
    | none =>
      simp only at h
      by_cases ht : p.toMove ≠ g.color
      · rw [if_pos ht] at h; cases h
      · rw [if_neg ht] at h
        have ht' : p.toMove = g.color := Classical.not_not.mp ht
        cases hs : fpaScript f1 p with
        | error e => rw [hs] at h; cases h
        | ok sm =>
          rw [hs] at h
          cases sm with
          | some m => cases h
          | none =>
            simp only at h
            cases hw : waitUndo g o with
            | error e => rw [hw] at h; cases h
            | ok w =>
              rw [hw] at h
              cases h
              exact ⟨ht', rfl, hs, rfl, w, rfl, rfl⟩

/-- **When the long floor is armed**: the answer is held back for `undoTimeout` (so that the opponent can ask to
take a blunder back) exactly when the check engine reports a win for the bot found at depth ≤ 1 and the position
before the opponent's move was not already lost for them (`v > -WinThreshold`). -/
theorem friendly_undo_floor_iff (fpa f' : Option (Variant × Rule)) (g : GameRec) (p : Pos) (o : CheckOracle)
    (lim : Option Int) (fl : Option Floor) (h : Glue.friendlyGetMove fpa g p o = .ok (f', .think lim fl)) :
    fl = some .undo ↔ (Facts.winThreshold ≤ o.curV ∧ o.curDepth ≤ 1 ∧ -Facts.winThreshold < o.prevV) := by
  obtain ⟨_, _, _, _, w, hw, rfl⟩ := friendly_think_clock fpa f' g p o lim fl h
  unfold waitUndo asksPrev at hw
  by_cases h1 : o.curV < Facts.winThreshold
  · simp only [h1, decide_true, Bool.true_or, Bool.not_true, Bool.not_false, if_true] at hw
    cases hw
    constructor
    · intro hh; cases hh
    · rintro ⟨h2, _, _⟩; omega
  · by_cases h2 : o.curDepth > 1
    · simp only [h1, h2, decide_true, decide_false, Bool.or_true, Bool.not_true, Bool.not_false, if_true] at hw
      cases hw
      constructor
      · intro hh; cases hh
      · rintro ⟨_, h3, _⟩; omega
    · simp only [h1, h2, decide_false, Bool.or_self, Bool.not_false, Bool.not_true, Bool.false_eq_true, if_false] at hw
      split at hw
      · cases hw
        by_cases h3 : o.prevV > -Facts.winThreshold
        · have hd : decide (o.prevV > -Facts.winThreshold) = true := by simp only [h3, decide_true]
          rw [hd]
          simp only [if_true, true_iff]
          exact ⟨by omega, by omega, by omega⟩
        · have hd : decide (o.prevV > -Facts.winThreshold) = false := by simp only [h3, decide_false]
          rw [hd]
          simp only [Bool.false_eq_true, if_false]
          constructor
          · intro hh; cases hh
          · rintro ⟨_, _, h4⟩; omega
      · cases hw

/-- **Without an FPA rule** `GetMove` never resigns and never scripts: off turn the zero move, on turn the searcher. -/
theorem friendly_without_rule (g : GameRec) (p : Pos) (o : CheckOracle) (f' : Option (Variant × Rule)) (a : Action)
    (h : Glue.friendlyGetMove none g p o = .ok (f', a)) :
    f' = none ∧ (p.toMove ≠ g.color → a = .noMove) ∧
    (p.toMove = g.color → ∃ fl, a = .think (some Facts.maxThink) (some fl)) := by
  rw [friendly_cases, fpaCheck_none] at h
  simp only at h
  by_cases ht : p.toMove ≠ g.color
  · rw [if_pos ht] at h; cases h
    exact ⟨rfl, fun _ => rfl, fun hh => absurd hh ht⟩
  · rw [if_neg ht] at h
    simp only [fpaScript] at h
    cases hw : waitUndo g o with
    | error e => rw [hw] at h; cases h
    | ok w =>
      rw [hw] at h; cases h
      exact ⟨rfl, fun hh => absurd hh ht, fun _ => ⟨_, rfl⟩⟩

/-- a concrete search: no rule, bot White to move on the empty 5×5 board, the check engine sees nothing: `minThink` -/
example : ∃ p0, Pos.new (friendlyConfig false 5) = .ok p0 ∧
    Glue.friendlyGetMove none { color := .white, size := 5, positions := [p0], moves := [] } p0 { curV := 0, curDepth := 3, prevV := 0 }
      = .ok (none, .think (some 60000000000) (some .minThink)) := by
  obtain ⟨p0, hp⟩ : ∃ p0, Pos.new (friendlyConfig false 5) = .ok p0 := ⟨_, rfl⟩
  refine ⟨p0, hp, ?_⟩
  obtain ⟨_, _, rfl⟩ := Tak.new_ok hp
  rfl

/-! ## every returned move is legal -/

/-- **Every move `Friendly.GetMove` returns under an FPA rule is the zero move or legal.**
`t` is a state of C20's opening game (`Spec.FPA`: the rule's remembered squares, the current position, the
previous one with the move that led here) reachable within the horizon for which the C20 claim `Holds`; the
call `(g, p)` shows the rule code what `t` shows it (same view of the position, same side to move, same previous
pair; `g.color` the bot's colour), and the notes rebuilt from the record `g` are `t`'s (`hnotes`; the rule value may hold
any notes `r` on entry — `Proofs.FPARepair.entryNotes_eq`: for a record with plies 0, 1, 2, … the rebuilt notes do not
depend on them).  Then whatever `GetMove` returns is the zero move (resignation, not the bot's
turn) or a move that is legal by the rule book in `t.cur`: the scripted move by `C20.Holds`, the searcher's answer
by the contract C04 gives it (`hsearch`: legal whenever it is consulted).  Instances: `friendly_move_legal_centre`
(every size 4..8), `friendly_move_legal_4x4`, `friendly_move_legal_5x5` (double stack and cairn). -/
theorem friendly_move_legal (var : Variant) (color : Color) (size horizon : Nat)
    (hH : Holds var color size horizon) (k : Nat) (hk : k ≤ horizon) (t : St Spec.State)
    (hreach : Reach specBoard var color k (init size) t)
    (g : GameRec) (p : Pos) (o : CheckOracle) (f' : Option (Variant × Rule)) (a : Action)
    (hcol : g.color = color) (hview : viewOfPos p = viewOf t.cur) (hmv : p.toMove = t.cur.toMove)
    (hprev : prevViews g = t.prev.map (fun (q, m) => (viewOf q, m)))
    (r : Rule) (hnotes : Glue.entryNotes var r g p = .ok t.rule)
    (h : Glue.friendlyGetMove (some (var, r)) g p o = .ok (f', a))
    (ans : Move) (hsearch : a.searches = true → (Spec.step t.cur (Spec.decode ans)).isSome = true) :
    a.returned ans = zeroMove ∨ (Spec.step t.cur (Spec.decode (a.returned ans))).isSome = true := by
  obtain ⟨r1, r', rep, hn, hf, _, hm⟩ := glue_refines_fpa var r g p o f' a h
  rw [hnotes] at hn
  injection hn with hn
  subst hn
  have hturn : turn specBoard var color t = .ok (r', rep) := by
    unfold turn
    show FPA.friendlyGetMove var color t.rule (viewOf t.cur) t.cur.toMove (t.prev.map (fun (q, m) => (viewOf q, m))) = _
    rw [← hview, ← hmv, ← hprev, ← hcol]
    exact hf
  have hg := hH k t hk hreach
  cases hm with
  | resign msg => exact .inl rfl
  | notMyTurn => exact .inl rfl
  | scripted m => exact .inr (good_scripted var color t r' m hg hturn)
  | search l f => exact .inr (hsearch rfl)

/-- the same in the terms of the bot loop: what is handed to `g.p.Move` is legal or the zero move, which
`Position.Move` rejects ("ai returned bad move"; the loop then asks again) -/
theorem friendly_move_legal_centre (size : Nat) (hs : size ∈ [4, 5, 6, 7, 8]) (color : Color)
    (hc : color ∈ [Color.white, Color.black]) (k : Nat) (hk : k ≤ 2) (t : St Spec.State)
    (hreach : Reach specBoard .center color k (init size) t)
    (g : GameRec) (p : Pos) (o : CheckOracle) (f' : Option (Variant × Rule)) (a : Action)
    (hcol : g.color = color) (hview : viewOfPos p = viewOf t.cur) (hmv : p.toMove = t.cur.toMove)
    (hprev : prevViews g = t.prev.map (fun (q, m) => (viewOf q, m)))
    (r : Rule) (hnotes : Glue.entryNotes .center r g p = .ok t.rule)
    (h : Glue.friendlyGetMove (some (.center, r)) g p o = .ok (f', a))
    (ans : Move) (hsearch : a.searches = true → (Spec.step t.cur (Spec.decode ans)).isSome = true) :
    a.returned ans = zeroMove ∨ (Spec.step t.cur (Spec.decode (a.returned ans))).isSome = true :=
  friendly_move_legal .center color size 2 (fpa_centre size hs color hc) k hk t hreach g p o f' a hcol hview hmv hprev r hnotes h ans hsearch

/-- the C20 claim holds for every variant and both colours on the 4×4 and 5×5 boards (centre: horizon 2 suffices, 6 is
what the other two need; stated with the horizon each was proved for) -/
theorem holds_4x4_5x5 (var : Variant) (hv : var ≠ .center) (color : Color) (hc : color ≠ .none)
    (size : Nat) (hs : size = 4 ∨ size = 5) : Holds var color size 6 := by
  rcases hs with rfl | rfl <;> cases var <;> cases color <;>
    first
    | exact absurd rfl hv
    | exact absurd rfl hc
    | exact fpa_doubleStack_partial_white
    | exact fpa_doubleStack_partial_black
    | exact fpa_cairn_partial_white
    | exact fpa_cairn_partial_black
    | exact fpa_doubleStack_partial5_white
    | exact fpa_doubleStack_partial5_black
    | exact fpa_cairn_partial5_white
    | exact fpa_cairn_partial5_black

/-- double stack and cairn, 4×4 and 5×5, both colours: every move returned during the scripted opening (6 plies and
the check of the last one) is the zero move or legal -/
theorem friendly_move_legal_4x4_5x5 (var : Variant) (hv : var ≠ .center) (color : Color) (hc : color ≠ .none)
    (size : Nat) (hs : size = 4 ∨ size = 5) (k : Nat) (hk : k ≤ 6) (t : St Spec.State)
    (hreach : Reach specBoard var color k (init size) t)
    (g : GameRec) (p : Pos) (o : CheckOracle) (f' : Option (Variant × Rule)) (a : Action)
    (hcol : g.color = color) (hview : viewOfPos p = viewOf t.cur) (hmv : p.toMove = t.cur.toMove)
    (hprev : prevViews g = t.prev.map (fun (q, m) => (viewOf q, m)))
    (r : Rule) (hnotes : Glue.entryNotes var r g p = .ok t.rule)
    (h : Glue.friendlyGetMove (some (var, r)) g p o = .ok (f', a))
    (ans : Move) (hsearch : a.searches = true → (Spec.step t.cur (Spec.decode ans)).isSome = true) :
    a.returned ans = zeroMove ∨ (Spec.step t.cur (Spec.decode (a.returned ans))).isSome = true :=
  friendly_move_legal var color size 6 (holds_4x4_5x5 var hv color hc size hs) k hk t hreach g p o f' a hcol hview hmv hprev r hnotes h ans hsearch

/-- the bit-level call `(g, p)` of `GetMove` shows the state `t` of the opening game: `p` is well-formed and abstracts
to `t.cur`; the record's previous pair is (a well-formed position abstracting to `t`'s previous position, the same
move), or there is none in both -/
structure Abstracts (basis : Array W) (g : GameRec) (p : Pos) (color : Color) (t : St Spec.State) : Prop where
  color : g.color = color
  wf : WF basis p
  cur : Spec.abs p = t.cur
  prev : match t.prev with
    | none => prevViews g = none
    | some (s, m) => ∃ q, prevOf g = .ok (q, m) ∧ WF basis q ∧ Spec.abs q = s

/-- `friendly_move_legal` with the link to the bit-level record spelled out (`Abstracts`, through
`viewOfPos_abs`: a well-formed position and its abstraction show the rule code the same board) -/
theorem friendly_move_legal_abs (basis : Array W) (var : Variant) (color : Color) (size horizon : Nat)
    (hH : Holds var color size horizon) (k : Nat) (hk : k ≤ horizon) (t : St Spec.State)
    (hreach : Reach specBoard var color k (init size) t)
    (g : GameRec) (p : Pos) (o : CheckOracle) (f' : Option (Variant × Rule)) (a : Action)
    (habs : Abstracts basis g p color t)
    (r : Rule) (hnotes : Glue.entryNotes var r g p = .ok t.rule)
    (h : Glue.friendlyGetMove (some (var, r)) g p o = .ok (f', a))
    (ans : Move) (hsearch : a.searches = true → (Spec.step (Spec.abs p) (Spec.decode ans)).isSome = true) :
    a.returned ans = zeroMove ∨ (Spec.step (Spec.abs p) (Spec.decode (a.returned ans))).isSome = true := by
  rw [habs.cur] at hsearch ⊢
  refine friendly_move_legal var color size horizon hH k hk t hreach g p o f' a habs.color ?_ ?_ ?_ r hnotes h ans hsearch
  · rw [viewOfPos_abs habs.wf, habs.cur]
  · rw [← habs.cur]; rfl
  · have hp := habs.prev
    cases htp : t.prev with
    | none => rw [htp] at hp; simpa using hp
    | some sm =>
      obtain ⟨s, m⟩ := sm
      rw [htp] at hp
      obtain ⟨q, hq, hwf, hs⟩ := hp
      simp only [prevViews, hq, Option.map_some]
      rw [viewOfPos_abs hwf, hs]

/-- `Abstracts` is satisfiable: the start of a game on 5×5, any Zobrist table -/
example (basis : Array W) : ∃ p0, Pos.new (friendlyConfig true 5) = .ok p0 ∧
    Abstracts basis { color := .white, size := 5, positions := [p0], moves := [] } p0 .white (init 5) := by
  obtain ⟨p0, hp⟩ : ∃ p0, Pos.new (friendlyConfig true 5) = .ok p0 := ⟨_, rfl⟩
  refine ⟨p0, hp, rfl, Tak.new_wf basis hp, ?_, rfl⟩
  obtain ⟨_, _, rfl⟩ := Tak.new_ok hp
  decide +kernel

/-- the full statement (sizes 6..8 for double stack and cairn are covered by the exhaustive correspondence of
C20, not by a kernel evaluation: `C20.fpa_doubleStack_statement`, `fpa_cairn_statement`) -/
def friendly_move_legal_statement : Prop :=
  ∀ (var : Variant) (color : Color) (size : Nat), color ≠ .none → size ∈ [4, 5, 6, 7, 8] →
    ∀ (k : Nat) (t : St Spec.State), k ≤ 6 → Reach specBoard var color k (init size) t →
    ∀ (g : GameRec) (p : Pos) (o : CheckOracle) (f' : Option (Variant × Rule)) (a : Action),
      g.color = color → viewOfPos p = viewOf t.cur → p.toMove = t.cur.toMove →
      prevViews g = t.prev.map (fun (q, m) => (viewOf q, m)) →
      ∀ r : Rule, Glue.entryNotes var r g p = .ok t.rule →
      Glue.friendlyGetMove (some (var, r)) g p o = .ok (f', a) →
      ∀ ans, (a.searches = true → (Spec.step t.cur (Spec.decode ans)).isSome = true) →
        a.returned ans = zeroMove ∨ (Spec.step t.cur (Spec.decode (a.returned ans))).isSome = true

/-- the hypotheses of `friendly_move_legal` are satisfiable: the start of a centre game on 5×5, bot White, seen
through the bit-level start position -/
example : ∃ p0, Pos.new (friendlyConfig true 5) = .ok p0 ∧
    Reach specBoard .center .white 0 (init 5) (init 5) ∧
    viewOfPos p0 = viewOf (init 5).cur ∧ p0.toMove = (init 5).cur.toMove ∧
    prevViews { color := .white, size := 5, positions := [p0], moves := [] } = (init 5).prev.map (fun (q, m) => (viewOf q, m)) := by
  obtain ⟨p0, hp⟩ : ∃ p0, Pos.new (friendlyConfig true 5) = .ok p0 := ⟨_, rfl⟩
  refine ⟨p0, hp, .refl _, ?_, ?_, ?_⟩
  · obtain ⟨_, _, rfl⟩ := Tak.new_ok hp
    exact view_ext_of_empty _ _ rfl rfl (viewOfPos_empty_board _ rfl rfl) (viewOf_init_empty 5)
  · obtain ⟨_, _, rfl⟩ := Tak.new_ok hp
    rfl
  · rfl

/-! ## when the record indexing panics -/

/-- the rule's own code does not panic on this call (for the openings of C20 that is part of `C20.Holds`) -/
def RuleTotal (fpa : Option (Variant × Rule)) (g : GameRec) (p : Pos) : Prop :=
  ∀ var r, fpa = some (var, r) →
    (p.move > 0 → ∃ r1, entryRule var r g = .ok r1 ∧
      ∀ q m, prevOf g = .ok (q, m) → ∃ x, legalMoveR var r1 (viewOfPos q) m = .ok x) ∧
    (∀ r', ∃ y, getMove var r' (viewOfPos p) = .ok y)

/-- **No index panic on a record with a previous position**: when the record holds at least two positions and one
move (in the bot loop: as soon as one move was made — `Tak.Bot.Core.shape` keeps `len(Positions) = len(Moves)+1`),
`Friendly.GetMove` runs through, whatever position it is called on and whatever the oracles say, provided the
rule's own code does not panic; the resignation text always exists (`errMsg_ok_of_reject`). -/
theorem friendly_total (fpa : Option (Variant × Rule)) (g : GameRec) (p : Pos) (o : CheckOracle)
    (hrule : RuleTotal fpa g p) (hrec : 2 ≤ g.positions.length ∧ 1 ≤ g.moves.length) :
    ∃ x, Glue.friendlyGetMove fpa g p o = .ok x := by
  obtain ⟨q, m, hq⟩ : ∃ q m, prevOf g = .ok (q, m) := by
    unfold prevOf
    obtain ⟨hp, hm⟩ := hrec
    match hg : g.positions, hg2 : g.moves with
    | _ :: q :: _, m :: _ => exact ⟨q, m, rfl⟩
    | [], _ => rw [hg] at hp; simp at hp
    | [_], _ => rw [hg] at hp; simp at hp
    | _ :: _ :: _, [] => rw [hg2] at hm; simp at hm
  have hw : ∃ w, waitUndo g o = .ok w := by
    unfold waitUndo
    split
    · exact ⟨_, rfl⟩
    · match hg : g.positions with
      | _ :: _ :: _ => exact ⟨_, rfl⟩
      | [] => rw [hg] at hrec; simp at hrec
      | [_] => rw [hg] at hrec; simp at hrec
  obtain ⟨w, hw⟩ := hw
  rw [friendly_cases]
  cases fpa with
  | none =>
    rw [fpaCheck_none]
    simp only [fpaScript, hw]
    split <;> exact ⟨_, rfl⟩
  | some vr =>
    obtain ⟨var, r⟩ := vr
    obtain ⟨hl, hgm⟩ := hrule var r rfl
    rw [fpaCheck_some]
    unfold prevCheck
    by_cases hp : p.move > 0
    · obtain ⟨r1, her, hl⟩ := hl hp
      simp only [hp, if_true, her, hq]
      obtain ⟨⟨r', ok⟩, hx⟩ := hl q m hq
      rw [hx]
      cases ok with
      | false =>
        obtain ⟨msg, he⟩ := errMsg_ok_of_reject (r := if (viewOfPos q).ply = 0 then {} else r1) hx
        simp only [he]
        exact ⟨_, rfl⟩
      | true =>
        simp only [fpaScript]
        obtain ⟨y, hy⟩ := hgm r'
        rw [hy]
        split
        · exact ⟨_, rfl⟩
        · cases y <;> simp only [hw] <;> exact ⟨_, rfl⟩
    · simp only [hp, if_false, fpaScript]
      obtain ⟨y, hy⟩ := hgm r
      rw [hy]
      split
      · exact ⟨_, rfl⟩
      · cases y <;> simp only [hw] <;> exact ⟨_, rfl⟩

/-- **In the bot loop** (`Impl/Bot.lean`, the model of `playtak/bot/bot.go` with the stale-answer fix): after ANY
interleaving of server lines, thinker hand-overs, AI answers and timer expiries, as long as the protocol goroutine
has not crashed and the record holds at least one move, `Friendly.GetMove` does not panic on the record — for a
thinker started on any position, current or stale (`Tak.Bot.Core.shape`: `len(Positions) = len(Moves) + 1`). -/
theorem friendly_total_in_bot_loop (cfg : Bot.Conf) (hfix : cfg.fixed = true) (size : Nat) (secs : Int)
    (evs : List Bot.Ev) (hnc : ¬ (Bot.run cfg (Bot.start cfg size secs) evs).crashed)
    (hm : (Bot.run cfg (Bot.start cfg size secs) evs).moves ≠ [])
    (fpa : Option (Variant × Rule)) (p : Pos) (o : CheckOracle)
    (hrule : RuleTotal fpa { color := cfg.color, size := size,
                              positions := (Bot.run cfg (Bot.start cfg size secs) evs).positions,
                              moves := (Bot.run cfg (Bot.start cfg size secs) evs).moves } p) :
    ∃ x, Glue.friendlyGetMove fpa { color := cfg.color, size := size,
                                    positions := (Bot.run cfg (Bot.start cfg size secs) evs).positions,
                                    moves := (Bot.run cfg (Bot.start cfg size secs) evs).moves } p o = .ok x := by
  have hshape := (Bot.sinv_run hfix (Bot.sinv_start cfg size secs) evs).core.shape hnc
  apply friendly_total _ _ _ _ hrule
  generalize (Bot.run cfg (Bot.start cfg size secs) evs).moves = ms at hm hshape
  cases ms with
  | nil => exact absurd rfl hm
  | cons m ms => simp only [List.length_cons] at hshape ⊢; omega

/-- the hypotheses on the loop are satisfiable: the bot (White) has answered `a1`; the loop runs, the record holds one move -/
example :
    let cfg : Bot.Conf := { basis := Array.replicate 64 0#64, color := .white, gameStr := "Game#7", fixed := true }
    let s := Bot.run cfg (Bot.start cfg 5 600) [.grant 0, .aiReturns 0 (place 0 0)]
    s.status = .running ∧ s.moves = [place 0 0] ∧ s.positions.length = 2 := by
  decide +kernel

/-- **… and exactly there it does panic**: with an FPA rule, a call on a position that is not a start position
while the record holds fewer than two positions (or no move) is an index panic — the case of a thinker that
was started before its position was undone (op lines `… u c;j=…` of the correspondence; not reachable while the
thinker's position is still in the record). -/
theorem friendly_short_record_panics (var : Variant) (r : Rule) (g : GameRec) (p : Pos) (o : CheckOracle)
    (hp : p.move > 0) (hshort : g.positions.length < 2 ∨ g.moves = []) :
    ∃ e, Glue.friendlyGetMove (some (var, r)) g p o = .error e := by
  have hq : ∃ e, prevOf g = .error e := by
    unfold prevOf
    match hg : g.positions, hg2 : g.moves with
    | [], _ => exact ⟨_, rfl⟩
    | [_], _ => exact ⟨_, rfl⟩
    | _ :: _ :: _, [] => exact ⟨_, rfl⟩
    | _ :: _ :: _, _ :: _ =>
      rcases hshort with h | h
      · rw [hg] at h; simp only [List.length_cons] at h; omega
      · rw [hg2] at h; cases h
  obtain ⟨e, hq⟩ := hq
  rw [friendly_cases, fpaCheck_some]
  unfold prevCheck
  simp only [hp, if_true, hq]
  cases entryRule var r g <;> exact ⟨_, rfl⟩

/-- the other index: `waitUndo` reads `Positions[len-2]` when its engine reports a win in one for the bot; on a
one-position record (ply 0) that is a panic.  No engine that is sound (C05 `verdict_sound`) reports a win on the
empty board, so this needs an oracle no real engine is. -/
theorem friendly_waitUndo_short_record (g : GameRec) (p : Pos) (o : CheckOracle)
    (hturn : p.toMove = g.color) (hlen : g.positions.length < 2) (ha : asksPrev o = true) :
    ∃ e, Glue.friendlyGetMove none g p o = .error e := by
  rw [friendly_cases, fpaCheck_none]
  simp only [hturn, ne_eq, not_true_eq_false, if_false, fpaScript]
  unfold waitUndo
  simp only [ha, Bool.not_true, Bool.false_eq_true, if_false]
  match hg : g.positions with
  | [] => exact ⟨_, rfl⟩
  | [_] => exact ⟨_, rfl⟩
  | _ :: _ :: _ => rw [hg] at hlen; simp at hlen; omega

/-- the panic on a concrete record: double stack, a thinker started after `a1` whose position was undone since -/
example : ∃ p0 p1, Pos.new (friendlyConfig true 5) = .ok p0 ∧ p0.apply (Array.replicate 64 0#64) (place 0 0) = .ok p1 ∧
    ∃ e, Glue.friendlyGetMove (some (.doubleStack, {})) { color := .black, size := 5, positions := [p0], moves := [] } p1
      { curV := 0, curDepth := 0, prevV := 0 } = .error e := by
  refine ⟨_, _, rfl, rfl, ?_⟩
  apply friendly_short_record_panics
  · decide +kernel
  · left; decide

/-! ## the rule's remembered squares and the record (before and after `fixes/C07-fpa-record-notes.diff`)

`LegalMove` is where the rules remember squares.  Before the patch `Friendly.GetMove` called it once per call, on the
newest pair of the record: the opening scripts were right only if `GetMove` was called exactly once per ply, in order —
true for a game played from the start without undos, not otherwise (`*_pinned`: runs of the model of that tree on
concrete games, where the bot gave up a correctly played game).  With the patch the notes are rebuilt from the record on
every call (`*_no_resign_glue`: the same games; replayed on the real code by `corpus/C20/glue-record-state.ops`). -/

/-- events of a game as `Friendly.GetMove` sees it through the bot loop: the record grows by a move, shrinks by
an `Undo`, and `GetMove` is called on the newest position (`call`) -/
inductive Ev where
  | move (m : Move)
  | undo
  | call
deriving Repr, DecidableEq

structure Trace where
  fpa : Option (Variant × Rule)
  positions : List Pos
  moves : List Move
  actions : List Action     -- oldest first
  failed : Bool := false    -- an illegal move, an undo on the start position, or a panic

/-- run events on a model `gm` of `Friendly.GetMove` (all hash-independent: the Zobrist basis is irrelevant to the actions) -/
def runEventsWith (gm : Option (Variant × Rule) → GameRec → Pos → CheckOracle → R (Option (Variant × Rule) × Action))
    (color : Color) (size : Nat) (o : CheckOracle) : Trace → List Ev → Trace
  | t, [] => t
  | t, e :: es =>
    if t.failed then t else
    match e, t.positions, t.moves with
    | .move m, p :: ps, ms =>
      match p.apply (Array.replicate 64 0#64) m with
      | .ok q => runEventsWith gm color size o { t with positions := q :: p :: ps, moves := m :: ms } es
      | .error _ => { t with failed := true }
    | .undo, _ :: q :: ps, _ :: ms => runEventsWith gm color size o { t with positions := q :: ps, moves := ms } es
    | .call, p :: ps, ms =>
      match gm t.fpa { color := color, size := size, positions := p :: ps, moves := ms } p o with
      | .ok (f, a) => runEventsWith gm color size o { t with fpa := f, actions := t.actions ++ [a] } es
      | .error _ => { t with failed := true }
    | _, _, _ => { t with failed := true }

/-- … on the code as it is (with `fixes/C07-fpa-record-notes.diff`) -/
def runEvents := runEventsWith Glue.friendlyGetMove

/-- … on the tree before that patch -/
def runEventsPinned := runEventsWith Glue.friendlyGetMovePinned

def startTrace (var : Variant) (size : Nat) : Option Trace :=
  match Pos.new (friendlyConfig true size) with
  | .ok p0 => some { fpa := some (var, {}), positions := [p0], moves := [], actions := [] }
  | .error _ => none

def quiet : CheckOracle := { curV := 0, curDepth := 3, prevV := 0 }

def slideR (x y : Int) : Move := { x := x, y := y, type := Facts.mtSlideRight, slides := slide1 }
def slideL (x y : Int) : Move := { x := x, y := y, type := Facts.mtSlideLeft, slides := slide1 }

/-- the undisturbed cairn opening, bot White, 5×5: `a1 e5`, script `b3`, Black `c2`, script `b3>`, Black captures
`c2+`: scripted moves at plies 2 and 4, no resignation -/
theorem cairn_opening_runs :
    (startTrace .cairn 5).map (fun t => (runEvents .white 5 quiet t
        [.call, .move (place 0 0), .call, .move (place 4 4), .call, .move (place 1 2), .call, .move (place 2 1), .call,
         .move (slideR 1 2), .call, .move { x := 2, y := 1, type := Facts.mtSlideUp, slides := slide1 }, .call]).actions) =
      some [.think (some Facts.maxThink) (some .minThink), .noMove, .move (place 1 2), .noMove, .move (slideR 1 2), .noMove,
            .think (some Facts.maxThink) (some .minThink)] := by
  decide +kernel

/-- **Before `fixes/C07-fpa-record-notes.diff`: an `Undo` inside the cairn opening made the bot resign a correctly played
game.**  Same game; after the bot's scripted slide `b3>` the opponent asks to undo it (`Friendly.AcceptUndo` always
agrees).  The check of that slide had overwritten `whitePlace` with the centre square, so the re-check of Black's
(accepted) stone `c2` measured distance 1 instead of 2: `Resign`, telling Black they misplaced their stone
(`cairnErrors[3]`). -/
theorem cairn_undo_resigns_pinned :
    (startTrace .cairn 5).map (fun t => (runEventsPinned .white 5 quiet t
        [.call, .move (place 0 0), .call, .move (place 4 4), .call, .move (place 1 2), .call, .move (place 2 1), .call,
         .move (slideR 1 2), .call, .undo, .call]).actions) =
      some [.think (some Facts.maxThink) (some .minThink), .noMove, .move (place 1 2), .noMove, .move (slideR 1 2), .noMove,
            .resign (.cairn 3)] := by
  decide +kernel

/-- **… with the patch the re-check accepts `c2` and the bot scripts its slide `b3>` again** (the notes are rebuilt from
the record: `whitePlace` is `b3` again). -/
theorem cairn_undo_no_resign_glue :
    (startTrace .cairn 5).map (fun t => (runEvents .white 5 quiet t
        [.call, .move (place 0 0), .call, .move (place 4 4), .call, .move (place 1 2), .call, .move (place 2 1), .call,
         .move (slideR 1 2), .call, .undo, .call]).actions) =
      some [.think (some Facts.maxThink) (some .minThink), .noMove, .move (place 1 2), .noMove, .move (slideR 1 2), .noMove,
            .move (slideR 1 2)] := by
  decide +kernel

/-- **Before the patch: a game resumed inside the opening lost the remembered squares.**  Double stack, bot Black, 5×5:
the server replays `c3 d4 d4<` (no `GetMove` call in between, as after a reconnect), then the bot is asked: it scripted
`b1` — next to `a1`, the zero value of `blackPlace`, not next to its stone on `c3` — and after White's correct return
`c4>` it resigned, telling White they should have moved back to where they started (`doubleStackErrors[4]`). -/
theorem doubleStack_resume_resigns_pinned :
    (startTrace .doubleStack 5).map (fun t => (runEventsPinned .black 5 quiet t
        [.move (place 2 2), .move (place 3 3), .move (slideL 3 3), .call, .move (place 1 0), .call,
         .move (slideR 2 3), .call]).actions) =
      some [.move (place 1 0), .noMove, .resign (.doubleStack 4)] := by
  decide +kernel

/-- **… with the patch the resumed game goes on**: the bot scripts `b3` (next to its stone on `c3`, not on `d4` where
White must return), accepts White's return `c4>` and scripts the stacking slide `b3>`. -/
theorem doubleStack_resume_no_resign_glue :
    (startTrace .doubleStack 5).map (fun t => (runEvents .black 5 quiet t
        [.move (place 2 2), .move (place 3 3), .move (slideL 3 3), .call, .move (place 1 2), .call,
         .move (slideR 2 3), .call]).actions) =
      some [.move (place 1 2), .noMove, .move (slideR 1 2)] := by
  decide +kernel

/-! ## `Config` -/

/-- **`Friendly.Config`**: the size asked for, default piece counts, and Black wins ties exactly when an FPA rule
is installed. -/
theorem friendly_config_black_wins_ties (fpa : Bool) (size : Nat) :
    (friendlyConfig fpa size).blackWinsTies = fpa ∧ (friendlyConfig fpa size).size = size ∧
    (friendlyConfig fpa size).pieces = 0 ∧ (friendlyConfig fpa size).capstones = 0 := ⟨rfl, rfl, rfl, rfl⟩

/-- … and what it means for the game the bot loop starts with it (`tak.New(config(b, g))`): in every position of
that game a flat-count tie goes to Black under an FPA rule and to nobody otherwise. -/
theorem friendly_ties_go_to_black (basis : Array W) (fpa : Bool) (size : Nat) (p0 q : Pos) (ms : List Move)
    (h0 : Pos.new (friendlyConfig fpa size) = .ok p0) (h : p0.applyAll basis ms = .ok q)
    (htie : q.countFlats.1 = q.countFlats.2) :
    q.cfg.blackWinsTies = fpa ∧ q.flatsWinner = if fpa then .black else .none := by
  have hc : q.cfg.blackWinsTies = fpa := by
    rw [Tak.applyAll_cfg ms h]
    obtain ⟨_, _, rfl⟩ := Tak.new_ok h0
    rfl
  refine ⟨hc, ?_⟩
  unfold Pos.flatsWinner
  generalize q.countFlats = cf at htie
  obtain ⟨cw, cb⟩ := cf
  simp only at htie
  subst htie
  simp only [gt_iff_lt, Nat.lt_irrefl, if_false, hc]

example : ∃ p0 q, Pos.new (friendlyConfig true 4) = .ok p0 ∧
    p0.applyAll (Array.replicate 64 0#64) [place 0 0, place 3 3] = .ok q ∧ q.countFlats.1 = q.countFlats.2 ∧
    q.flatsWinner = .black := by
  refine ⟨_, _, rfl, rfl, ?_, ?_⟩ <;> decide +kernel

/-! ## `Taktician.GetMove` -/

/-- **Taktician is silent off turn unless it may use the opponent's time**: the zero move without consulting the
searcher iff it is not its turn and `-use-opponent-time` is off. -/
theorem taktician_silent_off_turn (cfg : TakticianCfg) (color : Color) (size : Nat) (p : Pos) (mine : Int) :
    takticianGetMove cfg color size p mine = .noMove ↔ (p.toMove ≠ color ∧ cfg.useOpponentTime = false) := by
  unfold takticianGetMove
  by_cases ht : p.toMove = color
  · simp [ht]
  · cases hu : cfg.useOpponentTime <;> simp [ht]

/-- off turn with `-use-opponent-time`: the searcher ponders on the caller's context, with no deadline of its own -/
theorem taktician_ponders (cfg : TakticianCfg) (color : Color) (size : Nat) (p : Pos) (mine : Int)
    (hoff : p.toMove ≠ color) (hu : cfg.useOpponentTime = true) :
    takticianGetMove cfg color size p mine = .think none none := by
  unfold takticianGetMove
  simp [hoff, hu]

/-- **The timeout rule**: on its own turn Taktician searches under a timeout of 20 s for the first two plies and
of `-limit` afterwards — whatever the board size and the remaining clock time (`timeBound` ignores both) — and
hands the answer back at once (no floor). -/
theorem taktician_timeout_rule (cfg : TakticianCfg) (color : Color) (size : Nat) (p : Pos) (mine : Int)
    (hon : p.toMove = color) :
    takticianGetMove cfg color size p mine =
      .think (some (if p.move < 2 then 20 * 1000000000 else cfg.limit)) none := by
  unfold takticianGetMove timeBound openingTimeout
  simp only [hon, if_true]
  by_cases h : p.move < 2 <;> simp [h]

/-- Taktician never sends anything from `GetMove` and an observer (`Color = NoColor`) never gets a deadline -/
theorem taktician_never_sends (cfg : TakticianCfg) (color : Color) (size : Nat) (p : Pos) (mine : Int) :
    (takticianGetMove cfg color size p mine).sends = false ∧
    (color = .none → takticianGetMove cfg color size p mine = (if cfg.useOpponentTime then .think none none else .noMove)) := by
  unfold takticianGetMove
  constructor
  · by_cases ht : p.toMove = color
    · simp [ht, Action.sends]
    · cases hu : cfg.useOpponentTime <;> simp [ht, Action.sends]
  · intro hc
    have ht : p.toMove ≠ color := by
      rw [hc]; unfold Pos.toMove; split <;> simp
    cases hu : cfg.useOpponentTime <;> simp [ht]

example : ∃ p0, Pos.new { size := 5, pieces := 0, capstones := 0, blackWinsTies := false } = .ok p0 ∧
    takticianGetMove { limit := 60000000000, useOpponentTime := true } .white 5 p0 1200000000000 = .think (some 20000000000) none ∧
    takticianGetMove { limit := 60000000000, useOpponentTime := true } .black 5 p0 1200000000000 = .think none none ∧
    takticianGetMove { limit := 60000000000, useOpponentTime := false } .black 5 p0 1200000000000 = .noMove :=
  ⟨_, rfl, rfl, rfl, rfl⟩

end C20
