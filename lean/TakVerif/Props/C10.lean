import TakVerif.Proofs.TPSRoundtrip

/-! C10 — TPS text and positions round-trip without loss.

Models: `Tak.TPS.formatTPS` / `parseTPS` (`ptn/tps.go`, byte level, with the two `parseRow` bounds checks of
`fixes/C13-tps-*.diff`), `Tak.Pos.fromSquares` (`tak/game.go`).

`AnalyzeTotal` (the model's `analyze()` never runs out of flood fuel) is a hypothesis of the theorems below;
it is proved without assumptions as `Roads.analyze_ne_none` in the C02 package and is to be discharged with it
once both packages are merged. -/
namespace C10
open Tak Go Notation TPS

/-- **Format then parse.**  For every well-formed position with the default piece counts of its size and a
ply in `[0, 2^63)` (`Notation.tpsHyp`, a decidable predicate: consistent bitboards inside the board, heights
and buried-colour words consistent with them, stacks ≤ 64, incremental hash = its definition, reserves =
totals − pieces on the board), and every Zobrist table `basis`: `FormatTPS` succeeds, `ParseTPS` of its
output succeeds, and the parsed position is `Equal` to the original, has the same `Hash()`, the same four
reserve counters, the same side to move and the same move number.  (TPS stores `ply/2 + 1` and the side;
`ParseTPS` rebuilds `ply = 2·(n−1) + (side−1)`, which is the original ply exactly.) -/
theorem tps_roundtrip (basis : Array W) (p : Pos) (hA : AnalyzeTotal) (h : tpsHyp basis p = true) :
    ∃ s p', formatTPS p = .ok s ∧ parseTPS basis s = .ok p' ∧
      p'.equal p = true ∧ p'.hashOf = p.hashOf ∧
      p'.whiteStones = p.whiteStones ∧ p'.whiteCaps = p.whiteCaps ∧
      p'.blackStones = p.blackStones ∧ p'.blackCaps = p.blackCaps ∧
      p'.toMove = p.toMove ∧ p'.move = p.move :=
  tps_roundtrip_core basis p hA h

end C10
