import TakVerif.Proofs.TPSRoundtrip
import TakVerif.Proofs.TPSCanonical

/-! C10 — TPS text and positions round-trip without loss.

Models: `Tak.TPS.formatTPS` / `parseTPS` (`ptn/tps.go`, byte level, with the two `parseRow` bounds checks of
`fixes/C13-tps-*.diff`), `Tak.Pos.fromSquares` (`tak/game.go`).

`AnalyzeTotal` (the model's `analyze()` never runs out of flood fuel, i.e. `FromSquares` returns) is a
hypothesis of the two theorems that go through `ParseTPS`; it is proved without assumptions as
`Roads.analyze_ne_none` in the C02 package and is to be discharged with it once both packages are merged. -/
namespace C10
open Tak Go Notation TPS

/-- **Format then parse.**  For every well-formed position with the default piece counts of its size and a
ply in `[0, 2^63)` (`Notation.tpsHyp`, a decidable predicate: consistent bitboards inside the board, heights
and buried-colour words consistent with them, stacks ≤ 64, incremental hash = its definition, reserves =
totals − pieces on the board), and every Zobrist table `basis`: `FormatTPS` succeeds, `ParseTPS` of its
output succeeds, and the parsed position is `Equal` to the original, has the same `Hash()`, the same four
reserve counters, the same side to move and the same move number.  (TPS stores `ply/2 + 1` and the side;
`ParseTPS` rebuilds `ply = 2·(n−1) + (side−1)`, which is the original ply exactly.) -/
theorem tps_roundtrip (basis : Array W) (p : Pos) (hA : AnalyzeTotal) (h : tpsHyp basis p = true) :
    ∃ s p', formatTPS p = .ok s ∧ parseTPS basis s = .ok p' ∧
      p'.equal p = true ∧ p'.hashOf = p.hashOf ∧
      p'.whiteStones = p.whiteStones ∧ p'.whiteCaps = p.whiteCaps ∧
      p'.blackStones = p.blackStones ∧ p'.blackCaps = p.blackCaps ∧
      p'.toMove = p.toMove ∧ p'.move = p.move :=
  tps_roundtrip_core basis p hA h

/-- **Parse then format.**  Every canonical TPS string (`Notation.CanonicalTPS`, a decidable grammar:
3..8 rows of as many squares separated by `/`, cells separated by `,`, maximal runs of empty squares
written `x` / `x2`..`x8`, stacks of 1..64 colour digits `1`/`2` bottom first with an optional `S` or `C`,
turn `1` or `2`, a decimal move number in `[1, 2^62]` without sign or leading zero) is accepted by
`ParseTPS`, and `FormatTPS` of the result is the string itself, byte for byte. -/
theorem tps_canonical_roundtrip (basis : Array W) (s : Bytes) (hA : AnalyzeTotal) (h : CanonicalTPS s) :
    ∃ p, parseTPS basis s = .ok p ∧ formatTPS p = .ok s :=
  tps_canonical_roundtrip_core basis s hA h

/-- What `FormatTPS` writes for a well-formed position is canonical (so the two round trips compose). -/
theorem formatTPS_canonical (basis : Array W) (p : Pos) (h : tpsHyp basis p = true) :
    ∃ s, formatTPS p = .ok s ∧ CanonicalTPS s :=
  formatTPS_canonical_core basis p h

/-! Non-vacuity.  A canonical string with run-length cells at both ends of rows, tall stacks, walls and
capstones on stacks (from `ptn/tps_test.go`); strings just outside the grammar; a well-formed position
with stacks (the one that string denotes, under the all-zero Zobrist table) and the start position under
any table. -/
example : CanonicalTPS (lit "x3,12,2S/x,22S,22C,11,21/121,212,12,1121C,1212S/21S,2,21,211S,12S/x,21S,2,x2 1 26") := by
  decide
example : ¬ CanonicalTPS (lit "x,x2/x3/x3 1 1") := by decide          -- runs not maximal
example : ¬ CanonicalTPS (lit "x3/x3/x3 1 01") := by decide           -- leading zero
example : ¬ CanonicalTPS (lit "x3/x3/1S2 1 1") := by decide           -- marker not at the end


/-- the all-zero Zobrist table (any table would do; a concrete one lets the kernel evaluate the hash clause) -/
def exampleBasis : Array W := Array.replicate 64 0#64
/-- the position the string above denotes: 5×5, ply 50, five-high stacks, walls and capstones on stacks -/
def examplePos : Pos :=
  match parseTPS exampleBasis (lit "x3,12,2S/x,22S,22C,11,21/121,212,12,1121C,1212S/21S,2,21,211S,12S/x,21S,2,x2 1 26") with
  | .ok p => p
  | .error _ => startPos 5 0
example : tpsHyp exampleBasis examplePos = true := by decide +kernel
example : examplePos.move = 50 ∧ examplePos.cfg.size = 5 := by decide +kernel
example : tpsHyp exampleBasis (startPos 8 0) = true := by decide +kernel

end C10
