import TakVerif.Impl.TPS
import TakVerif.Spec.Notation
namespace C10
theorem placeholder : True := trivial
end C10
