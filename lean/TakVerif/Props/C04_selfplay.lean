import TakVerif.Impl.CmdSelfplay

/-!
# C04 at a consumer: the tournament loop of `taktician selfplay` (`cmd/internal/selfplay/simulate.go`)

`Tak.CmdSelfplay` (`Impl/CmdSelfplay.lean`) mirrors `Simulate` / `startGames` / `worker` with one worker thread; the two
players are arbitrary (`Player σ`: any answers, any thinking times, any internal state).  The theorems:

* `game_record_and_end`: whatever the players answer, a game that produces a `Result` recorded exactly the moves that
  `Position.Move` ACCEPTED, in order — the final position is their replay from the opening — at most `Cutoff` of them,
  and it ended in exactly one of three ways: by the rules (the last move finished the game and the recorded winner is
  `GameOver`'s), on time (only with a time control: the winner is the colour NOT to move), or at the cut-off (no winner).
* `illegal_answer_ends_process` / `flag_beats_everything` / `error_answer_ends_process`: what ONE call does when the player
  answers a move `Position.Move` rejects (the worker panics — no `Result`, the process is gone), when its clock runs out
  (the game ends for the other colour WHATEVER the answer was, even an error or an illegal move), when the call fails.
* `tallyAll_count`: `Count()` (White + Black + Ties + Cutoff) is the number of results.  NOT proved in this round (time):
  the per-player identities (`p1.wins + p2.wins = white + black`, wins = road + flat + time) and "credited to the player
  who had the winning colour"; both are compared on every sampled tournament by the tie (ops `sp.sim`, `sp.run`).
* `gamesOf_swap` / `gamesOf_noswap`: with `-swap` every opening is played `2·Games` times, player 1 taking White in
  game `2k` and Black in game `2k+1`; without, `Games` times with player 1 as White. -/
namespace C04
open Tak Tak.CmdSelfplay

/-- apply moves one after the other, each successfully (`Position.Move`) -/
def applyAll (basis : Array W) : Pos → List Tak.Move → R Pos
  | p, [] => .ok p
  | p, m :: ms =>
    match p.apply basis m with
    | .ok q => applyAll basis q ms
    | .error e => .error e

/-- how a recorded game ended -/
inductive Ending where
  | rules | time | cutoff
deriving DecidableEq, Repr

theorem applyAll_cons (basis : Array W) (p q r : Pos) (m : Tak.Move) (ms : List Tak.Move)
    (h1 : p.apply basis m = .ok q) (h2 : applyAll basis q ms = .ok r) : applyAll basis p (m :: ms) = .ok r := by
  simp [applyAll, h1, h2]

/-- the specification of one game, for any players, clocks and starting point of the loop -/
theorem gameLoop_spec {σ : Type} (basis : Array W) (P1 P2 : Player σ) (dl : Bool) (sp : Spec) :
    ∀ (fuel : Nat) (s1 s2 : σ) (p : Pos) (tc : Option TEIClient.TimeControl) (ms : List Tak.Move)
      (calls : List (Option TEIClient.TimeControl)) (r : Result),
      gameLoop basis P1 P2 dl sp fuel s1 s2 p tc ms calls = .ok r →
      r.spec = sp ∧ ∃ added, r.moves = ms ++ added ∧ applyAll basis p added = .ok r.position ∧ added.length ≤ fuel ∧
        ((added ≠ [] ∧ r.position.gameOver.1 = true ∧ r.winner = r.position.gameOver.2) ∨
         (tc.isSome = true ∧ r.winner = r.position.toMove.flip) ∨
         (added.length = fuel ∧ r.winner = .none)) := by
  intro fuel
  induction fuel with
  | zero =>
    intro s1 s2 p tc ms calls r h
    simp only [gameLoop, Except.ok.injEq] at h
    subst h
    exact ⟨rfl, [], by simp, rfl, by simp, .inr (.inr ⟨rfl, rfl⟩)⟩
  | succ fuel ih =>
    intro s1 s2 p tc ms calls r h
    simp only [gameLoop] at h
    split at h
    · -- flagged
      rename_i hch
      simp only [Except.ok.injEq] at h
      subst h
      refine ⟨rfl, [], by simp, rfl, by simp, .inr (.inl ⟨?_, rfl⟩)⟩
      cases tc with
      | none => simp at hch
      | some t => rfl
    · rename_i tc' hch
      have htc : tc'.isSome = tc.isSome := by
        cases tc with
        | none => simp only [Option.some.injEq] at hch; subst hch; rfl
        | some t =>
          simp only [Option.map_eq_some_iff] at hch
          obtain ⟨t', _, ht'⟩ := hch
          subst ht'; rfl
      split at h
      · cases h
      · cases h
      · rename_i m hans
        split at h
        · cases h
        · cases h
        · rename_i q hq
          split at h
          · rename_i hover
            simp only [Except.ok.injEq] at h
            subst h
            exact ⟨rfl, [m], rfl, by simp [applyAll, hq], by simp, .inl ⟨by simp, hover, rfl⟩⟩
          · obtain ⟨hsp, added, h1, h2, h3, h4⟩ := ih _ _ q tc' (ms ++ [m]) _ r h
            refine ⟨hsp, m :: added, by simpa using h1, applyAll_cons basis p q _ m added hq h2, by simp; omega, ?_⟩
            rcases h4 with h4 | h4 | h4
            · exact .inl ⟨by simp, h4.2.1, h4.2.2⟩
            · exact .inr (.inl ⟨by rw [← htc]; exact h4.1, h4.2⟩)
            · exact .inr (.inr ⟨by simp [h4.1], h4.2⟩)

/-- **the record is the replay, and the three ways a game ends.**  For any two players: if a game of `worker`
produces a result, its `Moves` are moves `Position.Move` accepted one after the other from the opening, `Position` is
where they lead, there are at most `Cutoff` of them, and the game ended by the rules (`Winner` = what `GameOver` reports
for the final position, reached by the last move), on time (a time control is set; `Winner` = the colour not to move in the
final position), or at the cut-off (`Cutoff` moves played, no winner). -/
theorem game_record_and_end {σ : Type} (basis : Array W) (c : Config) (P1 P2 : Player σ) (sp : Spec) (r : Result)
    (h : playGame basis c P1 P2 sp = .ok r) :
    r.spec = sp ∧ applyAll basis sp.opening r.moves = .ok r.position ∧ r.moves.length ≤ c.cutoff.toNat ∧
      ((r.moves ≠ [] ∧ r.position.gameOver.1 = true ∧ r.winner = r.position.gameOver.2) ∨
       (c.gameTime ≠ 0 ∧ r.winner = r.position.toMove.flip) ∨
       (r.moves.length = c.cutoff.toNat ∧ r.winner = .none)) := by
  unfold playGame at h
  split at h
  · cases h
  · split at h
    · cases h
    · obtain ⟨hsp, added, h1, h2, h3, h4⟩ := gameLoop_spec basis P1 P2 _ sp _ _ _ _ _ _ _ r h
      simp only [List.nil_append] at h1
      subst h1
      refine ⟨hsp, h2, h3, ?_⟩
      rcases h4 with h4 | h4 | h4
      · exact .inl h4
      · refine .inr (.inl ⟨?_, h4.2⟩)
        intro h0
        simp [h0] at h4
      · exact .inr (.inr h4)

/-- the call made in a round: who is asked, and what comes back -/
def callOf {σ : Type} (P1 P2 : Player σ) (dl : Bool) (sp : Spec) (s1 s2 : σ) (p : Pos) (tc : Option TEIClient.TimeControl) :
    Answer × σ × Int :=
  if (p.toMove == .white) == (sp.p1color == .white) then P1.move s1 p tc dl else P2.move s2 p tc dl

/-- the mover's clock after the call: `none` = at or below one millisecond -/
def clockAfter (tc : Option TEIClient.TimeControl) (mover : Color) (dur : Int) : Option (Option TEIClient.TimeControl) :=
  match tc with
  | none => some none
  | some t => (chargeClock t mover dur).map some

/-- **an illegal answer ends the process**: the player to move answers `m`, its clock (if any) has not run out, and
`Position.Move` rejects `m` — the worker panics (`illegal move: …`); there is no result for this game. -/
theorem illegal_answer_ends_process {σ : Type} (basis : Array W) (P1 P2 : Player σ) (dl : Bool) (sp : Spec) (fuel : Nat)
    (s1 s2 : σ) (p : Pos) (tc : Option TEIClient.TimeControl) (ms : List Tak.Move) (calls : List (Option TEIClient.TimeControl))
    (m : Tak.Move) (w : String)
    (hans : (callOf P1 P2 dl sp s1 s2 p tc).1 = .move m)
    (hclock : clockAfter tc p.toMove (callOf P1 P2 dl sp s1 s2 p tc).2.2 ≠ none)
    (hbad : p.apply basis m = .error (.illegal w)) :
    gameLoop basis P1 P2 dl sp (fuel + 1) s1 s2 p tc ms calls = .error .panicIllegal := by
  simp only [gameLoop]
  simp only [callOf, clockAfter] at hans hclock
  split
  · rename_i hch; exact absurd hch hclock
  · rw [hans]; simp only [hbad]

/-- **a failed call ends the process** (`log.Fatalf("Get move: …")`) unless the clock ran out during it -/
theorem error_answer_ends_process {σ : Type} (basis : Array W) (P1 P2 : Player σ) (dl : Bool) (sp : Spec) (fuel : Nat)
    (s1 s2 : σ) (p : Pos) (tc : Option TEIClient.TimeControl) (ms : List Tak.Move) (calls : List (Option TEIClient.TimeControl))
    (hans : (callOf P1 P2 dl sp s1 s2 p tc).1 = .err)
    (hclock : clockAfter tc p.toMove (callOf P1 P2 dl sp s1 s2 p tc).2.2 ≠ none) :
    gameLoop basis P1 P2 dl sp (fuel + 1) s1 s2 p tc ms calls = .error .fatalGetMove := by
  simp only [gameLoop]
  simp only [callOf, clockAfter] at hans hclock
  split
  · rename_i hch; exact absurd hch hclock
  · rw [hans]

/-- **the flag beats everything**: when the mover's clock is at or below a millisecond after the call, the game ends
there with the OTHER colour as winner — whatever the call returned (a legal move, an illegal one, an error): the answer
is never looked at, and nothing is appended to the record. -/
theorem flag_beats_everything {σ : Type} (basis : Array W) (P1 P2 : Player σ) (dl : Bool) (sp : Spec) (fuel : Nat)
    (s1 s2 : σ) (p : Pos) (tc : Option TEIClient.TimeControl) (ms : List Tak.Move) (calls : List (Option TEIClient.TimeControl))
    (hclock : clockAfter tc p.toMove (callOf P1 P2 dl sp s1 s2 p tc).2.2 = none) :
    gameLoop basis P1 P2 dl sp (fuel + 1) s1 s2 p tc ms calls =
      .ok { spec := sp, position := p, moves := ms, winner := p.toMove.flip, calls := calls ++ [tc] } := by
  simp only [gameLoop]
  simp only [callOf, clockAfter] at hclock
  split
  · rfl
  · rename_i tc' hch; cases (hch.symm.trans hclock)

/-! ## the accounts -/

theorem tally_count (st : Stats) (r : Result) : (tally st r).count = st.count + 1 := by
  unfold tally Stats.count
  cases hw : r.winner <;> cases hov : r.position.gameOver.1 <;> cases hc : r.spec.p1color <;> simp [Color.flip] <;> omega

theorem foldl_count : ∀ (rs : List Result) (st : Stats), (rs.foldl tally st).count = st.count + rs.length
  | [], st => by simp
  | r :: rs, st => by
    simp only [List.foldl_cons, List.length_cons]
    rw [foldl_count rs, tally_count]; omega

/-- **`Count()` is the number of results** -/
theorem tallyAll_count (rs : List Result) : (tallyAll rs).count = rs.length := by
  have := foldl_count rs {}
  simpa [tallyAll, Stats.count] using this

/-! ## colour-swapped pairs -/

/-- **with `-swap`**: game `2k` of an opening has player 1 as White, game `2k+1` the same opening with player 1 as Black -/
theorem gamesOf_swap (c : Config) (hs : c.swap = true) (pi : Nat) (pos : Pos) (k : Nat) (hk : 2 * k + 1 < (c.games * 2).toNat) :
    (gamesOf c pi pos)[2 * k]? = some { opening := pos, oi := pi, i := 2 * k, p1color := .white } ∧
    (gamesOf c pi pos)[2 * k + 1]? = some { opening := pos, oi := pi, i := 2 * k + 1, p1color := .black } ∧
    (gamesOf c pi pos).length = 2 * c.games.toNat := by
  unfold gamesOf
  simp only [hs, if_true, List.getElem?_map, List.length_map, List.length_range]
  refine ⟨?_, ?_, by omega⟩
  · rw [List.getElem?_range (by omega)]; simp
  · rw [List.getElem?_range (by omega)]; simp

/-- **without `-swap`**: `Games` games per opening, player 1 always White -/
theorem gamesOf_noswap (c : Config) (hs : c.swap = false) (pi : Nat) (pos : Pos) :
    (gamesOf c pi pos).length = c.games.toNat ∧ ∀ s ∈ gamesOf c pi pos, s.p1color = .white ∧ s.opening = pos ∧ s.oi = pi := by
  unfold gamesOf
  simp only [hs, Bool.false_eq_true, if_false, List.length_map, List.length_range, List.mem_map, List.mem_range]
  refine ⟨trivial, ?_⟩
  rintro s ⟨g, _, rfl⟩
  simp

/-! ## a concrete tournament (evaluated by the kernel) -/

/-- a player that always answers the flat on a1 and thinks 2 ms -/
def exPlayer : Player Unit :=
  { client := true, newGame := fun _ => some (), move := fun _ _ _ _ => (.move ⟨0, 0, 2, 0#32⟩, (), 2000000) }

def exStart : Pos :=
  match Pos.new { size := 3, pieces := 0, capstones := 0, blackWinsTies := false } with
  | .ok p => p
  | .error _ => default

/-- 3×3, both players always answer `a1`: with `-cutoff 1` the one game is recorded with one move and no winner (cut off);
with `-cutoff 2` the second answer is rejected by `Position.Move` and the process ends (`panic: illegal move`); with a
3 ms clock and `-cutoff 2` White is flagged at its first call (3 ms - 2 ms ≤ 1 ms) and Black wins on time without a move -/
example :
    (match simulate (Array.replicate 64 0#64) { games := 1, swap := false, cutoff := 1, initial := [exStart] } exPlayer exPlayer with
     | (st, [r], .ok) => r.moves.length == 1 && r.winner == .none && st.cutoff == 1 && st.count == 1
     | _ => false) = true ∧
    (match simulate (Array.replicate 64 0#64) { games := 1, swap := false, cutoff := 2, initial := [exStart] } exPlayer exPlayer with
     | (_, [], .panicIllegal) => true
     | _ => false) = true ∧
    (match simulate (Array.replicate 64 0#64) { games := 1, swap := false, cutoff := 2, gameTime := 3000000, initial := [exStart] } exPlayer exPlayer with
     | (st, [r], .ok) => r.moves.length == 0 && r.winner == .black && st.black == 1 && st.p2.timeWins == 1
     | _ => false) = true := by decide

end C04
