import TakVerif.Proofs.GenThreat
import TakVerif.Props.C19

/-! # C19, tie #1: the threat detector is regenerated from the source

`ai.CountThreats` (`ai/evaluate.go`) is translated by `gen/` on every check run into `Gen.countThreats`
(`Generated/FuncsThreat.lean`: the closure `countOne` with its captured variables, the two `range` loops, the inner
`for { .. break .. }` loop over "earlier groups, then single flats", the index read `gs[j]`, the four edge tests).
`Tak.genCountThreats c p` (`Impl/GenEval.lean`) applies it to the fields of a position (`p.Analysis()` = the stored group
lists).  `countThreats_is_source` shows that the hand-written model `Tak.countThreats` - on which `C19.threat_real` and the
whole `Proofs/Threat*.lean` development rest - IS that function, for every `Constants` value and every position
whatsoever; hence `gen_threat_real`: C19 is a theorem about the function read out of the source.  An edit of
`CountThreats` changes `Gen.countThreats`, and `lake build` re-checks this file against it. -/
namespace C19
open Tak Roads Spec

/-- **`ai.CountThreats` is the model's `countThreats`.**  For EVERY `Constants` value `c` and EVERY position `p` (no
well-formedness assumed) the regenerated function returns - Go does not panic on `gs[j]`, and the whitelist fuel
`len(gs) + 65` of the inner loop suffices - and its four results `(wp, wt, bp, bt)` are the model's counts. -/
theorem countThreats_is_source (c : Consts) (p : Pos) :
    genCountThreats c p = some (((countThreats c p).wp : Int), ((countThreats c p).wt : Int),
      ((countThreats c p).bp : Int), ((countThreats c p).bt : Int)) :=
  GenThreat.countThreats_eq c p

/-- the regenerated detector never panics and never runs out of loop fuel -/
theorem gen_countThreats_total (c : Consts) (p : Pos) : (genCountThreats c p).isSome = true := by
  rw [countThreats_is_source]; rfl

/-- the count `scoreThreats` and the solvers look at, read off the regenerated result: placements + slides of the mover -/
def genForMover (p : Pos) (r : Int × Int × Int × Int) : Int :=
  if p.toMove == .white then r.1 + r.2.1 else r.2.2.1 + r.2.2.2

/-- **C19 for the regenerated detector.**  For every well-formed position (`WFBoard`, `HeightsOK`) from ply 2 on whose
game is not over: if the function `gen/` reads out of `ai/evaluate.go` reports `(wp, wt, bp, bt)` with a positive count for
the side to move, then there is a move that `Move` accepts and after which `WinDetails` says: over, won by the mover, by
a road; and `hasRoad`'s test succeeds on a group of the mover. -/
theorem gen_threat_real (basis : Array W) (p : Pos) (wf : WFBoard p) (hh : HeightsOK p) (hply : 2 ≤ p.move)
    (hno : p.gameOver.1 = false) (r : Int × Int × Int × Int) (hr : genCountThreats p.c p = some r)
    (hcount : 0 < genForMover p r) :
    ∃ m q, p.apply basis m = .ok q ∧
      q.winDetails.over = true ∧ q.winDetails.winner = p.toMove ∧ q.winDetails.reason = .road ∧
      (groupsOf q p.toMove).any (isRoadGroup q.c) = true := by
  rw [countThreats_is_source] at hr
  have hr' := Option.some.inj hr
  subst hr'
  apply threat_real basis p wf hh hply hno
  unfold genForMover at hcount
  unfold Threats.forMover
  split <;> rename_i hm <;> simp only [hm] at hcount <;> simp at hcount <;> omega

/-- the same in the rule book's terms: some raw move is accepted and the rule book's verdict on the successor is
"over, by a road, won by the player who moved" -/
theorem gen_threat_real_rulebook (basis : Array W) (p : Pos) (wf : WFBoard p) (hh : HeightsOK p) (hply : 2 ≤ p.move)
    (hno : p.gameOver.1 = false) (r : Int × Int × Int × Int) (hr : genCountThreats p.c p = some r)
    (hcount : 0 < genForMover p r) :
    ∃ m q, p.apply basis m = .ok q ∧ Spec.RoadPath (Spec.abs q) p.toMove ∧
      (Spec.outcome (Spec.abs q)).over = true ∧ (Spec.outcome (Spec.abs q)).road = true ∧
      (Spec.outcome (Spec.abs q)).winner = p.toMove := by
  rw [countThreats_is_source] at hr
  have hr' := Option.some.inj hr
  subst hr'
  apply threat_real_rulebook basis p wf hh hply hno
  unfold genForMover at hcount
  unfold Threats.forMover
  split <;> rename_i hm <;> simp only [hm] at hcount <;> simp at hcount <;> omega

/-! ### concrete instances (kernel-evaluated): the regenerated detector on the two example positions of `Props/C19.lean` -/

example : genCountThreats exPlace.c exPlace = some (1, 0, 1, 0) ∧ genForMover exPlace (1, 0, 1, 0) = 1 := by decide +kernel

example : genCountThreats exSlide.c exSlide = some (1, 1, 0, 1) ∧ exSlide.toMove = .black ∧
    genForMover exSlide (1, 1, 0, 1) = 1 := by decide +kernel

end C19
