import TakVerif.Proofs.DFPNTop
import TakVerif.Proofs.DFPNToy
import TakVerif.Proofs.C06Bridge

/-! # C06 — the depth-first proof-number solver (`prove/dfpn.go`)

Model: `Tak.DFPN.proveWith` / `prove` (`Impl/DFPN.lean`: `DFPNSolver.Prove` with `mid`, `selectChild`,
`computePNs`, `terminalBounds`, the hash table with its replacement rule, killer moves, the
`CountThreats` shortcut `solve`, 3-fold repetition on the search stack), over an abstract game; truth:
`Spec.Game.PlainWin` / `ForcedWin` (`Spec/ForcedWin.lean`).

What the numbers mean.  (φ, δ) of a position is relative to the side to move there: φ = 0 "the mover gets
its way".  With attacker `att`: at a position where `att` moves, φ = 0 claims a forced win of `att` and
δ = 0 claims there is none; where the defender moves it is the other way round.  `Prove` reports
(proof, disproof) = (φ, δ) of the root if `att` moves there and (δ, φ) otherwise (fix 8004269), so
`proven` always reads "`att` has a forced win at the root" — also when `att` is not the side to move.

* **`proven` is sound** (`dfpn_proven_sound`, `dfpn_move_sound`, `dfpn_proven_forcedWin`) for any fuel,
  table size (one slot included: replacement never hurts), thresholds, killer moves and any earlier
  `Prove` calls on the same solver with the same attacker (`History`).  A bound derived from a repetition
  only ever says "`att` does not win here", so it can never feed a proof; proofs are path-independent.
* **`disproven` is sound only while no repetition has ever been detected by this solver**
  (`dfpn_disproven_partial`: ghost flag `St.ghostRep` down).  The unrestricted statement
  (`dfpn_disproven_statement`) is FALSE for the model: `dfpn_disproven_statement_false` exhibits a
  15-position game on which a fresh solver answers `disproven` although the attacker has a forced win —
  a "no win given this path" stored in the table and used on another path (graph-history interaction).
* **The attacker is latched** (`dfpn_attacker_latched`): a solver configured without attacker takes the
  side to move of its first root and keeps it for life; every later verdict is about that colour.

Assumptions (`DfpnOK`, `Proofs/DFPNInv.lean`), all on a set `Dom` of positions closed under play that
contains the roots: alternating players; 1 ≤ number of generated moves < 2³² in unfinished positions;
a threat reported by `solve` for the mover is a real winning move (C19); no unfinished position hashes
to 0; unfinished positions with equal hash have the same mover and the same answer to "forced win of
`att`?".  No assumption on `scale` (the float factor 1+ε), fuel, table size, stack or killers. -/
namespace C06
open Tak Tak.PN Tak.DFPN Spec.Game

section
variable {S M : Type} [DecidableEq M] (G : Game S M) (hash : S → UInt64) (threats : S → Bool × Bool)
  (scale : UInt32 → UInt32) (att : Color)

/-- The solvers that working for `att` can produce: `NewDFPN` with attacker `att` or none, followed by
any number of successful `Prove` calls (any fuel) on positions of `Dom`; while no attacker is fixed, the
root's side to move must be `att` (that call fixes it, see `dfpn_attacker_latched`). -/
inductive History (Dom : S → Prop) : Solver M → Prop
  | fresh (a : Color) (entries : Nat) : (a = att ∨ a = .none) → History Dom (newSolver a entries)
  | call {d d' : Solver M} {fuel : Nat} {g : S} {r : DFPN.Result M} {s : DFPN.Stats} :
      History Dom d → Dom g → (d.attacker = .none → G.toMove g = att) →
      proveWith G hash threats scale fuel d g = .ok (r, s, d') → History Dom d'

variable {G hash threats scale att}

/-- the invariant behind the theorems: every solver of a history has a sound table -/
theorem History.ok {two : Bool} {Dom : S → Prop} (hk : DfpnOK G hash threats att two Dom) {d : Solver M}
    (h : History G hash threats scale att Dom d) : SolverOK G hash att two Dom d := by
  induction h with
  | fresh a entries ha => exact newSolver_ok hk a ha entries
  | call _ hg hl hrun ih => exact (proveWith_ok scale hk _ ih hg hl hrun).1

/-- **`proven` is sound.**  Whenever `Prove` — on a fresh solver or after any history of calls for the
same attacker, with any fuel and any table size — answers `proven`, the attacker has a forced win at the
root (least fixed point: the win is reached in finitely many moves whatever the defender does). -/
theorem dfpn_proven_sound {Dom : S → Prop} (hk : DfpnOK G hash threats att false Dom) {d d' : Solver M}
    (hd : History G hash threats scale att Dom d) {fuel : Nat} {g : S} (hg : Dom g)
    (hlatch : d.attacker = .none → G.toMove g = att) {r : DFPN.Result M} {s : DFPN.Stats}
    (hrun : proveWith G hash threats scale fuel d g = .ok (r, s, d')) (hres : r.result = .proven) :
    PlainWin G att g :=
  (proveWith_ok scale hk fuel (hd.ok hk) hg hlatch hrun).2.2.2.1 hres

/-- **The move returned with `proven` begins a win**, when the attacker is the side to move at the root:
it is a generated move the rules accept, and the attacker still has a forced win after it.  (With a
winning move found while generating the root's children the solver returns no move; when the attacker is
not to move the returned move is a defender's move and means nothing.) -/
theorem dfpn_move_sound {Dom : S → Prop} (hk : DfpnOK G hash threats att false Dom) {d d' : Solver M}
    (hd : History G hash threats scale att Dom d) {fuel : Nat} {g : S} (hg : Dom g)
    (hlatch : d.attacker = .none → G.toMove g = att) {r : DFPN.Result M} {s : DFPN.Stats}
    (hrun : proveWith G hash threats scale fuel d g = .ok (r, s, d')) (hres : r.result = .proven)
    (hroot : G.toMove g = att) {m : M} (hm : r.move = some m) :
    m ∈ G.moves g ∧ ∃ s', G.apply g m = some s' ∧ PlainWin G att s' :=
  (proveWith_ok scale hk fuel (hd.ok hk) hg hlatch hrun).2.2.2.2.1 hres hroot m hm

/-- `proven` in the terms of the property: a forced win under the rule "a third occurrence of a position
on the path counts against the attacker", when `Equal` identifies only positions the rules cannot tell
apart among those reachable from the root. -/
theorem dfpn_proven_forcedWin {Dom : S → Prop} (hk : DfpnOK G hash threats att false Dom) {d d' : Solver M}
    (hd : History G hash threats scale att Dom d) {fuel : Nat} {g : S} (hg : Dom g)
    (hb : EqualIsBisimFrom G g)
    (hlatch : d.attacker = .none → G.toMove g = att) {r : DFPN.Result M} {s : DFPN.Stats}
    (hrun : proveWith G hash threats scale fuel d g = .ok (r, s, d')) (hres : r.result = .proven) :
    ForcedWin G att g :=
  plainWin_win_nil_from G att hb (dfpn_proven_sound hk hd hg hlatch hrun hres)

/-- **`disproven` is sound while the solver has never met a repetition** (`St.ghostRep` of the solver
after the call is down — hence also after every earlier call of its history; `DfpnOK … true`: the threat
oracle is trusted for the defender too).  Then the attacker has no forced win even without the repetition
rule (so none under it either): every bound in the table is path-independent.
What is missing for the full statement: see `dfpn_disproven_statement_false`. -/
theorem dfpn_disproven_partial {Dom : S → Prop} (hk : DfpnOK G hash threats att true Dom) {d d' : Solver M}
    (hd : History G hash threats scale att Dom d) {fuel : Nat} {g : S} (hg : Dom g)
    (hlatch : d.attacker = .none → G.toMove g = att) {r : DFPN.Result M} {s : DFPN.Stats}
    (hrun : proveWith G hash threats scale fuel d g = .ok (r, s, d')) (hclean : d'.st.ghostRep = false)
    (hres : r.result = .disproven) : ¬ PlainWin G att g ∧ ¬ ForcedWin G att g := by
  have h := (proveWith_ok scale hk fuel (hd.ok hk) hg hlatch hrun).2.2.2.2.2 rfl hclean hres
  exact ⟨h, fun w => h (Win.plain G att w)⟩

/-- the ghost flag never comes down again: a solver that is clean after a call was clean before it -/
theorem dfpn_ghost_monotone {Dom : S → Prop} (hk : DfpnOK G hash threats att false Dom) {d d' : Solver M}
    (hd : History G hash threats scale att Dom d) {fuel : Nat} {g : S} (hg : Dom g)
    (hlatch : d.attacker = .none → G.toMove g = att) {r : DFPN.Result M} {s : DFPN.Stats}
    (hrun : proveWith G hash threats scale fuel d g = .ok (r, s, d')) :
    d.st.ghostRep = true → d'.st.ghostRep = true :=
  (proveWith_ok scale hk fuel (hd.ok hk) hg hlatch hrun).2.2.1

omit [DecidableEq M] in
/-- **The attacker is latched.**  Whatever `Prove` answers, the solver it leaves behind has the attacker
it worked for: the configured one, or — for a solver configured without attacker — the side to move of
this root; that colour is White or Black, so no later call changes it: a solver created without
attacker works for the side to move of its FIRST root for life (callers that want "the side to move of
each root" need a solver per colour; `gencorpus` was fixed for this, /repo 1f0d4a0). -/
theorem dfpn_attacker_latched [DecidableEq M] (alt : Alternating G) {fuel : Nat} {d d' : Solver M} {g : S}
    {r : DFPN.Result M} {s : DFPN.Stats} (hrun : proveWith G hash threats scale fuel d g = .ok (r, s, d')) :
    d'.attacker = (if d.attacker = .none then G.toMove g else d.attacker) ∧
    (d.attacker ≠ .none → d'.attacker = d.attacker) ∧
    (d.attacker = .none → d'.attacker ≠ .none) := by
  rw [proveWith_eq] at hrun
  split at hrun
  · cases hrun
  · simp only [Except.ok.injEq, Prod.mk.injEq] at hrun
    obtain ⟨_, _, rfl⟩ := hrun
    have heff : effAttacker G d g = if d.attacker = .none then G.toMove g else d.attacker := by
      unfold effAttacker
      by_cases h : d.attacker = .none <;> simp [h]
    refine ⟨heff, ?_, ?_⟩
    · intro h; show effAttacker G d g = _; rw [heff, if_neg h]
    · intro h; show effAttacker G d g ≠ _; rw [heff, if_pos h]
      rcases alt.binary g with hb | hb <;> rw [hb] <;> decide

/-- `NewDFPN(cfg).Prove(g)` on a fresh solver: `proven` is sound -/
theorem dfpn_prove_proven_sound {Dom : S → Prop} {a : Color} (ha : a = att ∨ a = .none)
    (hk : DfpnOK G hash threats att false Dom) {fuel entries : Nat} {g : S} (hg : Dom g)
    (hlatch : a = .none → G.toMove g = att) {r : DFPN.Result M} {s : DFPN.Stats}
    (hrun : DFPN.prove G hash threats scale fuel a entries g = .ok (r, s)) (hres : r.result = .proven) :
    PlainWin G att g := by
  unfold DFPN.prove at hrun
  split at hrun
  · cases hrun
  · rename_i r' s' d' hrun'
    simp only [Except.ok.injEq, Prod.mk.injEq] at hrun
    obtain ⟨rfl, rfl⟩ := hrun
    exact dfpn_proven_sound hk (.fresh a entries ha) hg hlatch hrun' hres

end

/-- **The full statement for `disproven`** — what one would like to have: on a fresh solver, under the
same assumptions as `dfpn_disproven_partial` but without any condition on repetitions, `disproven`
excludes a forced win of the attacker. -/
def dfpn_disproven_statement : Prop :=
  ∀ (S M : Type) [DecidableEq M] (G : Game S M) (hash : S → UInt64) (threats : S → Bool × Bool)
    (scale : UInt32 → UInt32) (att : Color) (Dom : S → Prop), DfpnOK G hash threats att true Dom →
    ∀ (fuel entries : Nat) (g : S) (r : DFPN.Result M) (s : DFPN.Stats), Dom g →
      DFPN.prove G hash threats scale fuel att entries g = .ok (r, s) → r.result = .disproven →
      ¬ PlainWin G att g

/-! ### a graph-history-interaction instance, and the hypotheses of the theorems exhibited on it

A game on 15 positions (`Proofs/DFPNToy.lean`: `graphGame`, injective nowhere-zero hash, no threat
oracle).  White to move at `R = 0`:

    R → a;  a(B) → A | P;  A(W) → b | c | u;  b(B) → A;  c(B) → N;  N(W) → e₀ | e₁;  eᵢ(B) → A;
    u(B) → T;  T: White has won;  P(W) → p₀ … p₃;  pᵢ(B) → N

White wins everywhere (`A → u → T`).  The solver first runs `a, A, b, A, b, A`: third `A` on the path, a
repetition; then from the second `A`: `c, N, eᵢ, A`: again a third `A`, so `eᵢ`, `N`, `c` are stored as
"White does not win" — true on that path only.  The second `A` is then proved through `u`, so are `b` and
the first `A`.  Back at `a` the other child `P` is searched: each `pᵢ` finds `N` in the table as lost, so
`P` is "disproved", hence `a`, hence the root. -/

def ghiNodes : List GNode := [
  ⟨.white, none, [1]⟩, ⟨.black, none, [2, 10]⟩, ⟨.white, none, [3, 4, 8]⟩, ⟨.black, none, [2]⟩,
  ⟨.black, none, [5]⟩, ⟨.white, none, [6, 7]⟩, ⟨.black, none, [2]⟩, ⟨.black, none, [2]⟩,
  ⟨.black, none, [9]⟩, ⟨.white, some .white, []⟩, ⟨.white, none, [11, 12, 13, 14]⟩,
  ⟨.black, none, [5]⟩, ⟨.black, none, [5]⟩, ⟨.black, none, [5]⟩, ⟨.black, none, [5]⟩]

abbrev ghiGame := graphGame ghiNodes

/-- the toy game satisfies every assumption of the theorems, for either attacker, both sides -/
theorem ghi_ok (att : Color) (ha : att = .white ∨ att = .black) (two : Bool) :
    DfpnOK ghiGame gHash noThreats att two (fun s => s < 15) :=
  graphOK_sound ghiNodes att ha two (by decide)

/-- White has a forced win at the root (and, `Equal` being equality, also under the repetition rule) -/
theorem ghi_white_wins : PlainWin ghiGame .white 0 := winB_sound ghiGame .white 8 0 (by decide)

/-- a fresh solver for White with 64 table slots answers `disproven` at the root (22 nodes, 3 repetitions) -/
theorem ghi_run : ∃ r s, DFPN.prove ghiGame gHash noThreats gScale 100 .white 64 0 = .ok (r, s) ∧
    r.result = .disproven := by
  have h : (match DFPN.prove ghiGame gHash noThreats gScale 100 .white 64 0 with
      | .ok (r, _) => r.result == .disproven | .error _ => false) = true := by decide +kernel
  cases hx : DFPN.prove ghiGame gHash noThreats gScale 100 .white 64 0 with
  | error e => rw [hx] at h; cases h
  | ok v =>
    obtain ⟨r, s⟩ := v
    rw [hx] at h
    exact ⟨r, s, rfl, by simpa using h⟩

/-- **The unrestricted statement is false**: the model of `DFPNSolver.Prove` answers `disproven` for a
position in which the attacker has a forced win. -/
theorem dfpn_disproven_statement_false : ¬ dfpn_disproven_statement := by
  intro h
  obtain ⟨r, s, hrun, hres⟩ := ghi_run
  exact h Nat Nat ghiGame gHash noThreats gScale .white (fun s => s < 15) (ghi_ok .white (Or.inl rfl) true)
    100 64 0 r s (by decide) hrun hres ghi_white_wins

/-- … and `dfpn_disproven_partial` does not apply to that run: its ghost flag is up -/
example : (match proveWith ghiGame gHash noThreats gScale 100 (newSolver .white 64) 0 with
    | .ok (r, s, d) => r.result == .disproven && d.st.ghostRep && s.repetition == 3
    | .error _ => false) = true := by decide +kernel

/-- hypotheses of `dfpn_proven_sound` / `dfpn_move_sound`: a run from `A` (White to move) ends `proven`
with move 0 (`A → b`; `b` can only return to `A`), in a table with ONE slot -/
example : (match proveWith ghiGame gHash noThreats gScale 100 (newSolver .white 1) 2 with
    | .ok (r, _, _) => r.result == .proven && r.move == some 0
    | .error _ => false) = true := by decide +kernel

/-- hypotheses of `dfpn_disproven_partial`: Black as attacker at `u` (Black to move, must let White win):
`disproven` with the ghost flag down -/
example : (match proveWith ghiGame gHash noThreats gScale 100 (newSolver .black 64) 8 with
    | .ok (r, _, d) => r.result == .disproven && !d.st.ghostRep
    | .error _ => false) = true := by decide +kernel

/-- the latch, and `proven` for an attacker who is not to move: a solver created without attacker is
first used at `A` (White to move: White is latched), then at `u` (Black to move): `proven` — for White -/
example : (match proveWith ghiGame gHash noThreats gScale 100 (newSolver .none 64) 2 with
    | .ok (_, _, d) =>
      d.attacker == .white &&
      (match proveWith ghiGame gHash noThreats gScale 100 d 8 with
       | .ok (r, _, d') => r.result == .proven && d'.attacker == .white
       | .error _ => false)
    | .error _ => false) = true := by decide +kernel

/-- the ghost flag outlives the call that raised it, `Stats.Repetition` does not: the same solver, used
next at `a`, meets no repetition in that call and answers `disproven` from the stale table — although
White wins at `a` too -/
example : (match proveWith ghiGame gHash noThreats gScale 100 (newSolver .none 64) 2 with
    | .ok (_, _, d) =>
      (match proveWith ghiGame gHash noThreats gScale 100 d 1 with
       | .ok (r, s, d') => r.result == .disproven && s.repetition == 0 && d'.st.ghostRep
       | .error _ => false)
    | .error _ => false) = true ∧ PlainWin ghiGame .white 1 :=
  ⟨by decide +kernel, winB_sound ghiGame .white 8 1 (by decide)⟩

end C06
