import TakVerif.Props.C16
import TakVerif.Props.C05_tak

/-! # C16 for the Tak instance

`C16.cancel_truncates`, `cancel_local`, `cancel_tt_prefix` and the other table clauses assume nothing about the
game: they hold of `Search.takGame basis ev sym` as they stand, for every configuration, engine state and position
(`cancel_truncates_tak` spells the instance out).  `after_cancel_exact` used `GameOK`/`EvalBounded`/`Live`; here
it is for Tak with hypotheses about the positions and the engine state only (see `Props/C05_tak.lean`). -/
namespace C16
open Search Tak

/-- **`cancel_truncates` on Tak** — no hypothesis on the position, the evaluator, the configuration or the engine
state: a cancelled `Analyze` of the Tak model is the uninterrupted `Analyze` limited to the reported depth (flagged
`Canceled`), or identical to the uninterrupted one -/
theorem cancel_truncates_tak (basis : Array W) (ev : Pos → Int) (sym : Pos → List H) (cfg : Search.Cfg)
    {o : Oracle Move} (hm : o.Monotone) (p : Pos) (s : Eng Move) (ms : List Move) (v : Int) (st : Stats)
    (s' : Eng Move) (h : analyze (takGame basis ev sym) cfg o p s = .ok ((ms, v, st), s')) :
    analyze (takGame basis ev sym) cfg o.never p s = .ok ((ms, v, st), s') ∨
    (st.canceled = true ∧ st.depth ≤ cfg.depth ∧
      ∃ st0 s'', st = { st0 with canceled := true } ∧
        analyze (takGame basis ev sym) (cfg.withDepth st.depth) o.never p s = .ok ((ms, v, st0), s'')) :=
  cancel_truncates (takGame basis ev sym) cfg hm p s ms v st s' h

/-- **later searches on the same engine are still exact, on Tak** (no table, precise options): whatever a cancelled
search of a good position left in the engine, the next uncancelled `Analyze` of a good unfinished position is exact -/
theorem after_cancel_exact_tak (basis : Array W) (ev : Pos → Int) (sym : Pos → List H) (hev : EvBounded basis ev)
    {cfg : Search.Cfg} (hpr : Precise cfg.opts) {o o2 : Oracle Move} (hm : o.Monotone) (hord1 : OrderOK o)
    (hnc : NoCancel o2) (hord : OrderOK o2)
    (p p2 : Pos) (hp : GoodPos basis p) (hply : p.move + 15 ≤ 2000000)
    (hp2 : GoodPos basis p2) (hply2 : p2.move + 15 ≤ 2000000) (hov : p2.gameOver.1 = false)
    (hdepth : 1 ≤ cfg.depth) (hdmax : cfg.depth ≤ 15)
    (s : Eng Move) (hs : s.hasTable = false) (hgood : EngGood IMt s) (r : (List Move × Int × Stats)) (s1 : Eng Move)
    (h1 : analyze (takGame basis ev sym) cfg o p s = .ok (r, s1)) :
    Sat (analyze (takGame basis ev sym) cfg o2 p2 s1) (fun x =>
      x.1.2.2.canceled = false ∧ x.1.2.1 = negamax (takGame basis ev sym) x.1.2.2.depth.toNat p2 ∧
      ∃ m rest c, x.1.1 = m :: rest ∧ p2.apply basis m = .ok c ∧
        x.1.2.1 = -(negamax (takGame basis ev sym) (x.1.2.2.depth.toNat - 1) c)) := by
  have hs1 : s1.hasTable = false := by
    rw [analyze_hasTable (takGame basis ev sym) cfg hm p s r s1 h1]; exact hs
  have hR := takRestr basis ev sym TakD (some 2000000) (domClosed_takD basis)
  have hrank : takS basis TakD (some 2000000) Facts.maxDepth p :=
    goodPos_rank basis hp (by have : Facts.maxDepth = 15 := rfl; omega)
  have hgood1 : EngGood IMt s1 :=
    ((analyze_sim hR cfg hpr.nn o hord1 ⟨p, hR.anti_le (Nat.zero_le _) hrank⟩ hrank s hgood).2 _ h1).2
  refine (C05.analyze_exact_tak basis ev sym hev hpr hnc hord p2 hp2 hply2 hov hdepth hdmax s1 hs1 hgood1).mono ?_
  rintro x ⟨_, h2, _, _, h5, h6, _⟩
  exact ⟨h2, h5, h6⟩

/-- a monotone oracle: the flag is set inside the `k`-th leaf evaluation -/
def atLeafT (k : Nat) : Oracle Move := { Oracle.quiet with cancel := fun _ e => decide (k ≤ e) }

/-- non-vacuity on the 3×3 position of `C05.ExTak`: cancelled inside the 2nd leaf evaluation the depth-3 `Analyze`
returns nothing (depth 0, cancelled); the follow-up uncancelled `Analyze` on the engine it left finds the win -/
example :
    (match analyze (takGame C05.ExTak.basis evalWinner) C05.ExTak.cfg (atLeafT 2) C05.ExTak.mid
        (Eng.new (takGame C05.ExTak.basis evalWinner) C05.ExTak.cfg) with
      | .ok ((_, _, st), s1) =>
        (match analyze (takGame C05.ExTak.basis evalWinner) C05.ExTak.cfg Oracle.quiet C05.ExTak.mid s1 with
          | .ok ((_, v, st2), _) => some (st.depth, st.canceled, v, st2.depth)
          | .error _ => none)
      | .error _ => none) = some (0, true, Facts.winBase, 1) := by decide +kernel

end C16
