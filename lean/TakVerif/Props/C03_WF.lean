import TakVerif.Props.C03
import TakVerif.Props.C01
import TakVerif.Proofs.Groups

/-! # C03 over the position invariant of C01, and over reachable / constructed positions

`Props/C03.lean` states completeness under `WFlite` (the two facts it needs).  `Tak.WF` (C01) implies `WFlite`,
and C01 proves `WF` of `New`, of `FromSquares` output and along every sequence of applied moves; so the
generator is complete on all of those positions.  `AnalyzeTotal` (a hypothesis of C01's theorems) is discharged
here by `Roads.analyze_ne_none`. -/
namespace C03
open Tak

theorem analyzeTotal : AnalyzeTotal := fun p => Roads.analyze_ne_none p

/-- the position invariant of C01 contains what completeness of the generator needs -/
theorem wflite_of_wf (basis : Array W) (p : Pos) (h : WF basis p) : Tak.Proofs.WFlite p :=
  ⟨h.size_ge, h.size_le, fun i _ => (h.cell i).h_zero⟩

/-- **allMoves_complete (DESIGN §4 form)**: `WF p → m.type ≠ pass → (Impl.move p m).isOk → ∃ m' ∈ allMoves p, Move.equal m' m` -/
theorem allMoves_complete_wf (basis : Array W) (p : Pos) (hwf : WF basis p) (m : Move) (q : Pos)
    (hnp : m.type ≠ Facts.mtPass) (h : p.apply basis m = .ok q) : ∃ m' ∈ p.allMoves, m'.equal m = true :=
  allMoves_complete_engine basis p (wflite_of_wf basis p hwf) m q hnp h

/-- the same against the rule book -/
theorem allMoves_complete_rules_wf (basis : Array W) (p : Pos) (hwf : WF basis p) (m : Move)
    (hnp : m.type ≠ Facts.mtPass) (hl : Spec.step (Spec.abs p) (Spec.decode m) ≠ none) :
    ∃ m' ∈ p.allMoves, m'.equal m = true :=
  allMoves_complete p (wflite_of_wf basis p hwf) m hnp hl

/-- on well-formed positions the two notions of legality coincide on every non-pass move within the stack limit
(C01.move_ok_iff), so the two filtered lists of `legal_filter_eq` / `engine_filter_eq` are the same list -/
theorem filters_agree (basis : Array W) (p : Pos) (hwf : WF basis p) (hlim : ∀ m ∈ p.allMoves, StackLimit p m) :
    p.allMoves.filter (Tak.Proofs.accepted basis p) = p.allMoves.filter (Tak.Proofs.legal p) := by
  apply List.filter_congr
  intro m hm
  have hnp : m.type ≠ Facts.mtPass := by
    obtain ⟨_, _, _, _, ht, _⟩ := Tak.Proofs.allMoves_onboard' p hwf.size_le m hm
    have tc := Tak.Proofs.types_cases
    omega
  have h := C01.move_ok_iff analyzeTotal basis p m hwf hnp (hlim m hm)
  cases ha : Tak.Proofs.accepted basis p m <;> cases hl : Tak.Proofs.legal p m
  · rfl
  · exfalso
    have := h.2 (by simpa [Tak.Proofs.legal] using hl)
    rw [← Tak.Proofs.accepted_iff] at this
    rw [ha] at this; cases this
  · exfalso
    have := h.1 ((Tak.Proofs.accepted_iff basis p m).1 ha)
    simp only [Tak.Proofs.legal] at hl
    rw [hl] at this; cases this
  · rfl

/-- **constructed positions**: whatever `FromSquares` returns (stacks up to 64, any ply ≥ 0) has a complete generator -/
theorem allMoves_complete_fromSquares (basis : Array W) (cfg : Cfg) (board : List (List Nat)) (move : Int) (p : Pos)
    (hm0 : 0 ≤ move) (hlen : ∀ sq ∈ board, sq.length ≤ 64) (hp : Pos.fromSquares basis cfg board move = .ok p)
    (m : Move) (q : Pos) (hnp : m.type ≠ Facts.mtPass) (h : p.apply basis m = .ok q) :
    ∃ m' ∈ p.allMoves, m'.equal m = true :=
  allMoves_complete_wf basis p (C01.fromSquares_wf basis cfg board move p hm0 hlen hp) m q hnp h

/-- **reachable positions of the default 3×3 … 6×6 games**: after any sequence of applied non-pass moves from the
start position, every non-pass move the engine applies is (`Equal` to) a generated one -/
theorem allMoves_complete_reachable (basis : Array W) (size : Nat) (bwt : Bool) (p0 p : Pos) (ms : List Move)
    (hs : size ≤ 6) (h0 : Pos.new ⟨size, 0, 0, bwt⟩ = .ok p0) (hms : ∀ m ∈ ms, m.type ≠ Facts.mtPass)
    (hp : p0.applyAll basis ms = .ok p)
    (m : Move) (q : Pos) (hnp : m.type ≠ Facts.mtPass) (h : p.apply basis m = .ok q) :
    ∃ m' ∈ p.allMoves, m'.equal m = true := by
  have := C01.reachable_default analyzeTotal basis size bwt p0 ms hs h0 hms
  rw [hp] at this
  exact allMoves_complete_wf basis p this.2 m q hnp h

/-- … and of every game (any size 3..8, custom counts) as long as the moves played respect the 64-piece stack limit -/
theorem allMoves_complete_reachable_wf (basis : Array W) (p0 p : Pos) (ms : List Move) (hwf : WF basis p0)
    (hok : MovesOK basis p0 ms) (hp : p0.applyAll basis ms = .ok p)
    (m : Move) (q : Pos) (hnp : m.type ≠ Facts.mtPass) (h : p.apply basis m = .ok q) :
    ∃ m' ∈ p.allMoves, m'.equal m = true := by
  have := C01.reachable_wf analyzeTotal basis p0 ms hwf hok
  rw [hp] at this
  exact allMoves_complete_wf basis p this.2 m q hnp h

/-! non-vacuity: C01's worked example (5×5 after a1 e5 b1 b2 b1+ a1>) -/
example : WF Ex.basis Ex.mid ∧ ∃ q, Ex.mid.apply Ex.basis ⟨1, 0, 7, 1⟩ = .ok q := ⟨Ex.mid_wf, Ex.mid_slide_ok⟩
example : ∃ m' ∈ Ex.mid.allMoves, m'.equal ⟨1, 0, 7, 1⟩ = true :=
  Ex.mid_slide_ok.elim fun q hq => allMoves_complete_wf Ex.basis Ex.mid Ex.mid_wf _ q (by decide) hq

end C03
