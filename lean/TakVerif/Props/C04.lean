import TakVerif.Props.C04_ab
import TakVerif.Props.C04_book
/-! # C04 — every searching player answers a live position with a legal move

Root of the C04 theorems.  The property is a conjunction over the searching players; each part lives in its
own file (`./check C04` audits every `Props/C04_*.lean`):

* `C04_ab.lean`    — alpha-beta: the move generator only yields validated moves (`next_legal`), PV head legal
* `C04_book.lean`  — opening book: book moves are legal in the position looked up, for all symmetric images
* `C04_mcts.lean`  — Monte-Carlo player: the answer is one of the root's (legal) children; corner forcing
* `C04_policy.lean` — Monte-Carlo rollouts: both rollout policies return legal successors without panic, `rollout` is total
-/
