import TakVerif.Props.C04_ab
-- temporary stub in the agent-search worktree only (C04.lean belongs to another package); not committed
