import TakVerif.Impl.MCTS
/-! placeholder so that `./check C04` builds in this worktree; the C04 owner's file replaces it.
The Monte-Carlo part of C04 is in `Props/C04_mcts.lean`. -/
namespace C04
end C04
