import TakVerif.Props.C05_tak
import TakVerif.Proofs.NegamaxRules2

/-! # C05: the verdicts are verdicts about Tak BY THE RULE BOOK

`Props/C05.lean` / `C05_tak.lean` measure the search against `Search.negamax` of the bit-level game (moves of `AllMoves`
that `MovePreallocated` accepts, `GameOver`, an evaluator).  Here that yardstick is tied to the rules alone:
`Spec.ruleGame` (`Spec/RuleGame.lean`: `Spec.legalMoves`, `Spec.step`, `Spec.outcome`; no bitboards, generator or
evaluator) and `Spec.Game.WinIn G att d s` (`Spec/WinIn.lean`: the attacker can force a win from `s` within `d` plies).

* `negamax_verdict_rules` — for a position `p` of C01's invariant (≤ 64 pieces, analysed groups), every depth `d` and
  every evaluator that gives the verdict of finished games up to ply `N` with **`ply + d ≤ N`**:
  `negamax d p > WinThreshold ↔` the side to move can force a win within `d` plies by the rule book,
  `< -WinThreshold ↔` the other side can, in between ↔ neither can (the game is drawn or undecided within `d`).
  The bound: `EvaluateWinner` — none (`negamax_winner_rules`); `MakeEvaluator(size, nil)` and the material evaluator —
  `ply + d ≤ 2·10^6` (`negamax_default_rules`, `negamax_mat_rules`); it is the range in which C18 proves terminal scores
  decisive (`C18.terminal_outside`), and it is needed: from ply 2 685 000 on the default evaluator's score of a won game is
  at most `WinThreshold` (`C18.terminal_beyond_bound`), so a finished, won game that deep is reported undecided.
* `win_iff_rules`, `loss_iff_rules` — `Search.Win` / `Search.Loss` (the right-hand sides of `verdict_sound`) are forced
  wins of the mover / the other side in `Spec.ruleGame` (any number of plies).
* `analyze_verdict_rules` — no table: what `Analyze` reports above / below the threshold is exactly a forced win / loss
  within the reported depth by the rule book, and the first PV move is a legal move of the rule book that keeps it.
* `verdict_sound_rules`, `verdict_complete_rules` — `verdict_sound_tak`, `verdict_complete_tak` with rule-book conclusions
  (histories of `Analyze` calls on one engine with a table). -/
namespace C05
open Search Tak Spec.Game
open Spec (abs ruleGame decode)

/-- **negamax verdicts = forced wins within the depth, by the rule book** (see the header for the bound `hN`) -/
theorem negamax_verdict_rules (basis : Array W) (ev : Pos → Int) (sym : Pos → List H) (N : Int)
    (hev : EvVerdict basis ev N) (p : Pos) (hinv : InvB basis p) (hana : p.analyze = some p) (d : Nat)
    (hN : p.move + d ≤ N) :
    (negamax (takGame basis ev sym) d p > Facts.winThreshold ↔ WinIn ruleGame p.toMove d (abs p)) ∧
    (negamax (takGame basis ev sym) d p < -Facts.winThreshold ↔ WinIn ruleGame p.toMove.flip d (abs p)) ∧
    ((-Facts.winThreshold ≤ negamax (takGame basis ev sym) d p ∧
        negamax (takGame basis ev sym) d p ≤ Facts.winThreshold) ↔
      (¬ WinIn ruleGame p.toMove d (abs p) ∧ ¬ WinIn ruleGame p.toMove.flip d (abs p))) :=
  negamax_rules basis ev sym N hev p ⟨hinv, hana⟩ d hN

/-- with `EvaluateWinner`: every depth, every ply -/
theorem negamax_winner_rules (basis : Array W) (sym : Pos → List H) (p : Pos) (hinv : InvB basis p)
    (hana : p.analyze = some p) (d : Nat) :
    (negamax (takGame basis evalWinner sym) d p > Facts.winThreshold ↔ WinIn ruleGame p.toMove d (abs p)) ∧
    (negamax (takGame basis evalWinner sym) d p < -Facts.winThreshold ↔ WinIn ruleGame p.toMove.flip d (abs p)) :=
  let h := negamax_verdict_rules basis evalWinner sym (p.move + d) (evVerdict_winner basis _) p hinv hana d (Int.le_refl _)
  ⟨h.1, h.2.1⟩

/-- with `MakeEvaluator(size, nil)`: while `ply + d ≤ 2·10^6` -/
theorem negamax_default_rules (basis : Array W) (sym : Pos → List H) (p : Pos) (hinv : InvB basis p)
    (hana : p.analyze = some p) (d : Nat) (hN : p.move + d ≤ 2000000) :
    (negamax (takGame basis evalDefault sym) d p > Facts.winThreshold ↔ WinIn ruleGame p.toMove d (abs p)) ∧
    (negamax (takGame basis evalDefault sym) d p < -Facts.winThreshold ↔ WinIn ruleGame p.toMove.flip d (abs p)) :=
  let h := negamax_verdict_rules basis evalDefault sym 2000000 (evVerdict_default basis) p hinv hana d hN
  ⟨h.1, h.2.1⟩

/-- with the material evaluator of the correspondence: while `ply + d ≤ 2·10^6` -/
theorem negamax_mat_rules (basis : Array W) (sym : Pos → List H) (p : Pos) (hinv : InvB basis p)
    (hana : p.analyze = some p) (d : Nat) (hN : p.move + d ≤ 2000000) :
    (negamax (takGame basis evalMat sym) d p > Facts.winThreshold ↔ WinIn ruleGame p.toMove d (abs p)) ∧
    (negamax (takGame basis evalMat sym) d p < -Facts.winThreshold ↔ WinIn ruleGame p.toMove.flip d (abs p)) :=
  let h := negamax_verdict_rules basis evalMat sym 2000000 (evVerdict_mat basis) p hinv hana d hN
  ⟨h.1, h.2.1⟩

/-- **`Search.Win` / `Search.Loss` are forced wins by the rule book** (evaluators that give the verdict at every ply:
`EvaluateWinner`): some depth-limited negamax value above the threshold ⇔ the side to move has a forced win in
`Spec.ruleGame`, below minus the threshold ⇔ the other side has; with the repetition rule as well
(`C06.takGame_equalIsBisimFrom`, `plainWin_win_nil_from`, `win_abs`: a winning strategy never needs to repeat a position) -/
theorem win_loss_iff_rules (basis : Array W) (ev : Pos → Int) (sym : Pos → List H) (hev : ∀ N, EvVerdict basis ev N)
    (p : Pos) (hinv : InvB basis p) (hana : p.analyze = some p) :
    (Win (takGame basis ev sym) p ↔ PlainWin ruleGame p.toMove (abs p)) ∧
    (Loss (takGame basis ev sym) p ↔ PlainWin ruleGame p.toMove.flip (abs p)) ∧
    (∀ att, PlainWin ruleGame att (abs p) ↔ ForcedWin ruleGame att (abs p)) :=
  ⟨win_iff_rules basis ev sym hev p ⟨hinv, hana⟩, loss_iff_rules basis ev sym hev p ⟨hinv, hana⟩,
   fun att => ⟨fun w =>
       C06.win_abs (h := []) (C06.plainWin_win_nil_from (Tak.PN.takGame basis) att
         (C06.takGame_equalIsBisimFrom basis p hinv hana) (C06.plainWin_of_abs w p ⟨hinv, hana⟩ rfl))
         (by simp) ⟨hinv, hana⟩,
     fun w => Win.plain ruleGame att w⟩⟩

/-- a move the engine's game accepts in a good position is a step of the rule book to the abstraction of the result, and
the mover changes -/
theorem step_of_apply {basis : Array W} {p c : Pos} {m : Move} (hp : GoodPos basis p) (hnp : m.type ≠ Facts.mtPass)
    (hap : p.apply basis m = .ok c) :
    GoodPos basis c ∧ Spec.step (abs p) (decode m) = some (abs c) ∧ c.toMove = p.toMove.flip ∧ c.move = p.move + 1 :=
  ⟨goodPos_apply basis hp hnp hap, (C06.invB_step hp.1 hnp hap).2,
   (C06.takGame_alternating basis).flips p m c (C06.takGame_apply_some.mpr hap), C06.apply_move basis p c m hap⟩

/-- **`Analyze` without a table, in the rule book's terms** (setting of `analyze_exact_tak`; any evaluator that stays in
range and gives the verdict of finished games up to ply 2·10^6 — all three evaluators of the engine and the
correspondence): the call reports a depth `d ∈ 1..Cfg.Depth`; its value is above `WinThreshold` **iff** the side to move
can force a win within `d` plies by the rule book, below `-WinThreshold` **iff** the other side can; the first PV move
is a step of the rule book, and when a win is reported it leads to a position from which the mover still wins within
`d - 1` plies (the move attains the verdict). -/
theorem analyze_verdict_rules (basis : Array W) (ev : Pos → Int) (sym : Pos → List H) (hev : EvBounded basis ev)
    (hv : EvVerdict basis ev 2000000)
    {cfg : Search.Cfg} (hpr : Precise cfg.opts) {o : Oracle Move} (hnc : NoCancel o) (hord : OrderOK o)
    (p : Pos) (hp : GoodPos basis p) (hply : p.move + 15 ≤ 2000000) (hov : p.gameOver.1 = false)
    (hdepth : 1 ≤ cfg.depth) (hdmax : cfg.depth ≤ 15)
    (s : Eng Move) (hs : s.hasTable = false) (hgood : EngGood IMt s) :
    Sat (analyze (takGame basis ev sym) cfg o p s) (fun x =>
      let ms := x.1.1; let v := x.1.2.1; let d := x.1.2.2.depth.toNat
      1 ≤ d ∧ (d : Int) ≤ cfg.depth ∧
      (v > Facts.winThreshold ↔ WinIn ruleGame p.toMove d (abs p)) ∧
      (v < -Facts.winThreshold ↔ WinIn ruleGame p.toMove.flip d (abs p)) ∧
      ∃ m rest s', ms = m :: rest ∧ Spec.step (abs p) (decode m) = some s' ∧
        (v > Facts.winThreshold → WinIn ruleGame p.toMove (d - 1) s')) := by
  refine (analyze_exact_tak basis ev sym hev hpr hnc hord p hp hply hov hdepth hdmax s hs hgood).mono ?_
  rintro x ⟨_, _, h1, h2, hval, ⟨m, rest, c, hms, hap, hc⟩, _, hnp⟩
  dsimp only at h1 h2 hval hms hap hc hnp ⊢
  have hd : (x.1.2.2.depth.toNat : Int) = x.1.2.2.depth := Int.toNat_of_nonneg (by omega)
  have hr := negamax_verdict_rules basis ev sym 2000000 hv p hp.1 hp.2.2 x.1.2.2.depth.toNat (by omega)
  rw [← hval] at hr
  obtain ⟨hgc, hst, htm, hmv⟩ := step_of_apply hp (hnp m (by rw [hms]; simp)) hap
  refine ⟨by omega, by omega, hr.1, hr.2.1, m, rest, abs c, hms, hst, ?_⟩
  intro hw
  have hrc := negamax_verdict_rules basis ev sym 2000000 hv c hgc.1 hgc.2.2 (x.1.2.2.depth.toNat - 1) (by omega)
  rw [htm, toMove_flip_flip] at hrc
  exact hrc.2.1.mp (by omega)

theorem runCalls_positions {P M : Type} [DecidableEq M] (g : Game P M) (cfg : Search.Cfg) :
    ∀ (h : History P M) (s : Eng M) (rs : List (P × Int)) (s' : Eng M), runCalls g cfg h s = .ok (rs, s') →
      ∀ y ∈ rs, ∃ x ∈ h, x.1 = y.1 := by
  intro h
  induction h with
  | nil => intro s rs s' hr y hy; simp only [runCalls] at hr; cases hr; cases hy
  | cons c rest ih =>
    intro s rs s' hr y hy
    obtain ⟨p, o⟩ := c
    simp only [runCalls] at hr
    cases ha : analyze g cfg o p s with
    | error e => rw [ha] at hr; cases hr
    | ok r =>
      obtain ⟨r, s1⟩ := r
      rw [ha] at hr
      dsimp only at hr
      cases hrest : runCalls g cfg rest s1 with
      | error e => rw [hrest] at hr; cases hr
      | ok q =>
        obtain ⟨rs1, s2⟩ := q
        rw [hrest] at hr
        cases hr
        rcases List.mem_cons.mp hy with e | e
        · exact ⟨(p, o), List.mem_cons_self, by rw [e]⟩
        · obtain ⟨x, hx, hxe⟩ := ih s1 rs1 _ hrest y e
          exact ⟨x, List.mem_cons_of_mem _ hx, hxe⟩

/-- **`verdict_sound` by the rule book** (`verdict_sound_tak` with its conclusion carried to `Spec.ruleGame`): `root` a
good position, every analysed position a position of the game from `root`, no hash collision among those positions in
the property's sense; an evaluator that is decisive exactly for finished games with a winner at every ply and whose
verdict depends on game end and mover only (`EvaluateWinner`).  Then for any history of `Analyze` calls on one engine
starting new — any table size, each call with its own move order and cancellation pattern, precise configuration —
every reported value above `WinThreshold` is a forced win of the side to move of the analysed position in Tak as the
rule book defines it (also under the repetition rule), every value below `-WinThreshold` a forced win of the other side. -/
theorem verdict_sound_rules (basis : Array W) (ev : Pos → Int) (sym : Pos → List H) (hev : EvInside basis ev)
    (hevc : EvVerdictCongr ev) (hv : ∀ N, EvVerdict basis ev N) (root : Pos) (hroot : GoodPos basis root)
    (hcol : ∀ p q, InGame basis root p → InGame basis root q → p.hashOf = q.hashOf → p.equal q = true)
    {cfg : Search.Cfg} (hpr : Precise cfg.opts) (h : History Pos Move)
    (hh : ∀ x ∈ h, OrderOK x.2 ∧ InGame basis root x.1) :
    Sat (runCalls (takGame basis ev sym) cfg h (Eng.new (takGame basis ev sym) cfg)) (fun x =>
      ∀ y ∈ x.1,
        (y.2 > Facts.winThreshold →
          PlainWin ruleGame y.1.toMove (abs y.1) ∧ ForcedWin ruleGame y.1.toMove (abs y.1)) ∧
        (y.2 < -Facts.winThreshold →
          PlainWin ruleGame y.1.toMove.flip (abs y.1) ∧ ForcedWin ruleGame y.1.toMove.flip (abs y.1))) := by
  have hs := verdict_sound_tak basis ev sym hev hevc root hroot hcol hpr h hh
  intro x hx
  obtain ⟨rs, s'⟩ := x
  obtain ⟨_, hy⟩ := hs _ hx
  intro y hyr
  obtain ⟨c, hc, hce⟩ := runCalls_positions _ cfg h _ rs s' hx y hyr
  have hg : GoodPos basis y.1 := by rw [← hce]; exact goodPos_inGame basis hroot (hh c hc).2
  obtain ⟨hw, hl, hrep⟩ := win_loss_iff_rules basis ev sym hv y.1 hg.1 hg.2.2
  exact ⟨fun h1 => ⟨hw.mp ((hy y hyr).1 h1), (hrep _).mp (hw.mp ((hy y hyr).1 h1))⟩,
         fun h1 => ⟨hl.mp ((hy y hyr).2 h1), (hrep _).mp (hl.mp ((hy y hyr).2 h1))⟩⟩

/-- **`verdict_complete` by the rule book** (`verdict_complete_tak` likewise): after any such history (cancel flags
monotone), an uncancelled `Analyze` of an unfinished position of the game reports a value above `WinThreshold` whenever
the side to move can force a win within the reported depth by the rule book, and below `-WinThreshold` whenever the
other side can. -/
theorem verdict_complete_rules (basis : Array W) (ev : Pos → Int) (sym : Pos → List H) (hev : EvInside basis ev)
    (hevc : EvVerdictCongr ev) (hv : ∀ N, EvVerdict basis ev N) (root : Pos) (hroot : GoodPos basis root)
    (hcol : ∀ p q, InGame basis root p → InGame basis root q → p.hashOf = q.hashOf → p.equal q = true)
    {cfg : Search.Cfg} (hpr : Precise cfg.opts) (h : History Pos Move)
    (hh : ∀ x ∈ h, OrderOK x.2 ∧ InGame basis root x.1) (hmono : ∀ x ∈ h, x.2.Monotone)
    (p : Pos) (hp : InGame basis root p) (hov : p.gameOver.1 = false) {o : Oracle Move} (hnc : NoCancel o)
    (hord' : OrderOK o) (rs : List (Pos × Int)) (s : Eng Move) (r : List Move × Int × Stats) (s' : Eng Move)
    (h1 : runCalls (takGame basis ev sym) cfg h (Eng.new (takGame basis ev sym) cfg) = .ok (rs, s))
    (h2 : analyze (takGame basis ev sym) cfg o p s = .ok (r, s')) :
    (WinIn ruleGame p.toMove r.2.2.depth.toNat (abs p) → r.2.1 > Facts.winThreshold) ∧
    (WinIn ruleGame p.toMove.flip r.2.2.depth.toNat (abs p) → r.2.1 < -Facts.winThreshold) := by
  have hc := verdict_complete_tak basis ev sym hev hevc root hroot hcol hpr h hh hmono p hp hov hnc hord' rs s r s' h1 h2
  have hg := goodPos_inGame basis hroot hp
  have hr := negamax_verdict_rules basis ev sym _ (hv _) p hg.1 hg.2.2 r.2.2.depth.toNat (Int.le_refl _)
  exact ⟨fun w => hc.1 (hr.1.mpr w), fun w => hc.2 (hr.2.1.mpr w)⟩

/-- a decisive value switches the randomised choice of `GetMove` off: the PV head is returned, the engine untouched -/
theorem getMoveFrom_decisive {P M : Type} [DecidableEq M] (g : Game P M) (cfg : Search.Cfg) (o : Oracle M) (p : P)
    (pv0 : M) (rest : List M) (v : Int) (st : Stats) (s : Eng M)
    (hv : v > Facts.winThreshold ∨ v < -Facts.winThreshold) :
    getMoveFrom g cfg o p (pv0 :: rest) v st s = .ok (pv0, s) := by
  unfold getMoveFrom
  dsimp only
  split
  · rfl
  · have : (decide (v > Facts.winThreshold) || decide (v < -Facts.winThreshold)) = true := by
      rcases hv with h | h <;> simp [h]
    rw [if_pos this]

/-- **`GetMove` without a table, in the rule book's terms** (setting of `analyze_verdict_rules`: all three evaluators,
`ply + 15 ≤ 2·10^6`, any engine state without pass hints, any randomisation window): with `(pv, v, st)` what the `Analyze`
call inside `GetMove` reports, if `v > WinThreshold` the returned move is a step of the rule book into a state from which
the mover wins within `depth - 1` plies — the move played attains the reported verdict (and `v > WinThreshold` holds exactly
when a win within the reported depth exists, `analyze_verdict_rules`). -/
theorem getMove_verdict_rules_no_table (basis : Array W) (ev : Pos → Int) (sym : Pos → List H)
    (hev : EvBounded basis ev) (hv : EvVerdict basis ev 2000000)
    {cfg : Search.Cfg} (hpr : Precise cfg.opts) {o : Oracle Move} (hnc : NoCancel o) (hord : OrderOK o)
    (p : Pos) (hp : GoodPos basis p) (hply : p.move + 15 ≤ 2000000) (hov : p.gameOver.1 = false)
    (hdepth : 1 ≤ cfg.depth) (hdmax : cfg.depth ≤ 15)
    (s : Eng Move) (hs : s.hasTable = false) (hgood : EngGood IMt s) :
    Sat (getMove (takGame basis ev sym) cfg o p s) (fun x =>
      ∀ pv v st s1, analyze (takGame basis ev sym) cfg o p s = .ok ((pv, v, st), s1) →
        v > Facts.winThreshold →
          ∃ t, Spec.step (abs p) (decode x.1) = some t ∧ WinIn ruleGame p.toMove (st.depth.toNat - 1) t) := by
  intro x hx pv v st s1 ha hvw
  obtain ⟨_, _, _, _, ⟨m, rest, t, hms, hst, hwin⟩⟩ :=
    analyze_verdict_rules basis ev sym hev hv hpr hnc hord p hp hply hov hdepth hdmax s hs hgood _ ha
  dsimp only at hms hst hwin
  unfold getMove at hx
  rw [ha] at hx
  dsimp only at hx
  rw [hms, getMoveFrom_decisive _ _ _ _ _ _ _ _ _ (Or.inl hvw)] at hx
  cases hx
  exact ⟨t, hst, hwin hvw⟩

/-- **`AnalyzeAll` without a table, in the rule book's terms** (same setting): the reported value is above / below the
threshold exactly when the mover / the other side can force a win within the reported depth, and when a win is reported
every listed line starts with a step of the rule book into a state from which the mover wins within `depth - 1` plies. -/
theorem analyzeAll_verdict_rules_no_table (basis : Array W) (ev : Pos → Int) (sym : Pos → List H)
    (hev : EvBounded basis ev) (hv : EvVerdict basis ev 2000000)
    {cfg : Search.Cfg} (hpr : Precise cfg.opts) {o : Oracle Move} (hnc : NoCancel o) (hord : OrderOK o)
    (p : Pos) (hp : GoodPos basis p) (hply : p.move + 15 ≤ 2000000) (hov : p.gameOver.1 = false)
    (hdepth : 1 ≤ cfg.depth) (hdmax : cfg.depth ≤ 15)
    (s : Eng Move) (hs : s.hasTable = false) (hgood : EngGood IMt s) :
    Sat (analyzeAll (takGame basis ev sym) cfg o p s) (fun x =>
      let lines := x.1.1; let v := x.1.2.1; let d := x.1.2.2.depth.toNat
      (v > Facts.winThreshold ↔ WinIn ruleGame p.toMove d (abs p)) ∧
      (v < -Facts.winThreshold ↔ WinIn ruleGame p.toMove.flip d (abs p)) ∧
      (v > Facts.winThreshold → ∀ l ∈ lines, ∃ m rest t, l = m :: rest ∧ Spec.step (abs p) (decode m) = some t ∧
        WinIn ruleGame p.toMove (d - 1) t)) := by
  refine (analyzeAll_exact_tak basis ev sym hev hpr hnc hord p hp hply hov hdepth hdmax s hs hgood).mono ?_
  rintro x ⟨h1, h2, hval, hlines, _, hg⟩
  dsimp only at h1 h2 hval hlines hg ⊢
  have hr := negamax_verdict_rules basis ev sym 2000000 hv p hp.1 hp.2.2 x.1.2.2.depth.toNat (by omega)
  rw [← hval] at hr
  refine ⟨hr.1, hr.2.1, ?_⟩
  intro hvw l hl
  obtain ⟨m, rest, c, e, hnp, hap, hc⟩ := hlines l hl
  obtain ⟨hgc, hst, htm, hmv⟩ := step_of_apply hp hnp hap
  refine ⟨m, rest, abs c, e, hst, ?_⟩
  have hrc := negamax_verdict_rules basis ev sym 2000000 hv c hgc.1 hgc.2.2 (x.1.2.2.depth.toNat - 1) (by omega)
  rw [htm, toMove_flip_flip] at hrc
  exact hrc.2.1.mp (by omega)

/-! ### concrete instances (3×3, `C05.ExTak.mid`: after a1 c3 b3 b1, White to move wins by a3) -/

/-- the evaluator hypotheses of the theorems above hold of the three evaluators -/
example : (∀ N, EvVerdict ExTak.basis evalWinner N) ∧ EvVerdict ExTak.basis evalDefault 2000000 ∧
    EvVerdict ExTak.basis evalMat 2000000 :=
  ⟨evVerdict_winner _, evVerdict_default _, evVerdict_mat _⟩

/-- the rule book's side, by itself: White wins `mid` within one ply (a3 completes the road a3-b3-c3), and not within
zero plies; kernel-evaluated on the list-level rules -/
example : WinIn ruleGame .white 1 (abs ExTak.mid) ∧ ¬ WinIn ruleGame .white 0 (abs ExTak.mid) := by
  constructor
  · refine .attacker (s' := (Spec.step (abs ExTak.mid) (decode ⟨0, 2, Facts.mtPlaceFlat, 0⟩)).getD (abs ExTak.mid))
      (by decide +kernel) (by decide +kernel) ⟨⟨0, 2, Facts.mtPlaceFlat, 0⟩, by decide +kernel, by decide +kernel⟩
      (.terminal (by decide +kernel))
  · rw [winIn_zero_iff]; decide +kernel

/-- … and `negamax_winner_rules` says the same of the search's yardstick: the depth-1 value is above the threshold -/
example : negamax (takGame ExTak.basis evalWinner) 1 ExTak.mid > Facts.winThreshold := by decide +kernel

end C05
