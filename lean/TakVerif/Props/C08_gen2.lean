import TakVerif.Props.C08_gen
import TakVerif.Generated.FuncsPos

set_option linter.unusedSimpArgs false

/-! Tie #1 for C08, second round: `Position.hashAt` (reads `Height[i]`, `Stacks[i]` and the Zobrist table `basis[i]`) and
`Position.Equal` (the field comparisons and the loop over `Height` / `Stacks`) are regenerated from `tak/hash.go`
(`Generated/FuncsPos.lean`) with Go's index panics explicit (`none`).  The model's `Pos.hashAt` and `Pos.equal` - which
`C08.equal_iff`, `hash_congr` and the incremental-hash theorems are about - are proved equal to them wherever Go does
not panic, i.e. for every position whose `Height` / `Stacks` slices cover the indices read (every position `alloc` builds). -/
namespace C08
open Tak

/-- `Position.hashAt(i)`: on an index inside the three tables the regenerated function returns the model's value -/
theorem hashAt_is_source (basis : Array W) (p : Pos) (i : Nat)
    (hh : i < p.height.size) (hs : i < p.stacks.size) (hb : i < basis.size) :
    Gen.positionHashAt basis p.height p.stacks i = some (p.hashAt basis i) := by
  unfold Gen.positionHashAt Pos.hashAt hashAtRaw
  simp only [hh, hs, hb, decide_true, Bool.not_true, Bool.false_eq_true, ↓reduceIte, Bool.or_self]
  generalize p.height.getD i 0#8 = hv
  have e : (hv ≤ 1#8) ↔ hv.toNat ≤ 1 := by rw [BitVec.le_def]; simp
  simp only [decide_eq_true_eq, e]
  split <;> rfl

/-- ... and outside `Height` it is Go's index panic -/
theorem hashAt_panics (basis : Array W) (p : Pos) (i : Nat) (hh : p.height.size ≤ i) :
    Gen.positionHashAt basis p.height p.stacks i = none := by
  unfold Gen.positionHashAt
  have : ¬ i < p.height.size := by omega
  simp [this]

/-- the loop of `Equal` from index `k` on: no panic while the four slices cover the indices, `false` at the first difference -/
theorem equal_loop_eq (pH rH : Array U8) (pS rS : Array W) (l : List U8) (k : Nat)
    (h1 : k + l.length ≤ pH.size) (h2 : k + l.length ≤ rH.size) (h3 : k + l.length ≤ pS.size) (h4 : k + l.length ≤ rS.size) :
    Gen.positionEqual_loop0 pH pS rH rS l (k : Int) () =
      if (List.range' k l.length).all (fun i => pH.getD i 0#8 == rH.getD i 0#8 && pS.getD i 0#64 == rS.getD i 0#64)
      then some (.ok ()) else some (.error false) := by
  induction l generalizing k with
  | nil => simp [Gen.positionEqual_loop0]
  | cons a tl ih =>
    simp only [List.length_cons] at h1 h2 h3 h4
    unfold Gen.positionEqual_loop0
    have g1 : (decide ((0 : Int) ≤ (k : Int)) && decide ((k : Int) < Int.ofNat pH.size)) = true := by
      simp only [Bool.and_eq_true, decide_eq_true_eq, Int.ofNat_eq_natCast]; omega
    have g2 : (decide ((0 : Int) ≤ (k : Int)) && decide ((k : Int) < Int.ofNat rH.size)) = true := by
      simp only [Bool.and_eq_true, decide_eq_true_eq, Int.ofNat_eq_natCast]; omega
    have g3 : (decide ((0 : Int) ≤ (k : Int)) && decide ((k : Int) < Int.ofNat pS.size)) = true := by
      simp only [Bool.and_eq_true, decide_eq_true_eq, Int.ofNat_eq_natCast]; omega
    have g4 : (decide ((0 : Int) ≤ (k : Int)) && decide ((k : Int) < Int.ofNat rS.size)) = true := by
      simp only [Bool.and_eq_true, decide_eq_true_eq, Int.ofNat_eq_natCast]; omega
    simp only [g1, g2, g3, g4, Bool.not_true, Bool.or_self, Bool.and_false, Bool.false_eq_true, ↓reduceIte, Int.toNat_natCast]
    have hk : ((k : Int) + 1) = ((k + 1 : Nat) : Int) := by omega
    rw [hk, ih (k + 1) (by omega) (by omega) (by omega) (by omega)]
    simp only [List.length_cons, List.range'_succ, List.all_cons]
    generalize ((List.range' (k + 1) tl.length).all fun i =>
      pH.getD i 0#8 == rH.getD i 0#8 && pS.getD i 0#64 == rS.getD i 0#64) = al
    cases hx : (pH.getD k 0#8 == rH.getD k 0#8) <;> cases hy : (pS.getD k 0#64 == rS.getD k 0#64) <;> cases al <;>
      simp only [bne, hx, hy, Bool.not_false, Bool.not_true, Bool.or_true, Bool.true_or, Bool.or_false, Bool.or_self,
        Bool.false_and, Bool.true_and, Bool.and_true, Bool.and_false, Bool.and_self, Bool.false_eq_true, ↓reduceIte]

/-- `Position.Equal`: the model's `equal` is the regenerated function of the fields of the two positions, whenever the
`Height` / `Stacks` slices of both cover `len(p.Height)` (Go would panic otherwise; `alloc` makes all four `size*size` long) -/
theorem equal_is_source (p q : Pos)
    (hq : p.height.size ≤ q.height.size) (hps : p.height.size ≤ p.stacks.size) (hqs : p.height.size ≤ q.stacks.size) :
    Gen.positionEqual p.black p.caps p.height p.stacks p.standing p.white p.cfg.size p.hash p.move
        q.black q.caps q.height q.stacks q.standing q.white q.cfg.size q.hash q.move = some (p.equal q) := by
  unfold Gen.positionEqual Pos.equal
  have hl := equal_loop_eq p.height q.height p.stacks q.stacks p.height.toList 0
    (by simp) (by simpa using hq) (by simpa using hps) (by simpa using hqs)
  rw [show ((0 : Nat) : Int) = 0 from rfl] at hl
  rw [hl]
  rw [← C02.toMove_is_source, ← C02.toMove_is_source]
  have hr : List.range' 0 p.height.toList.length = List.range p.height.size := by
    simp [List.range_eq_range']
  rw [hr]
  have hsz : ((p.cfg.size : Int) != (q.cfg.size : Int)) = (p.cfg.size != q.cfg.size) := by
    by_cases h : p.cfg.size = q.cfg.size
    · rw [h]; simp
    · have h' : (p.cfg.size : Int) ≠ q.cfg.size := by omega
      rw [bne_iff_ne.mpr h', bne_iff_ne.mpr h]
  have htm : (C02.colorByte p.toMove != C02.colorByte q.toMove) = (p.toMove != q.toMove) := by
    cases p.toMove <;> cases q.toMove <;> decide
  rw [hsz, htm]
  generalize (List.range p.height.size).all
    (fun i => p.height.getD i 0#8 == q.height.getD i 0#8 && p.stacks.getD i 0#64 == q.stacks.getD i 0#64) = al
  -- a Boolean identity in the seven field comparisons and the loop result
  have key : ∀ (e1 e2 e3 e4 e5 e6 e7 al : Bool),
      (if ((!e1) || (!e2) || (!e3) || (!e4) || (!e5) || (!e6) || (!e7)) = true then some false
       else match (if al = true then some (Except.ok ()) else some (Except.error false) : Option (Except Bool Unit)) with
         | none => none
         | some (Except.error rv_) => some rv_
         | some (Except.ok PUnit.unit) => some true) =
      some (e1 && e2 && e3 && e4 && e5 && e6 && e7 && al) := by decide
  exact key (p.cfg.size == q.cfg.size) (p.hash == q.hash) (p.white == q.white) (p.black == q.black)
    (p.standing == q.standing) (p.caps == q.caps) (p.toMove == q.toMove) al

example : Gen.positionEqual 0#64 0#64 #[1#8] #[0#64] 0#64 1#64 3 5#64 2  0#64 0#64 #[1#8] #[0#64] 0#64 1#64 3 5#64 4 = some true ∧
    Gen.positionEqual 0#64 0#64 #[1#8] #[0#64] 0#64 1#64 3 5#64 2  0#64 0#64 #[2#8] #[0#64] 0#64 1#64 3 5#64 4 = some false ∧
    Gen.positionEqual 0#64 0#64 #[1#8] #[0#64] 0#64 1#64 3 5#64 2  0#64 0#64 #[] #[0#64] 0#64 1#64 3 5#64 4 = none := by decide

example : Gen.positionHashAt #[7#64] #[2#8] #[1#64] 0 = some (Gen.hash64 (Gen.hash8 7#64 2#8) 1#64) ∧
    Gen.positionHashAt #[7#64] #[2#8] #[1#64] 1 = none ∧ Gen.positionHashAt #[] #[1#8] #[] 0 = some 0#64 := by decide

end C08
