import TakVerif.Props.C07_compose3
import TakVerif.Props.C07_check
import TakVerif.Proofs.CheckEngineTak
import TakVerif.Impl.ServerMove

/-! # C07 — the last hypothesis about reachable states of the bot's no-crash theorem discharged: `ChkOK`

`bot_never_dead_minimax_events` (Props/C07_compose3.lean) still assumed `ChkOK` of the event list: "a win-in-one verdict
(`v ≥ WinThreshold` found at `Stats.Depth ≤ 1`, which makes `waitUndo` index `f.g.Positions[len-2]`) is only claimed for
a position beyond ply 0".  In the oracle system (`Tak.Compose.run`) the verdicts are inputs of the `enter` events, so it
could only be assumed.  In the threaded system (`Impl/BotCheck.lean`, `runK`) the verdicts are what `f.check` — the
alpha-beta model with `Friendly.NewGame`'s exact configuration `checkCfg` (`Depth` 3, no table, `EvaluateWinner`, every
option at its default: null move and slide reduction ON, so not `Precise`) — computes from its own state.  Here:

* `checkOK_analyze` — every `f.check.Analyze` call on a position of the board size returns (no `.error` exit: the check
  engine never kills a thinker, `KDied` is excluded), keeps the engine's invariant `ChkInv`, and on a position in which
  no move wins at once does not claim a win in one;
* `threaded_refines_chk` — every run of the threaded system is a run of the oracle system on an event list that
  SATISFIES `ChkOK` (the only position at ply 0 the bot ever holds is the empty board of `NewGame`, `PosA`; on it no
  move ends the game, `Tak.noWinInOne_new`; a depth-1 search without a table reports the maximum of the children's
  evaluations whatever the options, `Search.analyze_noTable`);
* **`bot_never_dead_minimax_final`** — no hypothesis about reachable states at all: configuration hypotheses (`Depth ≤
  15`, table absent or non-empty, size 3..8, the three fixes applied) and "no server line parses to the pass";
* `parseServer_not_pass`, **`bot_never_dead_minimax_parsed`** — the latter follows from C11's model of
  `playtak.ParseServer`: the move of every `deliver` event is what `parseServer` returns for some line. -/
namespace C07
open Tak Tak.Bot Tak.Glue Tak.FPA Tak.Compose Spec.FPA

variable {σ χ : Type}

/-- the oracles of one `f.check.Analyze` call: any cancel oracle (the real call runs under `context.Background()`:
never cancelled), a `sort.Sort` that permutes -/
abbrev ChkOracle := { o : Search.Oracle Move // Search.OrderOK o }

/-- `f.check` as `Friendly.NewGame` configures it (`Impl/BotCheck.lean` `minimaxChecker`, `checkCfg`) -/
def checkOK (basis : Array W) (sym : Pos → List Search.H) : Checker (Search.Eng Move) ChkOracle :=
  { analyze := fun o p s => (minimaxChecker basis sym).analyze o.1 p s }

/-- what `NewGame` builds for `f.check` -/
def checkNew (basis : Array W) (sym : Pos → List Search.H) : Search.Eng Move :=
  Search.Eng.new (Search.takGame basis Search.evalWinner sym) checkCfg

/-- invariant of the check engine's state: the totality invariant, and no table -/
def ChkInv (n : Nat) (k : Search.Eng Move) : Prop := C04.EngTak n k ∧ k.hasTable = false

theorem chkInv_new (basis : Array W) (sym : Pos → List Search.H) (n : Nat) : ChkInv n (checkNew basis sym) :=
  ⟨C04.engTak_new basis Search.evalWinner sym n checkCfg (by decide), rfl⟩

/-- the positions the bot holds: board as configured, ply ≥ 0, and the only one at ply 0 is the start position -/
def PosA (n : Nat) (p0 p : Pos) : Prop := Search.NTak n p ∧ 0 ≤ p.move ∧ (p.move = 0 → p = p0)

theorem posA_apply {n : Nat} {p0 : Pos} {basis : Array W} (p : Pos) (m : Move) (q : Pos) (hp : PosA n p0 p)
    (ha : p.apply basis m = .ok q) : PosA n p0 q := by
  have hm := Tak.apply_move' basis p q m ha
  refine ⟨Search.nTak_apply hp.1 ha, by have := hp.2.1; omega, fun h0 => ?_⟩
  have := hp.2.1
  omega

/-- **`checkOK_analyze`** — one `f.check.Analyze` call (any oracle) on a position of the board size, from a state
satisfying `ChkInv`: it RETURNS, the state satisfies `ChkInv` again, and when no move wins at once in the position it
does not report `v ≥ WinThreshold` with `Stats.Depth ≤ 1` -/
theorem checkOK_analyze (basis : Array W) (sym : Pos → List Search.H) (n : Nat) (h8 : n ≤ 8) (x : ChkOracle)
    (p : Pos) (hp : Search.NTak n p) (k : Search.Eng Move) (hk : ChkInv n k) :
    ∃ v d k', (checkOK basis sym).analyze x p k = .ok ((v, d), k') ∧ ChkInv n k' ∧
      (Search.NoWinInOne (Search.takGame basis Search.evalWinner sym) p → ¬ (v ≥ Facts.winThreshold ∧ d ≤ 1)) := by
  obtain ⟨pv, v, st, k', hr, hk', _, _⟩ := C04.analyze_total_tak basis Search.evalWinner sym n h8 checkCfg (by decide)
    (C04.OrderOK.sub x.2) p hp k hk.1
  obtain ⟨hnt, hno⟩ := Search.analyze_noTable (o := x.1) checkCfg p k hk.2 _ hr
  refine ⟨v, st.depth, k', ?_, ⟨hk', hnt⟩, hno⟩
  show (match Search.analyze (Search.takGame basis Search.evalWinner sym) checkCfg x.1 p k with
    | .ok ((_, v, st), s') => Except.ok ((v, st.depth), s')
    | .error e => Except.error e) = _
  rw [hr]

/-- the two `Analyze` calls of `waitUndo`: they return, keep `ChkInv`, and on a position without a win in one the
verdict does not make `waitUndo` read `Positions[len-2]` -/
theorem checkVerdicts_ok (basis : Array W) (sym : Pos → List Search.H) (n : Nat) (h8 : n ≤ 8) (x1 x2 : ChkOracle)
    (ps : List Pos) (hps : ∀ q ∈ ps, Search.NTak n q) (p : Pos) (hp : Search.NTak n p) (k : Search.Eng Move)
    (hk : ChkInv n k) :
    ∃ chk k', checkVerdicts (checkOK basis sym) x1 x2 ps p k = .ok (chk, k') ∧ ChkInv n k' ∧
      (Search.NoWinInOne (Search.takGame basis Search.evalWinner sym) p → asksPrev chk = false) := by
  obtain ⟨v, d, k1, h1, hk1, hno⟩ := checkOK_analyze basis sym n h8 x1 p hp k hk
  have hask : ∀ v2, Search.NoWinInOne (Search.takGame basis Search.evalWinner sym) p →
      asksPrev { curV := v, curDepth := d, prevV := v2 } = false := by
    intro v2 hw
    have := hno hw
    unfold asksPrev
    have hc : v < Facts.winThreshold ∨ d > 1 := by omega
    rcases hc with hc | hc <;> simp [hc]
  unfold checkVerdicts
  by_cases hc : v < Facts.winThreshold ∨ d > 1
  · simp only [h1, bind, Except.bind, if_pos hc]
    exact ⟨_, _, rfl, hk1, hask 0⟩
  · simp only [h1, bind, Except.bind, if_neg hc]
    match ps, hps with
    | [], _ => exact ⟨_, _, rfl, hk1, hask 0⟩
    | [_], _ => exact ⟨_, _, rfl, hk1, hask 0⟩
    | _ :: q :: _, hps =>
      dsimp only
      obtain ⟨v2, d2, k2, h2, hk2, _⟩ := checkOK_analyze basis sym n h8 x2 q
        (hps q (List.mem_cons_of_mem _ List.mem_cons_self)) k1 hk1
      simp only [h2]
      exact ⟨_, _, rfl, hk2, hask v2⟩

/-- an event of the threaded system does not carry the pass -/
def EvKNoPass {χ ξ : Type} : EvK χ ξ → Prop
  | .deliver _ (some m) => m.type ≠ Facts.mtPass
  | _ => True

theorem thinker_posA {n : Nat} {p0 : Pos} {b : Bot.St} (hP : PInv (PosA n p0) p0 b) {k : Nat} {t : Thinker}
    (ht : thinkerAt b k = some t) : PosA n p0 t.pos := by
  have hmem : t ∈ thinkers b := List.mem_of_getElem? ht
  unfold thinkers at hmem
  simp only [List.mem_append, List.mem_singleton] at hmem
  rcases hmem with hm | rfl
  · exact hP.old t hm
  · exact hP.cur

/-- one step of the threaded system is a step of the oracle system on an event with a sane verdict -/
theorem stepK_chk (c : Compose.Conf) (hsize : 3 ≤ c.size ∧ c.size ≤ 8) (S : Searcher σ χ) (csym : Pos → List Search.H)
    (p0 : Pos) (hw0 : Search.NoWinInOne (Search.takGame c.bot.basis Search.evalWinner csym) p0)
    (sk : Compose.St σ χ × Search.Eng Move) (hP : PInv (PosA c.size p0) p0 sk.1.b) (hk : ChkInv c.size sk.2)
    (e : EvK χ ChkOracle) :
    ∃ e', (stepK c S (checkOK c.bot.basis csym) sk e).1 = Compose.step c S sk.1 e' ∧ ChkOK c S sk.1 [e'] ∧
      (EvKNoPass e → Compose.EvNoPass e') ∧ ChkInv c.size (stepK c S (checkOK c.bot.basis csym) sk e).2 := by
  have hnov : ∀ k, ChkOK c S sk.1 [Compose.Ev.enter k noVerdict] := by
    intro k
    refine ⟨?_, trivial⟩
    intro t _ ha
    have : asksPrev noVerdict = false := by decide
    rw [this] at ha; cases ha
  unfold stepK
  split
  · rename_i hd
    exact ⟨.close, by unfold Compose.step; rw [if_pos hd], ⟨trivial, trivial⟩, fun _ => trivial, hk⟩
  · rename_i hd
    cases e with
    | deliver bits parsed =>
      refine ⟨.deliver bits parsed, rfl, ⟨trivial, trivial⟩, fun h => ?_, hk⟩
      cases parsed with
      | none => trivial
      | some m => exact h
    | close => exact ⟨.close, rfl, ⟨trivial, trivial⟩, fun _ => trivial, hk⟩
    | timerFires => exact ⟨.timerFires, rfl, ⟨trivial, trivial⟩, fun _ => trivial, hk⟩
    | leave k x => exact ⟨.leave k x, rfl, ⟨trivial, trivial⟩, fun _ => trivial, hk⟩
    | enter k x1 x2 =>
      dsimp only
      unfold enterK
      split
      · exact ⟨.enter k noVerdict, by unfold Compose.step; rw [if_neg hd], hnov k, fun _ => trivial, hk⟩
      · split
        · rename_i hnone
          exact ⟨.enter k noVerdict, by
            unfold Compose.step; rw [if_neg hd]
            dsimp only
            unfold Compose.enter
            rw [hnone], hnov k, fun _ => trivial, hk⟩
        · rename_i t ht
          have hA := thinker_posA hP ht
          obtain ⟨chk, kk', hcv, hkk', hask⟩ := checkVerdicts_ok c.bot.basis csym c.size hsize.2 x1 x2 sk.1.b.positions
            (fun q hq => (hP.recd q hq).1) t.pos hA.1 sk.2 hk
          rw [hcv]
          dsimp only
          refine ⟨.enter k chk, by unfold Compose.step; rw [if_neg hd], ⟨?_, trivial⟩, fun _ => trivial, hkk'⟩
          intro t' ht' ha
          rw [ht] at ht'
          cases ht'
          have h0 := hA.2.1
          by_cases hm : t.pos.move = 0
          · exfalso
            have hp := hA.2.2 hm
            rw [hask (by rw [hp]; exact hw0)] at ha
            cases ha
          · omega

/-- **`threaded_refines_chk`** — `threaded_refines` made exact for the real check engine: every run of the threaded
system (the bot holding positions of `PosA`, the check engine in a `ChkInv` state) is a run of the oracle system on an
event list that satisfies `ChkOK` — the check engine never dies and never claims a win in one at ply 0 —, carries no
pass if the threaded events carry none, and leaves the check engine in a `ChkInv` state. -/
theorem threaded_refines_chk (c : Compose.Conf) (hsize : 3 ≤ c.size ∧ c.size ≤ 8) (S : Searcher σ χ)
    (csym : Pos → List Search.H) (p0 : Pos)
    (hw0 : Search.NoWinInOne (Search.takGame c.bot.basis Search.evalWinner csym) p0)
    (evs : List (EvK χ ChkOracle)) :
    ∀ (sk : Compose.St σ χ × Search.Eng Move), PInv (PosA c.size p0) p0 sk.1.b → ChkInv c.size sk.2 →
      ∃ evs', (runK c S (checkOK c.bot.basis csym) sk evs).1 = Compose.run c S sk.1 evs' ∧ ChkOK c S sk.1 evs' ∧
        ((∀ e ∈ evs, EvKNoPass e) → ∀ e ∈ evs', Compose.EvNoPass e) ∧
        ChkInv c.size (runK c S (checkOK c.bot.basis csym) sk evs).2 := by
  induction evs with
  | nil => intro sk _ hk; exact ⟨[], rfl, trivial, fun _ _ h => (by cases h), hk⟩
  | cons e es ih =>
    intro sk hP hk
    obtain ⟨e', he', hc', hn', hk'⟩ := stepK_chk c hsize S csym p0 hw0 sk hP hk e
    have hP' : PInv (PosA c.size p0) p0 (stepK c S (checkOK c.bot.basis csym) sk e).1.b := by
      rw [he']
      exact pinv_composed_step (fun p m q hp ha => posA_apply p m q hp ha) S hP e'
    obtain ⟨evs', h1, h2, h3, h4⟩ := ih (stepK c S (checkOK c.bot.basis csym) sk e) hP' hk'
    refine ⟨e' :: evs', ?_, ⟨hc'.1, ?_⟩, ?_, h4⟩
    · show (runK c S (checkOK c.bot.basis csym) (stepK c S (checkOK c.bot.basis csym) sk e) es).1 = _
      rw [h1, he']; rfl
    · rw [← he']; exact h2
    · intro hall x hx
      rcases List.mem_cons.mp hx with rfl | hx
      · exact hn' (hall e List.mem_cons_self)
      · exact h3 (fun y hy => hall y (List.mem_cons_of_mem _ hy)) x hx

/-- the configuration the bot asks `tak.New` for has the default piece counts -/
theorem takCfg_default (c : Compose.Conf) : ∃ b, c.takCfg = ⟨c.size, 0, 0, b⟩ := by
  unfold Compose.Conf.takCfg
  split
  · exact ⟨false, rfl⟩
  · split
    · exact ⟨_, rfl⟩
    · exact ⟨false, rfl⟩

/-- the start state: every position the bot holds is the empty board `p0`, on which no move wins at once -/
theorem pinv_startBot_posA (c : Compose.Conf) (secs : Int) (hsize : 3 ≤ c.size ∧ c.size ≤ 8)
    (csym : Pos → List Search.H) :
    ∃ p0, Search.NoWinInOne (Search.takGame c.bot.basis Search.evalWinner csym) p0 ∧
      PInv (PosA c.size p0) p0 (startBot c secs) := by
  obtain ⟨p0, hp⟩ := startBot_ok c hsize
  obtain ⟨b, hb⟩ := takCfg_default c
  have hw := Tak.noWinInOne_new c.size b hsize.1 hsize.2 p0 (by rw [← hb]; exact hp) c.bot.basis csym
  have hsz : Search.NTak c.size p0 := by
    obtain ⟨_, _, rfl⟩ := Tak.new_ok hp
    refine ⟨takCfg_size c, ?_⟩
    simp only [Array.size_replicate]
    rw [takCfg_size]
  have hmv : p0.move = 0 := by
    obtain ⟨_, _, rfl⟩ := Tak.new_ok hp
    rfl
  have hA : PosA c.size p0 p0 := ⟨hsz, by rw [hmv]; decide, fun _ => rfl⟩
  refine ⟨p0, hw, ?_⟩
  unfold startBot
  rw [hp]
  dsimp only
  refine ⟨hA, ?_, ?_, hA, fun _ => rfl, fun _ => List.mem_cons_self, fun _ => List.mem_cons_self⟩
  · intro q hq
    have hq' : q ∈ [p0] := hq
    simp only [List.mem_singleton] at hq'
    rw [hq']; exact hA
  · intro t ht; cases ht

/-- **`chkOK_threaded`** — `ChkOK` is a THEOREM of the system in which `f.check` is the alpha-beta model as
`Friendly.NewGame` configures it: from `NewGame`, for every event list, the verdicts the check engine computes are sane
and the check engine's own `Analyze` never takes an `.error` exit (the threaded run IS an oracle run). -/
theorem chkOK_threaded (c : Compose.Conf) (hsize : 3 ≤ c.size ∧ c.size ≤ 8) (S : Searcher σ χ)
    (csym : Pos → List Search.H) (secs : Int) (eng0 : σ) (evs : List (EvK χ ChkOracle)) :
    ∃ evs', (runK c S (checkOK c.bot.basis csym) (startK c secs eng0 (checkNew c.bot.basis csym)) evs).1 =
        Compose.run c S (Compose.start c secs eng0) evs' ∧
      ChkOK c S (Compose.start c secs eng0) evs' ∧
      ((∀ e ∈ evs, EvKNoPass e) → ∀ e ∈ evs', Compose.EvNoPass e) := by
  obtain ⟨p0, hw0, hP⟩ := pinv_startBot_posA c secs hsize csym
  obtain ⟨evs', h1, h2, h3, _⟩ := threaded_refines_chk c hsize S csym p0 hw0 evs
    (startK c secs eng0 (checkNew c.bot.basis csym)) hP (chkInv_new c.bot.basis csym c.size)
  exact ⟨evs', h1, h2, h3⟩

/-- **`bot_never_dead_minimax_final`** — the bot end to end with BOTH engines the alpha-beta model: `PlayGame` /
`ObserveGame` with the real `Friendly` (any rule or none) or `Taktician`, `f.ai` = `NewMinimax(scfg)` (any evaluator,
symmetry-hash function, every option combination, no table or ≥ 1 entries, `Depth ≤ 15`), `f.check` =
`NewMinimax{Depth: 3, TableMem: -1, Evaluate: EvaluateWinner}` asked by `waitUndo`; the tree as it is now (guard, record
notes, declining scripts); any colour, size 3..8, clock and EVERY event list (server lines incl. undo and replayed
history, grace timer, thinkers entering and leaving `GetMove` in any order the lock allows, every cancel / sort / random
oracle of every call of either engine) in which no server line parses to the pass: **no thinker goroutine is ever
lost** — neither to the rule, nor to `waitUndo`'s `Positions[len-2]`, nor to a panic inside either engine.  No
hypothesis about reachable states is left. -/
theorem bot_never_dead_minimax_final (c : Compose.Conf) (hguard : c.guard = true) (hrep : c.replay = true)
    (hdec : c.decline = true) (hfix : c.bot.fixed = true) (hsize : 3 ≤ c.size ∧ c.size ≤ 8)
    (ev : Pos → Int) (sym csym : Pos → List Search.H) (scfg : Search.Cfg)
    (hdepth : scfg.depth ≤ 15) (htbl : scfg.tableEntries ≠ some 0) (secs : Int)
    (evs : List (EvK { o : Search.Oracle Move // Search.OrderOK o } ChkOracle))
    (hev : ∀ e ∈ evs, EvKNoPass e) :
    (runK c (minimaxOK c.bot.basis ev sym scfg) (checkOK c.bot.basis csym)
      (startK c secs (Search.Eng.new (Search.takGame c.bot.basis ev sym) scfg) (checkNew c.bot.basis csym)) evs).1.dead
      = none := by
  obtain ⟨evs', h1, h2, h3⟩ := chkOK_threaded c hsize (minimaxOK c.bot.basis ev sym scfg) csym secs
    (Search.Eng.new (Search.takGame c.bot.basis ev sym) scfg) evs
  rw [h1]
  exact bot_never_dead_minimax_events c hguard hrep hdec hfix hsize ev sym scfg hdepth htbl secs evs' h2 (h3 hev)

/-! ## "no server line parses to the pass" is a theorem of `playtak.ParseServer`'s model (C11) -/

theorem slideDir_not_pass {sx sy ex ey : Int} {ty : Nat} (h : Tak.Server.slideDir sx sy ex ey = .ok ty) :
    ty ≠ Facts.mtPass := by
  unfold Tak.Server.slideDir at h
  repeat' split at h
  all_goals (cases h <;> try decide)

/-- **`parseServer_not_pass`** — whatever bytes the server sends: a move `ParseServer` answers is a placement or a slide,
never the pass (type code 0 is never written by it) -/
theorem parseServer_not_pass (line : Go.Bytes) (m : Move) (h : Tak.Server.parseServer line = .ok m) :
    m.type ≠ Facts.mtPass := by
  unfold Tak.Server.parseServer at h
  dsimp only at h
  split at h
  · cases h
  · split at h
    · -- "P"
      unfold Tak.Server.parsePlace at h
      repeat' split at h
      all_goals (cases h <;> try (dsimp only; decide))
    · split at h
      · -- "M"
        unfold Tak.Server.parseSlide at h
        repeat' split at h
        all_goals first | cases h | skip
        dsimp only
        exact slideDir_not_pass (by assumption)
      · cases h

/-- the move a `deliver` event carries is what `ParseServer` answers for some line -/
def EvKParsed {χ ξ : Type} : EvK χ ξ → Prop
  | .deliver _ (some m) => ∃ line, Tak.Server.parseServer line = .ok m
  | _ => True

theorem evKNoPass_of_parsed {χ ξ : Type} (e : EvK χ ξ) (h : EvKParsed e) : EvKNoPass e := by
  cases e with
  | deliver bits parsed =>
    cases parsed with
    | none => trivial
    | some m =>
      obtain ⟨line, hl⟩ := h
      exact parseServer_not_pass line m hl
  | _ => trivial

/-- **`bot_never_dead_minimax_parsed`** — `bot_never_dead_minimax_final` with the last event hypothesis replaced by what
the loop does: the move of every `deliver` event is what the model of `playtak.ParseServer` (C11) answers for a line.
Only configuration hypotheses are left. -/
theorem bot_never_dead_minimax_parsed (c : Compose.Conf) (hguard : c.guard = true) (hrep : c.replay = true)
    (hdec : c.decline = true) (hfix : c.bot.fixed = true) (hsize : 3 ≤ c.size ∧ c.size ≤ 8)
    (ev : Pos → Int) (sym csym : Pos → List Search.H) (scfg : Search.Cfg)
    (hdepth : scfg.depth ≤ 15) (htbl : scfg.tableEntries ≠ some 0) (secs : Int)
    (evs : List (EvK { o : Search.Oracle Move // Search.OrderOK o } ChkOracle))
    (hev : ∀ e ∈ evs, EvKParsed e) :
    (runK c (minimaxOK c.bot.basis ev sym scfg) (checkOK c.bot.basis csym)
      (startK c secs (Search.Eng.new (Search.takGame c.bot.basis ev sym) scfg) (checkNew c.bot.basis csym)) evs).1.dead
      = none :=
  bot_never_dead_minimax_final c hguard hrep hdec hfix hsize ev sym csym scfg hdepth htbl secs evs
    (fun e he => evKNoPass_of_parsed e (hev e he))

/-! ## non-vacuity: a concrete run with both engines real -/

instance {χ ξ : Type} (e : EvK χ ξ) : Decidable (EvKNoPass e) :=
  match e with
  | .deliver _ (some m) => inferInstanceAs (Decidable (m.type ≠ Facts.mtPass))
  | .deliver _ none => isTrue trivial
  | .close => isTrue trivial
  | .timerFires => isTrue trivial
  | .enter _ _ _ => isTrue trivial
  | .leave _ _ => isTrue trivial

namespace Ex4
/-- the oracles of a call that is never cancelled and whose `sort.Sort` leaves the order alone -/
def q : ChkOracle := ⟨Search.Oracle.quiet, fun _ _ _ => Iff.rfl⟩
/-- bot White, `Friendly` without a rule, 3×3, the fixes applied -/
def c3 : Compose.Conf := Ex.conf .white 3 (.friendly none) true
/-- the bot's thinker 0 is started on the EMPTY board (ply 0) and asks `f.check` (`waitUndo`); it answers `a1`; Black
plays `c3` (thinker 1, started off turn, has returned the zero move), the clock line starts thinker 2, which asks `f.check` about the ply-2 position -/
def evs : List (EvK Move ChkOracle) :=
  [.enter 0 q q, .leave 0 (place 0 0), .enter 1 q q, .leave 1 Bot.zeroMove,
   .deliver ["Game#100", "P", "C3"] (some (place 2 2)), .deliver ["Game#100", "Time", "590", "590"] none, .enter 2 q q]
def run : Compose.St Unit Move × Search.Eng Move :=
  runK c3 stubSearcher (checkOK Ex.zb (fun _ => [])) (startK c3 600 () (checkNew Ex.zb (fun _ => []))) evs
end Ex4

/-- the ply-0 call of the run reaches `waitUndo` (so `ChkOK` is about something), the real check engine reports value 0
at depth 3 there — no win in one claimed —, both calls are let in, nobody dies, and no event carries the pass: the
hypotheses of `chkOK_threaded` / `bot_never_dead_minimax_final` are met by a run in which the discharged hypothesis
matters -/
example :
    reachesCheck Ex4.c3 (Compose.start Ex4.c3 600 () : Compose.St Unit Move) 0 = true ∧
    Ex4.run.1.dead = none ∧
    Ex4.run.1.calls.map (fun call => (call.pos.move, call.chk.curV, call.chk.curDepth, asksPrev call.chk)) =
      [(0, 0, 3, false), (1, 0, 3, false), (2, 0, 3, false)] ∧
    (∀ e ∈ Ex4.evs, EvKNoPass e) ∧ (3 ≤ Ex4.c3.size ∧ Ex4.c3.size ≤ 8) := by
  decide +kernel

/-- `checkOK_analyze` on the empty 3×3 board, new check engine: value 0 at `Stats.Depth` 3 -/
example :
    (match Pos.new ⟨3, 0, 0, false⟩ with
     | .ok p0 => ((checkOK Ex.zb (fun _ => [])).analyze Ex4.q p0 (checkNew Ex.zb (fun _ => []))).toOption.map (·.1)
     | .error _ => none) = some (0, 3) := by
  decide +kernel

/-- `parseServer_not_pass`: "P A1" and "M A1 A2 1" parse to a placement and a slide -/
example :
    (Tak.Server.parseServer [80, 32, 65, 49]).toOption.map (·.type) = some Facts.mtPlaceFlat ∧
    (Tak.Server.parseServer [77, 32, 65, 49, 32, 65, 50, 32, 49]).toOption.map (·.type) = some Facts.mtSlideUp := by
  decide +kernel

/-! ## towards `checkerSpec_minimax_statement`: the win-in-one verdict of the real check engine is SOUND -/

/-- `EvaluateWinner` at or below `-WinThreshold`: the game is over and the side that just moved has won -/
theorem evalWinner_lost {basis : Array W} {p c : Pos} {m : Move} (hap : p.apply basis m = .ok c)
    (h : Facts.winThreshold ≤ -(Search.evalWinner c)) : c.gameOver = (true, p.toMove) := by
  have hmv := Tak.apply_move' basis p c m hap
  unfold Search.evalWinner at h
  cases hg : c.gameOver with
  | mk over w =>
    rw [hg] at h
    dsimp only at h
    cases over with
    | false =>
      simp only [Bool.false_eq_true, if_false] at h
      exact absurd h (by decide)
    | true =>
      simp only [if_true] at h
      by_cases hn : (w == Color.none) = true
      · rw [if_pos hn] at h; exact absurd h (by decide)
      · rw [if_neg hn] at h
        by_cases hm : (w == c.toMove) = true
        · rw [if_pos hm] at h; exact absurd h (by decide)
        · have h1 : w ≠ .none := by simpa using hn
          have h2 : w ≠ c.toMove := by simpa using hm
          have : w = p.toMove := by
            unfold Pos.toMove at h2 ⊢
            rw [hmv] at h2
            by_cases hpar : p.move % 2 = 0
            · have h3 : (p.move + 1) % 2 ≠ 0 := by omega
              simp only [beq_iff_eq, hpar, h3, if_true, if_false] at h2 ⊢
              cases w <;> simp_all
            · have h3 : (p.move + 1) % 2 = 0 := by omega
              simp only [beq_iff_eq, hpar, h3, if_true, if_false] at h2 ⊢
              cases w <;> simp_all
          rw [this]

/-- **`check_winInOne_sound`** — the `→` half of `CheckerSpec.winInOne` for the REAL `f.check` (not `Precise`), at the
level of `Position.Move` / `GameOver`: when the check engine (no table; any oracle, any stale buffers) reports
`v ≥ WinThreshold` at `Stats.Depth ≤ 1` — the verdict on which `waitUndo` arms `undoTimeout` —, there IS a move after
which the game is over and won by the side to move.  (Missing for `checkerSpec_minimax_statement`: the converse —
coverage of every child by a depth-1 root, which needs `NoCancel` and `OrderOK` —, the translation of "a move `Move`
accepts" into a rule-book step for hint moves outside `AllMoves`, and the `lost` clause at depth ≤ 3 with the slide
reduction on.) -/
theorem check_winInOne_sound (basis : Array W) (sym : Pos → List Search.H) (x : ChkOracle) (p : Pos)
    (k : Search.Eng Move) (hk : k.hasTable = false) (v d : Int) (k' : Search.Eng Move)
    (h : (checkOK basis sym).analyze x p k = .ok ((v, d), k')) (hc : v ≥ Facts.winThreshold ∧ d ≤ 1) :
    ∃ m c, p.apply basis m = .ok c ∧ c.gameOver = (true, p.toMove) := by
  apply Classical.byContradiction
  intro hne
  have hnw : Search.NoWinInOne (Search.takGame basis Search.evalWinner sym) p := by
    intro m c hap
    apply Classical.byContradiction
    intro hge
    have hap' : p.apply basis m = .ok c := hap
    exact hne ⟨m, c, hap', evalWinner_lost hap' (by
      have : ¬ (-(Search.evalWinner c) < Facts.winThreshold) := hge
      omega)⟩
  have h' : (match Search.analyze (Search.takGame basis Search.evalWinner sym) checkCfg x.1 p k with
    | .ok ((_, v, st), s') => Except.ok ((v, st.depth), s')
    | .error e => Except.error e) = .ok ((v, d), k') := h
  cases hr : Search.analyze (Search.takGame basis Search.evalWinner sym) checkCfg x.1 p k with
  | error e => rw [hr] at h'; cases h'
  | ok r =>
    obtain ⟨⟨pv, v0, st⟩, s'⟩ := r
    rw [hr] at h'
    cases h'
    exact (Search.analyze_noTable (o := x.1) checkCfg p k hk _ hr).2 hnw hc

/-- non-vacuity of `check_winInOne_sound`: in the 3×3 position of `C05.ExTak` (White wins by a3) the new check engine
reports `WinBase` at depth 1 -/
example :
    ((checkOK C05.ExTak.basis (fun _ => [])).analyze Ex4.q C05.ExTak.mid (checkNew C05.ExTak.basis (fun _ => []))).toOption.map
      (·.1) = some (Facts.winBase, 1) ∧ Facts.winBase ≥ Facts.winThreshold := by
  decide +kernel

end C07
