import TakVerif.Proofs.TEI

/-! # C13 (TEI part) — the TEI command stream is a total entry point

`Tak.TEI.run` models `tei.Engine.Run` with `fixes/C13-tei-position-before-newgame.diff` and
`fixes/C13-tei-go-finished-game.diff` applied.  It terminates by construction (structural recursion
over the commands; every loop of the Go code is over the words of one line). -/
set_option linter.unusedVariables false
namespace C13
open Tak Tak.TEI Spec.TEI Proofs.TEI

/-- **No command stream makes the engine panic.**  For every environment whose collaborators are total
(the PTN-move and TPS parsers return a value or an error — the other parts of C13; applying a move to a
reachable position returns a position of the same size or an error — C01/C02) and **every** list of
command lines, `Run` ends by end of input, `quit`, or a returned error: never by a panic.  Covers
commands out of order (`position`/`go` before `teinewgame`), `go` without or on a finished position,
bad sizes, unknown commands and arbitrary words; the searcher may answer anything (also an empty PV). -/
theorem tei_total (env : Env) (hC : Collaborators env) (cmds : List (List String)) (s : String) :
    (run env cmds).2 ≠ .panic s :=
  runFrom_total env hC cmds 0 {} (inv_init env) s

/-- the same for raw (ASCII) input: any character stream, tokenised as `Run` does -/
theorem tei_total_stream (env : Env) (hC : Collaborators env) (stream : List Char) (s : String) :
    (run env (tokenize stream)).2 ≠ .panic s :=
  tei_total env hC (tokenize stream) s

/-- every state a stream can reach keeps the engine consistent: a remembered position has the
configured size (3..8) and a cached searcher was built for that size — so `Analyze` is never called
with a searcher of another size -/
theorem tei_state_consistent (env : Env) (hC : Collaborators env) (pre : List (List String)) (st : Engine)
    (h : stateAfter env 0 {} pre = some st) : Inv env st :=
  stateAfter_inv env hC pre 0 {} st (inv_init env) h

def exEnv : Env :=
  { basis := Array.replicate 64 0#64
    parseMove := fun s => if s = "a1" then .ok ⟨0, 0, Facts.mtPlaceFlat, 0⟩ else .error (.illegal "x")
    parseTPS := fun _ => .error (.illegal "x")
    fmtMove := fun m => s!"{m.x},{m.y}"
    search := fun _ _ _ => { depth := 0, elapsedMs := 0, nodes := 0, val := 0, pv := [] } }

/-- the malformed streams of the corpus, on the model -/
example : (run C13.exEnv [["position", "startpos"]]).2 = .error := by decide +kernel
example : (run C13.exEnv [["go"], ["isready"]]).2 = .eof := by decide +kernel
example : (run C13.exEnv [["teinewgame", "9"]]).2 = .error := by decide +kernel
example : (run C13.exEnv (tokenize "teinewgame 3\nposition startpos moves a1 a1\n".toList)).2 = .error := by decide +kernel

end C13
