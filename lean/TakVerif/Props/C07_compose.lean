import TakVerif.Proofs.BotComposeInv
import TakVerif.Proofs.BotComposeEng
import TakVerif.Props.C07_pv
import TakVerif.Props.C20_glue
import TakVerif.Proofs.FPATotal

/-! # C07 composed: the bot loop with the REAL `Friendly` / `Taktician` as thinker and ONE engine per game

`C07.bot_inv` holds for an arbitrary thinker (`aiReturns k m` with any `m`); `C20_glue` models the two real `Bot`
implementations call by call; `C07_pv` / `C20_pv` assume the engine state is `EngOK`.  Here they are one transition
system (`Tak.Compose`, `Impl/BotCompose.lean`): the thinker of the loop IS `Friendly.GetMove` / `Taktician.GetMove`
reading the record the loop maintains at the moment it gets `moveLock`, with the FPA rule's notes and the engine
object threaded through the whole game.

* `compose_refines` – every composed run is a run of the bot loop: all of `Props/C07.lean` applies.
* `bot_inv_composed` – for every event list: C07's invariant, **and** every transmitted move is the return value of a
  recorded `GetMove` call made for exactly the position it was transmitted in — the rule's scripted move or the
  searching player's answer for that position from the engine state of that moment — **and** the commands sent from
  inside `GetMove` are exactly one `Resign` + `Tell` per call whose rule check failed, **and** the engine state
  satisfies any invariant the searching player keeps.
* `bot_inv_friendly`, `bot_inv_taktician` – the two instances with the alpha-beta model as searching player: the
  invariant is `EngOK … FromGen … SizeOK` (the hypothesis of `C07_pv`, `C20_pv`, `C17_pv`), from `NewMinimax` on.
* `lock_faithful` – at most one thinker is inside `GetMove` (so threading rule notes and engine is faithful).
* `current_thinker_total` – a call by the thinker of the current invocation never reads the record out of range.
* `Ex.staleEvs`, `Ex.overEvs` – schedules of the stale-thinker defect (tree before `fixes/C07-stale-thinker.diff`).
* `Ex.cairnEvs`, `Ex.dsEvs`, `Ex.dsPanicEvs` – the three FPA histories; the theorems about them (patched code and the tree
  before `fixes/C07-fpa-record-notes.diff`) are in `Props/C07_fpa.lean`. -/
namespace C07
open Tak Tak.Bot Tak.Glue Tak.FPA Tak.Compose Spec.FPA

variable {σ χ : Type}

/-! ## the start -/

theorem takCfg_size (c : Compose.Conf) : c.takCfg.size = c.size := by
  unfold Compose.Conf.takCfg
  split
  · rfl
  · split <;> rfl

theorem startBot_ok (c : Compose.Conf) (hsize : 3 ≤ c.size ∧ c.size ≤ 8) : ∃ p0, Pos.new c.takCfg = .ok p0 := by
  have h3 : 3 ≤ c.takCfg.size := by rw [takCfg_size]; exact hsize.1
  have h8 : c.takCfg.size ≤ 8 := by rw [takCfg_size]; exact hsize.2
  unfold Pos.new
  have hl : Facts.defaultPieces.length = 9 := by decide
  rw [if_neg (by rw [hl]; omega)]
  extract_lets pieces caps
  rw [if_neg (by omega)]
  exact ⟨_, rfl⟩

theorem sinv_startBot (c : Compose.Conf) (secs : Int) : SInv c.bot (startBot c secs) := by
  unfold startBot
  split
  · refine sinv_of_core_not_running ⟨⟨fun hn => absurd ⟨_, rfl⟩ hn, ?_, ?_⟩, fun hn => absurd ⟨_, rfl⟩ hn⟩ (by simp) (fun h => absurd rfl h)
    · intro r hr; cases hr
    · rfl
  · refine sinv_spawn ⟨⟨?_, ?_, ?_⟩, ?_⟩
    · intro _; simp [RecordTracks]
    · intro r hr; cases hr
    · rfl
    · intro _; rfl

theorem pinv_startBot (c : Compose.Conf) (secs : Int) (hsize : 3 ≤ c.size ∧ c.size ≤ 8) :
    ∃ p0, p0.move = 0 ∧ PInv (fun p => p.cfg.size = c.size) p0 (startBot c secs) := by
  obtain ⟨p0, hp⟩ := startBot_ok c hsize
  have hsz : p0.cfg.size = c.size := by
    obtain ⟨_, _, rfl⟩ := Tak.new_ok hp
    exact takCfg_size c
  have hmv : p0.move = 0 := by
    obtain ⟨_, _, rfl⟩ := Tak.new_ok hp
    rfl
  refine ⟨p0, hmv, ?_⟩
  unfold startBot
  rw [hp]
  dsimp only
  refine ⟨hsz, ?_, ?_, hsz, fun _ => rfl, fun _ => List.mem_cons_self, fun _ => List.mem_cons_self⟩
  · intro q hq
    have hq' : q ∈ [p0] := hq
    simp only [List.mem_singleton] at hq'
    rw [hq']; exact hsz
  · intro t ht; cases ht


theorem cinv_start (c : Compose.Conf) (S : Searcher σ χ) (G : σ → Prop) (secs : Int) (eng0 : σ) (h0 : G eng0) :
    CInv c S G (Compose.start c secs eng0 : Compose.St σ χ) := by
  refine ⟨(fun _ h => by cases h), (fun _ h => by cases h), (fun _ h => by cases h), ?_, rfl, h0, (fun _ h => by cases h)⟩
  intro r hr
  have hl : (startBot c secs).log = [] := by
    unfold startBot
    split <;> rfl
  have hr' : r ∈ (startBot c secs).log := hr
  rw [hl] at hr'
  cases hr'

/-! ## refinement -/

/-- **The composed system refines the bot loop**: the loop part (`playtak/bot/bot.go`'s state) of every composed run
is a run of `Tak.Bot` from the same start on some list of loop events (`grant` / `aiReturns` carrying what the real
`GetMove` returned).  So everything proved about ALL runs of `Tak.Bot` holds of the composed system. -/
theorem compose_refines (c : Compose.Conf) (S : Searcher σ χ) (secs : Int) (eng0 : σ) (evs : List (Compose.Ev χ)) :
    ∃ bevs : List Bot.Ev, (Compose.run c S (Compose.start c secs eng0) evs).b = Bot.run c.bot (startBot c secs) bevs :=
  run_b c S _ evs

/-- with a `Bot` that is no `Configger` (Taktician) the composed start is the start of `Props/C07.lean` -/
theorem startBot_eq_start (c : Compose.Conf) (tc : TakticianCfg) (hw : c.who = .taktician tc) (secs : Int) :
    startBot c secs = Bot.start c.bot c.size secs := by
  have hc : c.takCfg = { size := c.size, pieces := 0, capstones := 0, blackWinsTies := false } := by
    unfold Compose.Conf.takCfg
    rw [hw]
    split <;> rfl
  unfold startBot Bot.start
  rw [hc]
  cases Pos.new { size := c.size, pieces := 0, capstones := 0, blackWinsTies := false } <;> rfl

/-- C07's invariant, the lock and the board size in the composed system -/
theorem composed_loop_facts (c : Compose.Conf) (hfix : c.bot.fixed = true) (hsize : 3 ≤ c.size ∧ c.size ≤ 8)
    (S : Searcher σ χ) (secs : Int) (eng0 : σ) (evs : List (Compose.Ev χ)) :
    SInv c.bot (Compose.run c S (Compose.start c secs eng0) evs).b ∧
    holders (Compose.run c S (Compose.start c secs eng0) evs).b ≤ 1 ∧
    SizeInv c.size (Compose.run c S (Compose.start c secs eng0) evs).b := by
  obtain ⟨bevs, hb⟩ := compose_refines c S secs eng0 evs
  rw [hb]
  refine ⟨sinv_run hfix (sinv_startBot c secs) bevs, holders_run c.bot _ bevs ?_, sizeInv_run c.bot ?_ bevs⟩
  · unfold startBot
    split
    · exact Nat.le_trans (Nat.le_of_eq (holders_congr (s := default) rfl rfl)) (by decide)
    · rw [holders_spawn]; simp [nRunning]
  · obtain ⟨p0, _, hP⟩ := pinv_startBot c secs hsize
    refine ⟨hP.p, hP.recd, ?_⟩
    intro r hr
    have hl : (startBot c secs).log = [] := by
      unfold startBot
      split <;> rfl
    rw [hl] at hr
    cases hr


/-! ## the composed invariant -/

/-- **where a transmitted move comes from**: it is the return value of a recorded `GetMove` call (`r.call`, in
`s.calls`: the real `GetMove` computed this branch from the record, rule notes and verdicts the call read —
`CallOK`) made for exactly the position `rec.recAt` the move was transmitted in, and that call either took the rule's
scripted move or asked the searching player, whose answer for `rec.recAt` — from the engine state `r.eng` the
previous calls of this game left, which satisfies the searcher's invariant `G` — is the move. -/
def SentBy (c : Compose.Conf) (S : Searcher σ χ) (G : σ → Prop) (s : Compose.St σ χ) (rec : SentRec) : Prop :=
  ∃ r ∈ s.rets, r.move = rec.move ∧ r.call.pos = rec.recAt ∧ r.call ∈ s.calls ∧ CallOK c r.call ∧ G r.eng ∧
    (r.call.act = .move rec.move ∨
     ∃ lim fl x eng', r.call.act = .think lim fl ∧ r.x = some x ∧ S.run x rec.recAt r.eng = .ok (rec.move, eng'))

theorem zero_rejected (basis : Array W) (n : Nat) (hn : 3 ≤ n ∧ n ≤ 8) (p q : Pos) (hp : p.cfg.size = n) :
    p.apply basis Bot.zeroMove ≠ .ok q :=
  C04.zero_not_accepted basis p q (by rw [hp]; exact hn.1) (by rw [hp]; exact hn.2)

/-- **`bot_inv_composed`** — for every `Bot` implementation of the model (`Friendly` with or without an FPA rule,
`Taktician`), every searching player `S` with an invariant `G` of its state that each call on a `size`×`size` position
keeps, every colour, clock and EVERY event list (server lines incl. undo and replayed history, grace timer, thinkers
entering `GetMove` in any order the lock allows and returning at once, late or after cancellation):
1. C07's invariant (`Inv`: record = server history; every transmitted move legal, on turn, fresh);
2. every transmitted move is `SentBy` a recorded call for exactly the position it was sent in: the scripted move or the
   searching player's answer for that position;
3. every recorded call is what the real `GetMove` computes from what it read (`CallOK`);
4. the commands sent from inside `GetMove` are, in order, `Resign` + `Tell msg` for exactly the calls that took the
   `resign` branch — nothing else is ever sent from there;
5. the engine state satisfies `G` (callers need not assume it). -/
theorem bot_inv_composed (c : Compose.Conf) (hfix : c.bot.fixed = true) (hsize : 3 ≤ c.size ∧ c.size ≤ 8)
    (S : Searcher σ χ) (G : σ → Prop)
    (hS : ∀ x p e m e', p.cfg.size = c.size → G e → S.run x p e = .ok (m, e') → G e')
    (secs : Int) (eng0 : σ) (h0 : G eng0) (evs : List (Compose.Ev χ)) :
    Inv c.bot (Compose.run c S (Compose.start c secs eng0) evs).b ∧
    (∀ rec ∈ (Compose.run c S (Compose.start c secs eng0) evs).b.log,
      SentBy c S G (Compose.run c S (Compose.start c secs eng0) evs) rec) ∧
    (∀ call ∈ (Compose.run c S (Compose.start c secs eng0) evs).calls, CallOK c call) ∧
    glueWire (Compose.run c S (Compose.start c secs eng0) evs).wire =
      (Compose.run c S (Compose.start c secs eng0) evs).calls.flatMap (fun call => resignWire call.act) ∧
    G (Compose.run c S (Compose.start c secs eng0) evs).eng := by
  obtain ⟨hs, _, hsz⟩ := composed_loop_facts c hfix hsize S secs eng0 evs
  obtain ⟨p0, _, hP⟩ := pinv_startBot c secs hsize
  have hA : ∀ (p : Pos) (m : Move) (q : Pos), p.cfg.size = c.size → p.apply c.bot.basis m = .ok q → q.cfg.size = c.size :=
    fun p m q hp ha => by rw [apply_cfg ha]; exact hp
  have hz : ∀ (p q : Pos), p.cfg.size = c.size → p.apply c.bot.basis Bot.zeroMove ≠ .ok q :=
    fun p q hp => zero_rejected c.bot.basis c.size hsize p q hp
  obtain ⟨hC, _⟩ := cinv_run (A := fun p => p.cfg.size = c.size) hA hS hz _ hP (cinv_start c S G secs eng0 h0) evs
  refine ⟨hs.core.inv, ?_, hC.calls, hC.glue, hC.eng⟩
  intro rec hrec
  obtain ⟨r, hr, hmv, htag⟩ := hC.log rec hrec
  obtain ⟨hcall, hret⟩ := hC.rets r hr
  have hgood := hs.core.inv.sends rec hrec
  have hpos : r.call.pos = rec.recAt := by rw [htag]; exact hgood.fresh
  refine ⟨r, hr, hmv, hpos, hcall, hC.calls _ hcall, hC.retsG r hr, ?_⟩
  have hzero : r.move ≠ Bot.zeroMove := by
    intro h0
    obtain ⟨q, hq⟩ := hgood.legal
    rw [← hmv, h0] at hq
    exact hz rec.recAt q (hsz.2.2 rec hrec) hq
  unfold RetOK at hret
  split at hret
  · rename_i lim fl hact
    obtain ⟨x, eng', hx, hrun⟩ := hret
    exact .inr ⟨lim, fl, x, eng', hact, hx, by rw [← hpos, ← hmv]; exact hrun⟩
  · rename_i m hact
    exact .inl (by rw [hact, ← hmv, hret.1])
  · exact absurd hret.1 hzero
  · exact absurd hret.1 hzero


/-! ## the two real bots with the alpha-beta model as searching player -/

open Search in
/-- `ai.NewMinimax(cfg)` as the searching player; per call the model needs an oracle (cancellation as observed by
the search, `sort.Sort`, `math/rand`) whose `sort.Sort` permutes -/
def minimaxOK (basis : Array W) (ev : Pos → Int) (sym : Pos → List Search.H) (scfg : Search.Cfg) :
    Searcher (Search.Eng Move) { o : Search.Oracle Move // Search.OrderOK o } :=
  { run := fun o p s => Search.getMove (Search.takGame basis ev sym) scfg o.1 p s }

/-- **the engine-state invariant** `C07_pv` / `C20_pv` / `C17_pv` assume of the engine they are given: every hint the
engine holds (table entries, response map, PV buffers) is the zero move or a move `AllMoves` generated for a position of
a board of size 3..8 -/
def EngInv (basis : Array W) (ev : Pos → Int) (sym : Pos → List Search.H) (s : Search.Eng Move) : Prop :=
  Search.EngOK (Search.takGame basis ev sym) (C04.FromGen (Search.takGame basis ev sym) C04.SizeOK) (fun _ => False) s

/-- what `NewGame` builds satisfies it … -/
theorem engInv_new (basis : Array W) (ev : Pos → Int) (sym : Pos → List Search.H) (scfg : Search.Cfg) :
    EngInv basis ev sym (Search.Eng.new (Search.takGame basis ev sym) scfg) :=
  C04.engOK_new_fromGen _ _ _ scfg

/-- … and every `GetMove` on a `n`×`n` position keeps it: any options, any table size, any cancellation, any random
stream, whatever the position (finished or not) and the evaluator -/
theorem minimax_keeps_engInv (basis : Array W) (ev : Pos → Int) (sym : Pos → List Search.H) (scfg : Search.Cfg)
    (n : Nat) (hn : 3 ≤ n ∧ n ≤ 8) :
    ∀ x p e m e', p.cfg.size = n → EngInv basis ev sym e → (minimaxOK basis ev sym scfg).run x p e = .ok (m, e') →
      EngInv basis ev sym e' := by
  intro x p e m e' hp he hrun
  have hP := C04.prov_noTable (C04.sizeOK_closed basis ev sym) (C04.OrderOK.sub x.2)
  exact (Search.getMove_engOK hP scfg p ⟨by rw [hp]; exact hn.1, by rw [hp]; exact hn.2⟩ (Or.inl rfl) e he (m, e') hrun).1

theorem callOK_friendly {c : Compose.Conf} {var : Option Variant} (hw : c.who = .friendly var) (hrep : c.replay = true)
    {call : Call} (h : CallOK c call) :
    Compose.friendlyOf c call.fpa { color := c.bot.color, size := c.size, positions := call.positions, moves := call.moves }
      call.pos call.chk = .ok (call.fpa', call.act) := by
  unfold CallOK glueOn at h
  rw [hw] at h
  simpa only [hrep, if_true] using h

theorem callOK_taktician {c : Compose.Conf} {tc : TakticianCfg} (hw : c.who = .taktician tc) {call : Call}
    (h : CallOK c call) : call.act = takticianGetMove tc c.bot.color c.size call.pos call.mine := by
  unfold CallOK glueOn at h
  rw [hw] at h
  injection h with h
  exact (Prod.mk.inj h).2.symm

/-- `C20.friendly_resigns_iff_rule_rejects` for the call of either tree (`Compose.friendlyOf`: the scripts decline or
panic; a resignation is decided before the script is asked) -/
theorem friendlyOf_resigns_iff (c : Compose.Conf) (fpa f' : Option (Variant × Rule)) (g : GameRec) (p : Pos)
    (o : CheckOracle) (a : Action) (h : Compose.friendlyOf c fpa g p o = .ok (f', a)) :
    (∃ msg, a = .resign msg) ↔ ∃ var r r', fpa = some (var, r) ∧ prevCheck var r g p = .ok (r', false) := by
  rcases Compose.friendlyOf_ok_cases c h with h1 | ⟨_, e, lim, fl, _, ha, hc, _, _⟩
  · exact C20.friendly_resigns_iff_rule_rejects fpa f' g p o a h1
  · subst ha
    constructor
    · rintro ⟨msg, hm⟩; cases hm
    · rintro ⟨var, r, r', hf, hr⟩
      subst hf
      rw [fpaCheck_some, hr] at hc
      simp only at hc
      split at hc
      · cases hc
      · split at hc <;> cases hc

/-- **`bot_inv_friendly`** — `PlayGame` / `ObserveGame` with the real `Friendly` (any FPA variant or none) as `Bot` and
the alpha-beta model, created once by `NewGame`, as its searching player.  For every colour, board size 3..8, clock,
engine configuration, evaluator and EVERY event list:
1. C07's invariant;
2. the engine state is `EngInv` after every event — from `NewMinimax` through every call the bot makes;
3. every transmitted move was returned by a `Friendly.GetMove` call for exactly the position it was transmitted in,
   which read the record `call.positions` / `call.moves` and the rule notes `call.fpa`, and is **the rule's scripted
   move** (`.move`) **or the engine's answer for exactly that position** (`Search.getMove … rec.recAt eng`) from an
   `EngInv` state;
4. a call resigns **iff** an FPA rule is installed and its check — with the notes rebuilt from the record the call read
   (`fixes/C07-fpa-record-notes.diff`, `c.replay`) — rejects the newest pair of that record;
5. what is sent from inside `GetMove` is exactly `Resign` + `Tell` for those calls, in order. -/
theorem bot_inv_friendly (c : Compose.Conf) (var : Option Variant) (hw : c.who = .friendly var) (hrep : c.replay = true)
    (hfix : c.bot.fixed = true) (hsize : 3 ≤ c.size ∧ c.size ≤ 8)
    (ev : Pos → Int) (sym : Pos → List Search.H) (scfg : Search.Cfg) (secs : Int)
    (evs : List (Compose.Ev { o : Search.Oracle Move // Search.OrderOK o })) :
    let g := Search.takGame c.bot.basis ev sym
    let s := Compose.run c (minimaxOK c.bot.basis ev sym scfg) (Compose.start c secs (Search.Eng.new g scfg)) evs
    Inv c.bot s.b ∧ EngInv c.bot.basis ev sym s.eng ∧
    (∀ rec ∈ s.b.log, ∃ call ∈ s.calls, call.pos = rec.recAt ∧
      ∃ a, Compose.friendlyOf c call.fpa { color := c.bot.color, size := c.size, positions := call.positions, moves := call.moves }
            rec.recAt call.chk = .ok (call.fpa', a) ∧
        (a = .move rec.move ∨
         ∃ lim fl o eng eng', a = .think lim fl ∧ EngInv c.bot.basis ev sym eng ∧ Search.OrderOK o ∧
           Search.getMove g scfg o rec.recAt eng = .ok (rec.move, eng'))) ∧
    (∀ call ∈ s.calls, ((∃ msg, call.act = .resign msg) ↔
      ∃ v r r', call.fpa = some (v, r) ∧
        prevCheck v r { color := c.bot.color, size := c.size, positions := call.positions, moves := call.moves } call.pos = .ok (r', false))) ∧
    glueWire s.wire = s.calls.flatMap (fun call => resignWire call.act) := by
  intro g s
  obtain ⟨h1, h2, h3, h4, h5⟩ := bot_inv_composed c hfix hsize (minimaxOK c.bot.basis ev sym scfg) (EngInv c.bot.basis ev sym)
    (minimax_keeps_engInv c.bot.basis ev sym scfg c.size hsize) secs _ (engInv_new c.bot.basis ev sym scfg) evs
  refine ⟨h1, h5, ?_, ?_, h4⟩
  · intro rec hrec
    obtain ⟨r, _, _, hpos, hcall, hok, hG, hsrc⟩ := h2 rec hrec
    have hf := callOK_friendly hw hrep hok
    rw [hpos] at hf
    refine ⟨r.call, hcall, hpos, r.call.act, hf, ?_⟩
    rcases hsrc with h | ⟨lim, fl, x, eng', hact, _, hrun⟩
    · exact .inl h
    · exact .inr ⟨lim, fl, x.1, r.eng, eng', hact, hG, x.2, hrun⟩
  · intro call hcall
    exact friendlyOf_resigns_iff c _ _ _ _ _ _ (callOK_friendly hw hrep (h3 call hcall))

theorem resignWire_of_not_sends {a : Action} (h : a.sends = false) : resignWire a = [] := by
  cases a <;> first | rfl | cases h

/-- **`bot_inv_taktician`** — the same with the real `Taktician` (`-limit`, `-use-opponent-time` as configured):
C07's invariant; the engine state is `EngInv` throughout; every transmitted move is **the engine's answer for exactly
the position it was transmitted in**, searched under the timeout rule of `taktician_timeout_rule` (20 s for the first
two plies, `-limit` afterwards) from an `EngInv` state; nothing is ever sent from inside `GetMove`. -/
theorem bot_inv_taktician (c : Compose.Conf) (tc : TakticianCfg) (hw : c.who = .taktician tc)
    (hfix : c.bot.fixed = true) (hsize : 3 ≤ c.size ∧ c.size ≤ 8)
    (ev : Pos → Int) (sym : Pos → List Search.H) (scfg : Search.Cfg) (secs : Int)
    (evs : List (Compose.Ev { o : Search.Oracle Move // Search.OrderOK o })) :
    let g := Search.takGame c.bot.basis ev sym
    let s := Compose.run c (minimaxOK c.bot.basis ev sym scfg) (Compose.start c secs (Search.Eng.new g scfg)) evs
    Inv c.bot s.b ∧ EngInv c.bot.basis ev sym s.eng ∧
    (∀ rec ∈ s.b.log, ∃ o eng eng', EngInv c.bot.basis ev sym eng ∧ Search.OrderOK o ∧
      Search.getMove g scfg o rec.recAt eng = .ok (rec.move, eng') ∧
      ∃ mine, takticianGetMove tc c.bot.color c.size rec.recAt mine =
        .think (some (if rec.recAt.move < 2 then 20 * 1000000000 else tc.limit)) none) ∧
    glueWire s.wire = [] := by
  intro g s
  obtain ⟨h1, h2, h3, h4, h5⟩ := bot_inv_composed c hfix hsize (minimaxOK c.bot.basis ev sym scfg) (EngInv c.bot.basis ev sym)
    (minimax_keeps_engInv c.bot.basis ev sym scfg c.size hsize) secs _ (engInv_new c.bot.basis ev sym scfg) evs
  refine ⟨h1, h5, ?_, ?_⟩
  · intro rec hrec
    obtain ⟨r, _, _, hpos, hcall, hok, hG, hsrc⟩ := h2 rec hrec
    have ha := callOK_taktician hw hok
    rw [hpos] at ha
    have hturn := (h1.sends rec hrec).onTurn
    rcases hsrc with h | ⟨lim, fl, x, eng', hact, _, hrun⟩
    · rw [ha, C20.taktician_timeout_rule tc c.bot.color c.size rec.recAt r.call.mine hturn] at h
      cases h
    · exact ⟨x.1, r.eng, eng', hG, x.2, hrun, r.call.mine, C20.taktician_timeout_rule tc c.bot.color c.size rec.recAt r.call.mine hturn⟩
  · rw [h4]
    apply List.flatMap_eq_nil_iff.mpr
    intro call hcall
    rw [callOK_taktician hw (h3 call hcall)]
    exact resignWire_of_not_sends (C20.taktician_never_sends tc c.bot.color c.size call.pos call.mine).1


/-! ## no `GetMove` call of the current invocation reads the record out of range -/

/-- `C20.friendly_total` with the hypothesis on the record only where the code reads it: the pair below the newest
position when `p` is not a start position, and `Positions[len-2]` when the check engine claims a win in one -/
theorem friendly_total_of (fpa : Option (Variant × Rule)) (g : GameRec) (p : Pos) (o : CheckOracle)
    (hrule : C20.RuleTotal fpa g p)
    (hrec : p.move > 0 → 2 ≤ g.positions.length ∧ 1 ≤ g.moves.length)
    (hchk : asksPrev o = true → 2 ≤ g.positions.length) :
    ∃ x, Glue.friendlyGetMove fpa g p o = .ok x := by
  have hw : ∃ w, waitUndo g o = .ok w := by
    unfold waitUndo
    split
    · exact ⟨_, rfl⟩
    · rename_i ha
      have ha' : asksPrev o = true := by simpa using ha
      have hl := hchk ha'
      match hg : g.positions with
      | _ :: _ :: _ => exact ⟨_, rfl⟩
      | [] => rw [hg] at hl; simp at hl
      | [_] => rw [hg] at hl; simp at hl
  obtain ⟨w, hw⟩ := hw
  rw [Tak.Glue.friendly_cases]
  cases fpa with
  | none =>
    rw [fpaCheck_none]
    simp only [fpaScript, hw]
    split <;> exact ⟨_, rfl⟩
  | some vr =>
    obtain ⟨var, r⟩ := vr
    obtain ⟨hl, hgm⟩ := hrule var r rfl
    rw [fpaCheck_some]
    unfold prevCheck
    by_cases hp : p.move > 0
    · obtain ⟨q, m, hq⟩ : ∃ q m, prevOf g = .ok (q, m) := by
        unfold prevOf
        obtain ⟨hp2, hm⟩ := hrec hp
        match hg : g.positions, hg2 : g.moves with
        | _ :: q :: _, m :: _ => exact ⟨q, m, rfl⟩
        | [], _ => rw [hg] at hp2; simp at hp2
        | [_], _ => rw [hg] at hp2; simp at hp2
        | _ :: _ :: _, [] => rw [hg2] at hm; simp at hm
      obtain ⟨r1, her, hl⟩ := hl hp
      simp only [hp, if_true, her, hq]
      obtain ⟨⟨r', ok⟩, hx⟩ := hl q m hq
      rw [hx]
      cases ok with
      | false =>
        obtain ⟨msg, he⟩ := errMsg_ok_of_reject (r := if (viewOfPos q).ply = 0 then {} else r1) hx
        simp only [he]
        exact ⟨_, rfl⟩
      | true =>
        simp only [fpaScript]
        obtain ⟨y, hy⟩ := hgm r'
        rw [hy]
        split
        · exact ⟨_, rfl⟩
        · cases y <;> simp only [hw] <;> exact ⟨_, rfl⟩
    · simp only [hp, if_false, fpaScript]
      obtain ⟨y, hy⟩ := hgm r
      rw [hy]
      split
      · exact ⟨_, rfl⟩
      · cases y <;> simp only [hw] <;> exact ⟨_, rfl⟩

/-- **`current_thinker_total`** — in every reachable state of the composed system whose protocol goroutine has not
panicked, a `Friendly.GetMove` call by the thinker of the CURRENT `handleMove` invocation runs through: it does not read
the record out of range (`f.g.Positions[len-2]`, `f.g.Moves[len-1]`), whatever the interleaving that led there (undo,
replayed history, late thinkers).  The position the thinker was started on is still in the record, and the record
still ends in the start position.  Assumed: the rule's own code does not panic on this record (`C20.RuleTotal`; with
`fixes/C07-fpa-record-notes.diff` the notes are a function of the record — `C07.call_notes_irrelevant` — and the resumed
game that crashed the tree before it runs through: `C07.resume_no_panic`), and the check engine claims a win in
one only on a position that is not a start position (C05 `verdict_sound`: no road on an empty board).
For a thinker of an EARLIER invocation the statement is false on the tree before `fixes/C07-stale-thinker.diff`
(`stale_thinker_panics`); with the fix such a call returns before it reads anything. -/
theorem current_thinker_total (c : Compose.Conf) (var : Option Variant) (hw : c.who = .friendly var) (hrep : c.replay = true)
    (hfix : c.bot.fixed = true) (hsize : 3 ≤ c.size ∧ c.size ≤ 8) (S : Searcher σ χ) (secs : Int) (eng0 : σ)
    (evs : List (Compose.Ev χ)) (chk : CheckOracle)
    (hnc : ¬ (Compose.run c S (Compose.start c secs eng0) evs).b.crashed)
    (hrule : C20.RuleTotal (Compose.run c S (Compose.start c secs eng0) evs).fpa
      (recOf c (Compose.run c S (Compose.start c secs eng0) evs).b) (Compose.run c S (Compose.start c secs eng0) evs).b.cur.pos)
    (hchk : asksPrev chk = true → (Compose.run c S (Compose.start c secs eng0) evs).b.cur.pos.move > 0) :
    ∃ x, glueCall c (Compose.run c S (Compose.start c secs eng0) evs).fpa (Compose.run c S (Compose.start c secs eng0) evs).b
      (Compose.run c S (Compose.start c secs eng0) evs).b.cur chk = .ok x := by
  obtain ⟨hs, _, _⟩ := composed_loop_facts c hfix hsize S secs eng0 evs
  obtain ⟨p0, hp0, hP0⟩ := pinv_startBot c secs hsize
  have hA : ∀ (p : Pos) (m : Move) (q : Pos), p.cfg.size = c.size → p.apply c.bot.basis m = .ok q → q.cfg.size = c.size :=
    fun p m q hp ha => by rw [apply_cfg ha]; exact hp
  have hP : PInv (fun p => p.cfg.size = c.size) p0 (Compose.run c S (Compose.start c secs eng0) evs).b := by
    obtain ⟨bevs, hb⟩ := compose_refines c S secs eng0 evs
    rw [hb]
    exact pinv_run hA c.bot rfl hP0 bevs
  generalize Compose.run c S (Compose.start c secs eng0) evs = s at *
  have hshape := hs.core.shape hnc
  have hmem := hP.cmem hnc
  have hlast := hP.last hnc
  have hlen : s.b.cur.pos.move > 0 → 2 ≤ s.b.positions.length := by
    intro hm
    match hps : s.b.positions with
    | [] => rw [hps] at hmem; cases hmem
    | [x] =>
      rw [hps] at hmem hlast
      simp only [List.getLast?_singleton, Option.some.injEq] at hlast
      simp only [List.mem_singleton] at hmem
      rw [hmem, hlast, hp0] at hm
      exact absurd hm (by decide)
    | _ :: _ :: _ => simp
  unfold glueCall glueOn
  rw [hw]
  simp only [hrep, if_true]
  suffices h : ∃ x, Glue.friendlyGetMove s.fpa (recOf c s.b) s.b.cur.pos chk = .ok x by
    obtain ⟨x, hx⟩ := h
    exact ⟨x, Compose.friendlyOf_of_ok c hx⟩
  apply friendly_total_of _ _ _ _ hrule
  · intro hm
    have := hlen hm
    show 2 ≤ s.b.positions.length ∧ 1 ≤ s.b.moves.length
    omega
  · intro ha
    exact hlen (hchk ha)


/-! ## concrete schedules: the stale-thinker defect, and the findings of work package botglue in the composed system

The searching player is the stub of the correspondence harness (`stubSearcher`: it answers what the event says), so the
runs below are exactly op sequences of `corpus/C07/compose-*.ops`, replayed on the real code on every check. -/

namespace Ex
def zb : Array W := Array.replicate 64 0#64
def quiet : CheckOracle := { curV := 0, curDepth := 3, prevV := 0 }
def conf (color : Color) (size : Nat) (who : Who) (guard : Bool) : Compose.Conf :=
  { bot := { basis := zb, color := color, gameStr := "Game#100", fixed := true }, size := size, who := who, guard := guard }
def go (c : Compose.Conf) (evs : List (Compose.Ev Move)) : Compose.St Unit Move :=
  Compose.run c stubSearcher (Compose.start c 600 ()) evs
def srv (w : List String) (m : Move) : Compose.Ev Move := .deliver ("Game#100" :: w) (some m)
def tm : Compose.Ev Move := .deliver ["Game#100", "Time", "590", "590"] none
def ru : Compose.Ev Move := .deliver ["Game#100", "RequestUndo"] none
def un : Compose.Ev Move := .deliver ["Game#100", "Undo"] none
def zm : Move := Bot.zeroMove
def slideR (x y : Int) : Move := { x := x, y := y, type := Facts.mtSlideRight, slides := slide1 }
def slideL (x y : Int) : Move := { x := x, y := y, type := Facts.mtSlideLeft, slides := slide1 }

/-- bot Black, centre variant, 5×5.  White plays `c3`; the bot's thinker 1 is searching (it holds `moveLock`).  White
asks to take the move back, the bot agrees, `Undo`; White plays `c3` again and takes it back again — all while thinker 1
has not noticed its cancellation.  Thinkers 2 (started on the empty board) and 3 (started after the second `c3`) are
parked on the mutex.  Thinker 1 returns; 2 runs through; 3 enters `GetMove` for a ply-1 position on a record of ONE
position. -/
def staleEvs : List (Compose.Ev Move) :=
  [.enter 0 quiet, .leave 0 zm, srv ["P", "C3"] (place 2 2), tm, .enter 1 quiet, ru, un, srv ["P", "C3"] (place 2 2), tm, ru, un,
   .leave 1 zm, .enter 2 quiet, .leave 2 zm, .enter 3 quiet]

/-- bot Black, no rule.  Thinker 1 is searching; White takes the move back (thinker 2 is parked on the mutex) and then
resigns: `Over`, `PlayGame` returns, `Friendly.GameOver` sets `f.g = nil`.  Thinker 1 returns, thinker 2 enters. -/
def overEvs : List (Compose.Ev Move) :=
  [.enter 0 quiet, .leave 0 zm, srv ["P", "C3"] (place 2 2), tm, .enter 1 quiet, ru, un,
   .deliver ["Game#100", "Over", "0-1"] none, .leave 1 zm, .enter 2 quiet]

/-- Taktician pondering on White's time (the default `-use-opponent-time`): White moves, the clock line starts thinker 1,
White disconnects (`Abandoned.`) before the pondering search has stopped. -/
def ponderEvs : List (Compose.Ev Move) :=
  [.enter 0 quiet, srv ["P", "C3"] (place 2 2), tm, .deliver ["Game#100", "Abandoned."] none, .leave 0 zm, .enter 1 quiet]

/-- the cairn opening of `C20.cairn_undo_resigns`, bot White, 5×5, through the loop: `a1` (searched), `e5`, scripted `b3`,
`c2`, scripted `b3>`; Black asks to take the slide back, the bot agrees, `Undo`; thinker 6 checks `c2` again -/
def cairnEvs : List (Compose.Ev Move) :=
  [.enter 0 quiet, .leave 0 (place 0 0), .enter 1 quiet, .leave 1 zm, srv ["P", "E5"] (place 4 4), tm, .enter 2 quiet, .leave 2 zm,
   .enter 3 quiet, .leave 3 zm, srv ["P", "C2"] (place 2 1), tm, .enter 4 quiet, .leave 4 zm, .enter 5 quiet, .leave 5 zm, ru, un,
   .enter 6 quiet]

/-- `C20.doubleStack_resume_resigns`, bot Black, 5×5: the server replays `c3 d4 d4<` in one burst (a resumed game), then
the clock line; the bot scripts `b1`; White returns `c4>`; the next call resigns -/
def dsEvs : List (Compose.Ev Move) :=
  [.enter 0 quiet, .leave 0 zm, srv ["P", "C3"] (place 2 2), srv ["P", "D4"] (place 3 3), srv ["M", "D4", "C4", "1"] (slideL 3 3), tm,
   .enter 1 quiet, .leave 1 zm, .enter 2 quiet, .leave 2 zm, srv ["M", "C4", "D4", "1"] (slideR 2 3), tm, .enter 3 quiet]

/-- bot White, double stack, 4×4, a game resumed at ply 4: `a3` (with its clock line: the rule notes Black's stone), then
`a1 a1> b3` in one burst and the clock line.  The thinker of ply 4 accepts `b3` and asks the rule for White's scripted
return slide: `dir(whiteTmp, whitePlace)` with both still `(0, 0)` -/
def dsPanicEvs : List (Compose.Ev Move) :=
  [srv ["P", "A3"] (place 0 2), tm, .enter 1 quiet, .leave 1 zm, srv ["P", "A1"] (place 0 0), srv ["M", "A1", "B1", "1"] (slideR 0 0),
   srv ["P", "B3"] (place 1 2), tm, .enter 2 quiet]
end Ex



/-! ## the lock, and non-vacuity -/

/-- **`lock_faithful`** — in every reachable state of the composed system at most one thinker is inside `Bot.GetMove`
(`C07.lock_exclusive`, transported along `compose_refines`), and the call the model considers in progress belongs to a
thinker that exists and was started on the position the call was handed.  So between `enter k` and `leave k` nobody
else runs `Friendly.GetMove` / `Taktician.GetMove`: the FPA rule's notes and the ONE engine object are touched by one
goroutine at a time, which is what makes threading them through the events (instead of sharing them between
concurrent calls) a faithful model.  This is where C16's "after a cancelled search the same engine still gives correct
results" meets the bot: the cancelled ponder search and the next search run one after the other on the same state. -/
theorem lock_faithful (c : Compose.Conf) (hfix : c.bot.fixed = true) (hsize : 3 ≤ c.size ∧ c.size ≤ 8)
    (S : Searcher σ χ) (secs : Int) (eng0 : σ) (evs : List (Compose.Ev χ)) :
    holders (Compose.run c S (Compose.start c secs eng0) evs).b ≤ 1 ∧
    ∀ call, (Compose.run c S (Compose.start c secs eng0) evs).inside = some call →
      call ∈ (Compose.run c S (Compose.start c secs eng0) evs).calls ∧
      ∃ t, thinkerAt (Compose.run c S (Compose.start c secs eng0) evs).b call.k = some t ∧ t.pos = call.pos := by
  refine ⟨(composed_loop_facts c hfix hsize S secs eng0 evs).2.1, ?_⟩
  obtain ⟨p0, _, hP⟩ := pinv_startBot c secs hsize
  have hA : ∀ (p : Pos) (m : Move) (q : Pos), p.cfg.size = c.size → p.apply c.bot.basis m = .ok q → q.cfg.size = c.size :=
    fun p m q hp ha => by rw [apply_cfg ha]; exact hp
  have hz : ∀ (p q : Pos), p.cfg.size = c.size → p.apply c.bot.basis Bot.zeroMove ≠ .ok q :=
    fun p q hp => zero_rejected c.bot.basis c.size hsize p q hp
  exact (cinv_run (A := fun p => p.cfg.size = c.size) (G := fun _ => True) hA (fun _ _ _ _ _ _ _ _ => trivial) hz _ hP
    (cinv_start c S _ secs eng0 trivial) evs).1.inside

open Ex in
/-- non-vacuity of `bot_inv_composed` / `bot_inv_friendly`: the cairn game above is an event list of the composed system
(bot White, 5×5, `fixed`, sizes in range); three moves are transmitted — one searched (`a1`, the stub's answer), two
scripted —, seven `GetMove` calls are recorded, the last one resigns, one call is in progress (it waits on its context) -/
example :
    (conf .white 5 (.friendly (some .cairn)) true).bot.fixed = true ∧
    (go (conf .white 5 (.friendly (some .cairn)) true) cairnEvs).b.log.length = 3 ∧
    (go (conf .white 5 (.friendly (some .cairn)) true) cairnEvs).calls.length = 7 ∧
    (go (conf .white 5 (.friendly (some .cairn)) true) cairnEvs).rets.length = 6 ∧
    ((go (conf .white 5 (.friendly (some .cairn)) true) cairnEvs).calls.map (·.act.searches)) =
      [true, false, false, false, false, false, false] ∧
    ((go (conf .white 5 (.friendly (some .cairn)) true) cairnEvs).inside.map (·.k)) = some 6 ∧
    holders (go (conf .white 5 (.friendly (some .cairn)) true) cairnEvs).b = 1 := by
  decide +kernel

/-- the oracle type of `minimaxOK` is inhabited: the quiet oracle (never cancels, keeps the generation order) -/
example : Search.OrderOK (Search.Oracle.quiet : Search.Oracle Move) := fun _ _ _ => Iff.rfl

open Ex in
/-- non-vacuity of `bot_inv_taktician`: a Taktician game (bot White, pondering on) in which two searched moves are
transmitted and a pondering search is cancelled by the opponent's move; nothing is sent from inside `GetMove` -/
example :
    let c := conf .white 5 (.taktician { limit := 60000000000, useOpponentTime := true }) true
    let s := go c [.enter 0 quiet, .leave 0 (place 0 0), .enter 1 quiet, srv ["P", "E5"] (place 4 4), tm, .leave 1 zm,
                   .enter 2 quiet, .leave 2 (place 2 2)]
    s.b.sent = [.move (place 0 0), .move (place 2 2)] ∧ glueWire s.wire = [] ∧ s.calls.length = 3 ∧
    (s.calls.map (·.act)) = [.think (some 20000000000) none, .think none none, .think (some 60000000000) none] ∧
    s.b.moves = s.b.srvMoves ∧ s.dead = none := by
  decide +kernel

open Ex in
/-- non-vacuity of `current_thinker_total`: in the state after `a1 e5` of the cairn game the current thinker's call runs
through (it takes the rule's script `b3`), the loop has not crashed and the record holds three positions -/
example :
    let s := go (conf .white 5 (.friendly (some .cairn)) true) (cairnEvs.take 6)
    s.b.status = .running ∧ s.b.positions.length = 3 ∧ s.b.cur.pos.move = 2 ∧
    (glueCall (conf .white 5 (.friendly (some .cairn)) true) s.fpa s.b s.b.cur quiet).toOption.map (·.2) = some (.move (place 1 2)) := by
  decide +kernel

end C07
