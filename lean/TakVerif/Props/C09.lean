import TakVerif.Proofs.HeapRun

/-! # C09 — positions are values

Model: `Impl/Alloc.lean` — a heap of `positionN` objects whose `WhiteGroups`/`BlackGroups` slice headers
point into a shared store of `[]uint64` arrays (Go `append` in place / reallocating), with `alloc`,
`copyPosition`, `analyze`, `New`, `Clone`, `Move`, `MovePreallocated` mirroring the Go storage behaviour;
beside it the *pure* semantics in which a handle simply denotes a `Pos` value (Clone = the same value
re-analysed, Move = `Pos.apply`, a failed move yields no value and kills its buffer).
`HState.step`/`PState.step` are the functions the correspondence driver executes (`Driver/OpsAlloc.lean`).

Handles are object indices.  Ops that are not well-formed (source not live; buffer missing or equal to the
source) or whose Go counterpart panics are *rejected* by both interpreters and leave both states unchanged,
so the theorems below hold for ALL op lists; `wellformed_not_rejected` says rejection happens only then. -/
namespace C09
open Tak

/-- **Main theorem.**  After any op sequence (New / hand-built value / Clone / Move / MovePreallocated with
any buffer: live positions, dead buffers, buffers other live positions were derived from / failed moves):

* the heap is `Separated`: there is an ownership map from group arrays to objects such that every object's
  `WhiteGroups` header and every live position's `BlackGroups` header (unless nil) point into arrays owned by
  that object, within bounds, `BlackGroups` behind the used part of `WhiteGroups` (`SepWith`);
* the live handles are exactly the handles that denote a value in the pure semantics;
* what an observer sees through a live pointer (`Heap.observe`: scalars, Height/Stacks, and the two group
  slices *read through their headers*) is exactly the pure value. -/
theorem heap_refines_pure (basis : Array W) (ops : List Op) :
    Separated (HState.run basis ops) ∧
    (∀ i, i ∈ (HState.run basis ops).live ↔ ∃ p, pureRun basis ops i = some p) ∧
    (∀ i, i ∈ (HState.run basis ops).live → (HState.run basis ops).heap.observe i = pureRun basis ops i) := by
  obtain ⟨S, R⟩ := run_inv basis ops
  refine ⟨S, R.live, fun i hi => ?_⟩
  obtain ⟨p, hp⟩ := (R.live i).mp hi
  exact (R.obs i p hp).trans hp.symm

/-- the two interpreters report the same outcome (`ok i` with the same handle / `failed` / `rejected`) for
every next op: the `model-mismatch` answer of the driver is unreachable -/
theorem interpreters_agree (basis : Array W) (ops : List Op) (op : Op) :
    ((HState.run basis ops).step basis op).2 = ((PState.run basis ops).step basis op).2 :=
  (step_ok basis (run_inv basis ops) op).2

/-- `Separated`, spelled out without the ownership map: no two objects (live or dead buffers) share a
`WhiteGroups` array; a live position's non-nil `BlackGroups` array is not the `WhiteGroups` array of any
other object nor the `BlackGroups` array of another live position; all headers are in bounds. -/
theorem separated_no_sharing {s : HState} (S : Separated s) {i j : Nat} {oi oj : PObj}
    (hi : s.heap.objs[i]? = some oi) (hj : s.heap.objs[j]? = some oj) (hij : i ≠ j) :
    oi.wg.arr ≠ oj.wg.arr ∧ s.heap.InBounds oi.wg ∧
    (i ∈ s.live → oi.bg ≠ Slice.nil →
      oi.bg.arr ≠ oj.wg.arr ∧ s.heap.InBounds oi.bg ∧ (j ∈ s.live → oj.bg ≠ Slice.nil → oi.bg.arr ≠ oj.bg.arr) ∧
      (oi.bg.arr = oi.wg.arr → oi.wg.off + oi.wg.len ≤ oi.bg.off)) := by
  obtain ⟨owner, S⟩ := S
  have wi := S.wg i oi hi
  have wj := S.wg j oj hj
  have key : ∀ {a b : Nat}, owner a = some i → owner b = some j → a ≠ b := by
    intro a b ha hb e; rw [e, hb] at ha; exact hij (Option.some.inj ha).symm
  refine ⟨key wi.1 wj.1, wi.2, fun hil hnn => ?_⟩
  rcases S.bg i oi hil hi with hn | ⟨h1, h2, h3⟩
  · exact absurd hn hnn
  · refine ⟨key h1 wj.1, h2, fun hjl hjn => ?_, h3⟩
    rcases S.bg j oj hjl hj with hn | ⟨g1, _, _⟩
    · exact absurd hn hjn
    · exact key h1 g1

/-- rejection is only ever the answer to an ill-formed op (or `New` with a size outside 3..8) -/
theorem wellformed_not_rejected (basis : Array W) (ops : List Op) (op : Op)
    (hw : op.WellFormedAt (HState.run basis ops).live (HState.run basis ops).heap.objs.size) :
    ((HState.run basis ops).step basis op).2 ≠ .rejected := by
  obtain ⟨_, R⟩ := run_inv basis ops
  rw [interpreters_agree]
  refine PState.step_wellFormed basis _ (PState.run_analysed basis ops) op _ R.live ?_
  rw [R.size]; exact hw

/-! ## Corollaries: the property's clauses -/

/-- **Earlier results are never altered.**  A live handle `j` keeps observing the same value across ANY
later ops, as long as `j` itself is not handed in as a `MovePreallocated` buffer (which by contract ends its
life as a position).  In particular buffers that `j` was derived from, or that were derived from `j`, may
be reused freely. -/
theorem move_preserves_earlier_results (basis : Array W) (ops ops' : List Op) (j : Nat)
    (hl : j ∈ (HState.run basis ops).live) (hc : ∀ op, op ∈ ops' → ¬ op.consumes j) :
    j ∈ (HState.run basis (ops ++ ops')).live ∧
    (HState.run basis (ops ++ ops')).heap.observe j = (HState.run basis ops).heap.observe j := by
  obtain ⟨_, R⟩ := run_inv basis ops
  obtain ⟨_, R'⟩ := run_inv basis (ops ++ ops')
  obtain ⟨p, hp⟩ := (R.live j).mp hl
  have hp' : (PState.run basis (ops ++ ops')).get j = some p := by
    rw [PState.run_append]; exact PState.foldl_get basis ops' _ hp hc
  exact ⟨(R'.live j).mpr ⟨p, hp'⟩, (R'.obs j p hp').trans (R.obs j p hp).symm⟩

/-- one further op, phrased on the state -/
theorem op_preserves (basis : Array W) (ops : List Op) (op : Op) (j : Nat)
    (hl : j ∈ (HState.run basis ops).live) (hc : ¬ op.consumes j) :
    j ∈ ((HState.run basis ops).step basis op).1.live ∧
    ((HState.run basis ops).step basis op).1.heap.observe j = (HState.run basis ops).heap.observe j := by
  have := move_preserves_earlier_results basis ops [op] j hl (fun op' h' => by
    rw [List.mem_singleton.mp h']; exact hc)
  rwa [HState.run_append] at this

/-- **Move never changes its source** (fresh storage) -/
theorem move_preserves_source (basis : Array W) (ops : List Op) (src : Nat) (m : Move)
    (hl : src ∈ (HState.run basis ops).live) :
    src ∈ ((HState.run basis ops).step basis (.move src m)).1.live ∧
    ((HState.run basis ops).step basis (.move src m)).1.heap.observe src = (HState.run basis ops).heap.observe src :=
  op_preserves basis ops _ src hl (fun h => h)

/-- **MovePreallocated never changes its source**, whatever buffer (≠ source) it is given -/
theorem movepre_preserves_source (basis : Array W) (ops : List Op) (src : Nat) (m : Move) (buf : Nat)
    (hl : src ∈ (HState.run basis ops).live) (hne : buf ≠ src) :
    src ∈ ((HState.run basis ops).step basis (.movepre src m buf)).1.live ∧
    ((HState.run basis ops).step basis (.movepre src m buf)).1.heap.observe src =
      (HState.run basis ops).heap.observe src :=
  op_preserves basis ops _ src hl hne

/-- whatever handle an op returns is live and observes its pure value (see `move_yields_apply`,
`movepre_yields_apply`, `clone_observationally_identical` for what that value is) -/
theorem move_result (basis : Array W) (ops : List Op) (op : Op) (i : Nat)
    (hr : ((HState.run basis ops).step basis op).2 = .ok i) :
    i ∈ ((HState.run basis ops).step basis op).1.live ∧
    ((HState.run basis ops).step basis op).1.heap.observe i = pureRun basis (ops ++ [op]) i := by
  have h := heap_refines_pure basis (ops ++ [op])
  rw [HState.run_append] at h
  simp only [List.foldl_cons, List.foldl_nil] at h
  have hi : i ∈ ((HState.run basis ops).step basis op).1.live := by
    generalize HState.run basis ops = s at hr ⊢
    cases op with
    | new cfg =>
      simp only [HState.step] at hr ⊢; split at hr
      · rename_i h' i' _; cases hr; simp [*]
      · cases hr
    | fromValue p =>
      simp only [HState.step] at hr ⊢; split at hr
      · cases hr; simp [*]
      · cases hr
    | clone src =>
      simp only [HState.step] at hr ⊢; split at hr
      · split at hr
        · cases hr; simp [*]
        · cases hr
      · cases hr
    | move src m =>
      simp only [HState.step] at hr ⊢; split at hr
      · split at hr
        · cases hr; simp [*]
        · cases hr
        · cases hr
      · cases hr
    | movepre src m b =>
      simp only [HState.step] at hr ⊢; split at hr
      · split at hr
        · cases hr; simp [*]
        · cases hr
        · cases hr
      · cases hr
  exact ⟨hi, h.2.2 i hi⟩

/-- **Move = `Pos.apply`, in fresh storage**: if the rules accept `m` on the value the source observes, `Move`
returns a new live handle observing exactly `Pos.apply` of that value; if they refuse, it reports failure -/
theorem move_yields_apply (basis : Array W) (ops : List Op) (src : Nat) (m : Move) (pv : Pos)
    (hl : src ∈ (HState.run basis ops).live) (hsrc : (HState.run basis ops).heap.observe src = some pv) :
    (∀ q, pv.apply basis m = .ok q →
      ∃ i, ((HState.run basis ops).step basis (.move src m)).2 = .ok i ∧ i ∉ (HState.run basis ops).live ∧
        ((HState.run basis ops).step basis (.move src m)).1.heap.observe i = some q) ∧
    (∀ e, pv.apply basis m = .error e → ((HState.run basis ops).step basis (.move src m)).2 = .failed) := by
  obtain ⟨_, R⟩ := run_inv basis ops
  obtain ⟨pv', hpv⟩ := (R.live src).mp hl
  have : pv' = pv := Option.some.inj ((R.obs src pv' hpv).symm.trans hsrc)
  subst this
  have hagree := interpreters_agree basis ops (.move src m)
  constructor
  · intro q hq
    have hstep : (PState.run basis ops).step basis (.move src m) =
        (Array.push (PState.run basis ops) (some q), .ok (PState.run basis ops).size) := by
      simp only [PState.step, hpv, hq]
    rw [hstep] at hagree
    refine ⟨_, hagree, ?_, ?_⟩
    · rw [R.size]; exact Refines.not_live_size (h := (HState.run basis ops).heap) R
    · rw [(move_result basis ops _ _ hagree).2]
      show (PState.run basis (ops ++ [Op.move src m])).get _ = some q
      rw [PState.run_append]
      simp only [List.foldl_cons, List.foldl_nil, hstep, PState.get_push, if_true]
  · intro e he
    rw [hagree]
    simp only [PState.step, hpv, he]

/-- **MovePreallocated = `Pos.apply`, in the caller's buffer** (any existing object other than the source, live or
dead): on success the buffer's handle is live and observes exactly `Pos.apply` of the source's value -/
theorem movepre_yields_apply (basis : Array W) (ops : List Op) (src : Nat) (m : Move) (buf : Nat) (pv : Pos)
    (hl : src ∈ (HState.run basis ops).live) (hsrc : (HState.run basis ops).heap.observe src = some pv)
    (hne : buf ≠ src) (hb : buf < (HState.run basis ops).heap.objs.size) :
    (∀ q, pv.apply basis m = .ok q →
      ((HState.run basis ops).step basis (.movepre src m buf)).2 = .ok buf ∧
        ((HState.run basis ops).step basis (.movepre src m buf)).1.heap.observe buf = some q) ∧
    (∀ e, pv.apply basis m = .error e → ((HState.run basis ops).step basis (.movepre src m buf)).2 = .failed) := by
  obtain ⟨_, R⟩ := run_inv basis ops
  obtain ⟨pv', hpv⟩ := (R.live src).mp hl
  have : pv' = pv := Option.some.inj ((R.obs src pv' hpv).symm.trans hsrc)
  subst this
  have hagree := interpreters_agree basis ops (.movepre src m buf)
  have hb' : buf < (PState.run basis ops).size := by rw [R.size]; exact hb
  constructor
  · intro q hq
    have hstep : (PState.run basis ops).step basis (.movepre src m buf) =
        (Array.setIfInBounds (PState.run basis ops) buf (some q), .ok buf) := by
      simp only [PState.step, hpv, hq, hne, hb', ne_eq, not_false_eq_true, and_self, if_true]
    rw [hstep] at hagree
    refine ⟨hagree, ?_⟩
    rw [(move_result basis ops _ _ hagree).2]
    show (PState.run basis (ops ++ [Op.movepre src m buf])).get _ = some q
    rw [PState.run_append]
    simp only [List.foldl_cons, List.foldl_nil, hstep, PState.get_set, hb', and_self, if_true]
  · intro e he
    rw [hagree]
    simp only [PState.step, hpv, he, hne, hb', ne_eq, not_false_eq_true, and_self, if_true]

/-- **Failed moves change nothing**: every live handle other than the buffer handed in keeps its value, and
no new position appears -/
theorem failed_move_preserves_all (basis : Array W) (ops : List Op) (op : Op)
    (hf : ((HState.run basis ops).step basis op).2 = .failed) :
    (∀ j, j ∈ (HState.run basis ops).live → ¬ op.consumes j →
      j ∈ ((HState.run basis ops).step basis op).1.live ∧
      ((HState.run basis ops).step basis op).1.heap.observe j = (HState.run basis ops).heap.observe j) ∧
    (∀ j, j ∈ ((HState.run basis ops).step basis op).1.live → j ∈ (HState.run basis ops).live) := by
  refine ⟨fun j hl hc => op_preserves basis ops op j hl hc, fun j hj => ?_⟩
  obtain ⟨_, R⟩ := run_inv basis ops
  obtain ⟨_, R'⟩ := (step_ok basis (run_inv basis ops) op).1
  rw [interpreters_agree] at hf
  obtain ⟨p, hp⟩ := (R'.live j).mp hj
  exact (R.live j).mpr ⟨p, PState.step_failed_get basis _ op hf hp⟩

/-- `analyze` is idempotent on the group fields (so "Clone = re-analysed value" is "Clone = value") -/
theorem analyze_idem {p q : Pos} (h : p.analyze = some q) : q.analyze = some q := Pos.analyze_idem h

/-- every value a handle can denote is analysed: its group fields are `FloodGroups` of its road bitboards -/
theorem values_analysed (basis : Array W) (ops : List Op) (i : Nat) (p : Pos) (h : pureRun basis ops i = some p) :
    p.analyze = some p := PState.run_analysed basis ops i p h

/-- **A clone is observationally identical to its source**: cloning a live handle succeeds, yields a NEW
handle, and through it one observes exactly the `Pos` the source observes — all fields, hence squares,
game-over verdict and winner, road groups, legal moves and hash, which are functions of the observed `Pos`
(`Pos.squareAt`, `Pos.winDetails`, `Pos.allMoves`, `Pos.hashOf`); the source is unchanged. -/
theorem clone_observationally_identical (basis : Array W) (ops : List Op) (src : Nat)
    (hl : src ∈ (HState.run basis ops).live) :
    ∃ c, ((HState.run basis ops).step basis (.clone src)).2 = .ok c ∧
      c ∉ (HState.run basis ops).live ∧ c ≠ src ∧
      c ∈ ((HState.run basis ops).step basis (.clone src)).1.live ∧
      ((HState.run basis ops).step basis (.clone src)).1.heap.observe c = (HState.run basis ops).heap.observe src ∧
      ((HState.run basis ops).step basis (.clone src)).1.heap.observe src = (HState.run basis ops).heap.observe src := by
  obtain ⟨_, R⟩ := run_inv basis ops
  obtain ⟨pv, hpv⟩ := (R.live src).mp hl
  have hA := PState.run_analysed basis ops src pv hpv
  have hstep := PState.step_clone basis _ hpv hA
  have hagree := interpreters_agree basis ops (.clone src)
  rw [hstep] at hagree
  have hfresh : (PState.run basis ops).size ∉ (HState.run basis ops).live := by
    rw [R.size]; exact Refines.not_live_size (h := (HState.run basis ops).heap) R
  refine ⟨_, hagree, hfresh, fun e => hfresh (e ▸ hl), ?_, ?_, (op_preserves basis ops (.clone src) src hl (fun h => h)).2⟩
  · exact (move_result basis ops _ _ hagree).1
  · rw [(move_result basis ops _ _ hagree).2, R.obs src pv hpv]
    show (PState.run basis (ops ++ [.clone src])).get _ = some pv
    rw [PState.run_append]
    simp only [List.foldl_cons, List.foldl_nil, hstep, PState.get_push, if_true]

/-- … and they stay identical in value and independent in storage: whatever is done afterwards to the other
one (moved from, used as a buffer, its storage overwritten), each still observes the cloned value, until it is
itself handed in as a buffer -/
theorem clone_independent (basis : Array W) (ops ops' : List Op) (src c : Nat)
    (hl : src ∈ (HState.run basis ops).live)
    (hc : ((HState.run basis ops).step basis (.clone src)).2 = .ok c) :
    ((∀ op, op ∈ ops' → ¬ op.consumes c) →
      (HState.run basis (ops ++ [.clone src] ++ ops')).heap.observe c = (HState.run basis ops).heap.observe src) ∧
    ((∀ op, op ∈ ops' → ¬ op.consumes src) →
      (HState.run basis (ops ++ [.clone src] ++ ops')).heap.observe src = (HState.run basis ops).heap.observe src) := by
  obtain ⟨c', hc', _, _, hcl, hobs, hsrc⟩ := clone_observationally_identical basis ops src hl
  rw [hc] at hc'; cases hc'
  have hrun : HState.run basis (ops ++ [.clone src]) = ((HState.run basis ops).step basis (.clone src)).1 := by
    rw [HState.run_append]; rfl
  have hsl := (op_preserves basis ops (.clone src) src hl (fun h => h)).1
  have hcl' : c ∈ (HState.run basis (ops ++ [.clone src])).live := by rw [hrun]; exact hcl
  have hsl' : src ∈ (HState.run basis (ops ++ [.clone src])).live := by rw [hrun]; exact hsl
  constructor
  · intro h
    rw [(move_preserves_earlier_results basis (ops ++ [Op.clone src]) ops' c hcl' h).2, hrun, hobs]
  · intro h
    rw [(move_preserves_earlier_results basis (ops ++ [Op.clone src]) ops' src hsl' h).2, hrun, hsrc]

/-! ## Non-vacuity: concrete sessions (evaluated by the kernel)

`basis := #[]` (all Zobrist keys 0): hashes play no role for storage. -/

def cfg3 : Cfg := ⟨3, 0, 0, false⟩
/-- place a flat at (x, y) -/
def pf (x y : Int) : Move := ⟨x, y, Facts.mtPlaceFlat, 0⟩

/-- 3×3: a1 (black, opening rule), c3 (white), c2 (white), a2 (black): handle 4 has one white group {c2,c3}
and one black group {a1,a2}; handles 0..4 are the five positions of the game, all live -/
def opening : List Op := [.new cfg3, .move 0 (pf 0 0), .move 1 (pf 2 2), .move 2 (pf 2 1), .move 3 (pf 0 1)]

example : (HState.run #[] opening).live = [4, 3, 2, 1, 0] := by decide
example : ((HState.run #[] opening).heap.observe 4).map (fun p => (p.wgroups, p.bgroups)) =
    some ([0x120#64], [0x9#64]) := by decide
/-- hypotheses of `move_preserves_source`, `clone_observationally_identical`, … are satisfiable -/
example : 4 ∈ (HState.run #[] opening).live := by decide

/-- aggressive buffer reuse: clone 4 (→5); move from 4 INTO the object of handle 2 (an ancestor of 4, live);
an illegal move from the clone into 3 (a1 is occupied: refused, 3 is dead now); reuse the dead buffer 3 for a
move from handle 0; move from 5 into 4 (the position 5 was cloned from) -/
def reuse : List Op := opening ++
  [.clone 4, .movepre 4 (pf 1 1) 2, .movepre 5 (pf 0 0) 3, .movepre 0 (pf 1 1) 3, .movepre 5 (pf 1 0) 4]

example : (reuse.foldl (fun (acc : HState × List StepRes) op =>
      let r := acc.1.step #[] op; (r.1, acc.2 ++ [r.2])) ({}, [])).2 =
    [.ok 0, .ok 1, .ok 2, .ok 3, .ok 4, .ok 5, .ok 2, .failed, .ok 3, .ok 4] := by decide
example : (HState.run #[] reuse).live = [4, 3, 2, 5, 1, 0] := by decide
/-- the clone (5) still sees the cloned value although its source's object (4) has been overwritten -/
example : ((HState.run #[] reuse).heap.observe 5).map (fun p => (p.move, p.wgroups, p.bgroups)) =
    some (4, [0x120#64], [0x9#64]) := by decide
example : ((HState.run #[] reuse).heap.observe 4).map (fun p => (p.move, p.wgroups, p.bgroups)) =
    some (5, [0x120#64], [0x9#64]) := by decide
/-- a failed op: hypothesis of `failed_move_preserves_all` -/
example : ((HState.run #[] (opening ++ [.clone 4, .movepre 4 (pf 1 1) 2])).step #[] (.movepre 5 (pf 0 0) 3)).2 = .failed := by
  decide
/-- the last op of `reuse` is well-formed where it is executed (hypothesis of `wellformed_not_rejected`) -/
example : (Op.movepre 5 (pf 1 0) 4).WellFormedAt [3, 2, 5, 4, 1, 0] 6 := by
  refine ⟨by decide, by decide, by decide⟩

/-- `append` beyond capacity does happen: a 7×7 value with 10 white and 6 black road groups; `Groups` has
capacity 14, so `BlackGroups` ends up in an array allocated by `append` (array 2), not in the object -/
def bits (l : List Nat) : W := l.foldl (fun w i => w ||| (1#64 <<< i)) 0#64
def p7 : Pos :=
  match Pos.new ⟨7, 0, 0, false⟩ with
  | .ok p => { p with
      white := bits [0,1,3,4, 14,15,17,18, 28,29,31,32, 42,43,45,46, 6,13, 27,34],
      black := bits [7,8,10,11, 21,22,24,25, 35,36,38,39] }
  | .error _ => default

set_option maxRecDepth 4096 in
example : (HState.run #[] [.fromValue p7, .clone 0, .movepre 1 (pf 2 2) 0]).heap.objs.toList.map
      (fun o => (o.wg.arr, o.wg.len, o.bg.arr, o.bg.len)) =
    [(1, 10, 5, 6), (3, 10, 4, 6)] := by decide
set_option maxRecDepth 4096 in
example : (HState.run #[] [.fromValue p7, .clone 0, .movepre 1 (pf 2 2) 0]).live = [0, 1] := by decide

/-! ## Why the fix was needed: the pinned `Clone` (`alloc(p)` without `analyze()`)

`Heap.cloneNoAnalyze` is `Clone` as it was before commit fbe43a9.  The struct copy keeps the source's
`BlackGroups` *header* and sets `WhiteGroups = own[:0]`:
1. immediately, the clone's `WhiteGroups` is empty — a clone of a finished game (white road) says "not over";
2. the clone's `BlackGroups` aliases the source's array — reusing the SOURCE's storage as a buffer silently
   changes what the clone observes. -/

/-- 3×3, white road a1-b1-c1: a3 (black), a1 (white), b1, b3 (black), c1 -/
def roadGame : List Op :=
  [.new cfg3, .move 0 (pf 0 2), .move 1 (pf 0 0), .move 2 (pf 1 0), .move 3 (pf 1 2), .move 4 (pf 2 0)]

/-- the observations the counterexample is about: (source, pinned clone), then the pinned clone again after
the source's object has been reused as the buffer of an unrelated move -/
def pinnedDemo (game : List Op) (src : Nat) (other : Nat) (m : Move) : Option (Pos × Pos × Pos) :=
  let s := HState.run #[] game
  match s.heap.cloneNoAnalyze src with
  | none => none
  | some (h, c) =>
    match h.observe src, h.observe c, h.move #[] other m (some src) with
    | some ps, some pc, some (h', some _) =>
      match h'.observe c with
      | some pc' => some (ps, pc, pc')
      | none => none
    | _, _, _ => none

theorem clone_pinned_counterexample :
    -- (1) source: game over, white wins by road; pinned clone: WhiteGroups empty, "not over"
    (pinnedDemo roadGame 5 0 (pf 1 1)).map (fun (ps, pc, _) => (ps.wgroups, ps.gameOver, pc.wgroups, pc.gameOver)) =
      some ([0x7#64], (true, .white), [], (false, .none)) ∧
    -- (2) aliasing: handle 4 of `opening` cloned; then handle 3 moves b1 into 4's object.  Nobody touched the
    --     clone, yet its BlackGroups changed from {a1,a2} to {a1,b1}
    (pinnedDemo opening 4 3 (pf 1 0)).map (fun (_, pc, pc') => (pc.bgroups, pc'.bgroups)) =
      some ([0x9#64], [0x3#64]) ∧
    -- with the repaired Clone the same sessions are fine (instances of `clone_independent`)
    ((HState.run #[] (roadGame ++ [.clone 5])).heap.observe 6).map (fun p => (p.wgroups, p.gameOver)) =
      some ([0x7#64], (true, .white)) ∧
    ((HState.run #[] (opening ++ [.clone 4, .movepre 3 (pf 1 0) 4])).heap.observe 5).map (·.bgroups) =
      some [0x9#64] := by
  decide

end C09
