import TakVerif.Impl.Alloc
namespace C09
theorem placeholder : True := trivial
end C09
