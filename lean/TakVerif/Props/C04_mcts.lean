import TakVerif.Proofs.MCTS

/-! # C04 (Monte-Carlo part) — the MCTS player returns a legal move; corner forcing

About `Tak.MCTS` (model of `ai/mcts/mcts.go` with `fixes/C04-mcts-corner.diff`).  Everything the property
does not depend on is an arbitrary `Oracle`: the clock (number of iterations), `math/rand`, the UCB
floats (which child `descend` follows), rollouts, `sort.Sort`. -/
set_option linter.unusedVariables false
set_option linter.unusedSimpArgs false
namespace C04
open Tak Tak.MCTS Proofs.MCTS

/-- **The Monte-Carlo player answers with a legal move.**  For every oracle with at least one completed
iteration (`time.Now().Before(deadline)` held once — limits ≥ 100 ms in the property's words), on every
position that has a legal move, with corner forcing off or past the first two plies: after the loop the
root's children are exactly the legal moves (the moves of `AllMoves` that `Move` accepts, in that order),
`GetMove` returns without panic, and its answer is one of them — so applying it succeeds.  `sort.Sort`
is only assumed to hand back children of the root (any permutation does). -/
theorem mcts_move_legal (basis : Array W) (o : Oracle) (p : Pos) (forceCorners : Bool)
    (hfc : ¬ (forceCorners = true ∧ p.move < 2))
    (hit : 1 ≤ o.iterations)
    (hlegal : legalChildren basis p ≠ [])
    (hsort : ∀ (a : Arena) (l : List Nat), l ≠ [] → o.sorted a l ≠ [] ∧ ∀ x ∈ o.sorted a l, x ∈ l) :
    ∃ m r q,
      getMove basis forceCorners o p = .ok m ∧
      p.apply basis m = .ok q ∧
      m ∈ (legalChildren basis p).map (·.1) ∧
      (loop basis o o.iterations 0 #[rootOf p])[0]? = some r ∧
      r.children.map (fun i => ((loop basis o o.iterations 0 #[rootOf p])[i]?).map (·.move))
        = ((legalChildren basis p).map (·.1)).map some := by
  have hL : (legalChildren basis p).map (·.1) ≠ [] := by simpa using hlegal
  obtain ⟨it, hit'⟩ : ∃ it, o.iterations = it + 1 := ⟨o.iterations - 1, by omega⟩
  have hI := loop_first basis o p hL it
  rw [← hit'] at hI
  obtain ⟨r, hr, hLm⟩ := hI.root
  -- membership: a child of the root carries a legal move
  have hchild : ∀ c ∈ r.children, ∃ n, (loop basis o o.iterations 0 #[rootOf p])[c]? = some n ∧
      n.move ∈ (legalChildren basis p).map (·.1) := by
    intro c hc
    have : (fun i => ((loop basis o o.iterations 0 #[rootOf p])[i]?).map (·.move)) c
        ∈ ((legalChildren basis p).map (·.1)).map some := by
      rw [← hLm]; exact List.mem_map_of_mem hc
    simp only [List.mem_map] at this
    obtain ⟨m, ⟨x, hx, rfl⟩, hm⟩ := this
    cases hn : (loop basis o o.iterations 0 #[rootOf p])[c]? with
    | none => simp [hn] at hm
    | some n =>
      simp only [hn, Option.map, Option.some.injEq] at hm
      exact ⟨n, rfl, by rw [← hm]; exact List.mem_map_of_mem hx⟩
  have hne : r.children ≠ [] := by
    intro h; rw [h] at hLm; simp at hLm; exact hL (by simpa using hLm.symm)
  unfold getMove
  rw [if_neg hfc]
  have hroot : ({ pos := p, move := { x := 0, y := 0, type := 0, slides := 0 } } : Node) = rootOf p := rfl
  simp only [hroot, hr]
  cases hc : r.children with
  | nil => exact absurd hc hne
  | cons c0 cs =>
    simp only
    obtain ⟨hs1, hs2⟩ := hsort (loop basis o o.iterations 0 #[rootOf p]) (c0 :: cs) (by simp)
    cases hk : o.sorted (loop basis o o.iterations 0 #[rootOf p]) (c0 :: cs) with
    | nil => exact absurd hk hs1
    | cons k0 ks =>
      simp only
      have hkids : ∀ x ∈ k0 :: ks, x ∈ r.children := by
        intro x hx; rw [hc]; exact hs2 x (by rw [hk]; exact hx)
      have hc0 : c0 ∈ r.children := by rw [hc]; simp
      have hbest : pickBest (loop basis o o.iterations 0 #[rootOf p]) o.tie (k0 :: ks) c0 0 ∈ r.children := by
        have := pickBest_mem (loop basis o o.iterations 0 #[rootOf p]) o.tie (k0 :: ks) c0 0
        rcases List.mem_cons.mp this with h | h
        · rw [h]; exact hc0
        · exact hkids _ h
      have hprov : pickProven (loop basis o o.iterations 0 #[rootOf p]) (k0 :: ks) k0 ∈ r.children := by
        have := pickProven_mem (loop basis o o.iterations 0 #[rootOf p]) (k0 :: ks) k0
        rcases List.mem_cons.mp this with h | h
        · rw [h]; exact hkids _ (by simp)
        · exact hkids _ h
      have hans : (if r.proven ≠ 0 then pickProven (loop basis o o.iterations 0 #[rootOf p]) (k0 :: ks) k0
          else pickBest (loop basis o o.iterations 0 #[rootOf p]) o.tie (k0 :: ks) c0 0) ∈ r.children := by
        split <;> assumption
      obtain ⟨n, hn, hmem⟩ := hchild _ hans
      obtain ⟨q, hq⟩ := legalChildren_legal basis p n.move hmem
      refine ⟨n.move, r, q, ?_, hq, hmem, rfl, hLm⟩
      simp only [hn]

/-- `populate` keeps exactly the legal candidates: a child is created for a generated move iff the rules
accept it, and its position is the successor -/
theorem populate_children_legal (basis : Array W) (p : Pos) (m : Move) (q : Pos) :
    (m, q) ∈ legalChildren basis p ↔ m ∈ p.allMoves ∧ p.apply basis m = .ok q := by
  simp only [legalChildren, List.mem_filterMap]
  constructor
  · rintro ⟨m0, hm0, h⟩
    cases ha : p.apply basis m0 with
    | error e => simp [ha] at h
    | ok q' =>
      simp only [ha, Option.some.injEq, Prod.mk.injEq] at h
      obtain ⟨h1, h2⟩ := h
      subst h1; subst h2
      exact ⟨hm0, ha⟩
  · rintro ⟨hm, ha⟩
    exact ⟨m, hm, by simp [ha]⟩

/-! ## corner forcing -/

/-- what `cornerMove` returns, whatever the random bits were: a flat placement on one of the four corner
squares, and that corner is empty -/
theorem corner_on_board (p : Pos) (bits : List Bool) (m : Move) (hs : 1 ≤ p.cfg.size ∧ p.cfg.size ≤ 8)
    (h : cornerMove p bits = .ok m) :
    ∃ row col : Nat, (row = 0 ∨ row = p.cfg.size - 1) ∧ (col = 0 ∨ col = p.cfg.size - 1) ∧
      m = { x := (row : Int), y := (col : Int), type := Facts.mtPlaceFlat, slides := 0 } ∧
      occupied p row col = false := by
  fun_induction cornerMove p bits with
  | case1 b1 b2 rest row col hocc ih => exact ih h
  | case2 b1 b2 rest row col hocc =>
    injection h with h
    refine ⟨row, col, ?_, ?_, ?_, ?_⟩
    · cases b1 <;> simp [row]
    · cases b2 <;> simp [col]
    · have hr : row ≤ 7 := by cases b1 <;> simp [row] <;> omega
      have hc : col ≤ 7 := by cases b2 <;> simp [col] <;> omega
      rw [← h, wrap8_small row hr, wrap8_small col hc]
    · simpa using hocc
  | case3 bits hne => cases h

/-- **The forced corner move is legal**: on a position of the first two plies (where corner forcing
applies) with stones left in reserve, the move `cornerMove` returns is accepted by the rule book
(`Spec.step` on the position's list-level reading) — for both random bits of every round, however many
rounds are drawn.  (With the pinned code, which answered `(row, row)`, this is false: `corpus/C04`.) -/
theorem corner_legal (p : Pos) (bits : List Bool) (m : Move)
    (hs : 3 ≤ p.cfg.size ∧ p.cfg.size ≤ 8) (hply : p.move < 2)
    (hres : p.whiteStones.toNat ≠ 0 ∧ p.blackStones.toNat ≠ 0)
    (h : cornerMove p bits = .ok m) :
    (Spec.step (Spec.abs p) (Spec.decode m)).isSome = true := by
  obtain ⟨row, col, hrow, hcol, hm, hocc⟩ := corner_on_board p bits m ⟨by omega, hs.2⟩ h
  subst hm
  have hr : row < p.cfg.size := by rcases hrow with h | h <;> omega
  have hc : col < p.cfg.size := by rcases hcol with h | h <;> omega
  have hidx : ((row : Int) + (col : Int) * (p.cfg.size : Int)).toNat = row + col * p.cfg.size := by
    have : (row : Int) + (col : Int) * (p.cfg.size : Int) = ((row + col * p.cfg.size : Nat) : Int) := by simp
    rw [this]; exact Int.toNat_natCast _
  have hlt : row + col * p.cfg.size < p.cfg.size * p.cfg.size := by
    have : col * p.cfg.size + p.cfg.size ≤ p.cfg.size * p.cfg.size := by
      have := Nat.mul_le_mul_right p.cfg.size (Nat.succ_le_of_lt hc)
      simpa [Nat.succ_mul] using this
    omega
  have hat : (Spec.abs p).at (row : Int) (col : Int) = [] := by
    unfold Spec.State.at Spec.State.idx
    simp only [Spec.abs, hidx]
    rw [List.getD_eq_getElem?_getD, List.getElem?_map, List.getElem?_range hlt]
    simp only [Option.map, Option.getD]
    exact squareAt_nil p _ (by simpa [occupied] using hocc)
  have hdec : Spec.decode { x := (row : Int), y := (col : Int), type := Facts.mtPlaceFlat, slides := 0 }
      = .place (row : Int) (col : Int) .flat := by
    simp [Spec.decode, Facts.mtPlaceFlat]
  rw [hdec]
  have hon : (Spec.abs p).onBoard (row : Int) (col : Int) = true := by
    simp [Spec.State.onBoard, Spec.abs]; omega
  have hply' : (Spec.abs p).ply < 2 := hply
  simp only [Spec.step, hon, hat, hply', Bool.not_true, Bool.false_eq_true, if_false, ne_eq, not_true_eq_false,
    and_false, List.isEmpty_nil, if_true]
  have hres' : ∀ c : Color, c ≠ .none → (Spec.abs p).reserve c false ≠ 0 := by
    intro c hc
    cases c with
    | white => simpa [Spec.State.reserve, Spec.abs] using hres.1
    | black => simpa [Spec.State.reserve, Spec.abs] using hres.2
    | none => exact absurd rfl hc
  have hmover : (Spec.abs p).toMove.flip ≠ Color.none := by
    unfold Spec.State.toMove
    split <;> simp [Color.flip]
  have := hres' _ hmover
  have hk : (Kind.flat == Kind.capstone) = false := by decide
  rw [hk]
  have hb : ((Spec.abs p).reserve (Spec.abs p).toMove.flip false == 0) = false := by simpa using this
  rw [hb]
  rfl

/-! ### the hypotheses are satisfiable -/

def exPos : Pos := match Pos.new { size := 3, pieces := 0, capstones := 0, blackWinsTies := false } with
  | .ok p => p
  | .error _ => default

example : cornerMove exPos [true, false] = .ok ⟨2, 0, Facts.mtPlaceFlat, 0⟩ := by rfl
example : (legalChildren (Array.replicate 64 0#64) exPos).length = 9 := by decide +kernel

end C04
