import TakVerif.Proofs.LegalShape
import TakVerif.Props.C17_client

/-! # C17, client side: the searcher contract in terms of legality

`client_server_bestmove_legal` (`Props/C17_client.lean`) assumes `SearcherCanonical`: on a live position the
searcher's principal variation starts with a move `Position.Move` accepts **and** that is a
`Notation.LegalShape`.  The second half is a statement about a decidable predicate on move values; here it is
derived from what the searching players actually guarantee:

* `SearcherLegal` — the PV head is accepted by `Position.Move` (the C04 contract), is not the internal pass and is in
  normal form (a placement carries no `Slides` word);
* `SearcherGenerated` — the PV head is accepted and is one of the moves `AllMoves` lists for the position (which is
  where every searching player takes its moves from); this implies `SearcherLegal` by C03/`C11.allMoves_legalShape`.

Normal form cannot be dropped from the contract: the engine prints the PV head with `FormatMove`, which prints a
stray `Slides` word of a placement, and the client's `ParseMove` rejects that text (`C11.ptn_junk_placement_not_roundtrip`). -/
set_option linter.unusedVariables false
namespace C17
open Tak Tak.TEI Tak.TEIClient Spec.TEIClient Spec.TEI Proofs.TEIClient Proofs.TEI Go Notation Tak.Proofs

/-- **the C04 contract**, as far as the TEI composition needs it: on a live position of a board of size 3..8 the PV is
non-empty and starts with a move that `Position.Move` accepts there, other than the pass, in normal form -/
def SearcherLegal (env : Env) : Prop :=
  ∀ k p b, 3 ≤ p.cfg.size → p.cfg.size ≤ 8 → p.gameOver.1 = false →
    ∃ m rest, (env.search k p b).pv = m :: rest ∧ (p.apply env.basis m).isOk = true ∧
      m.type ≠ Facts.mtPass ∧ isNormal m = true

/-- the PV head is accepted by `Position.Move` and was produced by the move generator -/
def SearcherGenerated (env : Env) : Prop :=
  ∀ k p b, 3 ≤ p.cfg.size → p.cfg.size ≤ 8 → p.gameOver.1 = false →
    ∃ m rest, (env.search k p b).pv = m :: rest ∧ (p.apply env.basis m).isOk = true ∧ m ∈ p.allMoves

/-- a searcher that answers with generated moves satisfies `SearcherLegal` -/
theorem searcherLegal_of_generated (env : Env) (h : SearcherGenerated env) : SearcherLegal env := by
  intro k p b h3 h8 hlive
  obtain ⟨m, rest, hpv, hok, hgen⟩ := h k p b h3 h8 hlive
  have hs := allMoves_legalShape' p h3 h8 m hgen
  exact ⟨m, rest, hpv, hok, legalShape_not_pass hs, (isNormal_iff m).2 (legalShape_normal hs)⟩

/-- **`SearcherCanonical` from legality**: on every board of size 3..8, a searcher whose PV head is accepted by
`Position.Move`, not the pass and normal returns a PV head of legal shape — `SearcherCanonical` restricted to the
board sizes that exist (`tak.New` refuses all others, and the engine's `parsePosition` builds nothing else). -/
theorem searcherCanonical_of_legal (env : Env) (h : SearcherLegal env) :
    ∀ k p b, 3 ≤ p.cfg.size → p.cfg.size ≤ 8 → p.gameOver.1 = false →
      ∃ m rest, (env.search k p b).pv = m :: rest ∧ (p.apply env.basis m).isOk = true ∧
        LegalShape p.cfg.size m := by
  intro k p b h3 h8 hlive
  obtain ⟨m, rest, hpv, hok, hnp, hn⟩ := h k p b h3 h8 hlive
  refine ⟨m, rest, hpv, hok, ?_⟩
  cases ha : p.apply env.basis m with
  | error e => rw [ha] at hok; cases hok
  | ok q =>
    have := apply_legalShape' env.basis p m q h3 h8 hnp ha
    rw [(isNormal_iff m).1 hn] at this
    exact this

/-- **On a live position the client returns a move that is legal there — from the C04 contract alone.**
`client_server_bestmove_legal` with `SearcherCanonical` replaced by `SearcherLegal`: the shape of the PV head is no
longer assumed but follows from its legality (`C11.apply_legalShape`). -/
theorem client_server_bestmove_legal_of_accepted (basis : Array W) (search : Nat → Pos → Option Int → SearchRes)
    (hS : SearcherLegal (realEnv basis search))
    (c : Conn EngSt) (pl : Player) (p : Pos) (rem : Option Int) (tc : Option TimeControl)
    (hp : tpsHyp basis p = true) (hrange : InRange rem (tc.getD {})) (hlong : ¬ TooShort rem (tc.getD {}))
    (hready : Ready c pl p.cfg.size) :
    ∃ tps p', TPS.formatTPS p = .ok tps ∧ TPS.parseTPS basis tps = .ok p' ∧
      (p'.equal p = true ∧ p'.hashOf = p.hashOf ∧ p'.toMove = p.toMove ∧ p'.move = p.move) ∧
      (p'.gameOver.1 = false →
        ∃ m c', teiGetMove (serverPeer (realEnv basis search)) c pl p rem tc = (c', .ok m) ∧
          (p'.apply basis m).isOk = true ∧ LegalShape p'.cfg.size m ∧ Ready c' pl p.cfg.size ∧
          c'.wrote = c.wrote ++ ["position tps " ++ str tps, goLine (goWords rem (tc.getD {}))]) := by
  obtain ⟨tps, p', h1, h2, h3, h4, _⟩ :=
    getMove_live basis search c pl p rem tc hp hrange hlong hready.alive hready.unread hready.game hready.size hready.mm
  have hsz : p'.cfg.size = p.cfg.size := by
    have heq := h3.1
    unfold Pos.equal at heq
    simp only [Bool.and_eq_true, beq_iff_eq] at heq
    exact heq.1.1.1.1.1.1.1
  have hn3 : 3 ≤ p.cfg.size := (TPS.tpsWF_of_hyp basis p hp).n3
  have hn8 : p.cfg.size ≤ 8 := (TPS.tpsWF_of_hyp basis p hp).n8
  refine ⟨tps, p', h1, h2, ⟨h3.1, h3.2.1, h3.2.2.2.2.2.2.1, h3.2.2.2.2.2.2.2⟩, ?_⟩
  intro hlive
  obtain ⟨m, rest, hpv, hlegal, hshape⟩ :=
    searcherCanonical_of_legal (realEnv basis search) hS (c.eng.k + 1) p' (goBudget p' (goArgs rem (tc.getD {})))
      (by rw [hsz]; exact hn3) (by rw [hsz]; exact hn8) hlive
  refine ⟨m, _, h4 m rest hpv hshape, hlegal, hshape, ?_, rfl⟩
  exact ⟨rfl, rfl, hready.game, hready.size, fun s hs => by simpa [connAfter] using hs.symm⟩

/-! ### non-vacuity: the example searcher of `C17_client` (always answers b2) on the 3×3 start position -/

example : (TPS.startPos 3 0).gameOver.1 = false ∧
    ((TPS.startPos 3 0).apply exBasis ⟨1, 1, Facts.mtPlaceFlat, 0#32⟩).isOk = true ∧
    (⟨1, 1, Facts.mtPlaceFlat, 0#32⟩ : Move).type ≠ Facts.mtPass ∧ isNormal ⟨1, 1, Facts.mtPlaceFlat, 0#32⟩ = true ∧
    (⟨1, 1, Facts.mtPlaceFlat, 0#32⟩ : Move) ∈ (TPS.startPos 3 0).allMoves := by decide +kernel

/-- a searcher that answers with the first generated move that `Position.Move` accepts satisfies `SearcherGenerated`
wherever some generated move is accepted (so the contract is satisfiable by an actual function, on every position
with a legal move) -/
def firstLegal (basis : Array W) : Nat → Pos → Option Int → SearchRes :=
  fun _ p _ => { depth := 1, elapsedMs := 0, nodes := 1, val := 0,
                 pv := (p.allMoves.filter (fun m => (p.apply basis m).isOk)).take 1 }

example (basis : Array W) (p : Pos) (b : Option Int) (k : Nat) (m : Move) (hm : m ∈ p.allMoves)
    (hok : (p.apply basis m).isOk = true) :
    ∃ m' rest, ((realEnv basis (firstLegal basis)).search k p b).pv = m' :: rest ∧
      (p.apply (realEnv basis (firstLegal basis)).basis m').isOk = true ∧ m' ∈ p.allMoves := by
  have hmem : m ∈ p.allMoves.filter (fun m => (p.apply basis m).isOk) := List.mem_filter.2 ⟨hm, hok⟩
  cases hl : p.allMoves.filter (fun m => (p.apply basis m).isOk) with
  | nil => rw [hl] at hmem; cases hmem
  | cons m' ms =>
    have h' : m' ∈ p.allMoves.filter (fun m => (p.apply basis m).isOk) := by rw [hl]; exact List.mem_cons_self
    obtain ⟨h1, h2⟩ := List.mem_filter.1 h'
    exact ⟨m', [], by simp [realEnv, firstLegal, hl], h2, h1⟩

end C17
