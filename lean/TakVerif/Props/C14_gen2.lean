import TakVerif.Props.C14_gen
import TakVerif.Generated.FuncsSymMove

set_option linter.unusedSimpArgs false

/-! Tie #1 for C14, second round: `symmetry.TransformMove` itself is regenerated from the source
(`Generated/FuncsSymMove.lean`): a function-typed parameter (`s Symmetry`), the struct copy `unit := m` with a field
update, the two panicking callees `tak.MkSlides(1)` and `unit.Dest()` (bound in front of the statements that use them),
and the `default: panic(...)` arm.  The model's `transformMove` - the function `C14.transformMove_spec` and the
equivariance theorems are about - is the regenerated function applied to the map `s.app size` (any composition of the
eight regenerated closures, `symBasic_is_source`), for every move whose type is a byte. -/
namespace C14
open Tak GenMove

/-- a result of the model (`.error` = one of the two Go panics) as the regenerated function reports it -/
def genR : R Move → Option Gen.Move
  | .ok r => some (genMove r)
  | .error _ => none

theorem mkSlides_one : Gen.mkSlides #[(1 : Int)] = some 1#32 := by decide

/-- `TransformMove(s, m)` -/
theorem transformMove_is_source (size : Nat) (s : Symm) (m : Move) (h : m.type < 256) :
    Gen.transformMove (fun x y => s.app size x y) (genMove m) = genR (transformMove size s m) := by
  unfold Gen.transformMove transformMove
  rw [← isSlide_is_source m h, mkSlides_one]
  have hgt : decide ((genMove m).Type_ > 8#8) = decide (m.type > Facts.mtSlideDown) := by
    simp only [genMove, Facts.mtSlideDown, gt_iff_lt, BitVec.lt_def, BitVec.toNat_ofNat, decide_eq_decide]
    rw [Nat.mod_eq_of_lt h]
  rw [hgt]
  have hd : Gen.moveDest { genMove m with Slides := 1#32 } = Move.dest { m with slides := 1#32 } := by
    rw [dest_is_source { m with slides := 1#32 } h]; rfl
  simp only [hd]
  generalize s.app size = f
  simp only [show (genMove m).X = m.x from rfl, show (genMove m).Y = m.y from rfl,
    show (genMove m).Slides = m.slides from rfl, show (genMove m).Type_ = BitVec.ofNat 8 m.type from rfl]
  generalize f m.x m.y = o
  obtain ⟨ox, oy⟩ := o
  cases hsl : (!m.isSlide || decide (m.type > Facts.mtSlideDown))
  · simp only [Bool.false_eq_true, ↓reduceIte]
    cases hdest : Move.dest { m with slides := 1#32 } with
    | none => simp [genR]
    | some d =>
      obtain ⟨ux, uy⟩ := d
      simp only []
      generalize f ux uy = q
      obtain ⟨dx, dy⟩ := q
      simp only [genMove]
      by_cases c1 : (dx == ox && decide (dy > oy)) = true
      · simp [c1, genR, genMove, Facts.mtSlideUp]
      · by_cases c2 : (dx == ox && decide (dy < oy)) = true
        · simp [c1, c2, genR, genMove, Facts.mtSlideDown]
        · by_cases c3 : (decide (dx < ox) && dy == oy) = true
          · simp [c1, c2, c3, genR, genMove, Facts.mtSlideLeft]
          · by_cases c4 : (decide (dx > ox) && dy == oy) = true
            · simp [c1, c2, c3, c4, genR, genMove, Facts.mtSlideRight]
            · simp [c1, c2, c3, c4, genR]
  · simp [genR, genMove]

example : Gen.transformMove (Gen.symmetries 5 6) { X := 1, Y := 0, Type_ := 7#8, Slides := 0x12#32 } =
    some { X := 0, Y := 3, Type_ := 6#8, Slides := 0x12#32 } := by decide
example : Gen.transformMove (Gen.symmetries 5 6) { X := 1, Y := 0, Type_ := 0#8, Slides := 0#32 } =
    some { X := 0, Y := 3, Type_ := 0#8, Slides := 0#32 } := by decide

end C14
