import TakVerif.Impl.DFPN
namespace C06
/-- placeholder until the real theorems land -/
theorem saturatingAdd_zero (l : UInt32) : Tak.PN.saturatingAdd l 0 = l := by
  simp [Tak.PN.saturatingAdd]
end C06
