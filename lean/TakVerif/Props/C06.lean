import TakVerif.Proofs.C06Verdict
import TakVerif.Proofs.C06Sched
import TakVerif.Proofs.C06Bridge

/-! # C06 — proof-number solver verdicts agree with the game-theoretic truth

The solvers are the executable models `Tak.PN.prove` (`Impl/PN.lean`, mirror of `prove/pn.go` with
the depth-limit fix) and `Tak.DFPN.prove` (`Impl/DFPN.lean`), written over an abstract game
`G : Game S M` and instantiated with the bit-level Tak model by `takGame`.  The truth is
`Spec.Game.ForcedWin G att s` (`Spec/ForcedWin.lean`): the least fixed point of "the attacker can
force a win", with a third occurrence of a position on the path counting against the attacker;
`PlainWin` is the same without the repetition clause.

Standing assumptions on the game (`GameOK`): the players alternate (`Alternating`), the attacker is
White or Black, fewer than 2³² moves per position.  Assumption on a run: the ghost flag `anomaly`
of the final state is `false` — it is raised when the search expands or renumbers a node that was
already solved, which the selection rule does only after a 32-bit sum of proof numbers has saturated
at `MaxUint32` (never seen; not excluded by a theorem).
-/
namespace C06
open Tak Tak.PN Spec.Game

variable {S M : Type} [Inhabited M] (G : Game S M) (att : Color)

/-- **Every number in the tree is sound.**  After `Prover.prove()` (any node limit, depth limit,
PN² on or off, preserve-solved on or off, any amount of fuel), for every node `n` of the tree — standing
for position `s`, reached from the root along `h` —: proof number 0 ⇒ the attacker has a (plain)
forced win at `s`; disproof number 0 ⇒, unless `MaxDepth` has cut the tree, the attacker has no forced
win at `s` given the path `h` (a third occurrence counts against the attacker). -/
theorem pn_numbers_sound (hg : GameOK G att) (fuel : Nat) (cfg : PN.Cfg) (pos : S) (st : St S M)
    (hroot : G.toMove pos = att)
    (hrun : proveState G att fuel cfg pos = .ok st) (hghost : st.anomaly = false)
    {h : List S} {s : S} {n : Node M} (hn : NodeAt G st.focus pos h s n) :
    (n.proof = 0 → PlainWin G att s) ∧
    (st.depthLimited = false → n.disproof = 0 → ¬ Win G att h s) := by
  obtain ⟨_, _, _, ht⟩ := proveState_ok G att hg fuel cfg pos st hroot hrun hghost
  have := treeOK_nodeAt G att ht hn
  rw [TreeOK_iff] at this
  exact ⟨this.1.proof, this.1.disproof⟩

omit [Inhabited M] in
/-- **Any schedule.**  The invariant behind `pn_numbers_sound` (`ZipOK`: every node of the tree, in
and around the cursor, is sound) is preserved by each primitive tree operation applied anywhere and
in any order (`Step`: cursor down to any child / up, expand the unsolved leaf under the cursor,
renumber the node under the cursor with or without dropping its children, PN² cut-back, any change of
limits and statistics) — so soundness does not depend on the most-proving selection, on node limits or
on when the second-level searches of PN² start and stop. -/
theorem pn_numbers_sound_any_schedule (hg : GameOK G att) (root : S) {st st' : St S M}
    (hz : ZipOK G att root st) (hsteps : Steps G att st st') : ZipOK G att root st' :=
  steps_ok G att root hg.alt hg.att (SmallBranching.smallFrom hg.small root) hz hsteps

/-- **'proven' is sound**: the attacker has a forced win (plain least fixed point). -/
theorem pn_proven_sound (hg : GameOK G att) (fuel : Nat) (cfg : PN.Cfg) (pos : S) (st : St S M)
    (hroot : G.toMove pos = att)
    (hrun : proveState G att fuel cfg pos = .ok st) (hghost : st.anomaly = false)
    (hres : (readResult st).1.result = .proven) : PlainWin G att pos := by
  obtain ⟨_, _, _, ht⟩ := proveState_ok G att hg fuel cfg pos st hroot hrun hghost
  exact readResult_proven G att st pos hroot ht hres

/-- **'disproven' is sound**: the attacker has no forced win (a draw, play without end and a third
occurrence of a position on the path all count against the attacker).  With the depth-limit fix this
needs no hypothesis on `MaxDepth`: a run in which the limit cut the tree answers `unknown`. -/
theorem pn_disproven_sound (hg : GameOK G att) (fuel : Nat) (cfg : PN.Cfg) (pos : S) (st : St S M)
    (hroot : G.toMove pos = att)
    (hrun : proveState G att fuel cfg pos = .ok st) (hghost : st.anomaly = false)
    (hres : (readResult st).1.result = .disproven) : ¬ ForcedWin G att pos := by
  obtain ⟨_, _, _, ht⟩ := proveState_ok G att hg fuel cfg pos st hroot hrun hghost
  exact readResult_disproven G att st pos hroot ht hres

/-- **The move returned with 'proven' begins a win**: it is a generated, legal move and the attacker
still has a forced win in the position it leads to. -/
theorem pn_move_sound (hg : GameOK G att) (fuel : Nat) (cfg : PN.Cfg) (pos : S) (st : St S M)
    (hroot : G.toMove pos = att)
    (hrun : proveState G att fuel cfg pos = .ok st) (hghost : st.anomaly = false)
    (hres : (readResult st).1.result = .proven) (m : M) (hm : (readResult st).1.move = some m) :
    m ∈ G.moves pos ∧ ∃ s', G.apply pos m = some s' ∧ PlainWin G att s' := by
  obtain ⟨_, _, _, ht⟩ := proveState_ok G att hg fuel cfg pos st hroot hrun hghost
  exact readResult_move G att st pos hroot ht hres m hm

omit [Inhabited M] in
/-- **The two notions of truth agree at the root**: when `G.equal` only identifies positions the
rules cannot tell apart, a plain forced win is a forced win under the repetition rule (a strategy
that always steps to a position of least rank never repeats); the converse is `Win.plain`. -/
theorem plainWin_forcedWin (hb : EqualIsBisim G) {s : S} (w : PlainWin G att s) : ForcedWin G att s :=
  plainWin_win_nil G att hb w

/-- 'proven' in the terms of the property: a forced win under the repetition rule. -/
theorem pn_proven_forcedWin (hg : GameOK G att) (hb : EqualIsBisim G) (fuel : Nat) (cfg : PN.Cfg) (pos : S)
    (st : St S M) (hroot : G.toMove pos = att)
    (hrun : proveState G att fuel cfg pos = .ok st) (hghost : st.anomaly = false)
    (hres : (readResult st).1.result = .proven) : ForcedWin G att pos :=
  plainWin_forcedWin G att hb (pn_proven_sound G att hg fuel cfg pos st hroot hrun hghost hres)

/-! ### the same, with the assumptions asked only of what a search from the root can reach

`GameOK` and `EqualIsBisim` quantify over every value of the position type; an instance whose type
also has malformed values (the bit-level Tak position) satisfies them only on the positions that play
from the root can reach (`Reach G pos`: generated moves that the rules accept).  The solver never
holds any other position, so that is all the theorems need (`GameOKFrom`, `EqualIsBisimFrom`); the
versions above are the special case "everywhere". -/

theorem pn_numbers_sound_from {pos : S} (hg : GameOKFrom G att pos) (fuel : Nat) (cfg : PN.Cfg) (st : St S M)
    (hroot : G.toMove pos = att)
    (hrun : proveState G att fuel cfg pos = .ok st) (hghost : st.anomaly = false)
    {h : List S} {s : S} {n : Node M} (hn : NodeAt G st.focus pos h s n) :
    (n.proof = 0 → PlainWin G att s) ∧
    (st.depthLimited = false → n.disproof = 0 → ¬ Win G att h s) := by
  obtain ⟨_, _, _, ht⟩ := proveState_ok_from G att hg fuel cfg st hroot hrun hghost
  have := treeOK_nodeAt G att ht hn
  rw [TreeOK_iff] at this
  exact ⟨this.1.proof, this.1.disproof⟩

theorem pn_proven_sound_from {pos : S} (hg : GameOKFrom G att pos) (fuel : Nat) (cfg : PN.Cfg) (st : St S M)
    (hroot : G.toMove pos = att)
    (hrun : proveState G att fuel cfg pos = .ok st) (hghost : st.anomaly = false)
    (hres : (readResult st).1.result = .proven) : PlainWin G att pos := by
  obtain ⟨_, _, _, ht⟩ := proveState_ok_from G att hg fuel cfg st hroot hrun hghost
  exact readResult_proven G att st pos hroot ht hres

theorem pn_disproven_sound_from {pos : S} (hg : GameOKFrom G att pos) (fuel : Nat) (cfg : PN.Cfg) (st : St S M)
    (hroot : G.toMove pos = att)
    (hrun : proveState G att fuel cfg pos = .ok st) (hghost : st.anomaly = false)
    (hres : (readResult st).1.result = .disproven) : ¬ ForcedWin G att pos := by
  obtain ⟨_, _, _, ht⟩ := proveState_ok_from G att hg fuel cfg st hroot hrun hghost
  exact readResult_disproven G att st pos hroot ht hres

theorem pn_move_sound_from {pos : S} (hg : GameOKFrom G att pos) (fuel : Nat) (cfg : PN.Cfg) (st : St S M)
    (hroot : G.toMove pos = att)
    (hrun : proveState G att fuel cfg pos = .ok st) (hghost : st.anomaly = false)
    (hres : (readResult st).1.result = .proven) (m : M) (hm : (readResult st).1.move = some m) :
    m ∈ G.moves pos ∧ ∃ s', G.apply pos m = some s' ∧ PlainWin G att s' := by
  obtain ⟨_, _, _, ht⟩ := proveState_ok_from G att hg fuel cfg st hroot hrun hghost
  exact readResult_move G att st pos hroot ht hres m hm

omit [Inhabited M] in
theorem plainWin_forcedWin_from {pos : S} (hb : EqualIsBisimFrom G pos) (w : PlainWin G att pos) :
    ForcedWin G att pos :=
  plainWin_win_nil_from G att hb w

theorem pn_proven_forcedWin_from {pos : S} (hg : GameOKFrom G att pos) (hb : EqualIsBisimFrom G pos)
    (fuel : Nat) (cfg : PN.Cfg) (st : St S M) (hroot : G.toMove pos = att)
    (hrun : proveState G att fuel cfg pos = .ok st) (hghost : st.anomaly = false)
    (hres : (readResult st).1.result = .proven) : ForcedWin G att pos :=
  plainWin_forcedWin_from G att hb (pn_proven_sound_from G att hg fuel cfg st hroot hrun hghost hres)

/-! ### the hypotheses are satisfiable: a toy game, solved by the model inside the kernel -/

/-- take 1 or 2 from a pile; whoever takes the last one wins -/
def toy : Game (Nat × Bool) Nat where
  moves := fun _ => [1, 2]
  apply := fun (p, w) k => if k ≤ p then some (p - k, !w) else none
  over := fun (p, w) => if p = 0 then some (if w then .black else .white) else none
  toMove := fun (_, w) => if w then .white else .black
  equal := fun a b => a == b
  reversible := fun _ _ => false

def toyCfg : PN.Cfg := { maxNodes := 0, preserveSolved := false, pn2 := false, maxDepth := 0 }

example : GameOK toy .white where
  alt := { binary := fun (_, w) => by cases w <;> simp [toy]
           flips := fun (p, w) m (p', w') h => by
             simp only [toy] at h ⊢
             split at h
             · injection h with h; injection h with _ h2; subst h2; cases w <;> rfl
             · exact absurd h (by simp) }
  att := Or.inl rfl
  small := fun _ => by simp [toy]

/-- a run that ends 'proven' with the ghost flag down (pile of 4, White to move: take 1) -/
example : (match proveState toy .white 1000 toyCfg (4, true) with
    | .ok st => !st.anomaly && (readResult st).1.result == .proven && (readResult st).1.move == some 1
    | .error _ => false) = true := by decide +kernel

/-- a run that ends 'disproven' (pile of 3: every move lets Black win) -/
example : (match proveState toy .white 1000 toyCfg (3, true) with
    | .ok st => !st.anomaly && (readResult st).1.result == .disproven
    | .error _ => false) = true := by decide +kernel

end C06
