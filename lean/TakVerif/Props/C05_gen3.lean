import TakVerif.Impl.Minimax
import TakVerif.Generated.FuncsMoveIter

/-! Tie #1 for the MOVE GENERATOR of the search (`ai/moves.go` `moveGenerator.Next`, regenerated into `Generated/FuncsMoveIter.lean`
by translator round 6, `gen/iter.go`; used by C05, C04, C16 whose theorems are about `Impl/MoveGen.lean` / `Impl/Minimax.lean`).

`Gen.moveGeneratorNext` is a state machine: generator state `(i, ms, ms == nil, r)` → `(move, child, state)`; its three oracle
parameters are instantiated here from the model's game: `p.AllMoves` = `g.allMoves p`, `p.MovePreallocated(m, …)` = `g.apply p m`
(`applyOracle`), `sortMoves` = any function.  The game's moves are the regenerated `Gen.Move` with `g.moveEq = Gen.moveEqual`.

Proved (for ALL states of the list stage `i ≥ 4`, every list `ms`, every hint configuration, every engine state with `ply < 15`):
* `genLoop_list`: one round of the regenerated loop at `i = 4 + j` in the model's vocabulary (`skipGen`: the three de-duplication
  tests of `Impl/MoveGen.lean`, `g.apply`);
* `genLoop_scan` / **`next_list_is_source`**: a call of the regenerated `Next` in the list stage returns exactly `scan`: the first
  generated move from index `j` on that is not a hint and that the position accepts, with its child and `i = index + 5`; or the
  zero move and `nil` with `i = len + 5` when the list is exhausted.  The whitelist fuel suffices (never `none` for lack of fuel).
* `scan_runList`: `scan` is one step of the model's `runList` (the `default:` stage of `iterate`): the bridge from the state
  machine to the fold the search theorems are about, for the list stage.
`next_iterate_statement` (driving `Next` from `i = 0` through the hint stages equals `iterate`) is stated here and proved in
`Props/C05_gen4.lean`. -/
namespace C05
open Search

section iter
variable {P : Type}

/-- the oracle view of `mg.p.MovePreallocated(m, buf)` given by the model's `apply` -/
def applyOracle (g : Game P Gen.Move) (p : P) (m : Gen.Move) : Option P × Bool :=
  match g.apply p m with
  | .ok c => (some c, true)
  | .error _ => (none, false)

/-- the loop of the regenerated `Next` with its views read off the model's generator literal and engine state -/
def genLoop (g : Game P Gen.Move) (cfg : SOpts) (sortv : Array Gen.Move → Array Gen.Move) (p : P) (mg : MG Gen.Move) (s : Eng Gen.Move)
    (fuel : Nat) (st : Int × Array Gen.Move × Bool × Gen.Move) :=
  Gen.moveGeneratorNext_loop0 cfg.noSort s.response s.stackM mg.depth (g.allMoves p).toArray false (applyOracle g p) (mg.ply : Int)
    mg.pv.toArray sortv mg.te.isNone ((mg.te.map (·.m)).getD default) fuel st

theorem teEq_gen (g : Game P Gen.Move) (hEq : g.moveEq = Gen.moveEqual) (mg : MG Gen.Move) (m : Gen.Move) :
    ((!mg.te.isNone) && Gen.moveEqual ((mg.te.map (·.m)).getD default) m) = mg.teEq g m := by
  unfold MG.teEq; cases mg.te <;> simp [hEq]

theorem pvEq_gen (g : Game P Gen.Move) (hEq : g.moveEq = Gen.moveEqual) (mg : MG Gen.Move) (m : Gen.Move) :
    ((Int.ofNat mg.pv.toArray.size != 0) && Gen.moveEqual (mg.pv.toArray.getD 0 default) m) = mg.pvEq g m := by
  unfold MG.pvEq
  cases mg.pv with
  | nil => simp
  | cons x xs =>
    have : (Int.ofNat (x :: xs).toArray.size != 0) = true := by simp; omega
    simp [hEq]; omega

theorem genLoop_list (g : Game P Gen.Move) (hEq : g.moveEq = Gen.moveEqual) (cfg : SOpts) (sortv) (p : P) (mg : MG Gen.Move)
    (s : Eng Gen.Move) (hply : mg.ply < 15) (n j : Nat) (ms : Array Gen.Move) (b : Bool) (r : Gen.Move) :
    genLoop g cfg sortv p mg s (n + 1) ((4 : Int) + j, ms, b, r) =
      if h : j < ms.size then
        if skipGen g mg r ms[j] then genLoop g cfg sortv p mg s n ((5 : Int) + j, ms, b, r)
        else match g.apply p ms[j] with
          | .ok c => some (.error (ms[j], some c, ((5 : Int) + j, ms, b, r)))
          | .error _ => genLoop g cfg sortv p mg s n ((5 : Int) + j, ms, b, r)
      else some (.error (default, none, ((5 : Int) + j, ms, b, r))) := by
  unfold genLoop
  rw [Gen.moveGeneratorNext_loop0]
  have h0 : ((4 : Int) + j == 0) = false := by simp; omega
  have h1 : ((4 : Int) + j == 1) = false := by simp; omega
  have h2 : ((4 : Int) + j == 2) = false := by simp; omega
  have h3 : ((4 : Int) + j == 3) = false := by simp; omega
  simp only [h0, h1, h2, h3, Bool.false_eq_true, if_false]
  have e4 : (4 : Int) + j - 4 = j := by omega
  have e5 : (4 : Int) + j + 1 = 5 + j := by omega
  rw [e4, e5]
  simp only [Int.toNat_natCast]
  by_cases h : j < ms.size
  · have c1 : decide ((j : Int) ≥ Int.ofNat ms.size) = false := by simp; omega
    have c2 : (!(decide (0 ≤ (j : Int)) && decide ((j : Int) < Int.ofNat ms.size))) = false := by simp; omega
    have gd : ms.getD j default = ms[j] := by simp [Array.getD_eq_getD_getElem?, h]
    have pvg : (Int.ofNat mg.pv.toArray.size != 0 && !decide (0 < mg.pv.toArray.size)) = false := by cases mg.pv <;> simp
    have plyg : (!(decide (0 ≤ (mg.ply : Int)) && decide ((mg.ply : Int) < 15))) = false := by simp; omega
    have teg : (!mg.te.isNone && mg.te.isNone) = false := by cases mg.te.isNone <;> rfl
    simp only [dif_pos h, c1, c2, pvg, plyg, teg, teEq_gen g hEq, pvEq_gen g hEq, Bool.false_eq_true, if_false]
    unfold skipGen applyOracle
    rw [hEq]
    cases mg.teEq g ms[j] <;> cases mg.pvEq g ms[j] <;> cases Gen.moveEqual r ms[j] <;> simp
    cases g.apply p ms[j] <;> simp
  · have c1 : decide ((j : Int) ≥ Int.ofNat ms.size) = true := by simp; omega
    simp only [dif_neg h, c1, if_true]
    rfl

/-- what the list stage of `Next` yields from index `j` on, in the model's vocabulary: the first generated move that is not one of the
hints (`skipGen`) and that the position accepts, with its child and its index; `(zero move, none, index)` when the list is exhausted -/
def scan (g : Game P Gen.Move) (p : P) (mg : MG Gen.Move) (r : Gen.Move) (ms : Array Gen.Move) : Nat → Nat → Gen.Move × Option P × Nat
  | 0, j => (default, none, j)
  | n + 1, j =>
    if h : j < ms.size then
      if skipGen g mg r ms[j] then scan g p mg r ms n (j + 1)
      else match g.apply p ms[j] with
        | .ok c => (ms[j], some c, j)
        | .error _ => scan g p mg r ms n (j + 1)
    else (default, none, j)

theorem genLoop_scan (g : Game P Gen.Move) (hEq : g.moveEq = Gen.moveEqual) (cfg : SOpts) (sortv) (p : P) (mg : MG Gen.Move)
    (s : Eng Gen.Move) (hply : mg.ply < 15) (ms : Array Gen.Move) (b : Bool) (r : Gen.Move) :
    ∀ (d j n : Nat), ms.size - j = d → d < n →
      genLoop g cfg sortv p mg s n ((4 : Int) + j, ms, b, r) =
        some (.error ((scan g p mg r ms (d + 1) j).1, (scan g p mg r ms (d + 1) j).2.1,
          ((5 : Int) + (scan g p mg r ms (d + 1) j).2.2, ms, b, r))) := by
  intro d
  induction d with
  | zero =>
    intro j n hd hn
    obtain ⟨n', rfl⟩ : ∃ n', n = n' + 1 := ⟨n - 1, by omega⟩
    have h : ¬ j < ms.size := by omega
    rw [genLoop_list g hEq cfg sortv p mg s hply, dif_neg h]
    simp [scan, h]
  | succ d ih =>
    intro j n hd hn
    obtain ⟨n', rfl⟩ : ∃ n', n = n' + 1 := ⟨n - 1, by omega⟩
    have h : j < ms.size := by omega
    have e : (5 : Int) + j = 4 + ((j + 1 : Nat) : Int) := by omega
    have ih' := ih (j + 1) n' (by omega) (by omega)
    have su : scan g p mg r ms (d + 1 + 1) j =
        if skipGen g mg r ms[j] then scan g p mg r ms (d + 1) (j + 1)
        else match g.apply p ms[j] with
          | .ok c => (ms[j], some c, j)
          | .error _ => scan g p mg r ms (d + 1) (j + 1) := by
      rw [scan, dif_pos h]
    rw [genLoop_list g hEq cfg sortv p mg s hply, dif_pos h, su]
    cases skipGen g mg r ms[j]
    · cases g.apply p ms[j]
      · simp only [Bool.false_eq_true, if_false]; rw [e, ih']
      · simp
    · simp only [if_true]; rw [e, ih']
end iter

section top
variable {P : Type}

/-- **the list stage of `Next` is the model's scan** - for every game on `Gen.Move` whose `moveEq` is the regenerated `Move.Equal`,
every generator literal (`te`, `pv`, `ply < 15`, `depth`), engine state, list `ms`, index `j` and remembered response move `r`:
the regenerated `moveGenerator.Next` called with `mg.i = 4 + j` returns (never panics, never runs out of fuel) the move, child
and counter that `scan` describes, and leaves `ms`, its nil-ness and `r` alone. -/
theorem next_list_is_source (g : Game P Gen.Move) (hEq : g.moveEq = Gen.moveEqual) (cfg : SOpts) (sortv : Array Gen.Move → Array Gen.Move)
    (p : P) (mg : MG Gen.Move) (s : Eng Gen.Move) (hply : mg.ply < 15) (ms : Array Gen.Move) (b : Bool) (r : Gen.Move) (j : Nat) :
    Gen.moveGeneratorNext cfg.noSort s.response s.stackM mg.depth ((4 : Int) + j) ms b (g.allMoves p).toArray false (applyOracle g p)
        (mg.ply : Int) mg.pv.toArray r sortv mg.te.isNone ((mg.te.map (·.m)).getD default) =
      some ((scan g p mg r ms (ms.size - j + 1) j).1, (scan g p mg r ms (ms.size - j + 1) j).2.1,
        (5 : Int) + (scan g p mg r ms (ms.size - j + 1) j).2.2, ms, b, r) := by
  unfold Gen.moveGeneratorNext
  have h := genLoop_scan g hEq cfg sortv p mg s hply ms b r (ms.size - j) j (ms.size + (g.allMoves p).toArray.size + 6) rfl (by omega)
  unfold genLoop at h
  simp only [h]

/-- the first candidate `runList` hands to the loop body, as `scan` finds it: index, move, child -/
theorem scan_runList {σ ρ : Type} (g : Game P Gen.Move) (p : P) (mg : MG Gen.Move) (r : Gen.Move) (ms : Array Gen.Move)
    (body : Gen.Move → P → σ → Eng Gen.Move → Except Tak.Err (Ctl σ ρ × Eng Gen.Move))
    (hNoPanic : ∀ m e, g.apply p m = .error e → ∃ t, e = .illegal t) (a : σ) (s : Eng Gen.Move) :
    ∀ (d j : Nat), ms.size - j = d →
      runList g p body (skipGen g mg r) (ms.toList.drop j) a s =
        match scan g p mg r ms (d + 1) j with
        | (m, some c, k) => Ctl.andThen (body m c a s) (runList g p body (skipGen g mg r) (ms.toList.drop (k + 1)))
        | (_, none, _) => .ok (.next a, s) := by
  intro d
  induction d with
  | zero =>
    intro j hd
    have h : ¬ j < ms.size := by omega
    have e : ms.toList.drop j = [] := by simp; omega
    rw [e, scan, dif_neg h]; rfl
  | succ d ih =>
    intro j hd
    have h : j < ms.size := by omega
    have e : ms.toList.drop j = ms[j] :: ms.toList.drop (j + 1) := by
      rw [List.drop_eq_getElem_cons (by simpa using h)]; simp
    rw [e, scan, dif_pos h, runList]
    cases hs : skipGen g mg r ms[j]
    · simp only [Bool.false_eq_true, if_false, tryMove]
      cases ha : g.apply p ms[j] with
      | ok c => simp
      | error er =>
        obtain ⟨t, rfl⟩ := hNoPanic _ _ ha
        simp only [Ctl.andThen]
        exact ih (j + 1) (by omega)
    · simp only [if_true]
      exact ih (j + 1) (by omega)

/-- `for m, child := mg.Next(); child != nil; m, child = mg.Next() { body }` with the regenerated `Next`: the generator state is threaded
from call to call, every call reads the CURRENT engine state (response map, frame moves); `sortMoves` is the model's ordering oracle,
and a call that passed `case 3` with sorting switched on has used it up (`sorts + 1`).  `n` bounds the number of calls. -/
def driveNext {σ ρ : Type} (g : Game P Gen.Move) (cfg : SOpts) (o : Oracle Gen.Move) (p : P) (mg : MG Gen.Move)
    (body : Gen.Move → P → σ → Eng Gen.Move → Except Tak.Err (Ctl σ ρ × Eng Gen.Move)) :
    Nat → Int × Array Gen.Move × Bool × Gen.Move → σ → Eng Gen.Move → Except Tak.Err (Ctl σ ρ × Eng Gen.Move)
  | 0, _, _, _ => .error (.hang "moveGenerator.Next")
  | n + 1, st, a, s =>
    match Gen.moveGeneratorNext cfg.noSort s.response s.stackM mg.depth st.1 st.2.1 st.2.2.1 (g.allMoves p).toArray false (applyOracle g p)
        (mg.ply : Int) mg.pv.toArray st.2.2.2 (fun ms => (o.order s.sorts ms.toList).toArray) mg.te.isNone ((mg.te.map (·.m)).getD default) with
    | none => .error (.panic "moveGenerator.Next")
    | some (m, child, st') =>
      let s' := if st.1 ≤ 3 && st'.1 ≥ 5 && mg.depth > 1 && !cfg.noSort then { s with sorts := s.sorts + 1 } else s
      match child with
      | none => .ok (.next a, s')
      | some c =>
        match body m c a s' with
        | .ok (.next a', s'') => driveNext g cfg o p mg body n st' a' s''
        | other => other

/-- **driving the regenerated `Next` from `Reset` is the model's `iterate`** (`i = 0`, `ms == nil`, enough calls), for every loop body.
PROVED in `Props/C05_gen4.lean` (`next_iterate`).  Two hypotheses were added to the statement as gen6 left it, because without them it is
false (`C05.next_iterate_unrestricted_false` exhibits a counterexample for the first):
* `hord`: the ordering oracle does not lengthen the list (`sort.Sort` permutes; the model's `Oracle.order` is an arbitrary function, and
  on a longer list `len(AllMoves) + 5` calls - and the whitelist fuel of `Next` - do not suffice);
* `hbody`: the loop body keeps the 15 frames of `ai.stack` (the regenerated `Next` reads `ai.stack[ply-1].m` after a STATIC bound check
  against the array type, the model's `respLookup` checks the length of `stackM`; the search's bodies only assign `stack[ply].m`). -/
def next_iterate_statement : Prop :=
  ∀ (σ ρ : Type) (g : Game P Gen.Move) (cfg : SOpts) (o : Oracle Gen.Move) (p : P) (mg : MG Gen.Move)
    (body : Gen.Move → P → σ → Eng Gen.Move → Except Tak.Err (Ctl σ ρ × Eng Gen.Move)) (a : σ) (s : Eng Gen.Move),
    g.moveEq = Gen.moveEqual → g.zeroMove = default → mg.ply < 15 → s.stackM.size = 15 →
    (∀ m e, g.apply p m = .error e → ∃ t, e = .illegal t) →
    (∀ k l, (o.order k l).length ≤ l.length) →
    (∀ m c a s x, s.stackM.size = 15 → body m c a s = .ok x → x.2.stackM.size = 15) →
    driveNext g cfg o p mg body ((g.allMoves p).length + 5) (0, #[], true, default) a s = iterate g cfg o p mg body a s

/-- the statement as gen6 left it (no hypothesis on the ordering oracle or on the body): refuted in `Props/C05_gen4.lean` -/
def next_iterate_unrestricted : Prop :=
  ∀ (σ ρ : Type) (g : Game P Gen.Move) (cfg : SOpts) (o : Oracle Gen.Move) (p : P) (mg : MG Gen.Move)
    (body : Gen.Move → P → σ → Eng Gen.Move → Except Tak.Err (Ctl σ ρ × Eng Gen.Move)) (a : σ) (s : Eng Gen.Move),
    g.moveEq = Gen.moveEqual → g.zeroMove = default → mg.ply < 15 → s.stackM.size = 15 →
    (∀ m e, g.apply p m = .error e → ∃ t, e = .illegal t) →
    driveNext g cfg o p mg body ((g.allMoves p).length + 5) (0, #[], true, default) a s = iterate g cfg o p mg body a s

end top

/-- a concrete instance: the table move is skipped in the list, the next generated move is yielded with its child -/
example : (Gen.moveGeneratorNext (C_Position := Nat) true [] #[] 1 4
    #[{ X := 0, Y := 0, Type_ := 2#8, Slides := 0#32 }, { X := 1, Y := 0, Type_ := 2#8, Slides := 0#32 }] false #[] false
    (fun m => (some m.X.toNat, true)) 0 #[] default (fun x => x) false { X := 0, Y := 0, Type_ := 2#8, Slides := 0#32 }).map
      (fun r => (r.1, r.2.1, r.2.2.1)) = some ({ X := 1, Y := 0, Type_ := 2#8, Slides := 0#32 }, some 1, 6) := by
  decide

end C05
