import TakVerif.Props.C03_gen
import TakVerif.Props.C08_gen3

/-! Tie #1 for C03, third round: completeness of the regenerated generator against the **regenerated**
`MovePreallocated` - both sides of "every move the engine is willing to apply is one of the generated moves" are now
functions `gen` reads out of `tak/move.go` (`Gen.positionAllMoves`, bridged in `C03_gen`; `Gen.movePreallocated`,
bridged in `C01_gen3`). -/
namespace C03
open Tak GenMove GenApply

/-- **every non-pass raw move the regenerated `MovePreallocated` accepts is `Equal` to an entry of the slice the
regenerated `AllMoves` returns** (`allMoves_complete_engine` transported through both bridges) -/
theorem gen_allMoves_complete_gen_engine (basis : Array W) (p : Pos) (hB : p.cfg.size * p.cfg.size ≤ basis.size)
    (wf : Tak.Proofs.WFlite p) (hH : p.cfg.size * p.cfg.size ≤ p.height.size) (hS : p.cfg.size * p.cfg.size ≤ p.stacks.size)
    (m : Tak.Move) (nextNil : Bool) (hm : m.type < 256) (hnp : m.type ≠ Facts.mtPass) (t : NextT)
    (h : genApply basis p (genMove m) nextNil = some (.ok t)) :
    ∃ ms, Gen.positionAllMoves genTable p.black p.height p.white p.blackCaps p.cfg.size p.move p.whiteCaps #[] = some ms ∧
      ∃ m', genMove m' ∈ ms.toList ∧ m'.equal m = true := by
  obtain ⟨q, hq, _⟩ := C08.gen_ok_is_apply basis p hB m nextNil wf.size_hi hH hS hm t h
  obtain ⟨m', hm', he⟩ := allMoves_complete_engine basis p wf m q hnp hq
  refine ⟨_, allMoves_is_source p wf.size_hi hH, m', ?_, he⟩
  simp only [enc, List.mem_map]
  exact ⟨m', hm', rfl⟩

example : ∃ t, genApply (Array.replicate 64 0#64) exPos (genMove ⟨0, 0, Facts.mtSlideRight, 1#32⟩) true = some (.ok t) := by
  have h : genApply (Array.replicate 64 0#64) exPos (genMove ⟨0, 0, Facts.mtSlideRight, 1#32⟩) true =
      encR (exPos.apply (Array.replicate 64 0#64) ⟨0, 0, Facts.mtSlideRight, 1#32⟩) :=
    C01.movePreallocated_is_source _ exPos (by decide +kernel) _ true (by decide +kernel) (by decide +kernel) (by decide +kernel) (by decide)
  cases ha : exPos.apply (Array.replicate 64 0#64) ⟨0, 0, Facts.mtSlideRight, 1#32⟩ with
  | ok q => rw [h, ha]; exact ⟨_, rfl⟩
  | error e =>
    have : (exPos.apply (Array.replicate 64 0#64) ⟨0, 0, Facts.mtSlideRight, 1#32⟩).toBool = true := by decide +kernel
    rw [ha] at this; cases this

end C03
