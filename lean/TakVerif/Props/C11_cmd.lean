import TakVerif.Props.C11
import TakVerif.Props.C12
import TakVerif.Impl.CmdImport
import TakVerif.Impl.CmdCanon

/-!
# C11 (and C12) at a consumer: `taktician import-ptn` (`cmd/internal/importptn`)

`Tak.CmdImport` mirrors `importOne`, the worker loop and the two queries of the command.  The theorems carry the
agreement of the notations to what ends up in the `ptns` table:

* `importOne_spec`: a row whose notation is the comma-separated playtak spelling (`FormatServer`, blanks around a
  piece allowed) of moves of legal shape becomes `Render` of the seven (eight with a clock) tags and `AddMoves` of
  exactly these moves — `ParseServer ∘ FormatServer = id` (C11) move by move.
* `importOne_rejects`: one piece `ParseServer` rejects and the row yields no text, whatever the other pieces are.
* `import_reads_back`: the text of such a row, read by `ParsePTN` (with or without a byte-order mark), gives back the
  row's tags and exactly the row's moves (C12's `render_parse_games`): the wire notation of playtak.com and the PTN the
  tools read denote the same game.
* `worker_independent`: what a worker sends for a list of rows is row by row what `importOne` gives for that row alone:
  a rejected row contributes nothing and changes nothing for the rows after it (no state is carried over).
* `worker_skips_rejected`: the same, spelled out for one bad row in the middle. -/
namespace C11
open Tak Tak.CmdImport Go Notation
open _root_.PTN (File Op Tag)

/-- `words` spell `ms` on the wire: every piece, trimmed of blanks, is `FormatServer` of a move of legal shape -/
inductive Spelled : List Bytes → List Tak.Move → Prop where
  | nil : Spelled [] []
  | cons {w : Bytes} {m : Tak.Move} {ws : List Bytes} {ms : List Tak.Move} (size : Nat) :
      trimBlanks w = Server.formatServer m → LegalShape size m → Spelled ws ms → Spelled (w :: ws) (m :: ms)

theorem moveOps_spelled (dt : Int → Bytes × Bytes) {words : List Bytes} {ms : List Tak.Move} (h : Spelled words ms) :
    ∀ i, moveOps (takEnv dt) i words = .ok (PTN.addMovesFrom i ms) := by
  induction h with
  | nil => intro i; rfl
  | cons size hw hs _ ih =>
    intro i
    have hp : (takEnv dt).parseServer (Server.formatServer _) = .ok _ := server_rt size _ hs
    simp only [moveOps, hw, hp, ih (i + 1), PTN.addMovesFrom]

/-- **a well-spelled row becomes the PTN of its moves** -/
theorem importOne_spec (dt : Int → Bytes × Bytes) (penv : PTN.Env) (g : GameRow) (ms : List Tak.Move)
    (hne : g.notn ≠ []) (hsp : Spelled (Go.split 44 g.notn) ms) :
    importOne (takEnv dt) penv g =
      .ok (some (PTN.render penv (File.addMoves ⟨formatTags (takEnv dt) g, []⟩ ms))) := by
  have he : g.notn.isEmpty = false := by cases h : g.notn with | nil => exact absurd h hne | cons _ _ => rfl
  simp only [importOne, he, Bool.false_eq_true, if_false, moveOps_spelled dt hsp 0, File.addMoves, List.nil_append]

theorem moveOps_rejects (env : Env) (bad : Bytes) (e : Err) (hbad : env.parseServer (trimBlanks bad) = .error e) :
    ∀ (pre : List Bytes) (i : Nat) (post : List Bytes), (∀ w ∈ pre, ∃ m, env.parseServer (trimBlanks w) = .ok m) →
      moveOps env i (pre ++ bad :: post) = .error e
  | [], i, post, _ => by simp only [List.nil_append, moveOps, hbad]
  | w :: pre, i, post, h => by
    obtain ⟨m, hm⟩ := h w (List.mem_cons_self ..)
    simp only [List.cons_append, moveOps, hm,
      moveOps_rejects env bad e hbad pre (i + 1) post (fun w hw => h w (List.mem_cons_of_mem _ hw))]

/-- **one bad piece rejects the row**: the first piece `ParseServer` refuses is the row's error -/
theorem importOne_rejects (env : Env) (penv : PTN.Env) (g : GameRow) (pre post : List Bytes) (bad : Bytes) (e : Err)
    (hne : g.notn ≠ []) (hsplit : Go.split 44 g.notn = pre ++ bad :: post)
    (hpre : ∀ w ∈ pre, ∃ m, env.parseServer (trimBlanks w) = .ok m)
    (hbad : env.parseServer (trimBlanks bad) = .error e) :
    importOne env penv g = .error e := by
  have he : g.notn.isEmpty = false := by cases h : g.notn with | nil => exact absurd h hne | cons _ _ => rfl
  simp only [importOne, he, Bool.false_eq_true, if_false, hsplit, moveOps_rejects env bad e hbad pre 0 post hpre]

/-! ## the worker -/

/-- what one row contributes to the `ptns` table -/
def contribution (env : Env) (penv : PTN.Env) (g : GameRow) : Option (Int × Bytes) :=
  match importOne env penv g with
  | .ok (some text) => if text.isEmpty then none else some (g.id, text)
  | _ => none

/-- the row does not bring the process down (`ParseServer` returns) -/
def Returns (env : Env) (penv : PTN.Env) (g : GameRow) : Prop :=
  ∀ e, importOne env penv g = .error e → ∃ w, e = .illegal w

/-- **rows are converted independently**: the rows a worker sends are, in order, the contributions of the single rows -/
theorem worker_independent (env : Env) (penv : PTN.Env) :
    ∀ rows : List GameRow, (∀ g ∈ rows, Returns env penv g) →
      worker env penv rows = .ok (rows.filterMap (contribution env penv))
  | [], _ => rfl
  | g :: rest, h => by
    have ih := worker_independent env penv rest (fun g hg => h g (List.mem_cons_of_mem _ hg))
    have hg := h g (List.mem_cons_self ..)
    unfold worker
    cases hi : importOne env penv g with
    | error e =>
      obtain ⟨w, rfl⟩ := hg e hi
      simp only [ih, List.filterMap_cons, contribution, hi]
    | ok o =>
      cases o with
      | none => simp only [ih, List.filterMap_cons, contribution, hi]
      | some text =>
        cases ht : text.isEmpty with
        | true => simp only [ht, if_true, ih, List.filterMap_cons, contribution, hi]
        | false => simp only [ht, Bool.false_eq_true, if_false, ih, List.filterMap_cons, contribution, hi]

/-- a rejected row in the middle is skipped and the rows after it are converted as if it were not there -/
theorem worker_skips_rejected (env : Env) (penv : PTN.Env) (pre post : List GameRow) (bad : GameRow) (w : String)
    (hbad : importOne env penv bad = .error (.illegal w))
    (hpre : ∀ g ∈ pre, Returns env penv g) (hpost : ∀ g ∈ post, Returns env penv g) :
    worker env penv (pre ++ bad :: post) = worker env penv (pre ++ post) := by
  have hb : Returns env penv bad := fun e he => by rw [hbad] at he; cases he; exact ⟨w, rfl⟩
  rw [worker_independent env penv (pre ++ bad :: post) (by
        intro g hg
        simp only [List.mem_append, List.mem_cons] at hg
        rcases hg with hg | rfl | hg
        · exact hpre g hg
        · exact hb
        · exact hpost g hg),
      worker_independent env penv (pre ++ post) (by
        intro g hg
        simp only [List.mem_append] at hg
        rcases hg with hg | hg
        · exact hpre g hg
        · exact hpost g hg)]
  simp only [List.filterMap_append, List.filterMap_cons, contribution, hbad]

/-! ## reading the text back -/

theorem movesOf_clearSrc : ∀ ops : List Op, CmdCanon.movesOf (ops.map Op.clearSrc) = CmdCanon.movesOf ops
  | [] => rfl
  | .move _ m _ :: rest => by simp only [List.map_cons, Op.clearSrc, CmdCanon.movesOf, movesOf_clearSrc rest]
  | .moveNumber .. :: rest => by simp only [List.map_cons, Op.clearSrc, CmdCanon.movesOf, movesOf_clearSrc rest]
  | .comment .. :: rest => by simp only [List.map_cons, Op.clearSrc, CmdCanon.movesOf, movesOf_clearSrc rest]
  | .result .. :: rest => by simp only [List.map_cons, Op.clearSrc, CmdCanon.movesOf, movesOf_clearSrc rest]

theorem movesOf_addMovesFrom : ∀ (ms : List Tak.Move) (i : Nat), CmdCanon.movesOf (PTN.addMovesFrom i ms) = ms
  | [], _ => rfl
  | m :: ms, i => by
    simp only [PTN.addMovesFrom]
    split <;> simp [CmdCanon.movesOf, movesOf_addMovesFrom ms (i + 1)]

theorem addMovesFrom_gameOps : ∀ (ms : List Tak.Move) (i : Nat), (∀ m ∈ ms, ∃ size, LegalShape size m) →
    i + ms.length < 2 ^ 62 →
    ∀ op ∈ PTN.addMovesFrom i ms,
      match op with
      | .moveNumber _ n => -(2 ^ 63 : Int) ≤ n ∧ n < 2 ^ 63
      | .move _ m mods => (∃ size, LegalShape size m) ∧ mods.all PTN.isModifier = true ∧ mods.length ≤ 65523
      | .comment _ c => c.all (· != 125) = true ∧ c.length ≤ 65534
      | .result _ r => PTN.matchResult r = true
  | [], _, _, _ => by intro op hop; simp [PTN.addMovesFrom] at hop
  | m :: ms, i, hl, hb => by
    intro op hop
    simp only [PTN.addMovesFrom, List.mem_append, List.mem_cons, List.mem_nil_iff, or_false] at hop
    simp only [List.length_cons] at hb
    rcases hop with (hop | hop) | hop
    · split at hop
      · simp only [List.mem_cons, List.mem_nil_iff, or_false] at hop
        subst hop
        simp only
        have : i / 2 + 1 < 2 ^ 62 := by omega
        refine ⟨by omega, by omega⟩
      · simp at hop
    · subst hop
      exact ⟨hl m (List.mem_cons_self ..), rfl, by simp⟩
    · exact addMovesFrom_gameOps ms (i + 1) (fun m hm => hl m (List.mem_cons_of_mem _ hm)) (by omega) op hop

theorem spelled_shapes {words : List Bytes} {ms : List Tak.Move} (h : Spelled words ms) :
    ∀ m ∈ ms, ∃ size, LegalShape size m := by
  induction h with
  | nil => intro m hm; cases hm
  | cons size _ hs _ ih =>
    intro m hm
    simp only [List.mem_cons] at hm
    rcases hm with rfl | hm
    · exact ⟨size, hs⟩
    · exact ih m hm

/-- **the imported text is the row's game**: for a well-spelled row whose tag values the text form can carry (no `"`
or `]` in the names, result and calendar strings) `ParsePTN` reads the text the command stores — with or without a
byte-order mark — as a file with the row's tags whose moves are exactly the moves the playtak notation spelled -/
theorem import_reads_back (basis : Array W) (dt : Int → Bytes × Bytes) (g : GameRow) (ms : List Tak.Move)
    (hne : g.notn ≠ []) (hsp : Spelled (Go.split 44 g.notn) ms) (hlen : ms.length < 2 ^ 62)
    (htags : ∀ t ∈ formatTags (takEnv dt) g, PTN.tagSafe t = true) :
    ∃ text f, importOne (takEnv dt) (PTN.realEnv basis) g = .ok (some text) ∧
      PTN.parsePTN (PTN.realEnv basis) text = .ok f ∧
      PTN.parsePTN (PTN.realEnv basis) (0xEF :: 0xBB :: 0xBF :: text) = .ok f ∧
      f.tags = formatTags (takEnv dt) g ∧ CmdCanon.movesOf f.ops = ms := by
  have hgf : C12.GameFile (File.addMoves ⟨formatTags (takEnv dt) g, []⟩ ms) := by
    refine ⟨htags, ?_⟩
    simp only [File.addMoves, List.nil_append]
    exact addMovesFrom_gameOps ms 0 (spelled_shapes hsp) (by omega)
  obtain ⟨f, h1, h2, h3, h4⟩ := C12.render_parse_games basis _ hgf
  refine ⟨_, f, importOne_spec dt (PTN.realEnv basis) g ms hne hsp, h1, h2, h3, ?_⟩
  rw [← movesOf_clearSrc, h4, movesOf_clearSrc]
  simp only [File.addMoves, List.nil_append, movesOf_addMovesFrom]

/-! ## a concrete row (evaluated by the kernel) -/

def exRow : GameRow :=
  { id := 7, date := 1486326678000, size := 5, playerWhite := lit "nelhage", playerBlack := lit "Guest3179",
    notn := lit "P A1, P E5,M A1 B1 1", result := lit "R-0", timerTime := 1200, timerInc := 5 }

def exDT : Int → Bytes × Bytes := fun _ => (lit "2017.02.05", lit "20:31:18")

/-- the pieces of `exRow` spell two placements and a slide, and every tag is clean -/
example : Spelled (Go.split 44 exRow.notn)
    [⟨0, 0, Facts.mtPlaceFlat, 0#32⟩, ⟨4, 4, Facts.mtPlaceFlat, 0#32⟩, ⟨0, 0, Facts.mtSlideRight, 1#32⟩] ∧
    (∀ t ∈ formatTags (takEnv exDT) exRow, PTN.tagSafe t = true) :=
  ⟨.cons 5 (by decide) (by decide) (.cons 5 (by decide) (by decide) (.cons 5 (by decide) (by decide) .nil)), by decide⟩

set_option maxRecDepth 20000 in
/-- its text; a row with a lower-case piece is rejected; `Execute` on the two rows imports the first only, and a second
run adds nothing -/
example :
    (match importOne (takEnv exDT) (PTN.realEnv (Array.replicate 64 0#64)) exRow with
      | .ok (some text) => text == lit
        "[Site \"playtak.com\"]\n[Date \"2017.02.05\"]\n[Time \"20:31:18\"]\n[Player1 \"nelhage\"]\n[Player2 \"Guest3179\"]\n[Result \"R-0\"]\n[Size \"5\"]\n[Clock \"20:00 +5\"]\n\n\n1. a1 e5\n2. a1>\n"
      | _ => false) = true ∧
    (match importOne (takEnv exDT) (PTN.realEnv (Array.replicate 64 0#64)) { exRow with id := 8, notn := lit "P A1,p e5" } with
      | .error (.illegal _) => true | _ => false) = true ∧
    (match execute (takEnv exDT) (PTN.realEnv (Array.replicate 64 0#64))
        { games := [{ exRow with id := 8, notn := lit "P A1,p e5" }, exRow], ptns := [] } with
      | .ok db => db.ptns.map (·.1) == [7] &&
          (match execute (takEnv exDT) (PTN.realEnv (Array.replicate 64 0#64)) db with
           | .ok db' => db'.ptns == db.ptns | .error _ => false)
      | .error _ => false) = true := by decide

end C11
