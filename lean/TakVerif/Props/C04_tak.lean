import TakVerif.Props.C04_ab
import TakVerif.Props.C05_tak

/-! # C04 (alpha-beta part) for the Tak instance

`Props/C04_ab.lean` proves `getMove_legal` for an abstract game under `GameOK`, `EvalBounded`, `Live`.  Here for
`Search.takGame basis ev sym` with hypotheses about the position and the engine state only (see the header of
`Props/C05_tak.lean` for `GoodPos`, `EvBounded`, `EngGood IMt`).  `C04.next_legal`, `yields_legal` and
`getMoveFrom_legal` need no hypothesis about the game at all and apply to `takGame` as they stand. -/
namespace C04
open Search Tak

variable {P M : Type} [DecidableEq M]

/-- `getMove_legal` on a domain (the generic theorem applied to the restricted game, carried over by `getMove_sim`) -/
theorem getMove_legal_restr {g : Game P M} {S : Nat → P → Prop} {IM : M → Prop} (hR : Restr g S IM)
    (hO : RestrOK g S IM) (hb : ∀ q, S 0 q → Facts.minEval ≤ g.eval q ∧ g.eval q ≤ Facts.maxEval)
    (hlive : ∀ p, S 1 p → g.over p = false → kids g p ≠ [])
    {cfg : Search.Cfg} (hpr : Precise cfg.opts) {o : Oracle M} (hnc : NoCancel o) (hord : OrderOK o)
    (p : P) (hp : S Facts.maxDepth p) (hov : g.over p = false) (hdepth : 1 ≤ cfg.depth)
    (hdmax : cfg.depth ≤ Facts.maxDepth) (s : Eng M) (hs : s.hasTable = false) (hgood : EngGood IM s) :
    Sat (getMove g cfg o p s) (fun x => (∃ c, g.apply p x.1 = .ok c) ∧ EngGood IM x.2) := by
  have h0 : S 0 p := hR.anti_le (Nat.zero_le _) hp
  have hgen := getMove_legal (gameOK_restrict hR hO) (evalBounded_restrict (IM := IM) hb) hpr hnc hord
    (⟨p, h0⟩ : {p // S 0 p}) hov hdepth
    (fun d _ h2 => live_restrict hR hlive d ⟨p, h0⟩ (hR.anti_le (by omega) hp)) s hs
  obtain ⟨e, hsat⟩ := getMove_sim hR cfg hpr.nn o hord ⟨p, h0⟩ hp s hgood
  rw [e] at hgen
  intro x hx
  obtain ⟨c', hc'⟩ := hgen x hx
  exact ⟨⟨c'.val, (restrict_apply_inv hc').2⟩, hsat x hx⟩

/-- **`analyze_pv_head_legal` on Tak**: the first move of the PV `Analyze` returns for a good unfinished position is
accepted by `MovePreallocated` (no table, precise options, any move order, any stale non-pass hints) -/
theorem analyze_pv_head_legal_tak (basis : Array W) (ev : Pos → Int) (sym : Pos → List H) (hev : EvBounded basis ev)
    {cfg : Search.Cfg} (hpr : Precise cfg.opts) {o : Oracle Move} (hnc : NoCancel o) (hord : OrderOK o)
    (p : Pos) (hp : GoodPos basis p) (hply : p.move + 15 ≤ 2000000) (hov : p.gameOver.1 = false)
    (hdepth : 1 ≤ cfg.depth) (hdmax : cfg.depth ≤ 15)
    (s : Eng Move) (hs : s.hasTable = false) (hgood : EngGood IMt s) :
    Sat (analyze (takGame basis ev sym) cfg o p s) (fun x => ∃ m rest c, x.1.1 = m :: rest ∧ p.apply basis m = .ok c) := by
  refine (C05.analyze_exact_tak basis ev sym hev hpr hnc hord p hp hply hov hdepth hdmax s hs hgood).mono ?_
  rintro x ⟨_, _, _, _, _, ⟨m, rest, c, h1, h2, _⟩, _⟩
  exact ⟨m, rest, c, h1, h2⟩

/-- **`getMove_legal` on Tak**: `GetMove` on a good unfinished position returns a move `MovePreallocated` accepts —
with and without the randomised choice, for every random stream, every move order, any stale non-pass hints (no
table, precise options) — and leaves the engine without pass hints -/
theorem getMove_legal_tak (basis : Array W) (ev : Pos → Int) (sym : Pos → List H) (hev : EvBounded basis ev)
    {cfg : Search.Cfg} (hpr : Precise cfg.opts) {o : Oracle Move} (hnc : NoCancel o) (hord : OrderOK o)
    (p : Pos) (hp : GoodPos basis p) (hply : p.move + 15 ≤ 2000000) (hov : p.gameOver.1 = false)
    (hdepth : 1 ≤ cfg.depth) (hdmax : cfg.depth ≤ 15)
    (s : Eng Move) (hs : s.hasTable = false) (hgood : EngGood IMt s) :
    Sat (getMove (takGame basis ev sym) cfg o p s) (fun x => (∃ c, p.apply basis x.1 = .ok c) ∧ EngGood IMt x.2) :=
  getMove_legal_restr (takRestr basis ev sym TakD (some 2000000) (domClosed_takD basis))
    (takRestrOK basis ev sym TakD (some 2000000)) (tak_evBounded basis ev sym TakD (fun _ h => h) hev)
    (tak_live basis ev sym TakD (some 2000000) (fun _ h => h)) hpr hnc hord p
    (goodPos_rank basis hp (by have : Facts.maxDepth = 15 := rfl; omega)) hov hdepth
    (by have : Facts.maxDepth = 15 := rfl; omega) s hs hgood

/-- the hypotheses are met by the 3×3 position of `C05.ExTak` and a new engine with a randomisation window; the model
returns the winning placement a3 -/
example : GoodPos C05.ExTak.basis C05.ExTak.mid ∧ C05.ExTak.mid.gameOver.1 = false ∧
    (match getMove (takGame C05.ExTak.basis evalMat) { C05.ExTak.cfg with randomizeWindow := 50 } Oracle.quiet
        C05.ExTak.mid (Eng.new (takGame C05.ExTak.basis evalMat) C05.ExTak.cfg) with
      | .ok (m, _) => some m
      | .error _ => none) = some ⟨0, 2, Facts.mtPlaceFlat, 0⟩ :=
  ⟨C05.ExTak.mid_good, by decide +kernel, by decide +kernel⟩

end C04
