import TakVerif.Impl.Symmetry
import TakVerif.Generated.FuncsSym

/-! Tie #1 for C14: the eight coordinate maps of `symmetry/canonical.go` `symmetries(size)` (closures over `flip`)
are regenerated from the source on every run (`Gen.symmetries size k`, one definition per closure, in slice order);
the hand-written `symBasic` the C14 theorems speak about is proved equal to them, map for map, for every size and
all `int8` coordinates (`int8` arithmetic = `Int` with `wrap8` after every step on both sides). -/
namespace C14
open Tak

/-- `flip := func(i int8) int8 { return int8(size) - 1 - i }` -/
theorem symFlip_is_source (size : Nat) (i : Int) : symFlip size i = Gen.symmetries_flip (size : Int) i := rfl

/-- the `k`-th closure returned by `symmetries(size)` -/
theorem symBasic_is_source (size : Nat) (k : Fin 8) (x y : Int) :
    symBasic size k x y = Gen.symmetries (size : Int) k x y := by
  match k with
  | 0 => rfl
  | 1 => rfl
  | 2 => rfl
  | 3 => rfl
  | 4 => rfl
  | 5 => rfl
  | 6 => rfl
  | 7 => rfl

example : Gen.symmetries 5 6 1 0 = (0, 3) ∧ symBasic 5 6 1 0 = (0, 3) := by decide

end C14
