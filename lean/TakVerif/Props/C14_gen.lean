import TakVerif.Impl.Symmetry
import TakVerif.Generated.FuncsSym
import TakVerif.Proofs.GenMove

/-! Tie #1 for C14: the eight coordinate maps of `symmetry/canonical.go` `symmetries(size)` (closures over `flip`)
are regenerated from the source on every run (`Gen.symmetries size k`, one definition per closure, in slice order);
the hand-written `symBasic` the C14 theorems speak about is proved equal to them, map for map, for every size and
all `int8` coordinates (`int8` arithmetic = `Int` with `wrap8` after every step on both sides).  `Move.IsSlide` and
`Move.Dest` (with `Slides.Len`), which `TransformMove` calls, are regenerated from `tak/move.go`, `tak/slide.go`. -/
namespace C14
open Tak

/-- `flip := func(i int8) int8 { return int8(size) - 1 - i }` -/
theorem symFlip_is_source (size : Nat) (i : Int) : symFlip size i = Gen.symmetries_flip (size : Int) i := rfl

/-- the `k`-th closure returned by `symmetries(size)` -/
theorem symBasic_is_source (size : Nat) (k : Fin 8) (x y : Int) :
    symBasic size k x y = Gen.symmetries (size : Int) k x y := by
  match k with
  | 0 => rfl
  | 1 => rfl
  | 2 => rfl
  | 3 => rfl
  | 4 => rfl
  | 5 => rfl
  | 6 => rfl
  | 7 => rfl

example : Gen.symmetries 5 6 1 0 = (0, 3) ∧ symBasic 5 6 1 0 = (0, 3) := by decide

/-- `m.IsSlide()` as `TransformMove` uses it -/
theorem isSlide_is_source (m : Move) (h : m.type < 256) : m.isSlide = Gen.moveIsSlide (GenMove.genMove m) :=
  GenMove.isSlide_is_source m h

/-- `unit.Dest()` in `TransformMove` (`none` = `panic("bad type")`; `Slides.Len`'s loop fuel: `GenMove.slidesLen_fuel`) -/
theorem dest_is_source (m : Move) (h : m.type < 256) : m.dest = Gen.moveDest (GenMove.genMove m) :=
  GenMove.dest_is_source m h

example : Gen.moveDest (GenMove.genMove ⟨2, 2, 7, 1#32⟩) = some (2, 3) := by decide

end C14
