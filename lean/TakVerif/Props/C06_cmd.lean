import TakVerif.Props.C06
import TakVerif.Proofs.CmdAnalyze
import TakVerif.Proofs.TakAlternating
import TakVerif.Proofs.CmdCorpus
import TakVerif.Proofs.TakGamePN

/-!
# C06 at its consumers: `taktician analyze -prove / -dfpn` and `taktician gencorpus -analysis dfpn`

**analyze** (`Impl/CmdAnalyze.lean`).  The `-prove` analyzer builds a new `Prover` for every position it is handed and
prints `value=WIN | DRAW|LOSE | UNKNOWN`; the `-dfpn` analyzer likewise with a new `DFPNSolver` (attacker from
`-attacker`).
* `analyze_solver_reports` — whatever the flags and the file: every solver report the command prints shows exactly what
  the solver returned for the position the report is about, under the configuration the flags prescribe (and by
  `C12.analyze_position_spec` / `analyze_all_spec` that position is the one the flags select).
* `printed_win_iff` — the printed word is `WIN` iff the solver said *proven*, `DRAW|LOSE` iff *disproven*.
* `analyze_prove_sound` — hence, with the PN model plugged in (`Tak.PN.takProve`): a printed `WIN` is a forced win of the
  side to move of the analysed position, the printed move begins it, and a printed `DRAW|LOSE` means there is no forced
  win (`C06.pn_proven_sound`, `pn_move_sound`, `pn_disproven_sound` applied to the run behind the report).

**gencorpus** (`Impl/CmdCorpus.lean`).  One worker = one solver per side to move (after `fixes/C06-gencorpus-attacker.diff`).
* `corpus_label_attacker_is_mover` — every entry a worker sends was obtained from a solver whose attacker is the side to
  move of the labelled position, and the label is `+1` iff that solver said *proven*.
* `corpus_labels_independent_of_other_colour` — the entries of the positions with side to move `c` are exactly those of a
  lone solver with attacker `c` fed only these positions: positions of the other colour arriving in between change nothing.
* `corpus_pinned_label_depends_on_order` — the defect of the pinned tree, in the model of the pinned worker (one solver,
  attacker unset): the same two positions get different labels in the two orders of arrival; the position whose side to
  move wins is labelled `-1` when it comes second.  (On the real code: `corpus/C06/gencorpus-attacker.ops`.)
* `corpus_win_label_sound_partial` — a label `+1` is a forced win of the side to move, GIVEN that the depth-first
  solver's *proven* is sound for its attacker.  That hypothesis is not a theorem of this framework (C06 proves soundness
  for plain / two-level PN search; the depth-first solver is tied by correspondence and compared with the retrograde
  truth on every run); the full statement is `corpus_win_label_sound_statement`. -/
namespace C06
open Tak Tak.PN Spec.Game

section analyze
open Tak.CmdAnalyze
variable {E : Type}

/-- **every solver report shows what the solver returned for the position it is about** -/
theorem analyze_solver_reports (env : PTN.Env) (eng : Engines E) (f : Flags) (input : PTN.Bytes) :
    (∀ p out stats, Item.pnResult p out stats ∈ (execute env eng f input).1 →
      eng.pn (pnCfg f) p = .ok (out, stats)) ∧
    (∀ p att out stats, Item.dfpnResult p att out stats ∈ (execute env eng f input).1 →
      parseAttacker f.attacker = some att ∧ eng.dfpn att (dfpnEntries f.tableMem) p = .ok (out, stats)) := by
  constructor
  · intro p out stats hi
    rcases execute_items env eng f input _ hi with ⟨_, _, h⟩ | ⟨q, h⟩
    · cases h
    · exact h.1 ▸ h.2
  · intro p att out stats hi
    rcases execute_items env eng f input _ hi with ⟨_, _, h⟩ | ⟨q, h⟩
    · cases h
    · exact h.1 ▸ h.2

/-- the verdict word both solver analyzers print -/
theorem printed_win_iff (r : Tak.PN.Eval) :
    (resultWord r = "WIN" ↔ r = .proven) ∧ (resultWord r = "DRAW|LOSE" ↔ r = .disproven) ∧
    (resultWord r = "UNKNOWN" ↔ r = .unknown) := by
  cases r <;> decide

/-- the second line of a `-prove` report starts with `value=` and that word -/
theorem pn_report_text (env : PTN.Env) (p : Pos) (out : Tak.PN.Result Move) (stats : Tak.PN.Stats) :
    ∃ rest, Item.render env (.pnResult p out stats) = ["PN search analysis:", "value=" ++ resultWord out.result ++ rest] :=
  ⟨_, rfl⟩

/-- **a printed `WIN` of `analyze -prove` is a forced win.**  With the PN model as the prover (`Tak.PN.takProve`, the
object of `C06.pn_proven_sound`), for every `-prove` report the command prints (any flags, any file, with or without
`-all`): there is a run `st` of the prover on the reported position from which the report was read, and — unless the
ghost flag of that run is up (see `Props/C06.lean`) —
`WIN` ⇒ the side to move there has a forced win; the printed move is legal and keeps it;
`DRAW|LOSE` ⇒ the side to move has no forced win (draws and repetitions count against it).
All of C06's standing assumptions on the game are PROVED for the Tak instance on the positions a search from the
reported position can reach (`takGame_okFrom`, `Proofs/TakGamePN.lean`: alternation — `Position.Move` adds one to the ply
counter and nothing else touches it —, the attacker is a colour, and `|AllMoves| ≤ size²·1020 < 2³²` on boards up to 8×8,
`allMoves_length`; play never changes the configuration).  What is asked is only that the reported position is on a board
of size ≤ 8 (`h8`): the sizes `tak.New` accepts (`new_size_le`) — for a malformed position value with a huge `cfg.size` the
bound on the number of generated moves is false. -/
theorem analyze_prove_sound (env : PTN.Env) (eng : Engines E) (f : Flags) (input : PTN.Bytes)
    (basis : Array W) (fuel : Nat) (heng : ∀ cfg p, eng.pn cfg p = Tak.PN.takProve basis fuel cfg p)
    (p : Pos) (out : Tak.PN.Result Move) (stats : Tak.PN.Stats)
    (hi : Item.pnResult p out stats ∈ (execute env eng f input).1) (h8 : p.cfg.size ≤ 8) :
    ∃ st, proveState (takGame basis) p.toMove fuel (pnCfg f) p = .ok st ∧ readResult st = (out, stats) ∧
      (st.anomaly = false →
        (out.result = .proven → PlainWin (takGame basis) p.toMove p ∧
          ∀ m, out.move = some m → m ∈ (takGame basis).moves p ∧
            ∃ s', (takGame basis).apply p m = some s' ∧ PlainWin (takGame basis) p.toMove s') ∧
        (out.result = .disproven → ¬ ForcedWin (takGame basis) p.toMove p)) := by
  have hrep := (analyze_solver_reports env eng f input).1 p out stats hi
  rw [heng] at hrep
  unfold Tak.PN.takProve Tak.PN.prove at hrep
  have hg : GameOKFrom (takGame basis) p.toMove p := takGame_okFrom basis p h8
  cases hst : proveState (takGame basis) p.toMove fuel (pnCfg f) p with
  | error e => rw [hst] at hrep; cases hrep
  | ok st =>
    rw [hst] at hrep
    simp only [Except.ok.injEq] at hrep
    refine ⟨st, rfl, hrep, ?_⟩
    intro hghost
    have hout : (readResult st).1 = out := by rw [hrep]
    constructor
    · intro hres
      have hres' : (readResult st).1.result = .proven := by rw [hout]; exact hres
      refine ⟨pn_proven_sound_from (takGame basis) p.toMove hg fuel (pnCfg f) st rfl hst hghost hres', ?_⟩
      intro m hm
      exact pn_move_sound_from (takGame basis) p.toMove hg fuel (pnCfg f) st rfl hst hghost hres' m (by rw [hout]; exact hm)
    · intro hres
      exact pn_disproven_sound_from (takGame basis) p.toMove hg fuel (pnCfg f) st rfl hst hghost (by rw [hout]; exact hres)

/-- the positions `tak.New` returns are on boards of size ≤ 8 (`defaultPieces[g.Size]` panics beyond), and play keeps
the configuration (`C06.reach_cfg`): the hypothesis `h8` of `analyze_prove_sound` holds of every position of a game
started by `New` -/
theorem new_size_le {cfg : Tak.Cfg} {p : Pos} (h : Pos.new cfg = .ok p) : p.cfg.size ≤ 8 := by
  unfold Pos.new at h
  split at h
  · cases h
  · extract_lets pieces caps at h
    split at h
    · cases h
    · rename_i hs
      cases h
      show cfg.size ≤ 8
      omega

example (basis : Array W) (cfg : Tak.Cfg) (root p : Pos) (h : Pos.new cfg = .ok root)
    (hr : Reach (takGame basis) root p) : p.cfg.size ≤ 8 := by
  rw [reach_cfg basis hr]; exact new_size_le h

end analyze

section corpus
open Tak.CmdCorpus
variable {D : Type}

/-- the label is `+1` exactly for *proven*; everything else — also *unknown* — is `-1` -/
theorem corpus_label_iff (r : Tak.DFPN.Result Move) :
    ((dfpnLabel r).value = .win ↔ r.result = .proven) ∧ ((dfpnLabel r).value = .loss ↔ r.result ≠ .proven) ∧
    (dfpnLabel r).move = r.move := by
  unfold dfpnLabel
  cases r.result <;> simp

/-- **every corpus entry was obtained with the side to move as attacker** (fixed tree): a new worker that received the
positions `ps` sends one entry per position, and the entry of position `p` is the label of a `Prove(p)` call on a solver
whose attacker is `p`'s side to move -/
theorem corpus_label_attacker_is_mover (sv : Solvers D) (hsv : SolversOK sv) (ps : List Pos) (es : List Entry)
    (h : dfpnWorker sv {} ps = .ok es) :
    es.length = ps.length ∧
    ∀ x ∈ ps.zip es, ∃ d r d', sv.attacker d = x.1.toMove ∧ sv.prove d x.1 = .ok (r, d') ∧ x.2 = dfpnLabel r :=
  dfpnWorker_spec sv hsv ps {} es ⟨by simp, by simp⟩ h

/-- **positions of the other colour do not matter** (fixed tree): the entries of the positions with side to move `c`
are what one solver with attacker `c`, fed only these positions in the same order, gives -/
theorem corpus_labels_independent_of_other_colour (sv : Solvers D) (c : Color) (hc : c = .white ∨ c = .black)
    (ps : List Pos) (es : List Entry) (h : dfpnWorker sv {} ps = .ok es) :
    dfpnWorkerPinnedFrom sv (sv.new c) (ps.filter (fun p => p.toMove == c)) = .ok (entriesOf c ps es) := by
  have := dfpnWorker_splits sv c hc ps {} es h
  have hnew : ({} : DfpnWorker D).solverFor sv c = sv.new c := by
    rcases hc with rfl | rfl <;> rfl
  rw [hnew] at this
  exact this

/-- the pinned worker: every entry after the first was obtained with the attacker the FIRST position fixed -/
theorem corpus_pinned_attacker_is_first_mover (sv : Solvers D) (hsv : SolversOK sv) (p : Pos) (ps : List Pos)
    (es : List Entry) (h : dfpnWorkerPinned sv (p :: ps) = .ok es) :
    ∃ e es', es = e :: es' ∧ es'.length = ps.length ∧
      ∀ x ∈ ps.zip es', ∃ d r d', sv.attacker d = p.toMove ∧ sv.prove d x.1 = .ok (r, d') ∧ x.2 = dfpnLabel r := by
  unfold dfpnWorkerPinned dfpnWorkerPinnedFrom at h
  cases hp : sv.prove (sv.new .none) p with
  | error x => rw [hp] at h; cases h
  | ok r =>
    obtain ⟨r, d'⟩ := r
    rw [hp] at h
    dsimp only at h
    cases hr : dfpnWorkerPinnedFrom sv d' ps with
    | error x => rw [hr] at h; cases h
    | ok es' =>
      rw [hr] at h
      cases h
      have hd' : sv.attacker d' = p.toMove := by
        rw [hsv.prove_att _ p r d' hp, hsv.new_att]; simp
      have hne : p.toMove ≠ .none := by rcases Tak.toMove_cases p with h | h <;> rw [h] <;> decide
      exact ⟨_, es', rfl, dfpnWorkerPinnedFrom_spec sv hsv p.toMove hne ps d' es' hd' hr⟩

/-! #### the defect of the pinned tree, in the smallest solver that behaves like `DFPNSolver` towards its attacker:
the solver state is its attacker; it answers *proven* iff its attacker is the side to move (think of positions that
the side to move wins at once: TPS `1,1,x/2,2,x/x3` with either side to move) -/

def toySolvers : Solvers Color where
  new := id
  attacker := id
  prove := fun d p =>
    let att := if d == .none then p.toMove else d
    .ok ({ result := if att == p.toMove then .proven else .disproven, move := none, proof := 0, disproof := 0 }, att)

example : SolversOK toySolvers where
  new_att := fun _ => rfl
  prove_att := by intro d p r d' h; simp only [toySolvers, Except.ok.injEq, Prod.mk.injEq] at h; exact h.2 ▸ rfl

/-- a position with White / Black to move (only the side to move matters to the toy solver) -/
def whiteToMove : Pos := { (default : Pos) with move := 4 }
def blackToMove : Pos := { (default : Pos) with move := 5 }

/-- **the pinned worker's labels depend on the order of arrival**: Black's won position is labelled `+1` when it comes
first and `-1` when it comes second — and so is White's; the fixed worker labels both `+1` in both orders -/
theorem corpus_pinned_label_depends_on_order :
    (dfpnWorkerPinned toySolvers [whiteToMove, blackToMove]).toOption.map (·.map (·.value)) = some [.win, .loss] ∧
    (dfpnWorkerPinned toySolvers [blackToMove, whiteToMove]).toOption.map (·.map (·.value)) = some [.win, .loss] ∧
    (dfpnWorker toySolvers {} [whiteToMove, blackToMove]).toOption.map (·.map (·.value)) = some [.win, .win] ∧
    (dfpnWorker toySolvers {} [blackToMove, whiteToMove]).toOption.map (·.map (·.value)) = some [.win, .win] := by
  decide

/-- what one would like to say about the corpus: a `+1` label is a forced win of the side to move -/
def corpus_win_label_sound_statement (G : Game Pos Move) (sv : Solvers D) : Prop :=
  ∀ ps es, dfpnWorker sv {} ps = .ok es → ∀ x ∈ ps.zip es, x.2.value = .win → ForcedWin G x.1.toMove x.1

/-- **partial**: proved from the assumption that the solver's *proven* is sound for its attacker (`hsound`), which this
framework does not prove for the depth-first solver (it is compared with the exact retrograde solution on every run of
`./check C06`).  What IS proved here is the consumer's part: the solver asked about `p` has `p`'s side to move as its
attacker, so soundness of the solver is soundness of the label. -/
theorem corpus_win_label_sound_partial (G : Game Pos Move) (sv : Solvers D) (hsv : SolversOK sv)
    (hsound : ∀ d p r d', sv.prove d p = .ok (r, d') → sv.attacker d ≠ .none → r.result = .proven →
      ForcedWin G (sv.attacker d) p) :
    corpus_win_label_sound_statement G sv := by
  intro ps es h x hx hwin
  obtain ⟨d, r, d', hatt, hp, hlab⟩ := (corpus_label_attacker_is_mover sv hsv ps es h).2 x hx
  have hres : r.result = .proven := by
    rw [hlab] at hwin; exact (corpus_label_iff r).1.mp hwin
  have hne : sv.attacker d ≠ .none := by
    rw [hatt]; rcases Tak.toMove_cases x.1 with h | h <;> rw [h] <;> decide
  have := hsound d x.1 r d' hp hne hres
  rw [hatt] at this
  exact this

/-- the model solver is a solver the theorems above apply to -/
example (basis : Array W) (scale : UInt32 → UInt32) (fuel : Nat) : SolversOK (takSolvers basis scale fuel) :=
  takSolvers_ok basis scale fuel

end corpus

end C06
