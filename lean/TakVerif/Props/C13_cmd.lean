import TakVerif.Props.C01_closed
import TakVerif.Proofs.PTNLink
import TakVerif.Impl.CmdPlay

/-!
# C13 / C01 at a consumer: the interactive loop of `taktician play` (`cli.CLI.Play` over `cliPlayer.GetMove`)

`Tak.CmdPlay.play` (`Impl/CmdPlay.lean`) mirrors the loop on a scripted standard input.  The theorems say that the text
a human types can neither end nor corrupt the game:

* `play_line_cases`: what ONE line does while the game is on — a line `ParseMove` rejects is answered by
  `parse error:` and a new prompt, a well-formed move `Position.Move` rejects by `illegal move:` and a new round; in
  both cases the run continues exactly as if the line had not been typed (same position, same move list, same end);
  a legal move is printed, appended to the list, and the run continues from the successor.
* `play_record_is_replay`: whatever the script, the recorded moves (`st.Moves()`, the `-out` file) are exactly the
  moves that were applied, in order, each successfully, and the final position is their replay from the start
  position — rejected lines leave no trace.
* `play_ends_properly`: with the real `ParseMove` and `Position.Move` (C13's `realParseMove_graceful`, C01's
  `move_never_panics` / `move_never_hangs`) a run ends in exactly one of two ways: `Play` returns with a finished
  position, or the input ends while the game is still on (the only panic: `GetMove` panics on `io.EOF`).  No line of
  input crashes the loop.
* `play_out_file_iff`: the `-out` file is written iff `Play` returned, and it is `Render` of the three tags and
  `AddMoves` of the recorded moves. -/
namespace C13
open Tak Tak.CmdPlay Go

/-- applying moves one after the other, each successfully -/
def applyAll (basis : Array W) : Pos → List Tak.Move → R Pos
  | p, [] => .ok p
  | p, m :: ms =>
    match p.apply basis m with
    | .ok q => applyAll basis q ms
    | .error e => .error e

@[simp] theorem cons_moves (evs : List Event) (r : Run) : (r.cons evs).moves = r.moves := rfl
@[simp] theorem cons_pos (evs : List Event) (r : Run) : (r.cons evs).pos = r.pos := rfl
@[simp] theorem cons_stop (evs : List Event) (r : Run) : (r.cons evs).stop = r.stop := rfl
@[simp] theorem cons_events (evs : List Event) (r : Run) : (r.cons evs).events = evs ++ r.events := rfl

/-- **one line of input** while the game is on (`p` not finished), in a round with `fuel + 1` rounds left -/
theorem play_line_cases (env : PTN.Env) (fuel : Nat) (p : Pos) (ms : List Tak.Move) (l : Bytes) (rest : List Bytes)
    (hlive : p.gameOver.1 = false) :
    -- a line that does not parse: asked again, nothing else changes
    (∀ w, env.parseMove (trimCRLF l) = .error (.illegal w) →
      let r := playLoop env (fuel + 1) p ms (l :: rest)
      let r' := playLoop env (fuel + 1) p ms rest
      r.moves = r'.moves ∧ r.pos = r'.pos ∧ r.stop = r'.stop ∧
      ∃ tl, r'.events = .board p :: tl ∧ r.events = .board p :: .prompt p.toMove :: .parseError :: tl) ∧
    -- a well-formed move the rules reject: reported, the next round starts from the same position and list
    (∀ m w, env.parseMove (trimCRLF l) = .ok m → p.apply env.basis m = .error (.illegal w) →
      let r := playLoop env (fuel + 1) p ms (l :: rest)
      let r' := playLoop env fuel p ms rest
      r.moves = r'.moves ∧ r.pos = r'.pos ∧ r.stop = r'.stop ∧
      r.events = [.board p, .prompt p.toMove, .illegalMove] ++ r'.events) ∧
    -- a legal move: printed, recorded, played
    (∀ m q, env.parseMove (trimCRLF l) = .ok m → p.apply env.basis m = .ok q →
      let r := playLoop env (fuel + 1) p ms (l :: rest)
      let r' := playLoop env fuel q (ms ++ [m]) rest
      r.moves = r'.moves ∧ r.pos = r'.pos ∧ r.stop = r'.stop ∧
      r.events = [.board p, .prompt p.toMove, .moved p m] ++ r'.events) := by
  refine ⟨fun w hw => ?_, fun m w hm ha => ?_, fun m q hm ha => ?_⟩
  · simp only [playLoop, hlive, Bool.false_eq_true, if_false, getMove, hw]
    cases hg : getMove env p.toMove rest with
    | mk evs g =>
      cases g with
      | eof => exact ⟨rfl, rfl, rfl, _, rfl, rfl⟩
      | crash e => exact ⟨rfl, rfl, rfl, _, rfl, rfl⟩
      | move m rest' =>
        simp only
        cases p.apply env.basis m with
        | ok q => exact ⟨rfl, rfl, rfl, _, rfl, rfl⟩
        | error e =>
          cases e with
          | illegal _ => exact ⟨rfl, rfl, rfl, _, rfl, rfl⟩
          | panic _ => exact ⟨rfl, rfl, rfl, _, rfl, rfl⟩
          | hang _ => exact ⟨rfl, rfl, rfl, _, rfl, rfl⟩
  · simp only [playLoop, hlive, Bool.false_eq_true, if_false, getMove, hm, ha]
    exact ⟨rfl, rfl, rfl, rfl⟩
  · simp only [playLoop, hlive, Bool.false_eq_true, if_false, getMove, hm, ha]
    exact ⟨rfl, rfl, rfl, rfl⟩

/-- **the record is the replay**: the moves a run records extend the list it started with by exactly the moves that
were applied, and its final position is what these moves, applied in order, lead to -/
theorem playLoop_record (env : PTN.Env) : ∀ (fuel : Nat) (p : Pos) (ms : List Tak.Move) (lines : List Bytes),
    ∃ added, (playLoop env fuel p ms lines).moves = ms ++ added ∧
      applyAll env.basis p added = .ok (playLoop env fuel p ms lines).pos
  | 0, p, ms, _ => ⟨[], by simp [playLoop], rfl⟩
  | fuel + 1, p, ms, lines => by
    unfold playLoop
    split
    · exact ⟨[], by simp, rfl⟩
    · split
      · exact ⟨[], by simp, rfl⟩
      · exact ⟨[], by simp, rfl⟩
      · rename_i evs m rest _
        split
        · obtain ⟨added, h1, h2⟩ := playLoop_record env fuel p ms rest
          exact ⟨added, by simpa using h1, by simpa using h2⟩
        · exact ⟨[], by simp, rfl⟩
        · rename_i q hq
          obtain ⟨added, h1, h2⟩ := playLoop_record env fuel q (ms ++ [m]) rest
          exact ⟨m :: added, by simpa using h1, by simpa [applyAll, hq] using h2⟩

theorem play_record_is_replay (env : PTN.Env) (p0 : Pos) (input : Bytes) :
    applyAll env.basis p0 (play env p0 input).moves = .ok (play env p0 input).pos := by
  obtain ⟨added, h1, h2⟩ := playLoop_record env ((completeLines input).length + 1) p0 [] (completeLines input)
  simp only [List.nil_append] at h1
  simp only [play, h1, h2]

theorem getMove_no_crash (env : PTN.Env) (hpm : ∀ b, PTN.Graceful (env.parseMove b)) (c : Color) :
    ∀ (lines : List Bytes) (evs : List Event) (e : Err), getMove env c lines ≠ (evs, .crash e)
  | [], _, _ => by simp [getMove]
  | l :: rest, evs, e => by
    unfold getMove
    split
    · simp
    · cases hg : getMove env c rest with
      | mk evs' g =>
        intro h
        simp only [Prod.mk.injEq] at h
        exact getMove_no_crash env hpm c rest evs' e (by rw [hg, h.2])
    · rename_i e' hne hpe
      obtain ⟨w, hw⟩ := hpm _ e' hpe
      exact absurd hw (hne w)

/-- a run with enough fuel ends with a finished position, or at the end of the input with the game still on -/
theorem playLoop_ends (env : PTN.Env) (hpm : ∀ b, PTN.Graceful (env.parseMove b)) :
    ∀ (fuel : Nat) (p : Pos) (ms : List Tak.Move) (lines : List Bytes), lines.length < fuel →
      let r := playLoop env fuel p ms lines
      (r.stop = .finished ∧ r.pos.gameOver.1 = true) ∨ (r.stop = .eof ∧ r.pos.gameOver.1 = false)
  | 0, _, _, _, h => by omega
  | fuel + 1, p, ms, lines, hf => by
    unfold playLoop
    split
    · rename_i hover; exact .inl ⟨rfl, hover⟩
    · rename_i hlive
      have hlive' : p.gameOver.1 = false := by simpa using hlive
      split
      · exact .inr ⟨rfl, hlive'⟩
      · rename_i evs e hg; exact absurd hg (getMove_no_crash env hpm _ _ _ _)
      · rename_i evs m rest hg
        have hlt := getMove_rest env _ _ _ _ _ hg
        split
        · simpa using playLoop_ends env hpm fuel p ms rest (by omega)
        · rename_i e hne he
          cases e with
          | illegal w => exact absurd rfl (hne w)
          | panic s => exact absurd he (C01.move_never_panics env.basis p m s)
          | hang s => exact absurd he (C01.move_never_hangs C01.analyzeTotal env.basis p m s)
        · rename_i q hq
          simpa using playLoop_ends env hpm fuel q (ms ++ [m]) rest (by omega)

/-- **no input crashes the game** (the byte-level models of `ParseMove` and `Position.Move` plugged in): a run of
`taktician play` ends because the game is over, or because the input ended while it was not — never on account of
what a line contains -/
theorem play_ends_properly (basis : Array W) (p0 : Pos) (input : Bytes) :
    let r := play (PTN.realEnv basis) p0 input
    (r.stop = .finished ∧ r.pos.gameOver.1 = true) ∨ (r.stop = .eof ∧ r.pos.gameOver.1 = false) :=
  playLoop_ends (PTN.realEnv basis) (fun b => PTN.realParseMove_graceful b) _ p0 [] _ (by omega)

/-- the `-out` file exists iff `Play` returned, and holds the recorded moves -/
theorem play_out_file_iff (env : PTN.Env) (size : Int) (input : Bytes) (r : Run) (file : Option Bytes)
    (h : execute env size input = .ok (r, file)) :
    (r.stop = .finished → file = some (outFile env size (lit "human") (lit "human") r.moves)) ∧
    (r.stop ≠ .finished → file = none) := by
  unfold execute at h
  split at h
  · cases h
  · split at h
    · cases h
    · simp only [Except.ok.injEq, Prod.mk.injEq] at h
      obtain ⟨hr, hf⟩ := h
      subst hr
      refine ⟨fun hs => ?_, fun hs => ?_⟩
      · rw [← hf]; simp [hs]
      · rw [← hf]; simp [hs]

/-! ## a concrete script (evaluated by the kernel) -/

/-- on 3×3: `a1` (legal), `zz` (parse error), `a1` (occupied: illegal), `c3` (legal), then the input ends: two moves
recorded, the run stopped at the end of input with the game on, no `-out` file -/
example :
    (match execute (PTN.realEnv (Array.replicate 64 0#64)) 3 (lit "a1\nzz\na1\nc3\n") with
     | .ok (r, file) => r.moves.length == 2 && r.stop == .eof && file.isNone && r.pos.move == 2
     | .error _ => false) = true ∧
    (match execute (PTN.realEnv (Array.replicate 64 0#64)) 9 (lit "a1\n") with
     | .error (.panic _) => true | _ => false) = true := by decide

end C13
