import TakVerif.Impl.Minimax
import TakVerif.Generated.FuncsAI
import TakVerif.Proofs.GenMove

/-! Tie #1 for C05: `teSuffices` (when a transposition-table entry may answer a search) is regenerated from
`ai/minimax.go` on every run, together with the `tableEntry` struct; the model's `teSuffices`, on which the table
theorems (`Proofs/SearchTable.lean`, `C05`) rest, is proved equal to it.  `WinThreshold` and the numeric order of
`lowerBound/exactBound/upperBound` enter the regenerated definition as evaluated constants and the model through
`Generated/Facts*.lean`: the bridge re-checks that the two agree.  `Move.Equal` (how the move generator recognises the
table move, the PV move and the response move; `takGame.moveEq`) is regenerated from `tak/move.go`. -/
namespace C05
open Tak Search

/-- a model table entry as the regenerated `tableEntry` (`hash` and `m` do not enter `teSuffices`) -/
def genEntry {M : Type} (te : TEntry M) : Gen.tableEntry :=
  { hash := 0#64, value := te.value, m := default, bound := BitVec.ofNat 8 te.bound, depth := te.depth }

/-- helper: comparing two bytes below 256 as `BitVec 8` or as numbers is the same -/
theorem ofNat8_beq (a b : Nat) (ha : a < 256) (hb : b < 256) : (BitVec.ofNat 8 a == BitVec.ofNat 8 b) = (a == b) := by
  by_cases h : a = b
  · subst h; simp
  · have : ¬ (BitVec.ofNat 8 a = BitVec.ofNat 8 b) := by
      intro hh; have := congrArg BitVec.toNat hh; simp at this; omega
    have h1 : (BitVec.ofNat 8 a == BitVec.ofNat 8 b) = false := by simpa using this
    have h2 : (a == b) = false := by simpa using h
    rw [h1, h2]

/-- `teSuffices(te, depth, α, β)` (`boundType` is a byte: the model's `bound` is a number below 256) -/
theorem teSuffices_is_source {M : Type} (te : TEntry M) (hb : te.bound < 256) (depth α β : Int) :
    teSuffices te depth α β = Gen.teSuffices (genEntry te) depth α β := by
  unfold teSuffices Gen.teSuffices genEntry
  have e0 := ofNat8_beq te.bound 0 hb (by omega)
  have e1 := ofNat8_beq te.bound 1 hb (by omega)
  have e2 := ofNat8_beq te.bound 2 hb (by omega)
  simp only [e0, e1, e2, Facts.exactBound, Facts.upperBound, Facts.lowerBound, Facts.winThreshold]
  by_cases hd : te.depth ≥ depth <;> by_cases b1 : te.bound = 1 <;> by_cases b2 : te.bound = 2 <;>
    by_cases b0 : te.bound = 0 <;> by_cases ha : te.value < α <;> by_cases hbt : te.value > β <;>
    by_cases hw : te.value > 536870912 <;> by_cases hw2 : te.value < -536870912 <;>
    simp [hd, b1, b2, b0, ha, hbt, hw, hw2] <;> omega

example : Gen.teSuffices { hash := 0#64, value := 7, m := default, bound := 2#8, depth := 3 } 3 8 9 = true := by decide

/-- `Move.Equal`, the move comparison of the search's Tak instance (`takGame.moveEq := Move.equal`) -/
theorem moveEqual_is_source (m r : Move) (hm : m.type < 256) (hr : r.type < 256) :
    m.equal r = Gen.moveEqual (GenMove.genMove m) (GenMove.genMove r) := GenMove.equal_is_source m r hm hr

example : Gen.moveEqual (GenMove.genMove ⟨1, 2, 2, 0x11#32⟩) (GenMove.genMove ⟨1, 2, 2, 0#32⟩) = true := by decide

end C05
