import TakVerif.Proofs.GenEvalMain
import TakVerif.Props.C18

/-! # C18, tie #1, second part: the heuristic evaluator is regenerated from the source

`ai.evaluate` and its helpers `mobility`, `scoreGroups`, `scoreThreats` (over `CountThreats`), `computeInfluence`,
`computeControl`, `scoreControl`, and the `init()` that builds `DefaultWeights`, are translated by `gen/` on every check run
into `Generated/FuncsHeur.lean` (`Gen.evaluate` …).  `Tak.genEvaluate c w p` (`Impl/GenEval.lean`) applies the regenerated
evaluator to the fields of a position; its accessor arguments `hasRoad()` / `WinDetails()` are the regenerated functions of
`Generated/FuncsRoad.lean`.  The theorems below show, helper by helper and then for `evaluate` as a whole, that the
hand-written model of `Impl/Evaluate.lean` - on which `C18.eval_abs_le`, `heuristic_inside`, `terminal_outside` rest - is that
function; `gen_c18` restates C18 for the regenerated evaluator.  An edit of `ai/evaluate.go` changes `Gen.*`, and
`lake build` re-checks this file against it.

`none` on the regenerated side means: Go panics (index out of range) or a loop exceeds its whitelist fuel; the theorems
show it does not happen on the stated domain.  `int64` is `Int` (no overflow; all values are < 2^31 by `eval_abs_le`). -/
namespace C18
open Tak Roads

/-! ### helper by helper (all for ALL arguments) -/

/-- `mobility(c, p, bit, height)`: the regenerated function returns, and returns the model's mask, for every `Constants`
value, position, bit and height (the whitelist fuel `height + 1` of its four loops always suffices) -/
theorem mobility_is_source (c : Consts) (p : Pos) (b : W) (height : Int) :
    genMobility c p b height = some (mobility c p b height) :=
  GenHeur.mobility_eq c p b height

/-- `scoreGroups(c, gs, ws, other)`: whenever the model returns a value (`Dimensions` ends and the computed index
`ws[Groups+w]` is inside `Weights`) the regenerated function - index guard against the static array length 36 - returns it -/
theorem scoreGroups_is_source (c : Consts) (gs : List W) (ws : Weights) (other : W) (v : Int)
    (h : scoreGroups c gs ws other = .ok v) : Gen.scoreGroups c gs.toArray ws.arr other = some v :=
  GenHeur.scoreGroups_eq c gs ws other v h

/-- `scoreThreats(c, ws, p)` over the regenerated `CountThreats` -/
theorem scoreThreats_is_source (c : Consts) (ws : Weights) (p : Pos) :
    genScoreThreats c ws.arr p = some (scoreThreats c ws p) :=
  GenHeur.scoreThreats_eq c ws p

/-- `computeInfluence(c, mine, out)` on the three zeroed counters `computeControl` passes: the out-parameter function
(ripple-carry counters assigned in place) returns the model's counters -/
theorem computeInfluence_is_source (c : Consts) (mine : W) :
    Gen.computeInfluence c mine (Array.replicate 3 0#64) = some (computeInfluence c mine [0#64, 0#64, 0#64]).toArray :=
  GenControl.computeInfluence_eq c mine

/-- `computeControl(c, p)` -/
theorem computeControl_is_source (c : Consts) (p : Pos) : genComputeControl c p = some (computeControl c p) :=
  GenControl.computeControl_eq c p

/-- `scoreControl(c, ws, p)` -/
theorem scoreControl_is_source (c : Consts) (ws : Weights) (p : Pos) :
    genScoreControl c ws.arr p = some (scoreControl c ws p) :=
  GenControl.scoreControl_eq c ws p

/-! ### `evaluate` -/

/-- **`ai.evaluate` is the model's `evaluate`.**  For every `Constants` value, every weight vector and every position whose
`Height` has at most 64 entries, all covered by `Stacks` (what `alloc` builds for sizes up to 8): whenever the model
returns a value - finished game or not - the regenerated evaluator returns the same value. -/
theorem evaluate_is_source (c : Consts) (w : Weights) (p : Pos) (hn : p.height.size ≤ 64)
    (hst : p.height.size ≤ p.stacks.size) (v : Int) (h : evaluate c w p = .ok v) :
    genEvaluate c w.arr p = some v :=
  GenEvalMain.evaluate_eq c w p hn hst v h

/-- the table `DefaultWeights` the regenerated `init()` builds from the source's `defaultWeights` / `overrides6` is the
model's table -/
theorem defaultWeights_is_source : genDefaultWeights = some (DefaultWeights.map List.toArray).toArray := by decide

/-- `MakeEvaluator(size, nil)`: the default-weights path -/
theorem evaluateDefault_is_source (c : Consts) (p : Pos) (hn : p.height.size ≤ 64)
    (hst : p.height.size ≤ p.stacks.size) (v : Int) (h : evaluateDefault c p = .ok v) :
    genEvaluateDefault c p = some v := by
  unfold evaluateDefault defaultWeightsFor at h
  unfold genEvaluateDefault
  rw [defaultWeights_is_source]
  cases hw : DefaultWeights[p.cfg.size]? with
  | none => simp [hw] at h
  | some w =>
    simp only [hw] at h
    have hlt : p.cfg.size < DefaultWeights.length := by
      apply Classical.byContradiction; intro hge
      rw [List.getElem?_eq_none (by omega)] at hw; cases hw
    have hsz : p.cfg.size < (DefaultWeights.map List.toArray).toArray.size := by simpa using hlt
    have hget : (DefaultWeights.map List.toArray).toArray[p.cfg.size] = w.arr := by
      rw [List.getElem?_eq_getElem hlt] at hw
      simp only [List.getElem_toArray, List.getElem_map, Weights.arr]
      rw [Option.some.inj hw]
    simp only [hsz, dif_pos, hget]
    exact evaluate_is_source c w p hn hst v h

/-! ### C18 for the regenerated evaluator -/

/-- **The regenerated evaluator always returns on well-formed positions** (C02's board invariant, `Stacks` covering `Height`,
at most 64 squares), and returns the model's value -/
theorem gen_eval_total (w : Weights) (p : Pos) (wf : RoadWF p) (hn : p.height.size ≤ 64)
    (hst : p.height.size ≤ p.stacks.size) :
    ∃ v, genEvaluate p.c w.arr p = some v ∧ evaluate p.c w p = .ok v := by
  obtain ⟨v, hv⟩ := eval_total w p wf hst
  exact ⟨v, evaluate_is_source p.c w p hn hst v hv, hv⟩

/-- **Bound for the regenerated evaluator.**  For every state `p` whose game is not over (any bitboards, heights, reserves,
ply; group lists = the analysed ones; `Height` of at most 64 entries covered by `Stacks`) on which the evaluation does not
fail (`hm`: no `Dimensions` hang, no weight-index panic): the value the function read out of `ai/evaluate.go` returns lies
within `±B w n`. -/
theorem gen_eval_abs_le (c : Consts) (w : Weights) (p : Pos) (ha : Analyzed p) (hno : p.gameOver.1 = false)
    (hn : p.height.size ≤ 64) (hst : p.height.size ≤ p.stacks.size) (hm : ∃ v', evaluate c w p = .ok v')
    (v : Int) (h : genEvaluate c w.arr p = some v) :
    -(B w p.height.size) ≤ v ∧ v ≤ B w p.height.size := by
  obtain ⟨v', hv'⟩ := hm
  have := evaluate_is_source c w p hn hst v' hv'
  rw [h] at this
  have e : v = v' := Option.some.inj this
  subst e
  exact eval_abs_le c w p ha hno v hv'

/-- **C18 in one statement, for the regenerated evaluator** and the constants the engine uses (`c = Precompute(size)`): on
every well-formed position (C02's `RoadWF`; at most 64 squares; `Stacks` covering `Height`; ply in `0 … 2·10^6`) and for
every built-in weight set, the function `gen/` reads out of `ai/evaluate.go` returns a value within `[MinEval, MaxEval]`;
strictly inside `(-WinThreshold, WinThreshold)` when the game is not over by the rules of Tak; 0 for a draw and beyond the
threshold with the sign of winner-vs-mover for a finished game. -/
theorem gen_c18 (w : Weights) (hw : w ∈ builtinWeights) (p : Pos) (wf : RoadWF p)
    (hh : p.height.size ≤ 64) (hst : p.height.size ≤ p.stacks.size) (h0 : 0 ≤ p.move) (hN : p.move ≤ 2000000) :
    ∃ v, genEvaluate p.c w.arr p = some v ∧ Facts.minEval ≤ v ∧ v ≤ Facts.maxEval ∧
      ((Spec.outcome (Spec.abs p)).over = false → -Facts.winThreshold < v ∧ v < Facts.winThreshold) ∧
      ((Spec.outcome (Spec.abs p)).over = true → (Spec.outcome (Spec.abs p)).winner = .none → v = 0) ∧
      ((Spec.outcome (Spec.abs p)).over = true → (Spec.outcome (Spec.abs p)).winner ≠ .none →
        (Spec.outcome (Spec.abs p)).winner = p.toMove → Facts.winThreshold < v) ∧
      ((Spec.outcome (Spec.abs p)).over = true → (Spec.outcome (Spec.abs p)).winner ≠ .none →
        (Spec.outcome (Spec.abs p)).winner ≠ p.toMove → v < -Facts.winThreshold) := by
  obtain ⟨v, hv, rest⟩ := c18 w hw p wf hh hst h0 hN
  exact ⟨v, evaluate_is_source p.c w p hh hst v hv, rest⟩

/-- "a value beyond the win threshold always denotes a finished game", for the regenerated evaluator -/
theorem gen_beyond_threshold_is_over (w : Weights) (hw : w ∈ builtinWeights) (p : Pos) (wf : RoadWF p)
    (hh : p.height.size ≤ 64) (hst : p.height.size ≤ p.stacks.size) (v : Int) (h : genEvaluate p.c w.arr p = some v)
    (hv : v ≤ -Facts.winThreshold ∨ Facts.winThreshold ≤ v) : p.gameOver.1 = true := by
  obtain ⟨v', hg, hm⟩ := gen_eval_total w p wf hh hst
  rw [h] at hg
  have e : v = v' := Option.some.inj hg
  subst e
  exact beyond_threshold_is_over p.c w hw p (analyze_analyzed p p wf.analyzed) hh v hm hv

/-! ### concrete instances (kernel-evaluated): the regenerated evaluator on the example positions of `Props/C18.lean` -/

example : genEvaluate midgame.c Facts.evalDefaultWeights.toArray midgame = some 760 := by decide +kernel

example : genEvaluate whiteRoad.c Facts.evalDefaultWeights.toArray whiteRoad = some (-805307455) := by decide +kernel

example : genEvaluateDefault midgame.c midgame = some 760 := by decide +kernel

example : genMobility midgame.c midgame (bit 6) 2 = some (mobility midgame.c midgame (bit 6) 2) ∧
    mobility midgame.c midgame (bit 6) 2 ≠ bit 6 := by decide +kernel

example : genComputeControl midgame.c midgame = some (computeControl midgame.c midgame) ∧
    computeControl midgame.c midgame ≠ (0#64, 0#64) := by decide +kernel

end C18
