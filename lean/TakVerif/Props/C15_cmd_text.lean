import TakVerif.Props.C15_cmd
import TakVerif.Props.C12

/-!
# `taktician canonicalize`: idempotent through the PRINTED text (work package "selfplay2")

`canonicalize_cmd_properties` (`Props/C15_cmd.lean`) ends in "the command's file `fc` is a fixed point of the command"
(`canonFile fc = fc`) — about `ptn.PTN` values.  The command prints text and reads text.  Composed with C12
(`render_parse_games`: the real `ParsePTN` reads back what `Render` wrote, up to the `src` fields, which `Render` ignores)
and `printf0_plain`:

* `canonicalize_text_idempotent`: if `fc` is such a fixed point, a game file in the sense of C12 (`GameFile`: clean tags,
  legal move shapes, comments without `}` …) and its rendered text contains NO `%` byte, then feeding the command its
  own output prints the same bytes again.
* The `%` caveat is exact in this direction: `fmt.Printf(g.Render())` reads every `%` of the rendered text as a verb.
  `canonicalize_percent_not_idempotent` (evaluated by the kernel): for a comment `{100%}` the first run prints
  `{100%!}(MISSING)`, and the second run on that output does not even parse it (`log.Fatalf`).
-/
namespace C15
open Tak Tak.CmdCanon
open _root_.PTN (File Op Tag render renderOp parsePTN realEnv)
open Go (Bytes lit)

theorem renderOp_clearSrc (env : PTN.Env) (op : Op) : renderOp env op.clearSrc = renderOp env op := by
  cases op <;> rfl

theorem flatMap_renderOp_congr (env : PTN.Env) : ∀ (a b : List Op), a.map Op.clearSrc = b.map Op.clearSrc →
    a.flatMap (renderOp env) = b.flatMap (renderOp env)
  | [], [], _ => rfl
  | [], _ :: _, h => by simp at h
  | _ :: _, [], h => by simp at h
  | x :: a, y :: b, h => by
    simp only [List.map_cons, List.cons.injEq] at h
    simp only [List.flatMap_cons]
    rw [← renderOp_clearSrc env x, ← renderOp_clearSrc env y, h.1, flatMap_renderOp_congr env a b h.2]

/-- `Render` does not look at the `src` fields -/
theorem render_congr (env : PTN.Env) (g f : File) (ht : g.tags = f.tags) (ho : g.ops.map Op.clearSrc = f.ops.map Op.clearSrc) :
    render env g = render env f := by
  simp only [render, ht, flatMap_renderOp_congr env g.ops f.ops ho]

theorem movesOf_clearSrc : ∀ ops : List Op, movesOf (ops.map Op.clearSrc) = movesOf ops
  | [] => rfl
  | .move .. :: rest => by simp only [List.map_cons, Op.clearSrc, movesOf, movesOf_clearSrc rest]
  | .moveNumber .. :: rest => by simp only [List.map_cons, Op.clearSrc, movesOf, movesOf_clearSrc rest]
  | .comment .. :: rest => by simp only [List.map_cons, Op.clearSrc, movesOf, movesOf_clearSrc rest]
  | .result .. :: rest => by simp only [List.map_cons, Op.clearSrc, movesOf, movesOf_clearSrc rest]

/-- the second loop commutes with wiping `src` -/
theorem setMoves_clearSrc : ∀ (ops : List Op) (out : List Tak.Move),
    setMoves (ops.map Op.clearSrc) out =
      match setMoves ops out with
      | .ok o => .ok (o.map Op.clearSrc)
      | .error e => .error e
  | [], _ => rfl
  | .move src m mods :: rest, [] => rfl
  | .move src m mods :: rest, x :: out => by
    simp only [List.map_cons, Op.clearSrc, setMoves, setMoves_clearSrc rest out]
    cases setMoves rest out <;> rfl
  | .moveNumber .. :: rest, out => by
    simp only [List.map_cons, Op.clearSrc, setMoves, setMoves_clearSrc rest out]
    cases setMoves rest out <;> rfl
  | .comment .. :: rest, out => by
    simp only [List.map_cons, Op.clearSrc, setMoves, setMoves_clearSrc rest out]
    cases setMoves rest out <;> rfl
  | .result .. :: rest, out => by
    simp only [List.map_cons, Op.clearSrc, setMoves, setMoves_clearSrc rest out]
    cases setMoves rest out <;> rfl

/-- on files that agree up to `src`, `canonFile` succeeds on both or neither, with results that agree up to `src` -/
theorem canonFile_congr (canonical : Nat → List Tak.Move → R (List Tak.Move)) (g f fc : File)
    (ht : g.tags = f.tags) (ho : g.ops.map Op.clearSrc = f.ops.map Op.clearSrc) (hf : canonFile canonical f = .ok fc) :
    ∃ gc, canonFile canonical g = .ok gc ∧ gc.tags = fc.tags ∧ gc.ops.map Op.clearSrc = fc.ops.map Op.clearSrc := by
  have hm : movesOf g.ops = movesOf f.ops := by rw [← movesOf_clearSrc, ho, movesOf_clearSrc]
  have hsz : g.findTag PTN.tagSize = f.findTag PTN.tagSize := by simp only [File.findTag, ht]
  unfold canonFile at hf ⊢
  rw [hsz, hm]
  split at hf
  · cases hf
  · split at hf
    · cases hf
    · cases hf
    · rename_i out hout
      split at hf
      · cases hf
      · rename_i ops hops
        simp only [Except.ok.injEq] at hf
        subst hf
        have h1 := setMoves_clearSrc g.ops out
        have h2 := setMoves_clearSrc f.ops out
        rw [ho, h2, hops] at h1
        cases hg : setMoves g.ops out with
        | error e => rw [hg] at h1; cases h1
        | ok o =>
          rw [hg] at h1
          simp only [Except.ok.injEq] at h1
          exact ⟨{ g with ops := o }, by simp only, ht, h1.symm⟩

/-- **the command is idempotent through its printed text** when that text is free of `%`: for a file `fc` that is a
fixed point of `canonFile` (what `canonicalize_cmd_properties` delivers for the command's own file) and a `GameFile`,
running the command on the bytes `Render` gives for `fc` prints exactly these bytes. -/
theorem canonicalize_text_idempotent (basis : Array W) (canonical : Nat → List Tak.Move → R (List Tak.Move)) (fc : File)
    (hfix : canonFile canonical fc = .ok fc) (hgame : C12.GameFile fc)
    (hpct : ∀ x ∈ render (realEnv basis) fc, x ≠ 37) :
    printf0 (render (realEnv basis) fc) = render (realEnv basis) fc ∧
    execute (realEnv basis) canonical (some (some (render (realEnv basis) fc))) = .printed (render (realEnv basis) fc) := by
  have hplain := printf0_plain _ hpct
  refine ⟨hplain, ?_⟩
  obtain ⟨g, hg, _, ht, ho⟩ := C12.render_parse_games basis fc hgame
  obtain ⟨gc, hgc, ht', ho'⟩ := canonFile_congr canonical g fc fc ht ho hfix
  simp only [execute, hg, hgc]
  rw [render_congr _ gc fc ht' ho', hplain]

/-- **the `%` caveat**: the rendered text of the canonical file of `1. a5 e5 {100%}` contains a `%`; the command prints
`{100%!}(MISSING)` for it, and run on its own output it stops in `log.Fatalf` (the text no longer parses) -/
theorem canonicalize_percent_not_idempotent :
    run (Array.replicate 64 0#64) (some (some (lit "[Size \"5\"]\n\n1. a5 e5 {100%}\n"))) =
      .printed (lit "[Size \"5\"]\n\n\n1. a1 e1 {100%!}(MISSING)\n") ∧
    run (Array.replicate 64 0#64) (some (some (lit "[Size \"5\"]\n\n\n1. a1 e1 {100%!}(MISSING)\n"))) = .fatal "read" := by
  decide +kernel

/-- the hypotheses of `canonicalize_text_idempotent` are satisfiable: the command's output for `1. a5 e5 {x}` is printed
again unchanged -/
example :
    run (Array.replicate 64 0#64) (some (some (lit "[Size \"5\"]\n\n1. a5 e5 {x}\n"))) =
      .printed (lit "[Size \"5\"]\n\n\n1. a1 e1 {x}\n") ∧
    run (Array.replicate 64 0#64) (some (some (lit "[Size \"5\"]\n\n\n1. a1 e1 {x}\n"))) =
      .printed (lit "[Size \"5\"]\n\n\n1. a1 e1 {x}\n") := by
  decide +kernel

end C15
