import TakVerif.Spec.Tak
namespace C02
theorem placeholder : True := trivial
end C02
