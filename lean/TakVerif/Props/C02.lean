import TakVerif.Proofs.RoadInv

/-!
# C02 — game end, winner and win reason follow the rules of Tak in every position

Model: `Gen.precompute`, `Gen.grow` (generated from `bitboard/bits.go`), `Tak.flood`, `Tak.floodGroups`,
`Pos.analyze`, `Pos.hasRoad`, `Pos.gameOver`, `Pos.countFlats`, `Pos.winDetails` (`tak/game.go`).
Rule book: `Spec.Conn`/`Spec.RoadPath` (inductive chain of adjacent squares), `Spec.outcome`,
`Spec.abs : Pos → State` (what `At`, the reserves and the ply show).

All theorems are for every size 3..8 and every bit pattern satisfying the stated hypotheses — no sampling.
Helper lemmas live in `TakVerif/Proofs/{Grow,Adj,Flood,Popcount,Groups,SpecReach,Road,Outcome,RoadInv}.lean`.

Hypotheses: `RoadWF p` (size 3..8, constants = `Precompute(size)`, `White`/`Black` on the board and disjoint,
groups = `analyze()`); proved for `New` (`new_wf`) and for every result of `FromSquares` (`fromSquares_wf`);
for results of `Move` it is C01's invariant, evaluated here on every sampled position (op `wfb`).
The model is of the tree with fix `fixes/C02-reserve-wrap.diff` (reserves tested counter by counter): with the
original byte sums `whiteStones+whiteCaps != 0` a configuration with stones + capstones = 256 was reported
finished at the start position.
-/
namespace C02
open Tak Spec Roads

/-! ## 1. `Grow` and the edge masks -/

/-- Bit `i` of `Grow(c, within, seed)` for **arbitrary** constants: `seed` at `i`, or at `i-1` unless `i` is
in `c.R`, or at `i+1` unless `i` is in `c.L`, or at `i ± c.Size`; all intersected with `within`. -/
theorem grow_bit (c : Consts) (w s : W) (i : Nat) (hi : i < 64) :
    (Gen.grow c w s).getLsbD i =
      (( s.getLsbD i
        || (decide (1 ≤ i) && s.getLsbD (i - 1) && !c.R.getLsbD i)
        || (s.getLsbD (i + 1) && !c.L.getLsbD i)
        || s.getLsbD (i + c.Size)
        || (decide (c.Size ≤ i) && s.getLsbD (i - c.Size)) ) && w.getLsbD i) :=
  Roads.grow_bit c w s i hi

/-- The masks of `Precompute(n)` for each n in 3..8, bit by bit (kernel evaluation of the generated
definition over the 64 positions).  Square (x, y) is bit `x + y*n`.  Go's `R` is the column x = 0 and `L` the
column x = n-1; `B` is the row y = 0, `T` the row y = n-1; `Mask` is the board.  8×8 uses bit 63. -/
theorem edge_masks (n : Nat) (hn : 3 ≤ n ∧ n ≤ 8) (i : Fin 64) :
    (Gen.precompute n).R.getLsbD i = (decide (i.val % n = 0) && decide (i.val < n * n)) ∧
    (Gen.precompute n).L.getLsbD i = (decide (i.val % n = n - 1) && decide (i.val < n * n)) ∧
    (Gen.precompute n).B.getLsbD i = decide (i.val < n) ∧
    (Gen.precompute n).T.getLsbD i = (decide (i.val / n = n - 1) && decide (i.val < n * n)) ∧
    (Gen.precompute n).Mask.getLsbD i = decide (i.val < n * n) ∧
    (Gen.precompute n).Size = n :=
  ⟨R_bit n hn i, L_bit n hn i, B_bit n hn i, T_bit n hn i, Mask_bit n hn i, rfl⟩

/-- `Spec.neighbours` is orthogonal adjacency on the board, in coordinates x = i % n, y = i / n. -/
theorem neighbours_coords {n j k : Nat} (hj : j < n * n) :
    k ∈ Spec.neighbours n j ↔ k < n * n ∧
      ((k / n = j / n ∧ (k % n + 1 = j % n ∨ k % n = j % n + 1)) ∨
       (k % n = j % n ∧ (k / n + 1 = j / n ∨ k / n = j / n + 1))) :=
  mem_neighbours_coords hj

/-- **One round of growth** on a board of size 3..8, for `within`, `seed` inside the board: square `i` is in
`Grow` iff it is in `within` and it, or one of its orthogonal neighbours *on the board*, is in `seed`
(no wrap-around between rows, nothing enters from outside the board, bit 63 included). -/
theorem grow_spec (n : Nat) (hn : 3 ≤ n ∧ n ≤ 8) (w s : W)
    (hw : Sub w (Gen.precompute n).Mask) (hs : Sub s (Gen.precompute n).Mask) (i : Nat) :
    (Gen.grow (Gen.precompute n) w s).getLsbD i =
      (w.getLsbD i && (s.getLsbD i || (Spec.neighbours n i).any (fun j => s.getLsbD j))) :=
  Roads.grow_spec n hn w s hw hs i

example : Sub 0x1ff#64 (Gen.precompute 3).Mask ∧ Sub 0x010#64 (Gen.precompute 3).Mask :=
  ⟨(subB_iff _ _).mp (by decide), (subB_iff _ _).mp (by decide)⟩

/-! ## 2. `Flood` -/

/-- `Flood` terminates within the model's 66 rounds for **any** constants when `seed ⊆ within`
(a round that does not stop adds a bit; there are 64 bits). -/
theorem flood_isSome (c : Consts) (within seed : W) (h : Sub seed within) :
    (flood c within seed).isSome = true :=
  Roads.flood_isSome c within seed h

/-- `Flood` returns the least fixpoint: exactly the squares joined to a seed square by a chain of
adjacent squares inside `within`. -/
theorem flood_reach (n : Nat) (hn : 3 ≤ n ∧ n ≤ 8) (within seed : W)
    (hw : Sub within (Gen.precompute n).Mask) (hs : Sub seed within) :
    ∃ r, flood (Gen.precompute n) within seed = some r ∧
      ∀ k, r.getLsbD k = true ↔
        ∃ i, seed.getLsbD i = true ∧ Spec.Conn n (fun j => within.getLsbD j = true) i k :=
  Roads.flood_reach n hn within seed hw hs

/-! ## 3. `FloodGroups` -/

/-- `FloodGroups` never runs out of fuel and returns a duplicate-free list consisting of exactly the
connected components of `bits` with at least two squares (`IsComp n bits g`: `g` is the set of squares
connected to some square of `bits`; `Big g`: two distinct squares). -/
theorem groups_spec (n : Nat) (hn : 3 ≤ n ∧ n ≤ 8) (bits : W) (hb : Sub bits (Gen.precompute n).Mask) :
    ∃ gs, floodGroups (Gen.precompute n) bits = some gs ∧ gs.Nodup ∧
      ∀ g, g ∈ gs ↔ IsComp n bits g ∧ Big g :=
  Roads.groups_spec n hn bits hb

/-- `Big g` in `groups_spec` is "at least two squares" as a popcount -/
theorem big_iff_cnt (g : W) : Big g ↔ 2 ≤ cnt g := Roads.big_iff_cnt g

/-- the model's `popcount` (Kernighan loop, fuel 64) is the number of set bits -/
theorem popcount_eq_cnt (x : W) : Tak.popcount x = cnt x := Roads.popcount_eq_cnt x

/-- different components share no square, so `Nodup` above means "each component once" -/
theorem components_disjoint {n : Nat} {all g h : W} (hg : IsComp n all g) (hh : IsComp n all h) {j : Nat}
    (hgj : g.getLsbD j = true) (hhj : h.getLsbD j = true) : g = h :=
  hg.eq_of_common hh hgj hhj

/-- `FloodGroups` and therefore `analyze()` stay within the model's fuel for **every** position and
**any** constants (each round clears the lowest set bit, each `Flood` has `seed ⊆ within`): the
model's `hang "analyze"` outcome is unreachable. -/
theorem floodGroups_isSome (c : Consts) (bits : W) : (floodGroups c bits).isSome = true :=
  Roads.floodGroups_isSome c bits

theorem analyze_ne_none (p : Pos) : p.analyze ≠ none :=
  Roads.analyze_ne_none p

/-! ## 4. roads -/

/-- The executable rule-book road search decides the inductive notion of a road, for every state. -/
theorem spec_hasRoad_iff (s : State) (c : Color) : Spec.hasRoad s c = true ↔ Spec.RoadPath s c :=
  Roads.spec_hasRoad_iff s c

/-- **Road detection.**  On a well-formed board, for White and for Black: some group recorded by `analyze`
touches both the top and bottom rows or both the left and right columns (the test in `hasRoad()`) iff
the position seen through `At` has a chain of adjacent squares topped by that colour's flats/capstones
joining two opposite edges.  (Single-square groups are dropped by `FloodGroups`; they cannot span a board
of size ≥ 3.) -/
theorem hasRoad_iff (p : Pos) (wf : RoadWF p) :
    (p.wgroups.any (isRoadGroup p.c) = true ↔ Spec.RoadPath (Spec.abs p) .white) ∧
    (p.bgroups.any (isRoadGroup p.c) = true ↔ Spec.RoadPath (Spec.abs p) .black) :=
  ⟨groups_any_iff_roadPath p wf .white (by decide), groups_any_iff_roadPath p wf .black (by decide)⟩

/-! ## 5. the end of the game -/

/-- The rule-book outcome, read with roads as propositions: this is the property's text. -/
theorem outcome_rules (s : State) :
    ((outcome s).over = true ↔
        RoadPath s .white ∨ RoadPath s .black ∨ (∀ sq ∈ s.squares, sq ≠ []) ∨
        s.whiteStones + s.whiteCaps = 0 ∨ s.blackStones + s.blackCaps = 0) ∧
    ((outcome s).road = true ↔ RoadPath s .white ∨ RoadPath s .black) ∧
    (RoadPath s .white → RoadPath s .black → (outcome s).winner = s.toMove.flip) ∧
    (RoadPath s .white → ¬ RoadPath s .black → (outcome s).winner = .white) ∧
    (¬ RoadPath s .white → RoadPath s .black → (outcome s).winner = .black) ∧
    (¬ RoadPath s .white → ¬ RoadPath s .black → (outcome s).over = true →
        (outcome s).winner = flatsWinnerOf s) ∧
    ((outcome s).over = false → (outcome s).winner = .none) ∧
    (outcome s).whiteFlats = flatCount s .white ∧ (outcome s).blackFlats = flatCount s .black :=
  Roads.outcome_rules s

/-- **`WinDetails()` = the rule book** on every well-formed board:
over / winner (road owner; the previous mover on a double road; flats with the tie-break flag) /
reason / both flat counts (popcounts = counts over the squares). -/
theorem winDetails_refines (p : Pos) (wf : RoadWF p) :
    toOutcome p.winDetails = Spec.outcome (Spec.abs p) :=
  Roads.winDetails_refines p wf

/-- **`GameOver()` = the rule book.** -/
theorem gameOver_refines (p : Pos) (wf : RoadWF p) :
    p.gameOver = ((Spec.outcome (Spec.abs p)).over, (Spec.outcome (Spec.abs p)).winner) :=
  Roads.gameOver_refines p wf

/-- **`ptn.ResultFromGame`**: the result string is the rule book's ("R-0", "0-F", "1/2-1/2", …), and the
call panics exactly when the rule book says the game is still running. -/
theorem result_refines (p : Pos) (wf : RoadWF p) :
    p.resultFromGame = match Spec.result (Spec.abs p) with
      | some r => .ok r
      | none => .error (.panic "ResultFromGame: game is not over") :=
  Roads.result_refines p wf

/-! ## 6. the hypotheses are satisfiable and checkable -/

/-- the invariant as an executable test (run on every sampled position by the `wfb` op) -/
theorem wfBoardB_iff (p : Pos) : p.wfBoardB = true ↔ WFBoard p :=
  Roads.wfBoardB_iff p

/-- start positions are well-formed -/
theorem new_wf (cfg : Cfg) (p : Pos) (h : Pos.new cfg = .ok p) : WFBoard p :=
  Roads.new_wf cfg p h

/-- **every position `FromSquares` returns** (any input it accepts, any ply, any configuration of size 3..8
— other sizes make `New` panic) satisfies the hypothesis `RoadWF` of the theorems above -/
theorem fromSquares_wf (basis : Array W) (cfg : Cfg) (board : List (List Nat)) (move : Int) (p : Pos)
    (h : Pos.fromSquares basis cfg board move = .ok p) : RoadWF p :=
  Roads.fromSquares_roadWF basis cfg board move p h

/-- … so `WinDetails()` on every constructed position is the rule book's verdict -/
theorem constructed_gameOver (basis : Array W) (cfg : Cfg) (board : List (List Nat)) (move : Int) (p : Pos)
    (h : Pos.fromSquares basis cfg board move = .ok p) :
    toOutcome p.winDetails = Spec.outcome (Spec.abs p) :=
  Roads.winDetails_refines p (Roads.fromSquares_roadWF basis cfg board move p h)

/-- the full invariant implies the part the theorems use -/
theorem wfBoard_roadWF (p : Pos) (wf : WFBoard p) : RoadWF p := wf.toRoadWF

/-- whatever `analyze` returns has its `analyzed` field true (so `Move`/`FromSquares` results do) -/
theorem analyze_idem (p q : Pos) (h : p.analyze = some q) : q.analyze = some q :=
  Roads.analyze_idem p q h

/-! ### concrete instances of the hypotheses (non-vacuity), evaluated by the kernel -/

/-- a board given by its four bitboards, analysed -/
def exBoard (size : Nat) (white black standing caps : W) (move : Int) (ws wc bs bc : Nat) : Pos :=
  let p : Pos :=
    { cfg := ⟨size, 30, 1, false⟩, c := Gen.precompute size
      whiteStones := BitVec.ofNat 8 ws, whiteCaps := BitVec.ofNat 8 wc
      blackStones := BitVec.ofNat 8 bs, blackCaps := BitVec.ofNat 8 bc
      move := move, white := white, black := black, standing := standing, caps := caps
      height := #[], stacks := #[], wgroups := [], bgroups := [], hash := 0#64 }
  p.analyze.getD p

/-- 5×5: a bent white road a1-a2-b2-c2-c3-d3-e3 with a capstone on c2, a black wall on b3 -/
def ex5 : Pos := exBoard 5 0x70e1#64 0x800#64 0x800#64 0x80#64 14 10 0 10 1

example : WFBoard ex5 := (wfBoardB_iff _).mp (by decide)
example : ex5.winDetails = ⟨true, .road, .white, 6, 0⟩ := by decide

/-- 8×8 with a white road up column h (bits 7, 15, …, 63) and a black road up column a: a double road -/
def ex8 : Pos := exBoard 8 0x8080808080808080#64 0x0101010101010101#64 0#64 0#64 31 10 1 10 1

example : WFBoard ex8 := (wfBoardB_iff _).mp (by decide)
-- Black to move (ply 31), so White just moved and wins the double road
example : ex8.winDetails = ⟨true, .road, .white, 8, 8⟩ := by decide

/-- 3×3, no road: White has no flat stones left but still a capstone in reserve → not over;
with the capstone gone too → over on flats (2 : 1) -/
def ex3 (wc : Nat) : Pos := exBoard 3 0b000000011#64 0b100000000#64 0#64 0#64 20 0 wc 5 0

example : WFBoard (ex3 1) := (wfBoardB_iff _).mp (by decide)
example : (ex3 1).winDetails = ⟨false, .flats, .none, 2, 1⟩ := by decide
example : (ex3 0).winDetails = ⟨true, .flats, .white, 2, 1⟩ := by decide
example : (ex3 0).resultFromGame.toOption = some "F-0" ∧ ex8.resultFromGame.toOption = some "R-0" ∧
    (ex3 1).resultFromGame.toOption = none := by decide

end C02
