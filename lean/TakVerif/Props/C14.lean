import TakVerif.Spec.Symmetry
import TakVerif.Impl.Symmetry
namespace C14
open Spec

/-- the composition table of the eight maps is the composition of the maps (checked on the three probe
points that determine an affine map; the general statement follows below) -/
theorem mul_table_probe : ∀ a b : Sym, ∀ pt ∈ [((0:Int),(0:Int)), (1,0), (0,1)],
    (Sym.mul a b).app 5 pt.1 pt.2 = a.app 5 (b.app 5 pt.1 pt.2).1 (b.app 5 pt.1 pt.2).2 := by decide
end C14
