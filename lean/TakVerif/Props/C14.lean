import TakVerif.Proofs.SymStep
import TakVerif.Proofs.SymOutcome
import TakVerif.Proofs.SymTransform
import TakVerif.Proofs.SymDedup
import TakVerif.Proofs.Outcome
import TakVerif.Proofs.MoveRefine
import TakVerif.Proofs.ImageFact
import TakVerif.Proofs.RoadInv

/-!
# C14 — the eight board symmetries commute with the rules

Rule book: `Spec.step`, `Spec.outcome` on list boards (`Spec/Tak.lean`); the eight maps act on coordinates
(`Spec.Sym.app`), directions (`Sym.dir`), moves (`Sym.move`) and states (`Sym.state`) — `Spec/Symmetry.lean`,
numbered in the order of `symmetries()` in `symmetry/canonical.go`.
Model: `Tak.symBasic`, `Tak.Symm.app` (`compose`), `Tak.transformMove`, `Tak.imagePos`, `Tak.dedupByHash`,
`Tak.symmetries` (`Impl/Symmetry.lean`), int8 arithmetic included.

Everything below is for every board size, every state whose square list has `size²` entries (`State.WF`;
`Spec.abs p` always has), every move — legal or not — and all eight maps; nothing is sampled.
Helper lemmas: `Proofs/{SymBasic,SymState,SymStep,SymOutcome,SymTransform,SymDedup}.lean`.
-/
namespace C14
open Tak Spec

/-! ## 1. the eight maps form a group acting on the board -/

/-- The composition table `Sym.mul` is composition of the coordinate maps (for every board size and all
integer coordinates), so the eight maps are closed under composition. -/
theorem mul_table (a b : Sym) (n x y : Int) :
    (Sym.mul a b).app n x y = a.app n (b.app n x y).1 (b.app n x y).2 :=
  Sym.mul_app a b n x y

/-- group laws of the table (`decide` over the 8, 64 and 512 cases) and inverses as maps -/
theorem group_laws :
    (∀ a b c : Sym, Sym.mul (Sym.mul a b) c = Sym.mul a (Sym.mul b c)) ∧
    (∀ a : Sym, Sym.mul 0 a = a ∧ Sym.mul a 0 = a ∧ Sym.mul a.inv a = 0 ∧ Sym.mul a a.inv = 0) ∧
    (∀ (k : Sym) (n x y : Int), k.inv.app n (k.app n x y).1 (k.app n x y).2 = (x, y)) ∧
    (∀ (k : Sym) (n x y : Int), onB n (k.app n x y).1 (k.app n x y).2 ↔ onB n x y) :=
  ⟨Sym.mul_assoc, fun a => ⟨Sym.one_mul a, Sym.mul_one a, Sym.inv_mul a, Sym.mul_inv a⟩,
   Sym.app_inv, Sym.onB_app⟩

/-- reading the image: the square at `k(x, y)` of `k • s` is the square at `(x, y)` of `s` -/
theorem image_at (k : Sym) (s : State) {x y : Int} (h : onB s.size x y) :
    (k.state s).at (k.app s.size x y).1 (k.app s.size x y).2 = s.at x y :=
  Sym.state_at k s h

/-! ## 2. equivariance of the rules -/

/-- **The symmetries commute with the rules.**  Transforming a position and a move and then applying the
move gives the transform of applying the original move to the original position; if the original move is
illegal (`none`) so is the transformed one, and conversely. -/
theorem step_equivariant (k : Sym) (s : State) (hs : s.WF) (m : Spec.Move) :
    Spec.step (k.state s) (k.move s.size m) = (Spec.step s m).map k.state :=
  Sym.step_equivariant k s hs m

/-- legality is unchanged -/
theorem legality_invariant (k : Sym) (s : State) (hs : s.WF) (m : Spec.Move) :
    (Spec.step (k.state s) (k.move s.size m)).isSome = (Spec.step s m).isSome := by
  rw [step_equivariant k s hs m]; cases Spec.step s m <;> rfl

/-- **Game-over status, winner, win reason and both flat counts are unchanged** by each of the maps. -/
theorem outcome_invariant (k : Sym) (s : State) (hs : s.WF) :
    Spec.outcome (k.state s) = Spec.outcome s :=
  Sym.outcome_invariant k hs

/-- roads are mapped to roads (the geometric content of `outcome_invariant`) -/
theorem roadPath_invariant (k : Sym) (s : State) (hs : s.WF) (c : Color) :
    RoadPath (k.state s) c ↔ RoadPath s c :=
  Sym.roadPath_iff k hs c

/-- the bit-level `WinDetails()` of two well-formed positions, one of which shows (through `At`, reserves, ply)
the `k`-image of the other, agree — `outcome_invariant` carried to the model through C02's `winDetails_refines` -/
theorem winDetails_invariant (k : Sym) (p q : Pos) (wfp : Roads.RoadWF p) (wfq : Roads.RoadWF q)
    (himg : Spec.abs q = k.state (Spec.abs p)) :
    Roads.toOutcome q.winDetails = Roads.toOutcome p.winDetails := by
  rw [Roads.winDetails_refines p wfp, Roads.winDetails_refines q wfq, himg]
  exact Sym.outcome_invariant k (by simp [State.WF, Spec.abs])

/-- what `C01.move_refines` concludes for one position and one raw move (it does so for every well-formed
position and every move other than the internal pass whose result respects the 64-piece limit) -/
def RefinesAt (basis : Array W) (p : Pos) (m : Tak.Move) : Prop :=
  match p.apply basis m with
  | .ok q => Spec.step (Spec.abs p) (Spec.decode m) = some (Spec.abs q)
  | .error _ => Spec.step (Spec.abs p) (Spec.decode m) = none

/-- the bit-level `Move` commutes with the maps wherever it refines the rule book: a move is accepted on
the image position iff the original move is accepted on the original, and the results again show image and
original.  Stated for arbitrary raw moves `m`, `m'` that decode to a move and its image (`transformMove_spec`
provides `m'`). -/
theorem apply_equivariant (basis : Array W) (k : Sym) (p q : Pos) (m m' : Tak.Move)
    (rp : RefinesAt basis p m) (rq : RefinesAt basis q m')
    (himg : Spec.abs q = k.state (Spec.abs p))
    (hm : Spec.decode m' = k.move p.cfg.size (Spec.decode m)) :
    match p.apply basis m, q.apply basis m' with
    | .ok p', .ok q' => Spec.abs q' = k.state (Spec.abs p')
    | .error _, .error _ => True
    | _, _ => False := by
  have hs : (Spec.abs p).WF := by simp [State.WF, Spec.abs]
  have e : Spec.step (k.state (Spec.abs p)) (k.move p.cfg.size (Spec.decode m)) =
      (Spec.step (Spec.abs p) (Spec.decode m)).map k.state := step_equivariant k (Spec.abs p) hs (Spec.decode m)
  have e1 := rp
  have e2 := rq
  unfold RefinesAt at e1 e2
  rw [himg, hm] at e2
  cases h1 : p.apply basis m <;> cases h2 : q.apply basis m' <;> simp only [h1, h2] at e1 e2 ⊢
  · rw [e1] at e; rw [e] at e2; simp at e2
  · rw [e1] at e; rw [e] at e2; simp at e2
  · rw [e1] at e; rw [e] at e2; simp at e2; exact e2.symm

/-- the hypothesis `RefinesAt` is what C01 proves: for every well-formed position and every raw move that is
not the internal pass and whose result respects the 64-piece limit -/
theorem refinesAt_of_wf (basis : Array W) (p : Pos) (m : Tak.Move) (hwf : Tak.WF basis p)
    (hp : m.type ≠ Facts.mtPass) (hlim : Tak.StackLimit p m) : RefinesAt basis p m := by
  have h := Tak.move_refines_core (basis := basis) (p := p) (fun q => Roads.analyze_ne_none q) hwf m hp hlim
  unfold RefinesAt
  cases ha : p.apply basis m with
  | error e => rw [ha] at h; exact h
  | ok q => rw [ha] at h; exact h.1

/-! ## 3. `TransformMove` -/

/-- **`TransformMove` is the action on moves and never panics**: for every word `w` of the basic maps (a bare
map, or what `compose` builds in `Canonical`), on every board size up to 8 and every raw move whose
coordinates lie in `[-100, 100]` — any type code, any drop word, legal or not — the model returns a move (no
"symmetry is not sane", no "bad type"), whose reading is the image of the reading of `m` under the group
element `w` stands for, and whose origin is the image of the origin. -/
theorem transformMove_spec {n : Nat} (hn : n ≤ 8) (w : Symm) (m : Tak.Move)
    (hx : -100 ≤ m.x ∧ m.x ≤ 100) (hy : -100 ≤ m.y ∧ m.y ≤ 100) :
    ∃ m', transformMove n w m = .ok m' ∧
      Spec.decode m' = Sym.move (Symm.prod w) n (Spec.decode m) ∧
      (m'.x, m'.y) = (Symm.prod w).app n m.x m.y :=
  Tak.transformMove_spec hn w m hx hy

/-- the zero-drop slide of DESIGN §5 is mapped, not crashed on (the pinned tree panicked here) -/
example : transformMove 5 [5] ⟨4, 4, Facts.mtSlideLeft, 0#32⟩ = .ok ⟨0, 0, Facts.mtSlideRight, 0#32⟩ := by rfl

/-! ## 4. `Symmetries` -/

/-- no two *different* images of the position share a hash (the collision clause of C08 is not carried by a
theorem; this hypothesis makes the dependence explicit) -/
def NoCollision (ps : List (Pos × Fin 8)) : Prop :=
  ∀ a ∈ ps, ∀ b ∈ ps, a.1.hashOf = b.1.hashOf → a.1 = b.1

/-- **`Symmetries` lists each distinct image exactly once, paired with a transform that produces it.**
If the eight rebuilt images `imagePos basis p k` exist (`ps`) and do not collide, the returned list `rs`
(a) consists of pairs `(imagePos k, k)`, (b) has pairwise different positions, (c) contains every image.
What is *not* proved here: that `imagePos basis p k` shows the list-level image `Sym.state k (abs p)`
(the `At`/`FromSquares` round trip); that link is exercised by the `syms`/`ssyms` correspondence ops. -/
theorem symmetries_spec (basis : Array W) (p : Pos) (rs : List (Pos × Fin 8))
    (h : symmetries basis p = .ok rs) :
    ∃ ps : List (Pos × Fin 8),
      (∀ e ∈ ps, imagePos basis p e.2 = .ok e.1) ∧ (∀ k : Fin 8, ∃ e ∈ ps, e.2 = k) ∧
      (NoCollision ps →
        (∀ e ∈ rs, imagePos basis p e.2 = .ok e.1) ∧
        (rs.map (·.1)).Nodup ∧
        (∀ k q, imagePos basis p k = .ok q → q ∈ rs.map (·.1))) := by
  unfold symmetries at h
  cases hps : (List.finRange 8).mapM (fun k => do let q ← imagePos basis p k; pure (q, k)) with
  | error e => rw [hps] at h; cases h
  | ok ps =>
    rw [hps] at h
    have hrs : rs = dedupByHash ps [] [] := by cases h; rfl
    -- what `mapM` returned
    obtain ⟨m1, m2⟩ := mapM_ok_mem _ _ _ hps
    have unpack : ∀ (k : Fin 8) (e : Pos × Fin 8),
        (do let q ← imagePos basis p k; pure (q, k) : R (Pos × Fin 8)) = .ok e →
        imagePos basis p k = .ok e.1 ∧ e.2 = k := by
      intro k e hk
      cases hq : imagePos basis p k with
      | error err => simp [hq, bind, Except.bind] at hk
      | ok q => simp [hq, bind, Except.bind, pure, Except.pure] at hk; subst hk; exact ⟨rfl, rfl⟩
    have hmem : ∀ e ∈ ps, imagePos basis p e.2 = .ok e.1 := by
      intro e he
      obtain ⟨k, _, hk⟩ := m1 e he
      obtain ⟨h1, h2⟩ := unpack k e hk
      rw [h2]; exact h1
    have hcov : ∀ k : Fin 8, ∃ e ∈ ps, e.2 = k := by
      intro k
      obtain ⟨e, he, hk⟩ := m2 k (List.mem_finRange k)
      exact ⟨e, he, (unpack k e hk).2⟩
    refine ⟨ps, hmem, hcov, ?_⟩
    intro hnc
    subst hrs
    refine ⟨?_, ?_, ?_⟩
    · intro e he
      rcases dedup_mem ps [] [] e he with h | h
      · simp at h
      · exact hmem e h
    · have hn := dedup_nodup ps [] [] (by simp) (by simp)
      rw [List.Nodup, List.pairwise_map] at hn ⊢
      exact hn.imp (fun hne e => hne (congrArg Pos.hashOf e))
    · intro k q hq
      obtain ⟨a, ha, hak⟩ := hcov k
      have haq : a.1 = q := by
        have := hmem a ha
        rw [hak, hq] at this
        cases this; rfl
      obtain ⟨e, he, hee⟩ := dedup_cover ps [] [] (by simp) a ha
      have hmem_e : e ∈ ps := by
        rcases dedup_mem ps [] [] e he with h | h
        · simp at h
        · exact h
      have := hnc e hmem_e a ha hee
      exact List.mem_map.2 ⟨e, he, by rw [this, haq]⟩

/-- **…and each listed position shows the list-level image under its transform**, for every position of a
default game (`InvD`: C01's `WF`, piece budget ≤ 64, the configuration `New` stores, conservation of pieces —
an invariant of all positions reachable by `Move` from `New` on sizes up to 6×6, `Tak.posFacts2_defaultD`).
Together with `symmetries_spec` this is the last sentence of the property: each distinct image exactly once,
paired with the transform that produces it. -/
theorem symmetries_show_images (basis : Array W) (p : Pos) (hp : InvD basis p) (rs : List (Pos × Fin 8))
    (h : symmetries basis p = .ok rs) :
    ∀ e ∈ rs, Spec.abs e.1 = Sym.state e.2 (Spec.abs p) := by
  intro e he
  exact imageFact_invD basis p e.2 e.1 hp ((symmetries_mem basis p rs h).1 e he)

/-- **The bit-level `Move` commutes with the symmetries** — the first sentence of the property for the model,
with no refinement hypothesis left: for every position `p` of a default game (`InvD`, see above), each of the
eight maps `k`, the image position `q` rebuilt by `Symmetries`' construction, and every raw move `m` other than
the internal pass with coordinates in `[-100, 100]` (legal or not, any drop word): `TransformMove` yields `sm`,
and either both `Move p m` and `Move q sm` are rejected, or both are accepted and the result on the image shows
the image of the result. -/
theorem move_equivariant_default (basis : Array W) (p q : Pos) (k : Fin 8) (hp : InvD basis p)
    (hq : imagePos basis p k = .ok q) (m : Tak.Move) (hnp : m.type ≠ Facts.mtPass)
    (hx : -100 ≤ m.x ∧ m.x ≤ 100) (hy : -100 ≤ m.y ∧ m.y ≤ 100) :
    ∃ sm, transformMove p.cfg.size [k] m = .ok sm ∧
      (match p.apply basis m, q.apply basis sm with
       | .ok p', .ok q' => Spec.abs q' = Sym.state k (Spec.abs p')
       | .error _, .error _ => True
       | _, _ => False) := by
  obtain ⟨sm, h1, h2, -⟩ := Tak.transformMove_spec hp.1.size_le [k] m hx hy
  have hprod : Symm.prod [k] = k := by simp [Symm.prod, Sym.mul_one]
  rw [hprod] at h2
  refine ⟨sm, h1, ?_⟩
  obtain ⟨wq, bq⟩ := image_wf basis p q k hp hq
  have hsmnp : sm.type ≠ Facts.mtPass := by
    have := Tak.transformMove_raw hp.1.size_le [k] m hx hy
    rw [h1, hprod] at this
    cases this
    unfold Sym.raw
    cases hd : dirOf m.type with
    | none => exact hnp
    | some d =>
      show dirCode (Sym.dir k d) ≠ Facts.mtPass
      generalize Sym.dir k d = d'
      cases d' <;> decide
  exact apply_equivariant basis k p q m sm
    (refinesAt_of_wf basis p m hp.1 hnp (stackLimit_of_budget m hp.2.1))
    (refinesAt_of_wf basis q sm wq hsmnp (stackLimit_of_budget sm bq))
    (imageFact_invD basis p k q hp hq) h2

/-- **…and `WinDetails()` of the rebuilt image equals that of the position** (over / winner / reason / both flat
counts), for every analysed position of a default game: the image satisfies C02's invariant because it comes
out of `FromSquares` (`Roads.fromSquares_roadWF`) and shows the list-level image (`imageFact_invD`). -/
theorem winDetails_invariant_default (basis : Array W) (p q : Pos) (k : Fin 8) (hp : InvD basis p)
    (hr : Roads.RoadWF p) (hq : imagePos basis p k = .ok q) :
    Roads.toOutcome q.winDetails = Roads.toOutcome p.winDetails := by
  have hrq : Roads.RoadWF q := by
    unfold imagePos at hq
    cases hb : imageBoard p k with
    | error e => simp [hb, bind, Except.bind] at hq
    | ok b =>
      simp only [hb, bind, Except.bind] at hq
      exact Roads.fromSquares_roadWF basis _ _ _ q hq
  exact winDetails_invariant k p q hr hrq (imageFact_invD basis p k q hp hq)

/-! ## 5. the hypotheses are satisfiable; concrete instances -/

/-- `InvD` is satisfiable: it holds at the start of every default game up to 6×6 (and `posFacts2_defaultD.apply`
carries it along every accepted non-pass move) -/
example (basis : Array W) : ∃ p, Pos.new ⟨5, 0, 0, false⟩ = .ok p ∧ InvD basis p :=
  ⟨_, rfl, (posFacts2_defaultD basis 5 (by decide)).new _ rfl⟩

/-- a 3×3 state with a white wall on a1, a black flat on b1, a two-high stack on c2 -/
def exState : State :=
  { size := 3, blackWinsTies := false, ply := 6, whiteStones := 7, whiteCaps := 0, blackStones := 8, blackCaps := 0,
    squares := [[⟨.white, .standing⟩], [⟨.black, .flat⟩], [], [], [], [⟨.white, .flat⟩, ⟨.black, .flat⟩], [], [], []] }

example : exState.WF := by unfold State.WF; rfl

/-- the quarter turn `rotCW` moves the stack from c2 to b1's column: a concrete non-trivial instance of
`step_equivariant` (a legal two-piece slide with two drops and its image, compared by evaluation) -/
example : Spec.step ((6 : Sym).state exState) ((6 : Sym).move 3 (.slide 2 1 .left [1, 1])) =
    (Spec.step exState (.slide 2 1 .left [1, 1])).map (6 : Sym).state ∧
    (Spec.step exState (.slide 2 1 .left [1, 1])).isSome = true := by decide

/-- and an illegal move (sliding onto the wall) stays illegal under the diagonal flip -/
example : Spec.step exState (.slide 1 0 .left [1]) = none ∧
    Spec.step ((3 : Sym).state exState) ((3 : Sym).move 3 (.slide 1 0 .left [1])) = none := by decide

end C14
