-- To be renamed to C10_closed.lean by the coordinator once agent-roads (Proofs/Groups.lean) is merged:
-- discharges the `AnalyzeTotal` hypothesis of C10 and the `hA` hypothesis of C13.parseTPS_terminates.
import TakVerif.Props.C10
import TakVerif.Props.C13_tps
import TakVerif.Proofs.Groups

namespace C10
open Tak Go Notation TPS

theorem analyzeTotal : AnalyzeTotal := Roads.analyze_ne_none

theorem tps_roundtrip_closed (basis : Array W) (p : Pos) (h : tpsHyp basis p = true) :
    ∃ s p', formatTPS p = .ok s ∧ parseTPS basis s = .ok p' ∧
      p'.equal p = true ∧ p'.hashOf = p.hashOf ∧
      p'.whiteStones = p.whiteStones ∧ p'.whiteCaps = p.whiteCaps ∧
      p'.blackStones = p.blackStones ∧ p'.blackCaps = p.blackCaps ∧
      p'.toMove = p.toMove ∧ p'.move = p.move :=
  tps_roundtrip basis p analyzeTotal h

theorem tps_canonical_roundtrip_closed (basis : Array W) (s : Bytes) (h : CanonicalTPS s) :
    ∃ p, parseTPS basis s = .ok p ∧ formatTPS p = .ok s :=
  tps_canonical_roundtrip basis s analyzeTotal h

end C10

namespace C13
theorem parseTPS_terminates_closed (basis : Array Tak.W) (bytes : Go.Bytes) (site : String) :
    Tak.TPS.parseTPS basis bytes ≠ .error (.hang site) :=
  parseTPS_terminates Roads.analyze_ne_none basis bytes site
end C13
