import TakVerif.Props.C07_compose2
import TakVerif.Props.C05_rules
import TakVerif.Impl.BotCheck

/-! # C07 composed: Friendly's check engine (`f.check`, `waitUndo`) threaded instead of an oracle (work package botcompose2)

`Impl/BotCheck.lean`: `f.check` is an object of the game like `f.ai`; `checkVerdicts` / `waitUndoK` are `waitUndo` run
on it, `enterK` is `enter` with the verdicts computed from the engine state instead of given.

* `waitUndoK_decides` — what `waitUndo` decides, in terms of the two `Analyze` calls: the bot arms `undoTimeout` (30 s
  instead of `minThink`) **iff** the first analysis (position to move on) reports a value ≥ `WinThreshold` at depth ≤ 1
  **and** the second (the record's `Positions[len-2]`, run on the engine state the first one left) reports a value
  > `-WinThreshold`; without a win in one the engine is consulted once.
* `waitUndo_decides_rules` — the same by the rule book, for any check engine meeting `CheckerSpec` (its verdicts are
  exact: C05's conclusions): the bot waits **iff** it has a win in one and the opponent, in the position before their
  last move, was not already lost within the depth the engine reports (≤ 3).
* `checkerSpec_minimax_statement` — that `f.check` as configured meets `CheckerSpec`: NOT proved, see there.
* `threaded_refines` — every run of the threaded system is a run of the oracle system (`Tak.Compose.run`) on the
  verdicts the engine computed — or the check engine itself panicked.  So every theorem of `C07_compose(2)` applies
  (`bot_inv_threaded`). -/
namespace C07
open Search Tak Tak.Bot Tak.Glue Tak.FPA Tak.Compose Spec.Game
open Spec (abs ruleGame)

variable {σ χ κ ξ : Type}

/-! ## what `waitUndo` decides -/

/-- **`waitUndoK_decides`** (any check engine): see the header -/
theorem waitUndoK_decides (K : Checker κ ξ) (x1 x2 : ξ) (g : GameRec) (p : Pos) (k : κ) (w : Bool) (k' : κ)
    (h : waitUndoK K x1 x2 g p k = .ok (w, k')) :
    ∃ v d k1, K.analyze x1 p k = .ok ((v, d), k1) ∧
      (¬ (v ≥ Facts.winThreshold ∧ d ≤ 1) → w = false ∧ k' = k1) ∧
      ((v ≥ Facts.winThreshold ∧ d ≤ 1) → ∃ top q rest v2 d2, g.positions = top :: q :: rest ∧
        K.analyze x2 q k1 = .ok ((v2, d2), k') ∧ (w = true ↔ v2 > -Facts.winThreshold)) := by
  unfold waitUndoK checkVerdicts at h
  cases h1 : K.analyze x1 p k with
  | error e => simp [h1, bind, Except.bind] at h
  | ok r =>
    obtain ⟨⟨v, d⟩, k1⟩ := r
    refine ⟨v, d, k1, rfl, ?_, ?_⟩
    · intro hn
      have hc : v < Facts.winThreshold ∨ d > 1 := by omega
      simp only [h1, bind, Except.bind, if_pos hc] at h
      have hw : waitUndo g { curV := v, curDepth := d, prevV := 0 } = .ok false := by
        unfold waitUndo asksPrev
        have : (decide (v < Facts.winThreshold) || decide (d > 1)) = true := by
          rcases hc with hc | hc <;> simp [hc]
        simp [this]
      rw [hw] at h
      injection h with h
      exact ⟨(Prod.mk.inj h).1.symm, (Prod.mk.inj h).2.symm⟩
    · intro hy
      have hc : ¬ (v < Facts.winThreshold ∨ d > 1) := by omega
      simp only [h1, bind, Except.bind, if_neg hc] at h
      have hask : ∀ v2, asksPrev { curV := v, curDepth := d, prevV := v2 } = true := by
        intro v2
        unfold asksPrev
        have h1 : decide (v < Facts.winThreshold) = false := by simp; omega
        have h2 : decide (d > 1) = false := by simp; omega
        simp [h1, h2]
      match hg : g.positions with
      | [] =>
        rw [hg] at h
        simp only [waitUndo, hask, hg] at h
        cases h
      | [_] =>
        rw [hg] at h
        simp only [waitUndo, hask, hg] at h
        cases h
      | top :: q :: rest =>
        rw [hg] at h
        dsimp only at h
        cases h2 : K.analyze x2 q k1 with
        | error e => simp [h2] at h
        | ok r2 =>
          obtain ⟨⟨v2, d2⟩, k2⟩ := r2
          simp only [h2, waitUndo, hask, hg, Bool.not_true, Bool.false_eq_true, if_false] at h
          injection h with h
          refine ⟨top, q, rest, v2, d2, rfl, ?_, ?_⟩
          · rw [← (Prod.mk.inj h).2]; exact h2
          · rw [← (Prod.mk.inj h).1]; simp

namespace ExCheck
/-- the 3×3 game of `C05.ExTak`: after a1 c3 b3 b1 White wins by a3; `prev` is the position before Black's b1 -/
def prev : Pos :=
  match C05.ExTak.start.applyAll C05.ExTak.basis C05.ExTak.moves.dropLast with | .ok p => p | .error _ => default
def K : Checker (Search.Eng Move) (Search.Oracle Move) := minimaxChecker C05.ExTak.basis (fun _ => [])
def eng0 : Search.Eng Move := Search.Eng.new (Search.takGame C05.ExTak.basis Search.evalWinner (fun _ => [])) checkCfg
def recd : GameRec := { color := .white, size := 3, positions := [C05.ExTak.mid, prev], moves := [] }
end ExCheck

/-- non-vacuity of `waitUndoK_decides`, on `f.check` as configured: White has a win in one (value `WinBase` at depth 1)
and Black was not lost before b1 (value 0): the bot arms `undoTimeout`; asked one ply earlier (Black to move, no win in
one: value 0 at depth 3) the engine is consulted once and the bot does not wait -/
example :
    (waitUndoK ExCheck.K Oracle.quiet Oracle.quiet ExCheck.recd C05.ExTak.mid ExCheck.eng0).toOption.map (·.1) = some true ∧
    (checkVerdicts ExCheck.K Oracle.quiet Oracle.quiet ExCheck.recd.positions C05.ExTak.mid ExCheck.eng0).toOption.map
      (fun x => (x.1.curV, x.1.curDepth, x.1.prevV)) = some (Facts.winBase, 1, 0) ∧
    (waitUndoK ExCheck.K Oracle.quiet Oracle.quiet { ExCheck.recd with positions := [ExCheck.prev] } ExCheck.prev
      ExCheck.eng0).toOption.map (·.1) = some false := by
  decide +kernel

/-- a check engine whose verdicts are exact in the sense of C05 (`analyze_verdict_rules`), on engine states `Good`:
a value ≥ `WinThreshold` found at depth ≤ 1 is a win in one by the rule book, and a value > `-WinThreshold` at
reported depth `d` means the side to move is not lost within `d` plies -/
structure CheckerSpec (K : Checker κ ξ) (basis : Array W) (Good : κ → Prop) : Prop where
  keeps : ∀ x p k r k', Good k → K.analyze x p k = .ok (r, k') → Good k'
  winInOne : ∀ x p k v d k', Good k → GoodPos basis p → p.gameOver.1 = false → K.analyze x p k = .ok ((v, d), k') →
    ((v ≥ Facts.winThreshold ∧ d ≤ 1) ↔ WinIn ruleGame p.toMove 1 (abs p))
  lost : ∀ x q k v d k', Good k → GoodPos basis q → q.gameOver.1 = false → K.analyze x q k = .ok ((v, d), k') →
    1 ≤ d ∧ d ≤ 3 ∧ (v > -Facts.winThreshold ↔ ¬ WinIn ruleGame q.toMove.flip d.toNat (abs q))

/-- **`waitUndo_decides_rules`** — with a check engine meeting `CheckerSpec`, on a record whose newest two positions are
`top` (to move on: `p` is handed in by the loop, `top` is what the record holds) and `q` (before the opponent's last move):
the bot arms `undoTimeout` **iff** it has a win in one in `p` by the rule book **and** the side to move in `q` — the
opponent — was not already lost within the depth `d2 ∈ 1..3` the second analysis reports (i.e. the opponent's last move
threw the game away: time to ask for an undo).  The engine state stays `Good`. -/
theorem waitUndo_decides_rules (K : Checker κ ξ) (basis : Array W) (Good : κ → Prop) (hK : CheckerSpec K basis Good)
    (x1 x2 : ξ) (g : GameRec) (p top q : Pos) (rest : List Pos) (hg : g.positions = top :: q :: rest)
    (hp : GoodPos basis p) (hpo : p.gameOver.1 = false) (hq : GoodPos basis q) (hqo : q.gameOver.1 = false)
    (k : κ) (hk : Good k) (w : Bool) (k' : κ) (h : waitUndoK K x1 x2 g p k = .ok (w, k')) :
    Good k' ∧
    (¬ WinIn ruleGame p.toMove 1 (abs p) → w = false) ∧
    (WinIn ruleGame p.toMove 1 (abs p) → ∃ d2 : Nat, 1 ≤ d2 ∧ d2 ≤ 3 ∧
      (w = true ↔ ¬ WinIn ruleGame q.toMove.flip d2 (abs q))) := by
  obtain ⟨v, d, k1, h1, hno, hyes⟩ := waitUndoK_decides K x1 x2 g p k w k' h
  have hw1 := hK.winInOne x1 p k v d k1 hk hp hpo h1
  have hk1 : Good k1 := hK.keeps x1 p k _ k1 hk h1
  by_cases hc : v ≥ Facts.winThreshold ∧ d ≤ 1
  · obtain ⟨top', q', rest', v2, d2, hg', h2, hw⟩ := hyes hc
    rw [hg] at hg'
    injection hg' with _ hg'
    injection hg' with hq' _
    subst hq'
    obtain ⟨hd1, hd3, hl⟩ := hK.lost x2 q k1 v2 d2 k' hk1 hq hqo h2
    refine ⟨hK.keeps x2 q k1 _ k' hk1 h2, fun hn => absurd (hw1.mp hc) hn, fun _ => ⟨d2.toNat, by omega, by omega, ?_⟩⟩
    rw [hw, hl]
  · obtain ⟨hwf, hkk⟩ := hno hc
    refine ⟨by rw [hkk]; exact hk1, fun _ => hwf, fun hwin => absurd (hw1.mpr hwin) hc⟩

/-- `f.check` as `Friendly.NewGame` configures it meets `CheckerSpec`: **not proved**.  Missing, exactly:
1. `checkCfg.opts` is not `Precise` (`NoReduceSlides = false`: the slide reduction is ON in `f.check`; null move is ON
   too but inert at `Depth ≤ 3`) — every verdict theorem of C05 (`analyze_verdict_rules`, `verdict_sound/complete`)
   assumes `Precise`, so none applies to the engine `waitUndo` really asks; with the reduction a forced loss within 3
   plies that runs through a reduced slide can be missed (the `lost` clause may fail for the real `f.check`: the bot then
   waits 30 s although the opponent was already lost — a matter of waiting time, not of C07);
2. the boundary: `waitUndo` tests `v < WinThreshold` / `v > -WinThreshold`, C05 characterises `v > WinThreshold` /
   `v < -WinThreshold`; closing it needs "negamax with `EvaluateWinner` only takes the values `0, ±WinBase`";
3. `EngGood` of the check engine's state along the game (as `EngInv` for `f.ai`), the ply bound of `analyze_verdict_rules`. -/
def checkerSpec_minimax_statement : Prop :=
  ∀ (basis : Array W) (sym : Pos → List Search.H),
    ∃ Good : Search.Eng Move → Prop,
      Good (Search.Eng.new (Search.takGame basis Search.evalWinner sym) checkCfg) ∧
      CheckerSpec { analyze := fun (o : { o : Search.Oracle Move // NoCancel o ∧ OrderOK o }) p s =>
                      (minimaxChecker basis sym).analyze o.1 p s } basis Good

/-! ## the threaded system refines the oracle system -/

/-- the check engine itself panicked (an `.error` exit of its `Analyze`) -/
def KDied (K : Checker κ ξ) (s : Compose.St σ χ) : Prop :=
  ∃ e x p k, s.dead = some e ∧ K.analyze x p k = .error e

theorem checkVerdicts_error (K : Checker κ ξ) (x1 x2 : ξ) (ps : List Pos) (p : Pos) (k : κ) (e : Err)
    (h : checkVerdicts K x1 x2 ps p k = .error e) : ∃ x q k0, K.analyze x q k0 = .error e := by
  unfold checkVerdicts at h
  cases h1 : K.analyze x1 p k with
  | error e1 =>
    simp only [h1, bind, Except.bind] at h
    injection h with h
    exact ⟨x1, p, k, by rw [h1, h]⟩
  | ok r =>
    obtain ⟨⟨v, d⟩, k1⟩ := r
    simp only [h1, bind, Except.bind] at h
    split at h
    · cases h
    · split at h
      · rename_i q _
        cases h2 : K.analyze x2 q k1 with
        | error e2 =>
          simp only [h2] at h
          injection h with h
          exact ⟨x2, q, k1, by rw [h2, h]⟩
        | ok r2 => simp [h2] at h
      · cases h

theorem stepK_refines (c : Compose.Conf) (S : Searcher σ χ) (K : Checker κ ξ) (sk : Compose.St σ χ × κ) (e : EvK χ ξ) :
    KDied K (stepK c S K sk e).1 ∨ ∃ e', (stepK c S K sk e).1 = Compose.step c S sk.1 e' := by
  unfold stepK
  split
  · rename_i hd
    exact .inr ⟨.close, by unfold Compose.step; rw [if_pos hd]⟩
  · rename_i hd
    cases e with
    | deliver bits parsed => exact .inr ⟨.deliver bits parsed, rfl⟩
    | close => exact .inr ⟨.close, rfl⟩
    | timerFires => exact .inr ⟨.timerFires, rfl⟩
    | leave k x => exact .inr ⟨.leave k x, rfl⟩
    | enter k x1 x2 =>
      dsimp only
      unfold enterK
      split
      · exact .inr ⟨.enter k noVerdict, by unfold Compose.step; rw [if_neg hd]⟩
      · split
        · rename_i hnone
          exact .inr ⟨.enter k noVerdict, by
            unfold Compose.step; rw [if_neg hd]
            dsimp only
            unfold Compose.enter
            rw [hnone]⟩
        · split
          · rename_i chk kk' _
            exact .inr ⟨.enter k chk, by unfold Compose.step; rw [if_neg hd]⟩
          · rename_i err herr
            obtain ⟨x, q, k0, hx⟩ := checkVerdicts_error K x1 x2 _ _ _ err herr
            exact .inl ⟨err, x, q, k0, rfl, hx⟩

theorem stepK_dead (c : Compose.Conf) (S : Searcher σ χ) (K : Checker κ ξ) (sk : Compose.St σ χ × κ) (e : EvK χ ξ)
    (h : sk.1.dead.isSome = true) : stepK c S K sk e = sk := by
  unfold stepK
  rw [if_pos h]

theorem runK_dead (c : Compose.Conf) (S : Searcher σ χ) (K : Checker κ ξ) (evs : List (EvK χ ξ)) :
    ∀ (sk : Compose.St σ χ × κ), sk.1.dead.isSome = true → runK c S K sk evs = sk := by
  induction evs with
  | nil => intro _ _; rfl
  | cons e es ih =>
    intro sk h
    show runK c S K (stepK c S K sk e) es = sk
    rw [stepK_dead c S K sk e h]
    exact ih sk h

/-- **`threaded_refines`** — every run of the system with the check engine threaded (`Impl/BotCheck.lean`) is, as far as
the bot, rule, searching player, wire and ghost records go, a run of the oracle system `Tak.Compose.run` on some event
list (the `enter` events carrying the verdicts the check engine computed from its state) — unless the check engine's own
`Analyze` took an `.error` exit, which kills the thinker goroutine (`KDied`). -/
theorem threaded_refines (c : Compose.Conf) (S : Searcher σ χ) (K : Checker κ ξ) (evs : List (EvK χ ξ)) :
    ∀ (sk : Compose.St σ χ × κ), KDied K (runK c S K sk evs).1 ∨
      ∃ evs', (runK c S K sk evs).1 = Compose.run c S sk.1 evs' := by
  induction evs with
  | nil => intro sk; exact .inr ⟨[], rfl⟩
  | cons e es ih =>
    intro sk
    show KDied K (runK c S K (stepK c S K sk e) es).1 ∨ ∃ evs', (runK c S K (stepK c S K sk e) es).1 = _
    rcases stepK_refines c S K sk e with hd | ⟨e', he'⟩
    · have hs : (stepK c S K sk e).1.dead.isSome = true := by
        obtain ⟨err, _, _, _, h, _⟩ := hd
        rw [h]; rfl
      rw [runK_dead c S K es _ hs]
      exact .inl hd
    · rcases ih (stepK c S K sk e) with h | ⟨evs', h⟩
      · exact .inl h
      · exact .inr ⟨e' :: evs', by rw [h, he']; rfl⟩

/-- so C07's invariant and the lock hold with the check engine threaded (and so does everything else proved of
`Tak.Compose.run` from its start state) -/
theorem bot_inv_threaded (c : Compose.Conf) (hfix : c.bot.fixed = true) (hsize : 3 ≤ c.size ∧ c.size ≤ 8)
    (S : Searcher σ χ) (K : Checker κ ξ) (secs : Int) (eng0 : σ) (chk0 : κ) (evs : List (EvK χ ξ)) :
    KDied K (runK c S K (startK c secs eng0 chk0) evs).1 ∨
      (Inv c.bot (runK c S K (startK c secs eng0 chk0) evs).1.b ∧
       holders (runK c S K (startK c secs eng0 chk0) evs).1.b ≤ 1) := by
  rcases threaded_refines c S K evs (startK c secs eng0 chk0) with h | ⟨evs', h⟩
  · exact .inl h
  · refine .inr ?_
    rw [h]
    obtain ⟨hs, hh, _⟩ := composed_loop_facts c hfix hsize S secs eng0 evs'
    exact ⟨hs.core.inv, hh⟩

end C07
