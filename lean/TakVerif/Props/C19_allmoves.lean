import TakVerif.Props.C19
import TakVerif.Props.C03

/-! C19 joined with C03: the road-winning move promised by `threat_real` is one that the move generator lists,
so the one-ply search that the depth-first prover, the evaluator and the tie stand for ("some move of
`AllMoves` that `Move` accepts wins by road at once") really finds it. -/
namespace C19
open Tak Roads Spec

/-- `Move.Equal` moves are applied identically: for slides `Equal` means equal in every field, and the engine never
reads the slide word of a placement -/
theorem apply_congr_equal (basis : Array W) (p : Pos) (m1 m2 : Tak.Move) (h : m1.equal m2 = true) :
    p.apply basis m1 = p.apply basis m2 := by
  unfold Move.equal at h
  split at h
  · cases h
  · rename_i hxy
    split at h
    · cases h
    · rename_i ht
      have hx : m1.x = m2.x := by
        apply Classical.byContradiction; intro hne; exact hxy (Or.inl hne)
      have hy : m1.y = m2.y := by
        apply Classical.byContradiction; intro hne; exact hxy (Or.inr hne)
      have htt : m1.type = m2.type := by
        apply Classical.byContradiction; intro hne; exact ht hne
      split at h
      · rename_i hns
        exact Tak.Proofs.apply_congr_nonslide basis p m1 m2 hx hy htt (by simpa using hns)
      · have hs : m1.slides = m2.slides := by simpa using h
        have : m1 = m2 := by
          cases m1; cases m2; simp_all
        rw [this]

/-- **the counted threat is found by a one-ply search over the generated moves**: under the hypotheses of
`threat_real` plus C03's `WFlite` (heights are zero exactly on the empty squares), some move *of `AllMoves`* is
accepted and wins by road at once -/
theorem threat_real_in_allMoves (basis : Array W) (p : Pos) (wf : WFBoard p) (hh : HeightsOK p)
    (wl : Tak.Proofs.WFlite p) (hply : 2 ≤ p.move) (hno : p.gameOver.1 = false)
    (hcount : 0 < (countThreats p.c p).forMover p) :
    ∃ m ∈ p.allMoves, ∃ q, p.apply basis m = .ok q ∧
      q.winDetails.over = true ∧ q.winDetails.winner = p.toMove ∧ q.winDetails.reason = .road := by
  obtain ⟨m, q, hnp, h1, ⟨a, b, c⟩, _, _⟩ := threat_real_impl basis p wf hh hply hno hcount
  obtain ⟨m', hm', heq⟩ := C03.allMoves_complete_engine basis p wl m q hnp h1
  have h2 : p.apply basis m' = .ok q := by rw [apply_congr_equal basis p m' m heq]; exact h1
  exact ⟨m', hm', q, h2, a, b, c⟩

end C19
