import TakVerif.Impl.Position
import TakVerif.Generated.FuncsTak
import TakVerif.Props.C02_gen

/-! Tie #1 for C08: `Position.Hash()` of `tak/hash.go` (the fold of the internal hash field with the four bitboards and
the side to move) is regenerated from the source on every run, on top of the regenerated `hash64`, `hash8` and
`ToMove`; the model's `Pos.hashOf`, which `C08.hash_congr` / `transposition` are about, is proved equal to it. -/
namespace C08
open Tak

/-- `Position.Hash()` reads `hash`, `White`, `Black`, `Standing`, `Caps` and `ToMove()` (i.e. `move`) - nothing else -/
theorem hashOf_is_source (p : Pos) :
    p.hashOf = Gen.positionHash p.black p.caps p.standing p.white p.hash p.move := by
  unfold Pos.hashOf Gen.positionHash
  rw [← C02.toMove_is_source]; rfl

example : Gen.positionHash 0#64 0#64 0#64 1#64 7#64 0 ≠ Gen.positionHash 0#64 0#64 0#64 1#64 7#64 1 := by decide

end C08
