import TakVerif.Proofs.LegalShapeBot
import TakVerif.Proofs.LegalShape
import TakVerif.Proofs.ServerRT
import TakVerif.Props.C07

/-! # C07: the moves the bot transmits have a wire form the server reads back

`C07.bot_inv` says every transmitted move is accepted by `Position.Move` in the server's current position.  The
model leaves the wire syntax outside (`ParseServer`'s answer is an input of the `deliver` event).  This file closes
the gap for the bot's *own* moves: whatever raw move value the AI hands back — including a placement with a stray
`Slides` word — if the loop transmits it, `FormatServer` writes a line that `ParseServer` reads as a move
`Move.Equal` to it which `Position.Move` treats identically (C11 composed with `C11.apply_legalShape`).

The one exception is the engine's internal pass (`Type = Pass`): `Position.Move` accepts it, so the loop would
transmit it (example below); it has no playtak wire form.  No searching player returns it (C04: they return
generated moves); the hypothesis `r.move.type ≠ Pass` is stated explicitly. -/
namespace C07
open Tak Tak.Bot Notation Tak.Proofs

/-- **the board size never changes**: in every reachable state of a game started on size 3..8 the record's current
position, every recorded position and the position at which each move was transmitted are `size`×`size` -/
theorem bot_board_size (cfg : Conf) (size : Nat) (secs : Int) (evs : List Ev) (hsize : 3 ≤ size ∧ size ≤ 8) :
    let s := run cfg (start cfg size secs) evs
    s.p.cfg.size = size ∧ (∀ q ∈ s.positions, q.cfg.size = size) ∧ (∀ r ∈ s.log, r.recAt.cfg.size = size) :=
  sizeInv_run cfg (sizeInv_start cfg size secs hsize.1 hsize.2) evs

/-- **Every transmitted move has a wire form.**  For every interleaving and whatever the AI answers: each move `m` the
loop passed to `SendCommand` (other than the pass) satisfies — with `n = normalize m` the move value with the stray
`Slides` word of a placement cleared — `n` is a legal shape of the board, `ParseServer (FormatServer m) = n`,
`n.Equal(m)`, and `n` is legal in the position the move was sent in (the server's current position, by `bot_inv`). -/
theorem bot_sent_moves_wire (cfg : Conf) (hfix : cfg.fixed = true) (size : Nat) (secs : Int) (evs : List Ev)
    (hsize : 3 ≤ size ∧ size ≤ 8) :
    ∀ r ∈ (run cfg (start cfg size secs) evs).log, r.move.type ≠ Facts.mtPass →
      LegalShape size (normalize r.move) ∧
      Server.parseServer (Server.formatServer r.move) = .ok (normalize r.move) ∧
      (normalize r.move).equal r.move = true ∧
      Legal cfg.basis r.recAt (normalize r.move) ∧ r.srvAt = some r.recAt := by
  intro r hr hnp
  have hgood := (bot_inv cfg hfix size secs evs).sends r hr
  have hsz := (bot_board_size cfg size secs evs hsize).2.2 r hr
  obtain ⟨q, hq⟩ := hgood.legal
  have hs := apply_legalShape' cfg.basis r.recAt r.move q (by rw [hsz]; exact hsize.1) (by rw [hsz]; exact hsize.2) hnp hq
  rw [hsz] at hs
  refine ⟨hs, ?_, (equal_normalize r.move).2, ⟨q, by rw [apply_normalize]; exact hq⟩, hgood.current⟩
  have hfmt : Server.formatServer r.move = Server.formatServer (normalize r.move) := by
    obtain ⟨_, _, nt, _, _⟩ := normalize_fields r.move
    rcases PTN.legalShape_kind hs with ⟨hp, _⟩ | ⟨_, hsl, _⟩
    · rw [nt] at hp
      rw [normalize_of_nonslide r.move (isPlaceType_isSlide r.move hp)]
      rcases PTN.placeType_cases _ hp with e | e | e <;>
        simp [Server.formatServer, e, Facts.mtPlaceFlat, Facts.mtPlaceStanding, Facts.mtPlaceCapstone]
    · rw [nt] at hsl
      rw [normalize_of_slide r.move (isSlideType_isSlide r.move hsl)]
  rw [hfmt]
  exact Server.server_rt size _ hs

/-! ### non-vacuity -/

/-- in `playTrace` (C07's worked example) three moves are transmitted, none of them a pass -/
example : ((run (white true) (start (white true) 5 600) playTrace).log.map (·.move)) = [flat 0 0, flat 4 2, flat 4 1] ∧
    ∀ r ∈ (run (white true) (start (white true) 5 600) playTrace).log, r.move.type ≠ Facts.mtPass := by
  decide +kernel

/-- an AI that answers with a placement carrying a junk `Slides` word: the loop transmits it (it is legal), and its
wire text is that of the clean move -/
example :
    let m : Move := { x := 2, y := 2, type := Facts.mtPlaceFlat, slides := 0xbeef#32 }
    let s := run (white true) (start (white true) 5 600) [.grant 0, .aiReturns 0 m]
    s.sent = [.move m] ∧ Server.formatServer m = Go.lit "P C3" ∧
    Server.parseServer (Server.formatServer m) = .ok (flat 2 2) := by
  refine ⟨by decide +kernel, by decide, by rfl⟩

/-- why the pass is excluded: `Position.Move` accepts it, so an AI returning it would have it transmitted -/
example :
    let m : Move := { x := 0, y := 0, type := Facts.mtPass, slides := 0 }
    (run (white true) (start (white true) 5 600) [.grant 0, .aiReturns 0 m]).sent = [.move m] := by
  decide +kernel

end C07
