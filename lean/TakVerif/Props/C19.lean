import TakVerif.Impl.Evaluate
namespace C19
theorem placeholder : True := trivial
end C19
