import TakVerif.Proofs.ThreatMain
import TakVerif.Proofs.ThreatLegal
import TakVerif.Impl.ThreatHyp

/-! # C19 — a reported immediate road threat for the side to move is a real winning move

Model: `Tak.countThreats` (`Impl/Evaluate.lean`, mirror of `ai.CountThreats`: edge-adjacent gaps, two-group
junctions, place map vs one-step slide map), `Tak.Pos.apply` (`Impl/Move.lean`, mirror of `MovePreallocated`),
`Pos.winDetails`.  Flood/group facts come from the C02 development (`Roads.groups_spec`: the group lists are
the connected components with at least two squares; `Roads.groups_road_iff`).

The proof (`Proofs/Threat*.lean`): a positive count exhibits a group `g` (and possibly a partner `o`: a
second group or a lone flat) and a square `s` such that `g (∪ o) ∪ {s}` joins two opposite edges, and `s` is
either empty or next to a flat `f ∉ g ∪ o` of the mover and free of walls/capstones.  Placing a flat (or, with
no flat left in reserve, the capstone the unfinished game guarantees) on `s`, or sliding `f` onto `s`, is
accepted by `Pos.apply`; afterwards the mover's road squares contain `g (∪ o) ∪ {s}`, so `analyze` finds a
road group, and `WinDetails` reports a road win for the mover (also when the slide uncovers a road of the
opponent: the player who moved wins).  If `s` already carried such a flat the road would exist and the game
would be over. -/
namespace C19
open Tak Roads Spec

/-- **C19, full strength.**  For every well-formed position (`WFBoard`: sizes 3..8, bitboards inside the
board and consistent, group lists = `analyze`; `HeightsOK`: occupied squares have height ≥ 1) from ply 2 on
whose game is not over: if `CountThreats` reports a placement or one-step-slide threat for the side to move,
then there is a move that `Move` accepts and after which `WinDetails` says: over, won by the mover, by a road;
and `hasRoad`'s test succeeds on a group of the mover. -/
theorem threat_real (basis : Array W) (p : Pos) (wf : WFBoard p) (hh : HeightsOK p) (hply : 2 ≤ p.move)
    (hno : p.gameOver.1 = false) (hcount : 0 < (countThreats p.c p).forMover p) :
    ∃ m q, p.apply basis m = .ok q ∧
      q.winDetails.over = true ∧ q.winDetails.winner = p.toMove ∧ q.winDetails.reason = .road ∧
      (groupsOf q p.toMove).any (isRoadGroup q.c) = true := by
  obtain ⟨m, q, _, h1, ⟨a, b, c⟩, h3, _⟩ := threat_real_impl basis p wf hh hply hno hcount
  exact ⟨m, q, h1, a, b, c, h3⟩

/-- the same in the vocabulary of the one-ply search of the tie (`winsByRoad` = `Move` succeeds and
`WinDetails` reports a road win of the mover) -/
theorem threat_real_search (basis : Array W) (p : Pos) (wf : WFBoard p) (hh : HeightsOK p) (hply : 2 ≤ p.move)
    (hno : p.gameOver.1 = false) (hcount : 0 < (countThreats p.c p).forMover p) :
    ∃ m, winsByRoad basis p m = true := by
  obtain ⟨m, q, h1, a, b, c, _⟩ := threat_real basis p wf hh hply hno hcount
  refine ⟨m, ?_⟩
  unfold winsByRoad
  rw [h1]
  simp [a, b, c]

/-- **C19 in the rule book's terms.**  The successor again satisfies C02's road invariant, so what `At`
shows of it (`Spec.abs q`) has a `RoadPath` of the mover's colour — an actual chain of adjacent squares
topped by the mover's flats/capstones joining two opposite edges — and the rule book's verdict
(`Spec.outcome`) is: over, by a road, won by the player who moved. -/
theorem threat_real_rulebook (basis : Array W) (p : Pos) (wf : WFBoard p) (hh : HeightsOK p) (hply : 2 ≤ p.move)
    (hno : p.gameOver.1 = false) (hcount : 0 < (countThreats p.c p).forMover p) :
    ∃ m q, p.apply basis m = .ok q ∧ Spec.RoadPath (Spec.abs q) p.toMove ∧
      (Spec.outcome (Spec.abs q)).over = true ∧ (Spec.outcome (Spec.abs q)).road = true ∧
      (Spec.outcome (Spec.abs q)).winner = p.toMove := by
  obtain ⟨m, q, _, h1, ⟨a, b, c⟩, h3, wfq⟩ := threat_real_impl basis p wf hh hply hno hcount
  have hc : p.toMove ≠ .none := by rcases toMove_cases p with h | h <;> rw [h] <;> decide
  have hr := winDetails_refines q wfq
  refine ⟨m, q, h1, (groups_any_iff_roadPath q wfq p.toMove hc).mp h3, ?_, ?_, ?_⟩
  · rw [← hr]; exact a
  · rw [← hr]; simp [toOutcome, c]
  · rw [← hr]; exact b

/-- **C19 with the rule book on both sides** (uses C01's `move_refines`).  `p` well-formed in C01's sense
(`Tak.WF`: every square consistent incl. heights and stack words, hash field, frame) with its analysis up to
date, from ply 2 on, not over, positive count for the mover; `hlim`: the documented 64-piece stack limit is
respected by the moves of this position (automatic when the game has at most 64 pieces,
`C01.stack_limit_of_budget`).  Then some raw move is **legal by the rule book** and its rule-book successor
has a `RoadPath` of the mover; the rule book's verdict on it: over, by a road, won by the mover. -/
theorem threat_real_rules (basis : Array W) (p : Pos) (hwf : Tak.WF basis p) (han : p.analyze = some p)
    (hlim : ∀ m, StackLimit p m) (hply : 2 ≤ p.move) (hno : p.gameOver.1 = false)
    (hcount : 0 < (countThreats p.c p).forMover p) :
    ∃ m s', Spec.step (Spec.abs p) (Spec.decode m) = some s' ∧ Spec.RoadPath s' p.toMove ∧
      (Spec.outcome s').over = true ∧ (Spec.outcome s').road = true ∧ (Spec.outcome s').winner = p.toMove :=
  threat_real_legal basis p hwf han hlim hply hno hcount

/-- the executable form of the hypotheses (evaluated on every sampled position by the `c19hyp` op) -/
theorem threatHypB_sound (p : Pos) (h : p.threatHypB = true) : WFBoard p ∧ HeightsOK p := by
  unfold Pos.threatHypB at h
  simp only [Bool.and_eq_true, decide_eq_true_eq, beq_iff_eq] at h
  obtain ⟨⟨⟨⟨⟨⟨⟨⟨h1, h2⟩, h3⟩, h4⟩, h5⟩, h6⟩, h7⟩, h8⟩, h9⟩ := h
  refine ⟨⟨⟨h1, h2, (subB_iff _ _).mp h3, (subB_iff _ _).mp h4, h5, h8⟩, (subB_iff _ _).mp h6, h7⟩, ?_⟩
  intro i hi
  have hi64 : i < 64 := by
    apply Classical.byContradiction; intro hge
    rw [BitVec.getLsbD_of_ge _ _ (by omega)] at hi; cases hi
  unfold Pos.heightsOKB at h9
  rw [List.all_eq_true] at h9
  have := h9 i (List.mem_range.mpr hi64)
  rw [hi] at this
  simpa using this

/-! ### concrete instances of the hypotheses (kernel-evaluated) -/

/-- a position built like `tak.FromSquares` does -/
def mk (size : Nat) (board : List (List Nat)) (ply : Int) : Pos :=
  match Pos.fromSquares #[] { size := size, pieces := 0, capstones := 0, blackWinsTies := false } board ply with
  | .ok p => p
  | .error _ => default

def wF : Nat := Facts.colorWhite ||| Facts.kindFlat
def bF : Nat := Facts.colorBlack ||| Facts.kindFlat
def bS : Nat := Facts.colorBlack ||| Facts.kindStanding

/-- 4×4, White to move at ply 8: a1 b1 c1 white, d1 empty: a placement threat -/
def exPlace : Pos := mk 4 [[wF], [wF], [wF], [], [bF], [bF], [bF], [], [], [], [], [], [], [], [], []] 8

/-- 3×3, Black to move at ply 9: black a2 b2, c2 holds a white flat (no placement there), black flat on c3
above it: only a slide c3→c2 completes the road; no black reserves matter -/
def exSlide : Pos := mk 3 [[wF], [], [wF], [bF], [bF], [wF], [], [wF], [bF]] 9

example : exPlace.threatHypB = true ∧ 2 ≤ exPlace.move ∧ exPlace.gameOver.1 = false ∧
    (countThreats exPlace.c exPlace).forMover exPlace = 1 := by decide +kernel

example : exSlide.threatHypB = true ∧ 2 ≤ exSlide.move ∧ exSlide.gameOver.1 = false ∧
    countThreats exSlide.c exSlide = ⟨1, 1, 0, 1⟩ ∧ exSlide.toMove = .black := by decide +kernel

end C19
