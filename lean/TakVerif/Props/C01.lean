import TakVerif.Spec.Tak
namespace C01
/-- placeholder until the real theorems land: decoding an invalid type code is `invalid` -/
theorem step_invalid (s : Spec.State) : Spec.step s .invalid = none := rfl
end C01
