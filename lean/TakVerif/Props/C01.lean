import TakVerif.Proofs.Reach
import TakVerif.Proofs.FromSquares
import TakVerif.Proofs.Budget
import TakVerif.Proofs.Examples

/-! C01 — applying a move succeeds iff it is legal Tak and yields the exact successor.

`Tak.Pos.apply` is the construct-for-construct model of `MovePreallocated` (tied to the Go code by the
differential check), `Spec.step` the list-level rule book, `Spec.abs` the abstraction, `Spec.decode` the reading
of a raw `Move` value.  `Tak.WF` is the well-formedness invariant (see `Proofs/WF.lean`), `Tak.StackLimit` the
documented 64-piece representation limit, `Tak.AnalyzeTotal` the flood-fuel lemma proved by the roads package
(`Roads.analyze_ne_none`, unconditional) and taken as a hypothesis here. -/
namespace C01
open Tak

/-- **No move value makes `MovePreallocated` panic** — for EVERY position (well-formed or not), every raw move
(any `x`, `y`, any type code, any 32-bit `Slides` word) and any basis table.  The model's only guarded panic
site (`Top` of an empty origin) is unreachable because the mover's bit has just been tested. -/
theorem move_never_panics (basis : Array W) (p : Pos) (m : Move) (site : String) :
    p.apply basis m ≠ .error (.panic site) := fun h => apply_err h

/-- … and none makes it hang, given that `analyze` has enough flood fuel (`AnalyzeTotal`). -/
theorem move_never_hangs (hA : AnalyzeTotal) (basis : Array W) (p : Pos) (m : Move) (site : String) :
    p.apply basis m ≠ .error (.hang site) := fun h => by
  obtain ⟨p', hp'⟩ := apply_err h
  exact hA p' hp'

/-- hence every raw move is either applied or rejected with a returned error -/
theorem move_total (hA : AnalyzeTotal) (basis : Array W) (p : Pos) (m : Move) :
    (∃ q, p.apply basis m = .ok q) ∨ (∃ why, p.apply basis m = .error (.illegal why)) := by
  cases h : p.apply basis m with
  | ok q => exact .inl ⟨q, rfl⟩
  | error e =>
    cases e with
    | illegal w => exact .inr ⟨w, rfl⟩
    | panic s => exact absurd h (move_never_panics basis p m s)
    | hang s => exact absurd h (move_never_hangs hA basis p m s)

example : ∃ q, Ex.mid.apply Ex.basis ⟨1, 0, 7, 1⟩ = .ok q := Ex.mid_slide_ok
/-- an off-board origin and a damaged slide word are rejected, not executed -/
example : Ex.mid.apply Ex.basis ⟨-1, 5, 6, 0x00f00012#32⟩ = .error (.illegal "off board") := by rfl

/-- the statement of `move_refines` -/
def move_refines_statement : Prop :=
  ∀ (basis : Array W) (p : Pos) (m : Move), AnalyzeTotal → WF basis p → m.type ≠ Facts.mtPass → StackLimit p m →
    match p.apply basis m with
    | .error _ => Spec.step (Spec.abs p) (Spec.decode m) = none
    | .ok q => Spec.step (Spec.abs p) (Spec.decode m) = some (Spec.abs q) ∧ WF basis q

/-- **The model refines the rule book, and well-formedness is preserved.**  For every well-formed position, every
raw move value other than the internal pass (all type codes, all coordinates, all slide words): if the model
rejects, the rule book rejects; if the model accepts with successor `q`, the rule book accepts with successor
exactly `abs q` (every stack's contents and order, reserves, ply) and `q` is well-formed again (incl. its hash
field).  Since both sides are functions, this is "succeeds iff legal".  `StackLimit` only constrains moves the
rule book accepts (result stacks ≤ 64 pieces); rejections need no such assumption. -/
theorem move_refines : move_refines_statement :=
  fun _ _ m hA hwf hp hlim => move_refines_core hA hwf m hp hlim

/-- "succeeds exactly when legal": under the hypotheses of `move_refines` the model accepts iff the rule book does -/
theorem move_ok_iff (hA : AnalyzeTotal) (basis : Array W) (p : Pos) (m : Move) (hwf : WF basis p)
    (hp : m.type ≠ Facts.mtPass) (hlim : StackLimit p m) :
    (∃ q, p.apply basis m = .ok q) ↔ (Spec.step (Spec.abs p) (Spec.decode m)).isSome = true := by
  have h := move_refines basis p m hA hwf hp hlim
  cases ha : p.apply basis m with
  | error e => rw [ha] at h; simp only at h; rw [h]; simp
  | ok q => rw [ha] at h; simp only at h; rw [h.1]; simp

/-- **the stack limit is automatic when the game has at most 64 pieces**: `budget s` = pieces on the board +
pieces in reserve never increases under legal moves (`step_budget`), and no stack is higher than the number of
pieces on the board. -/
theorem stack_limit_of_budget (p : Pos) (m : Move) (hb : budget (Spec.abs p) ≤ 64) : StackLimit p m :=
  stackLimit_of_budget m hb

/-- **reachable positions of the default 3×3 … 6×6 games** (≤ 62 pieces): every sequence of non-pass move values from
the start position keeps model and rule book in step and every position met is well-formed — no stack-limit
hypothesis left. -/
theorem reachable_default (hA : AnalyzeTotal) (basis : Array W) (size : Nat) (bwt : Bool) (p : Pos) (ms : List Move)
    (hs : size ≤ 6) (h0 : Pos.new ⟨size, 0, 0, bwt⟩ = .ok p) (hnp : ∀ m ∈ ms, m.type ≠ Facts.mtPass) :
    match p.applyAll basis ms with
    | .error _ => stepAll (Spec.abs p) (ms.map Spec.decode) = none
    | .ok q => stepAll (Spec.abs p) (ms.map Spec.decode) = some (Spec.abs q) ∧ WF basis q :=
  have hwf := Tak.new_wf basis h0
  applyAll_refines hA ms hwf
    (movesOK_of_budget hA ms hwf (Nat.le_trans (new_budget_default size bwt p hs h0) (by decide)) hnp)

example : Pos.new ⟨5, 0, 0, false⟩ = .ok Ex.start5 ∧ (∀ m ∈ Ex.moves, m.type ≠ Facts.mtPass) ∧
    Ex.start5.applyAll Ex.basis Ex.moves = .ok Ex.after :=
  ⟨rfl, by decide, Ex.after_ok⟩

/-- `New` builds a well-formed position for every accepted configuration (sizes 3..8, default or custom counts) -/
theorem new_wf (basis : Array W) (cfg : Cfg) (p : Pos) (h : Pos.new cfg = .ok p) : WF basis p :=
  Tak.new_wf basis h

/-- **`FromSquares` output is well-formed** ("every well-formed constructed board"): for every configuration `New`
accepts, every ply counter ≥ 0 and every board whose squares hold at most 64 pieces each, whatever bytes it
contains: if `FromSquares` returns a position at all (any byte that is not one of the six piece codes makes it return
an error), that position satisfies `WF`.  (That its squares are the input squares is checked by correspondence
only, op `rebuild`.) -/
theorem fromSquares_wf (basis : Array W) (cfg : Cfg) (board : List (List Nat)) (move : Int) (q : Pos)
    (hm : 0 ≤ move) (hlen : ∀ sq ∈ board, sq.length ≤ 64)
    (h : Pos.fromSquares basis cfg board move = .ok q) : WF basis q :=
  Tak.fromSquares_wf basis cfg board move q hm hlen h

/-- instance: rebuilding the position after a1 e5 b1 b2 b1+ a1> (stacks of height 2 on b1 and b2) from its squares -/
example : ∃ q, Pos.fromSquares Ex.basis Ex.after.cfg
      ((Spec.abs Ex.after).squares.map (fun sq => sq.map Piece.code)) Ex.after.move = .ok q ∧ q.equal Ex.after = true :=
  ⟨_, by rfl, by decide +kernel⟩

/-- along any sequence of non-pass moves (with the 64-piece limit at each step) from a well-formed position,
the model and the rule book stay in step and every position met is well-formed -/
theorem reachable_wf (hA : AnalyzeTotal) (basis : Array W) (p : Pos) (ms : List Move) (hwf : WF basis p)
    (hok : MovesOK basis p ms) :
    match p.applyAll basis ms with
    | .error _ => stepAll (Spec.abs p) (ms.map Spec.decode) = none
    | .ok q => stepAll (Spec.abs p) (ms.map Spec.decode) = some (Spec.abs q) ∧ WF basis q :=
  applyAll_refines hA ms hwf hok

/-- instance of ALL hypotheses of `move_refines` (other than `AnalyzeTotal`): the 5×5 position after a1 e5 b1 b2 is
well-formed, b1+ (type 7 = SlideUp, one piece, capturing b2) is not a pass, satisfies the stack limit, and is
accepted; its successor differs from the position it came from -/
example : WF Ex.basis Ex.mid ∧ (⟨1, 0, 7, 1⟩ : Move).type ≠ Facts.mtPass ∧ StackLimit Ex.mid ⟨1, 0, 7, 1⟩ ∧
    (∃ q, Ex.mid.apply Ex.basis ⟨1, 0, 7, 1⟩ = .ok q) :=
  ⟨Ex.mid_wf, by decide, Ex.mid_slide_limit, Ex.mid_slide_ok⟩

example : WF Ex.basis Ex.start5 := Tak.new_wf Ex.basis Ex.start5_ok

end C01
