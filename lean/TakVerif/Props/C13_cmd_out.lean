import TakVerif.Props.C13_cmd
import TakVerif.Proofs.SelfplayPTN

/-!
# `taktician play -out FILE`: the written file re-parses to the moves played (work package "selfplay2")

`outFile` (`Impl/CmdPlay.lean`): tags `Size`, `Player1`, `Player2`, then `AddMoves(moves)`, rendered.  Composed with C12
(`render_parse_games`): for moves that were applied one after the other from `tak.New(size)` (what `play_record_is_replay`
says of the recorded moves), none the pass and each in normal form (every recorded move came from `ParseMove`:
`C12.parsed_moves_canonical`'s lemma, not threaded through `playLoop` here - a stated hypothesis), the file parses to
exactly these moves and its `InitialPosition` is the start position: the file replays to the game played.
-/
namespace C13
open Tak Tak.CmdPlay Notation Tak.Proofs
open Go (lit)
open _root_.PTN hiding Bytes

theorem movesOf_addMovesFrom : ∀ (ms : List Tak.Move) (i : Nat), movesOf (addMovesFrom i ms) = ms
  | [], _ => rfl
  | m :: ms, i => by
    simp only [addMovesFrom]
    split <;> simp [movesOf, movesOf_addMovesFrom ms (i + 1)]

theorem addMovesFrom_mem : ∀ (ms : List Tak.Move) (i : Nat) (op : Op), op ∈ addMovesFrom i ms →
    (∃ k : Nat, op = .moveNumber [] ((k : Nat) : Int) ∧ k ≤ (i + ms.length) / 2 + 1) ∨ (∃ m ∈ ms, op = .move [] m [])
  | [], _, op, h => by simp [addMovesFrom] at h
  | m :: ms, i, op, h => by
    simp only [addMovesFrom, List.mem_append, List.mem_singleton] at h
    rcases h with (h | h) | h
    · left
      split at h
      · simp only [List.mem_singleton] at h
        exact ⟨i / 2 + 1, h, by simp only [List.length_cons]; omega⟩
      · simp at h
    · right; exact ⟨m, by simp, h⟩
    · rcases addMovesFrom_mem ms (i + 1) op h with ⟨k, hk, hle⟩ | ⟨m', hm', h'⟩
      · left; exact ⟨k, hk, by simp only [List.length_cons]; omega⟩
      · right; exact ⟨m', by simp [hm'], h'⟩

theorem applyAll_eq_ptn (basis : Array W) : ∀ (ms : List Tak.Move) (p : Pos), C13.applyAll basis p ms = PTN.applyAll basis p ms
  | [], _ => rfl
  | m :: ms, p => by
    simp only [C13.applyAll, PTN.applyAll]
    cases p.apply basis m with
    | ok q => exact applyAll_eq_ptn basis ms q
    | error e => rfl

/-- **the `-out` file re-parses to the moves played and replays from the start position** -/
theorem play_out_file_parses_back (basis : Array W) (n : Nat) (p0 q : Pos) (moves : List Tak.Move)
    (hnew : Pos.new { size := n, pieces := 0, capstones := 0, blackWinsTies := false } = .ok p0)
    (happ : C13.applyAll basis p0 moves = .ok q)
    (hnp : ∀ m ∈ moves, m.type ≠ Facts.mtPass) (hnorm : ∀ m ∈ moves, isNormal m = true)
    (hlen : moves.length < 2 ^ 63) :
    ∃ g, parsePTN (realEnv basis) (outFile (realEnv basis) (n : Int) (lit "human") (lit "human") moves) = .ok g ∧
      movesOf g.ops = moves ∧ initialPosition (realEnv basis) g = .ok p0 ∧
      PTN.applyAll basis p0 (movesOf g.ops) = .ok q := by
  obtain ⟨h3, h8, hp⟩ := new_ok hnew
  simp only at h3 h8
  have hsz : p0.cfg.size = n := by rw [hp]
  have hn : n = 3 ∨ n = 4 ∨ n = 5 ∨ n = 6 ∨ n = 7 ∨ n = 8 := by omega
  let f : File := (⟨[⟨lit "Size", Go.itoa (n : Int)⟩, ⟨lit "Player1", lit "human"⟩, ⟨lit "Player2", lit "human"⟩], []⟩ : File).addMoves moves
  have hops : f.ops = addMovesFrom 0 moves := by simp [f, File.addMoves]
  have htg : f.tags = [⟨lit "Size", Go.itoa (n : Int)⟩, ⟨lit "Player1", lit "human"⟩, ⟨lit "Player2", lit "human"⟩] := rfl
  have hmoves : movesOf f.ops = moves := by rw [hops, movesOf_addMovesFrom]
  have hgf : C12.GameFile f := by
    refine ⟨?_, fun op hop => ?_⟩
    · rw [htg]
      rcases hn with rfl | rfl | rfl | rfl | rfl | rfl <;> decide
    · rw [hops] at hop
      rcases addMovesFrom_mem _ _ _ hop with ⟨k, rfl, hk⟩ | ⟨m, hm, rfl⟩
      · simp only
        refine ⟨by omega, by omega⟩
      · simp only
        refine ⟨⟨p0.cfg.size, ?_⟩, rfl, by simp⟩
        have hm' : m ∈ movesOf f.ops := by rw [hmoves]; exact hm
        obtain ⟨s, mods, hmem⟩ := (mem_movesOf f.ops m).1 hm'
        have := replay_legalShape basis f.ops p0 q (by omega) (by omega)
          (by rw [hmoves, ← applyAll_eq_ptn]; exact happ) (by rw [hmoves]; exact hnp) s m mods hmem
        rw [(isNormal_iff m).1 (hnorm m hm)] at this
        exact this
  obtain ⟨g, hg1, _, hg3, hg4⟩ := C12.render_parse_games basis f hgf
  have hgm : movesOf g.ops = moves := by
    rw [← Tak.CmdSelfplay.movesOf_clearSrc, hg4, Tak.CmdSelfplay.movesOf_clearSrc, hmoves]
  refine ⟨g, hg1, hgm, ?_, by rw [hgm, ← applyAll_eq_ptn]; exact happ⟩
  have e1 : g.findTag tagSize = Go.itoa (n : Int) := by
    simp only [File.findTag, hg3, htg, List.find?]
    have : (lit "Size" == tagSize) = true := by decide
    simp only [this]
  have e2 : g.findTag tagTPS = [] := by
    simp only [File.findTag, hg3, htg, List.find?]
    have a : (lit "Size" == tagTPS) = false := by decide
    have b : (lit "Player1" == tagTPS) = false := by decide
    have c : (lit "Player2" == tagTPS) = false := by decide
    simp [a, b, c]
  have hat : atoi (Go.itoa (n : Int)) = some (n : Int) := by
    rcases hn with rfl | rfl | rfl | rfl | rfl | rfl <;> decide
  unfold initialPosition
  simp only [e1, e2, hat]
  rw [if_neg (by omega)]
  simp only [List.isEmpty_nil, if_true, Int.toNat_natCast]
  exact hnew

/-- the hypotheses are satisfiable: the file of the two-move game `a1 b1` on 3×3 -/
example :
    (match Pos.new { size := 3, pieces := 0, capstones := 0, blackWinsTies := false } with
     | .ok p0 =>
       (match C13.applyAll (Array.replicate 64 0#64) p0 [⟨0, 0, 2, 0#32⟩, ⟨1, 0, 2, 0#32⟩] with | .ok _ => true | .error _ => false) &&
       [(⟨0, 0, 2, 0#32⟩ : Tak.Move), ⟨1, 0, 2, 0#32⟩].all (fun m => isNormal m && m.type != Facts.mtPass)
     | .error _ => false) = true := by decide +kernel

end C13
