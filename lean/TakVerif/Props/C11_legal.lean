import TakVerif.Proofs.LegalShape
import TakVerif.Proofs.LegalShapeConverse
import TakVerif.Proofs.ServerRT
import TakVerif.Proofs.Examples
import TakVerif.Proofs.Reach
import TakVerif.Props.C11

/-! # C11, connected to legality: a move the rules accept *is* a legal shape

`Props/C11.lean` proves the notation round trips for every move value in `Notation.LegalShape size`
(a decidable predicate on raw `Move` values).  This file proves that the predicate covers what the property
speaks about — "every legal move":

* the rule book (`Spec.step`, C01's reference) and the engine (`Pos.apply`, the model of `MovePreallocated`)
  accept only moves whose **normal form** is a legal shape;
* the move generator (`Pos.allMoves`, C03) produces legal shapes as they stand.

**What is normalised.**  `Notation.normalize m` clears the `Slides` word of `m` when `m.Type < SlideLeft`
(a placement; also the pass and type code 0) and changes nothing else.  That word is exactly what
`Move.Equal` does not compare (`equal_iff_normalize`), the rule book's reading `Spec.decode` does not look at it and
neither does `MovePreallocated` (`normalize_transparent`).  Nothing else needs normalising: coordinates, type
code and — for slides — the whole drop word of an accepted move are already those of a legal shape.
Conversely every legal shape is legal in some position (`legalShape_legal_somewhere`), so `LegalShape size` *is* the set of
normal forms of legal moves (`legalShape_iff_legal_somewhere`).
The normalisation is not idle: `ptn.FormatMove` *does* read the `Slides` word of a placement
(`ptn_junk_placement_not_roundtrip`), `playtak.FormatServer` does not (`server_wire_of_legal`). -/
namespace C11
open Tak Go Notation Tak.Proofs

/-! ## the normal form -/

/-- `Move.Equal` cannot tell a move from its normal form, and `normalize` is idempotent -/
theorem normalize_equal (m : Move) :
    m.equal (normalize m) = true ∧ (normalize m).equal m = true ∧ normalize (normalize m) = normalize m :=
  ⟨(equal_normalize m).1, (equal_normalize m).2, normalize_idem m⟩

/-- two move values are `Move.Equal` exactly when they have the same normal form: `normalize` picks one
representative of every `Equal` class, so it clears *all* that `Equal` ignores and nothing more -/
theorem equal_iff_normalize (m r : Move) : m.equal r = true ↔ normalize m = normalize r :=
  equal_iff_normalize_eq m r

/-- neither the rule book nor the engine distinguishes a move from its normal form: the rule book's reading is
the same, and `MovePreallocated` returns the same result (successor or error) on every position -/
theorem normalize_transparent (m : Move) :
    Spec.decode (normalize m) = Spec.decode m ∧
    (∀ s, Spec.step s (Spec.decode (normalize m)) = Spec.step s (Spec.decode m)) ∧
    (∀ (basis : Array W) (p : Pos), p.apply basis (normalize m) = p.apply basis m) :=
  ⟨decode_normalize m, fun s => by rw [decode_normalize], fun basis p => apply_normalize basis p m⟩

/-- a legal shape is already normal and is never the engine's internal pass -/
theorem legalShape_is_normal (size : Nat) (m : Move) (h : LegalShape size m) :
    normalize m = m ∧ m.type ≠ Facts.mtPass :=
  ⟨legalShape_normal h, legalShape_not_pass h⟩

example : normalize ⟨2, 1, Facts.mtPlaceStanding, 0xdead#32⟩ = ⟨2, 1, Facts.mtPlaceStanding, 0#32⟩ := by decide
example : normalize ⟨2, 1, Facts.mtSlideUp, 0x21#32⟩ = ⟨2, 1, Facts.mtSlideUp, 0x21#32⟩ := by decide
example : (⟨2, 1, Facts.mtPlaceStanding, 0xdead#32⟩ : Move).equal ⟨2, 1, Facts.mtPlaceStanding, 0x7#32⟩ = true := by decide

/-! ## legality implies legal shape -/

/-- **Rule book.**  On a board of size 3..8, every raw move value (any `int8` coordinates, any type byte, any
32-bit `Slides` word) that `Spec.step` accepts has a normal form of legal shape.  (The pass and the invalid type
codes are read as `.invalid`, which `step` rejects; so no condition on the type code is needed here.) -/
theorem step_legalShape (s s' : Spec.State) (m : Move) (h3 : 3 ≤ s.size) (h8 : s.size ≤ 8)
    (h : Spec.step s (Spec.decode m) = some s') : LegalShape s.size (normalize m) :=
  step_legalShape' s m h3 h8 (by rw [h]; exact fun e => by cases e)

/-- **Engine, directly.**  On a board of size 3..8 — *any* position, well-formed or not — every raw move other than
the internal pass that `MovePreallocated` applies has a normal form of legal shape.  Read off the engine's own
acceptance tests (type dispatch, bounds check on the origin, zero-drop test, carry limit, per-step bounds check of the
drop loop); neither the rule book nor C01 is used. -/
theorem apply_legalShape (basis : Array W) (p q : Pos) (m : Move) (h3 : 3 ≤ p.cfg.size) (h8 : p.cfg.size ≤ 8)
    (hnp : m.type ≠ Facts.mtPass) (h : p.apply basis m = .ok q) : LegalShape p.cfg.size (normalize m) :=
  apply_legalShape' basis p m q h3 h8 hnp h

/-- **Engine, over C01's invariant** (the form asked for in DESIGN §4): `WF p → (apply p m).isOk → LegalShape …` -/
theorem apply_legalShape_wf (basis : Array W) (p : Pos) (m : Move) (hwf : WF basis p)
    (hnp : m.type ≠ Facts.mtPass) (h : (p.apply basis m).isOk = true) : LegalShape p.cfg.size (normalize m) := by
  cases ha : p.apply basis m with
  | error e => rw [ha] at h; cases h
  | ok q => exact apply_legalShape basis p q m hwf.size_ge hwf.size_le hnp ha

/-- **Engine, through the rule book** (C01 composed with `step_legalShape`): the same conclusion obtained from
`C01.move_refines` — the two routes agree.  This one needs C01's hypotheses (`AnalyzeTotal`, proved in
`C01_closed`; the 64-piece `StackLimit`); `apply_legalShape` needs none of them. -/
theorem apply_legalShape_via_rules (hA : AnalyzeTotal) (basis : Array W) (p q : Pos) (m : Move) (hwf : WF basis p)
    (hnp : m.type ≠ Facts.mtPass) (hlim : StackLimit p m) (h : p.apply basis m = .ok q) :
    LegalShape p.cfg.size (normalize m) := by
  have hr := move_refines_core hA hwf m hnp hlim
  rw [h] at hr
  exact step_legalShape (Spec.abs p) (Spec.abs q) m hwf.size_ge hwf.size_le hr.1

/-- **Generator.**  Every move `AllMoves` lists is a legal shape as it stands — no normalisation: the generator
writes placements with an empty `Slides` word, and its slides come from the composition table masked by the
distance to the edge (C03 `slides_table`, `mask_test`). -/
theorem allMoves_legalShape (p : Pos) (h3 : 3 ≤ p.cfg.size) (h8 : p.cfg.size ≤ 8) (m : Move) (hm : m ∈ p.allMoves) :
    LegalShape p.cfg.size m :=
  allMoves_legalShape' p h3 h8 m hm

/-- the same over C01's invariant (`WF` carries the size bounds) -/
theorem allMoves_legalShape_wf (basis : Array W) (p : Pos) (hwf : WF basis p) (m : Move) (hm : m ∈ p.allMoves) :
    LegalShape p.cfg.size m :=
  allMoves_legalShape p hwf.size_ge hwf.size_le m hm

/-- the generated move that C03's completeness finds for an accepted raw move *is* its normal form: for every
non-pass move `m` the engine applies, `normalize m ∈ AllMoves` -/
theorem normalize_mem_allMoves (basis : Array W) (p q : Pos) (m : Move) (hwf : WF basis p)
    (hnp : m.type ≠ Facts.mtPass) (h : p.apply basis m = .ok q) : normalize m ∈ p.allMoves := by
  have wfl : WFlite p := ⟨hwf.size_ge, hwf.size_le, fun i _ => (hwf.cell i).h_zero⟩
  obtain ⟨m', hm', heq⟩ := allMoves_complete_apply' basis p wfl m q hnp h
  have h1 := (equal_iff_normalize m' m).1 heq
  have h2 := legalShape_normal (allMoves_legalShape_wf basis p hwf m' hm')
  rw [← h1, h2]; exact hm'

/-! ## … and legal shape implies legality somewhere: the domain of C11 is exact -/

/-- **Every legal shape is legal somewhere.**  For a move value of legal shape on a `size` board there is a position of
that size in which the rule book accepts it: a placement on the empty board at ply 2 with a stone and a capstone in
reserve; a slide from a stack of exactly as many of the mover's flats as it carries, on an otherwise empty board. -/
theorem legalShape_legal_somewhere (size : Nat) (m : Move) (h : LegalShape size m) :
    ∃ s : Spec.State, s.size = size ∧ s.squares.length = size * size ∧ (Spec.step s (Spec.decode m)).isSome = true :=
  legalShape_legal_somewhere' size m h

/-- **`LegalShape size` is exactly the set of normal forms of moves that are legal in some position of that size**
(sizes 3..8): the domain of `ptn_short_rt`, `ptn_long_rt`, `server_rt`, `notations_agree`, `annotations_ignored` is
"every legal move on every board size", no more and — up to `Move.Equal` — no less. -/
theorem legalShape_iff_legal_somewhere (size : Nat) (h3 : 3 ≤ size) (h8 : size ≤ 8) (m : Move) :
    LegalShape size m ↔
      normalize m = m ∧ ∃ s : Spec.State, s.size = size ∧ (Spec.step s (Spec.decode m)).isSome = true := by
  constructor
  · intro h
    obtain ⟨s, hs, _, hl⟩ := legalShape_legal_somewhere size m h
    exact ⟨legalShape_normal h, s, hs, hl⟩
  · rintro ⟨hn, s, hs, hl⟩
    cases hst : Spec.step s (Spec.decode m) with
    | none => rw [hst] at hl; cases hl
    | some s' =>
      have := step_legalShape s s' m (by rw [hs]; exact h3) (by rw [hs]; exact h8) hst
      rw [hn, hs] at this
      exact this

/-- a full-length slide that reaches the far edge of an 8×8 board is legal somewhere (instance of the above) -/
example : ∃ s : Spec.State, s.size = 8 ∧ s.squares.length = 8 * 8 ∧
    (Spec.step s (Spec.decode ⟨0, 3, Facts.mtSlideRight, 0x1111112#32⟩)).isSome = true :=
  legalShape_legal_somewhere 8 _ (by decide)

/-! ## the notation theorems, for every move the engine accepts -/

/-- `FormatServer` never reads the `Slides` word of a placement: an accepted move and its normal form have the same
wire text -/
theorem formatServer_normalize (size : Nat) (m : Move) (h : LegalShape size (normalize m)) :
    Server.formatServer m = Server.formatServer (normalize m) := by
  obtain ⟨nx, ny, nt, ns, nz⟩ := normalize_fields m
  rcases PTN.legalShape_kind h with ⟨hp, _⟩ | ⟨_, hs, _⟩
  · rw [nt] at hp
    rw [normalize_of_nonslide m (isPlaceType_isSlide m hp)]
    rcases PTN.placeType_cases _ hp with e | e | e <;>
      simp [Server.formatServer, e, Facts.mtPlaceFlat, Facts.mtPlaceStanding, Facts.mtPlaceCapstone]
  · rw [nt] at hs
    rw [normalize_of_slide m (isSlideType_isSlide m hs)]

/-- **Every move the engine accepts round-trips through all three notations, up to `Move.Equal`.**  For a position on
a board of size 3..8 and a raw move `m` (not the pass) that `MovePreallocated` applies, let `n = normalize m`
(so `n.Equal(m)`, and the engine treats `n` exactly as `m`).  Then `FormatMove n`, `FormatMoveLong n` and
`FormatServer n` each parse back to `n`, with any annotation suffix over `! ? ' *` on the PTN spellings; the three
spellings of `n` denote one move and are never confused with those of another accepted move; and the wire text of
the raw `m` itself is that of `n`, so `ParseServer (FormatServer m) = n`. -/
theorem legal_move_notations_roundtrip (basis : Array W) (p q : Pos) (m : Move) (h3 : 3 ≤ p.cfg.size) (h8 : p.cfg.size ≤ 8)
    (hnp : m.type ≠ Facts.mtPass) (h : p.apply basis m = .ok q) :
    let n := normalize m
    n.equal m = true ∧ p.apply basis n = .ok q ∧
    PTN.parseMove (PTN.formatMove n false) = .ok n ∧
    PTN.parseMove (PTN.formatMove n true) = .ok n ∧
    Server.parseServer (Server.formatServer n) = .ok n ∧
    Server.parseServer (Server.formatServer m) = .ok n ∧
    (∀ long suffix, (∀ b ∈ suffix, b ∈ lit "!?'*") → PTN.parseMove (PTN.formatMove n long ++ suffix) = .ok n) := by
  intro n
  have hs := apply_legalShape basis p q m h3 h8 hnp h
  refine ⟨(equal_normalize m).2, by rw [apply_normalize]; exact h, ptn_short_rt _ n hs, ptn_long_rt _ n hs,
    server_rt _ n hs, ?_, fun long suffix hsuf => annotations_ignored _ n hs long suffix hsuf⟩
  rw [formatServer_normalize _ m hs]
  exact server_rt _ n hs

/-- two accepted moves (possibly on different positions and sizes) are spelled alike in any notation exactly when
they are `Move.Equal` -/
theorem legal_moves_notations_agree (basis : Array W) (p q p' q' : Pos) (m m' : Move)
    (h3 : 3 ≤ p.cfg.size) (h8 : p.cfg.size ≤ 8) (h3' : 3 ≤ p'.cfg.size) (h8' : p'.cfg.size ≤ 8)
    (hnp : m.type ≠ Facts.mtPass) (hnp' : m'.type ≠ Facts.mtPass)
    (h : p.apply basis m = .ok q) (h' : p'.apply basis m' = .ok q') :
    (∀ long, PTN.parseMove (PTN.formatMove (normalize m) long) = Server.parseServer (Server.formatServer m')
        ↔ m.equal m' = true) ∧
    (PTN.parseMove (PTN.formatMove (normalize m) false) = PTN.parseMove (PTN.formatMove (normalize m') true)
        ↔ m.equal m' = true) := by
  have hs := apply_legalShape basis p q m h3 h8 hnp h
  have hs' := apply_legalShape basis p' q' m' h3' h8' hnp' h'
  have ha := notations_agree _ _ _ _ hs hs'
  rw [formatServer_normalize _ m' hs', equal_iff_normalize]
  exact ha

/-- **The normalisation is needed for PTN.**  A placement with a non-empty `Slides` word is accepted by the engine
(on a well-formed position; it is `Move.Equal` to the generated `a1`), but `FormatMove` prints the stray word as a
carry count (`3a1`), which `ParseMove` rejects.  `FormatServer` is immune (`server_wire_of_legal` below). -/
theorem ptn_junk_placement_not_roundtrip :
    ∃ (p : Pos) (m : Move), WF Ex.basis p ∧ (p.apply Ex.basis m).isOk = true ∧ m.type = Facts.mtPlaceFlat ∧
      (∃ g ∈ p.allMoves, g.equal m = true) ∧
      PTN.formatMove m false = lit "3a1" ∧
      PTN.parseMove (PTN.formatMove m false) = .error (.illegal "illegal move") ∧
      Server.parseServer (Server.formatServer m) = .ok (normalize m) :=
  ⟨Ex.start5, ⟨0, 0, Facts.mtPlaceFlat, 0x3#32⟩, Tak.new_wf Ex.basis Ex.start5_ok, by rfl, rfl,
    ⟨⟨0, 0, Facts.mtPlaceFlat, 0#32⟩, by decide +kernel, by decide⟩, by decide, by rfl, by rfl⟩

/-- the wire form of every accepted raw move — what the playtak bot actually transmits — is read back by
`ParseServer` as a move `Equal` to it that the engine treats identically -/
theorem server_wire_of_legal (basis : Array W) (p q : Pos) (m : Move) (h3 : 3 ≤ p.cfg.size) (h8 : p.cfg.size ≤ 8)
    (hnp : m.type ≠ Facts.mtPass) (h : p.apply basis m = .ok q) :
    ∃ n, Server.parseServer (Server.formatServer m) = .ok n ∧ n.equal m = true ∧ p.apply basis n = .ok q := by
  have := legal_move_notations_roundtrip basis p q m h3 h8 hnp h
  exact ⟨normalize m, this.2.2.2.2.2.1, this.1, this.2.1⟩

/-! ## non-vacuity -/

/-- hypotheses of `apply_legalShape` / `legal_move_notations_roundtrip`: the 5×5 position after a1 e5 b1 b2, the slide
b1+ (type 7, one piece) and a standing stone on c3 written with a junk `Slides` word; both are applied -/
example : WF Ex.basis Ex.mid ∧ 3 ≤ Ex.mid.cfg.size ∧ Ex.mid.cfg.size ≤ 8 ∧
    (Ex.mid.apply Ex.basis ⟨1, 0, 7, 1⟩).isOk = true ∧
    (Ex.mid.apply Ex.basis ⟨2, 2, Facts.mtPlaceStanding, 0xdead#32⟩).isOk = true :=
  ⟨Ex.mid_wf, by decide, by decide, by rfl, by rfl⟩
example : LegalShape 5 (normalize ⟨2, 2, Facts.mtPlaceStanding, 0xdead#32⟩) ∧
    ¬ LegalShape 5 ⟨2, 2, Facts.mtPlaceStanding, 0xdead#32⟩ := by decide
/-- `step_legalShape`: the rule book accepts the same two moves on the abstraction of that position -/
example : (Spec.step (Spec.abs Ex.mid) (Spec.decode ⟨2, 2, Facts.mtPlaceStanding, 0xdead#32⟩)).isSome = true ∧
    3 ≤ (Spec.abs Ex.mid).size ∧ (Spec.abs Ex.mid).size ≤ 8 := by decide +kernel
/-- `allMoves_legalShape`: the position has 68 generated moves, slides among them -/
example : Ex.mid.allMoves.length = 68 ∧ (⟨1, 0, 7, 1⟩ : Move) ∈ Ex.mid.allMoves := by decide +kernel
/-- the pass is applied by the engine and is not a legal shape (hence the hypothesis `m.type ≠ Pass`) -/
example : (Ex.mid.apply Ex.basis ⟨0, 0, Facts.mtPass, 0#32⟩).isOk = true ∧
    ¬ LegalShape 5 (normalize ⟨0, 0, Facts.mtPass, 0#32⟩) := ⟨by rfl, by decide⟩

end C11
