import TakVerif.Props.C05
import TakVerif.Proofs.SearchAttainHist

/-! # C05 for what `GetMove` and `AnalyzeAll` return — the MOVES behind the verdicts (with a transposition table)

`verdict_sound` / `verdict_complete` (`Props/C05.lean`) speak about the value `Analyze` reports.  `GetMove` returns a
move and `AnalyzeAll` a list of lines; both first call `Analyze` and then search the root's children again
(`GetMove`: only for the randomised choice among near-best moves, switched off by a decisive value).

* `getMove_verdict` — after ANY history of `Analyze` / `AnalyzeAll` / `GetMove` calls on one engine starting new (any table
  size from one entry up or none, each call with its own move order, random numbers and cancellation pattern), with
  `(pv, v, st)` what the `Analyze` call inside `GetMove` reports: `v > WinThreshold` ⇒ the position is a forced win **and the
  move `GetMove` returns keeps it** (it is accepted and the side to move afterwards is lost against best play);
  `v < -WinThreshold` ⇒ the position is lost and whatever is played leads to a position the opponent wins;
  and if the call is not cancelled, a forced win that exists within the reported depth is reported **and played**.
* `analyzeAll_verdict` — likewise: the value and statistics `AnalyzeAll` reports are those of its `Analyze` call (so
  `verdict_sound` / `verdict_complete` hold of them), and when a win is reported EVERY listed line starts with a move
  that keeps the win; when a loss is reported every line (every legal move) leads to a won position of the opponent.

Hypotheses beyond those of `verdict_sound`: `HashMovesOK` — positions with the same hash have the same win-keeping moves
(`NoCollision` as far as the moves stored in table entries are concerned; implied by `HashInj`, and for Tak by "equal hashes ⇒
same board and side to move", `Props/C05_moves_tak.lean`); `0 ≤ RandomizeWindow` (with a negative window the randomised
choice searches children with an empty window — the model mirrors it, nothing is claimed); cancel flags monotone.

How: `Proofs/SearchAttain*.lean` carry, through the same induction as `search_sound`, the invariant `TableAtt` (the move of every
winning lower/exact table entry keeps the win for every position that finds the entry) and `AttRes` (a result that claims a win
comes with a non-empty PV whose first move keeps it); `runEntries_ok` shows all three entry points keep the three table
invariants. -/
namespace C05
open Search

variable {P M : Type} [DecidableEq M]

/-- **the move `GetMove` plays attains the reported verdict** (see the header) -/
theorem getMove_verdict {g : Game P M} (hg : GameOK g) (he : EvalOK g) (hinj : HashOK g) (hmv : HashMovesOK g)
    {cfg : Cfg} (hpr : Precise cfg.opts) (hw : 0 ≤ cfg.randomizeWindow)
    (h : Calls P M) (hh : ∀ x ∈ h, OrderOK x.2.2 ∧ x.2.2.Monotone)
    (p : P) (hov : g.over p = false) {o : Oracle M} (hord : OrderOK o)
    (s : Eng M) (h1 : runEntries g cfg h (Eng.new g cfg) = .ok s)
    (m : M) (s' : Eng M) (h2 : getMove g cfg o p s = .ok (m, s')) :
    ∃ pv v st s1, analyze g cfg o p s = .ok ((pv, v, st), s1) ∧
      (v > Facts.winThreshold → Win g p ∧ ∃ c, g.apply p m = .ok c ∧ Loss g c) ∧
      (v < -Facts.winThreshold → Loss g p ∧ ∀ c, g.apply p m = .ok c → Win g c) ∧
      (NoCancel o →
        (negamax g st.depth.toNat p > Facts.winThreshold →
          v > Facts.winThreshold ∧ ∃ c, g.apply p m = .ok c ∧ Loss g c) ∧
        (negamax g st.depth.toNat p < -Facts.winThreshold → v < -Facts.winThreshold)) := by
  obtain ⟨pv, v, st, s1, ha, hwin, hloss, hcomp⟩ :=
    getMove_core hg he hinj hmv hpr hw h hh p hov hord s h1 m s' h2
  exact ⟨pv, v, st, s1, ha, hwin, fun hl => ⟨hloss hl, fun c hap => loss_all_moves hg he hov (hloss hl) hap⟩, hcomp⟩

/-- **every line of `AnalyzeAll` attains the reported verdict** (see the header) -/
theorem analyzeAll_verdict {g : Game P M} (hg : GameOK g) (he : EvalOK g) (hinj : HashOK g) (hmv : HashMovesOK g)
    {cfg : Cfg} (hpr : Precise cfg.opts) (hw : 0 ≤ cfg.randomizeWindow)
    (h : Calls P M) (hh : ∀ x ∈ h, OrderOK x.2.2 ∧ x.2.2.Monotone)
    (p : P) (hov : g.over p = false) {o : Oracle M} (hord : OrderOK o)
    (s : Eng M) (h1 : runEntries g cfg h (Eng.new g cfg) = .ok s)
    (lines : List (List M)) (v : Int) (st : Stats) (s' : Eng M)
    (h2 : analyzeAll g cfg o p s = .ok ((lines, v, st), s')) :
    (∃ pv s1, analyze g cfg o p s = .ok ((pv, v, st), s1)) ∧
    (v > Facts.winThreshold → Win g p ∧
      ∀ l ∈ lines, ∃ m rest c, l = m :: rest ∧ g.apply p m = .ok c ∧ Loss g c) ∧
    (v < -Facts.winThreshold → Loss g p ∧
      ∀ l ∈ lines, ∀ m rest c, l = m :: rest → g.apply p m = .ok c → Win g c) ∧
    (NoCancel o →
      (negamax g st.depth.toNat p > Facts.winThreshold → v > Facts.winThreshold) ∧
      (negamax g st.depth.toNat p < -Facts.winThreshold → v < -Facts.winThreshold)) := by
  obtain ⟨ha, hwin, hloss, hcomp⟩ :=
    analyzeAll_core hg he hinj hmv hpr hw h hh p hov hord s h1 lines v st s' h2
  refine ⟨ha, ?_, fun hl => ⟨hloss hl, fun l _ m rest c _ hap => loss_all_moves hg he hov (hloss hl) hap⟩, hcomp⟩
  intro hw'
  refine ⟨(hwin hw').1, ?_⟩
  intro l hmem
  obtain ⟨m, rest, e, c, hap, hlc⟩ := (hwin hw').2 l hmem
  exact ⟨m, rest, c, e, hap, hlc⟩

/-- the hypotheses are satisfiable together (heap game: distinct positions have distinct hashes), and a history of an
`Analyze`, an `AnalyzeAll` and a `GetMove` call on a two-entry table followed by `GetMove` on the heap 5 returns in the
model the winning move (take 2, leaving the lost heap 3) -/
example : GameOK Toy.game ∧ EvalOK Toy.game ∧ HashOK Toy.game ∧ HashMovesOK Toy.game ∧ Precise Toy.cfg.opts ∧
    (match runEntries Toy.game { Toy.cfg with tableEntries := some 2 }
        [(.analyze, 5, Oracle.quiet), (.analyzeAll, 6, Oracle.quiet), (.getMove, 7, Oracle.quiet)]
        (Eng.new Toy.game { Toy.cfg with tableEntries := some 2 }) with
      | .ok s =>
        (match getMove Toy.game { Toy.cfg with tableEntries := some 2 } Oracle.quiet 5 s with
          | .ok (m, _) => some m
          | .error _ => none)
      | .error _ => none) = some 2 :=
  ⟨Toy.gameOK, Toy.evalOK, Toy.hashInj.ok, Toy.hashInj.movesOK, Toy.cfg_precise, by decide⟩

end C05
