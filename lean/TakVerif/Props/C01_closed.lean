import TakVerif.Props.C01
import TakVerif.Proofs.Groups

/-! C01 with the flood-fuel hypothesis discharged.  The theorems of `Props/C01.lean` take `AnalyzeTotal`
(`analyze()` has enough flood fuel, i.e. the model never answers `hang`) as an explicit hypothesis because they
were proved independently of the road package; C02's `Roads.analyze_ne_none` proves it for every position and
any constants.  Here the two are put together: no hypothesis other than the property's own is left. -/
namespace C01
open Tak

theorem analyzeTotal : AnalyzeTotal := fun p => Roads.analyze_ne_none p

/-- every raw move on every position is either applied or rejected with a returned error — never a panic, never a hang -/
theorem move_total_closed (basis : Array W) (p : Pos) (m : Move) :
    (∃ q, p.apply basis m = .ok q) ∨ (∃ why, p.apply basis m = .error (.illegal why)) :=
  move_total analyzeTotal basis p m

/-- **C01**: for every well-formed position and every non-pass raw move within the 64-piece representation limit,
the model of `MovePreallocated` rejects exactly when the rule book rejects, and otherwise yields exactly the
rule book's successor, again well-formed -/
theorem move_refines_closed (basis : Array W) (p : Pos) (m : Move) (hwf : WF basis p)
    (hp : m.type ≠ Facts.mtPass) (hlim : StackLimit p m) :
    match p.apply basis m with
    | .error _ => Spec.step (Spec.abs p) (Spec.decode m) = none
    | .ok q => Spec.step (Spec.abs p) (Spec.decode m) = some (Spec.abs q) ∧ WF basis q :=
  move_refines basis p m analyzeTotal hwf hp hlim

/-- every position reachable by non-pass move values from the start of a default 3×3 … 6×6 game: model and rule book
in step, every position well-formed; no side condition at all -/
theorem reachable_default_closed (basis : Array W) (size : Nat) (bwt : Bool) (p : Pos) (ms : List Move)
    (hs : size ≤ 6) (h0 : Pos.new ⟨size, 0, 0, bwt⟩ = .ok p) (hnp : ∀ m ∈ ms, m.type ≠ Facts.mtPass) :
    match p.applyAll basis ms with
    | .error _ => stepAll (Spec.abs p) (ms.map Spec.decode) = none
    | .ok q => stepAll (Spec.abs p) (ms.map Spec.decode) = some (Spec.abs q) ∧ WF basis q :=
  reachable_default analyzeTotal basis size bwt p ms hs h0 hnp

example : WF Ex.basis Ex.mid ∧ (⟨1, 0, 7, 1⟩ : Move).type ≠ Facts.mtPass ∧ StackLimit Ex.mid ⟨1, 0, 7, 1⟩ :=
  ⟨Ex.mid_wf, by decide, Ex.mid_slide_limit⟩

end C01
