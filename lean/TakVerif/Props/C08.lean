import TakVerif.Proofs.HashInv
import TakVerif.Proofs.Examples
import TakVerif.Proofs.Equal
import TakVerif.Proofs.ApplyCfg
import TakVerif.Proofs.Reach

/-! C08 — equality and hash depend only on board and side to move.  (The hash-collision census clause of the
property is NOT a theorem: it is sampled support produced by the harness.) -/
namespace C08
open Tak

/-- **Incremental hash = from-scratch hash, after every move, for any basis table.**
`HInv basis p` says: `p.hash = fnvBasis ⊕ ⨁ᵢ hashAt i` (the value `FromSquares` would compute), `size ≤ 8`, and
empty squares have height 0.  If `MovePreallocated` (model `Pos.apply`) accepts ANY move value from such a
position, the successor's incrementally maintained `hash` field again equals the from-scratch fold, and the
invariant holds again — so it holds along every move sequence.  No stack-height limit, no other
well-formedness and nothing about the Zobrist `basis` table is assumed (it may even be too short). -/
theorem hash_inv (basis : Array W) (p q : Pos) (m : Move) (hp : HInv basis p)
    (h : p.apply basis m = .ok q) : q.hash = scratchHash basis q ∧ HInv basis q :=
  ⟨(hp.apply h).hash, hp.apply h⟩

/-- instance: the 5×5 position after a1 e5 b1 b2 (which satisfies `HInv` by `hash_inv_reachable`'s argument) and the
capturing slide b1+; the stack on b2 becomes 2 high, so a non-zero `hashAt` term enters the fold -/
example : ∃ q, Ex.mid.apply Ex.basis ⟨1,0,7,1⟩ = .ok q ∧ HInv Ex.basis Ex.mid ∧ q.hash ≠ Ex.mid.hash :=
  ⟨_, by rfl, (new_hinv Ex.basis Ex.start5_ok).applyAll _ Ex.mid_ok, by decide +kernel⟩

/-- the start position of every configuration `New` accepts satisfies the invariant -/
theorem hash_inv_new (basis : Array W) (cfg : Cfg) (p : Pos) (h : Pos.new cfg = .ok p) :
    p.hash = scratchHash basis p ∧ HInv basis p :=
  ⟨(new_hinv basis h).hash, new_hinv basis h⟩

/-- along any sequence of accepted moves from a fresh position the hash field is the from-scratch value -/
theorem hash_inv_reachable (basis : Array W) (cfg : Cfg) (p q : Pos) (ms : List Move)
    (h0 : Pos.new cfg = .ok p) (h : p.applyAll basis ms = .ok q) : q.hash = scratchHash basis q :=
  ((new_hinv basis h0).applyAll ms h).hash

example : Pos.new ⟨5, 0, 0, false⟩ = .ok Ex.start5 ∧ Ex.start5.applyAll Ex.basis Ex.moves = .ok Ex.after ∧
    Ex.after.hash ≠ Ex.start5.hash := ⟨rfl, by rfl, by decide +kernel⟩

/-- **`Equal` sees exactly size, squares and side to move** on well-formed positions (`Tak.WF`, the invariant
`C01.move_refines` shows is preserved): two such positions compare equal iff they have the same board size,
the same stack (contents and order) on every square, and the same side to move — whatever their ply counters,
reserves, group lists or histories.  In particular positions differing in any piece compare unequal. -/
theorem equal_iff (basis : Array W) (p q : Pos) (hp : WF basis p) (hq : WF basis q) :
    p.equal q = true ↔
      p.cfg.size = q.cfg.size ∧ (Spec.abs p).squares = (Spec.abs q).squares ∧ p.toMove = q.toMove :=
  equal_iff_core hp hq

/-- **`Hash()` is a function of size, squares and side to move** on well-formed positions -/
theorem hash_congr (basis : Array W) (p q : Pos) (hp : WF basis p) (hq : WF basis q)
    (hs : p.cfg.size = q.cfg.size) (hsq : (Spec.abs p).squares = (Spec.abs q).squares)
    (htm : p.toMove = q.toMove) : p.hashOf = q.hashOf :=
  hash_congr_core hp hq hs hsq htm

/-- **transpositions**: two move sequences (no pass, 64-piece limit respected) from a common well-formed start
that reach the same squares with the same side to move give positions that are `Equal` and have the same `Hash()` -/
theorem transposition (hA : AnalyzeTotal) (basis : Array W) (p q1 q2 : Pos) (ms1 ms2 : List Move) (hwf : WF basis p)
    (ok1 : MovesOK basis p ms1) (ok2 : MovesOK basis p ms2)
    (h1 : p.applyAll basis ms1 = .ok q1) (h2 : p.applyAll basis ms2 = .ok q2)
    (hsq : (Spec.abs q1).squares = (Spec.abs q2).squares) (htm : q1.toMove = q2.toMove) :
    q1.equal q2 = true ∧ q1.hashOf = q2.hashOf := by
  have r1 := applyAll_refines hA ms1 hwf ok1
  have r2 := applyAll_refines hA ms2 hwf ok2
  rw [h1] at r1; rw [h2] at r2
  have hs : q1.cfg.size = q2.cfg.size := by rw [applyAll_cfg ms1 h1, applyAll_cfg ms2 h2]
  exact ⟨(equal_iff_core r1.2 r2.2).2 ⟨hs, hsq, htm⟩, hash_congr_core r1.2 r2.2 hs hsq htm⟩

/-- instance of every hypothesis of `transposition` (given `AnalyzeTotal`): from the 5×5 start, a1 e5 b1 b2 c1 c2
and a1 e5 c1 c2 b1 b2 are accepted, consist of placements (so `MovesOK` holds), and reach the same squares with
the same side to move; the theorem then yields `Equal` and equal `Hash()` -/
example (hA : AnalyzeTotal) : Ex.qa.equal Ex.qb = true ∧ Ex.qa.hashOf = Ex.qb.hashOf :=
  have hwf := Tak.new_wf Ex.basis Ex.start5_ok
  transposition hA Ex.basis Ex.start5 Ex.qa Ex.qb Ex.trA Ex.trB hwf
    (movesOK_places hA _ hwf Ex.tr_places.1) (movesOK_places hA _ hwf Ex.tr_places.2)
    Ex.qa_ok Ex.qb_ok Ex.qa_qb_same.1 Ex.qa_qb_same.2

/-- `equal_iff` on concrete well-formed positions: `mid` equals itself and differs from `after` (two slides later) -/
example : WF Ex.basis Ex.mid ∧ WF Ex.basis Ex.after ∧ Ex.mid.equal Ex.mid = true ∧ Ex.mid.equal Ex.after = false :=
  ⟨Ex.mid_wf, Ex.after_wf, by decide +kernel, by decide +kernel⟩

end C08
