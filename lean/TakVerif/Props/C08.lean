import TakVerif.Proofs.HashInv
import TakVerif.Proofs.Examples

/-! C08 — equality and hash depend only on board and side to move.  (The hash-collision census clause of the
property is NOT a theorem: it is sampled support produced by the harness.) -/
namespace C08
open Tak

/-- **Incremental hash = from-scratch hash, after every move, for any basis table.**
`HInv basis p` says: `p.hash = fnvBasis ⊕ ⨁ᵢ hashAt i` (the value `FromSquares` would compute), `size ≤ 8`, and
empty squares have height 0.  If `MovePreallocated` (model `Pos.apply`) accepts ANY move value from such a
position, the successor's incrementally maintained `hash` field again equals the from-scratch fold, and the
invariant holds again — so it holds along every move sequence.  No stack-height limit, no other
well-formedness and nothing about the Zobrist `basis` table is assumed (it may even be too short). -/
theorem hash_inv (basis : Array W) (p q : Pos) (m : Move) (hp : HInv basis p)
    (h : p.apply basis m = .ok q) : q.hash = scratchHash basis q ∧ HInv basis q :=
  ⟨(hp.apply h).hash, hp.apply h⟩

/-- instance: the 5×5 position after a1 e5 b1 b2 (which satisfies `HInv` by `hash_inv_reachable`'s argument) and the
capturing slide b1+; the stack on b2 becomes 2 high, so a non-zero `hashAt` term enters the fold -/
example : ∃ q, Ex.mid.apply Ex.basis ⟨1,0,7,1⟩ = .ok q ∧ HInv Ex.basis Ex.mid ∧ q.hash ≠ Ex.mid.hash :=
  ⟨_, by rfl, (new_hinv Ex.basis Ex.start5_ok).applyAll _ Ex.mid_ok, by decide +kernel⟩

/-- the start position of every configuration `New` accepts satisfies the invariant -/
theorem hash_inv_new (basis : Array W) (cfg : Cfg) (p : Pos) (h : Pos.new cfg = .ok p) :
    p.hash = scratchHash basis p ∧ HInv basis p :=
  ⟨(new_hinv basis h).hash, new_hinv basis h⟩

/-- along any sequence of accepted moves from a fresh position the hash field is the from-scratch value -/
theorem hash_inv_reachable (basis : Array W) (cfg : Cfg) (p q : Pos) (ms : List Move)
    (h0 : Pos.new cfg = .ok p) (h : p.applyAll basis ms = .ok q) : q.hash = scratchHash basis q :=
  ((new_hinv basis h0).applyAll ms h).hash

example : Pos.new ⟨5, 0, 0, false⟩ = .ok Ex.start5 ∧ Ex.start5.applyAll Ex.basis Ex.moves = .ok Ex.after ∧
    Ex.after.hash ≠ Ex.start5.hash := ⟨rfl, by rfl, by decide +kernel⟩

end C08
