import TakVerif.Impl.Move
namespace C08
theorem placeholder : True := trivial
end C08
