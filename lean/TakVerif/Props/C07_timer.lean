import TakVerif.Proofs.BotTimer
import TakVerif.Props.C07

/-! # C07 — the grace timers under real time: older timers expire first, and their expiry does nothing

`Impl/BotTimer.lean` puts a clock around the bot loop of `Impl/Bot.lean`: `Timed.stale` counts the `time.After`
timers that are armed but that no `select` will ever look at (overwritten by the next server move, or left behind
by an invocation that returned); the one clock event `expire` lets the OLDEST armed timer expire.  The tie runs
exactly this system against the real loop (`ev timer` / `ev drain`), with every `time.After` of `bot.go` in the
scheduler's queue.

Here: an expiry of a stale timer changes nothing the loop or the server can see (`stale_timer_noop`); after a
server move that re-arms the grace timer the next expiry is such a no-op - the grace period runs from the LAST
server move of an invocation, not the first (`rearm_then_expire_noop`); whatever the timed system does is a run
of the untimed transition system with the stale expiries erased (`timed_run_untimed`, `timed_tie_untimed`), so
`bot_inv` and every other theorem quantified over all event lists of `Bot.run` holds for it (`bot_inv_timed`). -/
namespace C07
open Tak Tak.Bot

/-- **The expiry of a stale timer is a no-op**: while a timer older than the live one is armed (`0 < stale`), the
clock event changes nothing but the count - not the record, not the thinkers, not what was sent, not the status;
and (second part) the harness' op adds no thinker step to it. -/
theorem stale_timer_noop (cfg : Conf) (t : Timed) (h : 0 < t.stale) :
    (tstep cfg t .expire).st = t.st ∧ (ttieStep cfg t .expire).st = t.st ∧
    (tstep cfg t .expire).stale = t.stale - 1 := by
  simp [tstep, ttieStep, h]

/-- **Every timed run is an untimed run**: the `St` a timed schedule reaches is the one `Bot.run` reaches on the
same events with the stale expiries erased and the expiries of the live timer written `timerFires`.  Inserting
stale-timer events into an event list changes nothing observable. -/
theorem timed_run_untimed (cfg : Conf) (t : Timed) (evs : List TEv) :
    (trun cfg t evs).st = run cfg t.st (erase cfg t evs) := by
  induction evs generalizing t with
  | nil => rfl
  | cons e r ih =>
    have hcons : trun cfg t (e :: r) = trun cfg (tstep cfg t e) r := rfl
    rw [hcons, ih]
    cases e with
    | ev e =>
      simp only [erase]
      rw [run_append]
      congr 1
      by_cases ht : isTimer e = true
      · simp [tstep, ht, run]
      · simp [tstep, ht, run]
    | expire =>
      simp only [erase]
      rw [run_append]
      congr 1
      by_cases hs : 0 < t.stale
      · simp [tstep, hs, run]
      · simp [tstep, hs, run]

/-- a whole schedule of the tie (events, each followed by the spontaneous thinker steps) is a timed run … -/
theorem ttieRun_trun (cfg : Conf) (t : Timed) (evs : List TEv) :
    ∃ l, ttieRun cfg t evs = trun cfg t l := by
  induction evs generalizing t with
  | nil => exact ⟨[], rfl⟩
  | cons e r ih =>
    obtain ⟨l1, h1⟩ := ttieStep_trun cfg t e
    obtain ⟨l2, h2⟩ := ih (ttieStep cfg t e)
    refine ⟨l1 ++ l2, ?_⟩
    have hcons : ttieRun cfg t (e :: r) = ttieRun cfg (ttieStep cfg t e) r := rfl
    rw [hcons, h2, h1, trun_append]

/-- … hence an untimed run: **the states the correspondence compares with the real loop are states of `Bot.run`**. -/
theorem timed_tie_untimed (cfg : Conf) (t : Timed) (evs : List TEv) :
    ∃ l, (ttieRun cfg t evs).st = run cfg t.st l := by
  obtain ⟨l, h⟩ := ttieRun_trun cfg t evs
  exact ⟨erase cfg t l, by rw [h, timed_run_untimed]⟩

/-- the timed system as the driver starts it (`botnew`): the first invocation, its thinker let in, no timer armed -/
def timedStart (cfg : Conf) (size : Nat) (secs : Int) : Timed := { st := settle cfg (start cfg size secs), stale := 0 }

/-- **The record tracks the server under the clock as well**: `bot_inv` for every schedule of the timed tie
(server lines, answers, close and timer expiries in the order real time allows), the very runs compared with the
real loop since work package c07timer. -/
theorem bot_inv_timed (cfg : Conf) (hfix : cfg.fixed = true) (size : Nat) (secs : Int) (evs : List TEv) :
    Inv cfg (ttieRun cfg (timedStart cfg size secs) evs).st := by
  obtain ⟨l, h⟩ := timed_tie_untimed cfg (timedStart cfg size secs) evs
  rw [h]
  have : run cfg (timedStart cfg size secs).st l
      = run cfg (start cfg size secs) (settleEvs (start cfg size secs) ++ l) := by
    rw [run_append]; rfl
  rw [this]
  exact bot_inv cfg hfix size secs _

/-- an event that arms a timer is a delivered line, not the clock -/
theorem arms_not_timer (cfg : Conf) (s : St) (e : Ev) (h : arms cfg s e = true) : isTimer e = false := by
  cases e <;> simp_all [arms, isTimer]

/-- **The grace period runs from the last server move.**  When a server move is applied while the grace timer of
an earlier move of the same invocation is still looked at (`live`), that earlier timer is still armed and older:
the next expiry of the clock is its expiry and does nothing - the loop goes on waiting for the clock line of the
LAST move.  (A loop that keeps its first timer - seeded change C07-9 - returns here; the tie shows the difference
after two replayed moves and one `ev timer`.) -/
theorem rearm_then_expire_noop (cfg : Conf) (t : Timed) (e : Ev)
    (harm : arms cfg t.st e = true) (hlive : live t.st = true) :
    let t1 := tstep cfg t (.ev e)
    t1.stale = t.stale + 1 ∧ (tstep cfg t1 .expire).st = t1.st ∧ expireResult t1 = "stale" := by
  have hnt := arms_not_timer cfg t.st e harm
  have hab : abandons cfg t.st e = true := by simp [abandons, hlive, harm]
  have hst : (tstep cfg t (.ev e)).stale = t.stale + 1 := by simp [tstep, hnt, hab]
  refine ⟨hst, ?_, ?_⟩
  · exact (stale_timer_noop cfg _ (by omega)).1
  · simp [expireResult, hst]

/-- the applied server move leaves its own timer as the live one: the loop runs, `timeout != nil`, same invocation -/
theorem arms_live (cfg : Conf) (s : St) (e : Ev) (h : arms cfg s e = true) :
    live (step cfg s e) = true ∧ (step cfg s e).old = s.old ∧
    (step cfg s e).positions.length = s.positions.length + 1 := by
  cases e with
  | deliver bits parsed accept =>
    match bits, parsed with
    | [], _ => simp [arms] at h
    | [_], _ => simp [arms] at h
    | _ :: _ :: _, none => simp [arms] at h
    | b0 :: b1 :: rest, some m =>
      simp only [arms, Bool.and_eq_true, Bool.or_eq_true, decide_eq_true_eq] at h
      obtain ⟨⟨⟨hrun, hb0⟩, hb1⟩, happ⟩ := h
      have hline : onLine cfg s (b0 :: b1 :: rest) (some m) accept = onServerMove cfg s (some m) := by
        have hg : onGameLine cfg s (b1 :: rest) (some m) accept = onServerMove cfg s (some m) := by
          simp [onGameLine, hb1]
        rcases hb0 with hb0 | hb0
        · simp [onLine, hb0, hg]
        · by_cases hg0 : b0 = cfg.gameStr
          · simp [onLine, hg0, hg]
          · simp [onLine, hb0, hg]
      have hp : (srvPush cfg s m).p = s.p := by
        unfold srvPush; split
        · rfl
        · split <;> rfl
      have hpos : (srvPush cfg s m).positions = s.positions := by
        unfold srvPush; split
        · rfl
        · split <;> rfl
      have hold : (srvPush cfg s m).old = s.old := by
        unfold srvPush; split
        · rfl
        · split <;> rfl
      have hstat : (srvPush cfg s m).status = s.status := by
        unfold srvPush; split
        · rfl
        · split <;> rfl
      simp only [step, hrun, if_true, hline, onServerMove]
      rw [hp]
      cases hq : s.p.apply cfg.basis m with
      | error _ => simp [hq] at happ
      | ok q => simp [live, hstat, hrun, hpos, hold]
  | close => simp [arms] at h
  | grant k => simp [arms] at h
  | aiReturns k m => simp [arms] at h
  | timerFires => simp [arms] at h

/-! ## Non-vacuity: the resume replay of seeded change C07-9 -/

/-- a game is resumed: the server replays `a1` and `e1` inside one `handleMove` invocation, then time passes.  The
first expiry is that of `a1`'s timer (stale: nothing happens, no new invocation), the second one is the grace timer
of `e1` and ends the invocation (a new thinker, on the position after two plies); a third finds nothing armed. -/
def replayTwo : List TEv :=
  [.ev (.deliver ["Game#100", "P", "A1"] (some (flat 0 0)) false),
   .ev (.deliver ["Game#100", "P", "E1"] (some (flat 4 0)) false)]

example :
    let t2 := ttieRun (white true) (timedStart (white true) 5 600) replayTwo
    let t3 := ttieStep (white true) t2 .expire
    let t4 := ttieStep (white true) t3 .expire
    let t5 := ttieStep (white true) t4 .expire
    t2.stale = 1 ∧ live t2.st = true ∧ expireResult t2 = "stale" ∧
    t3.stale = 0 ∧ t3.st.old.length = 0 ∧ t3.st.moves = t2.st.moves ∧ live t3.st = true ∧ expireResult t3 = "fired" ∧
    t4.stale = 0 ∧ t4.st.old.length = 1 ∧ live t4.st = false ∧ t4.st.cur.pos = t2.st.p ∧ expireResult t4 = "idle" ∧
    t5.st.old.length = 1 := by
  decide +kernel

/-- the hypotheses of `rearm_then_expire_noop` hold at the second replayed move -/
example :
    let t1 := ttieRun (white true) (timedStart (white true) 5 600) (replayTwo.take 1)
    arms (white true) t1.st (.deliver ["Game#100", "P", "E1"] (some (flat 4 0)) false) = true ∧ live t1.st = true := by
  decide +kernel

/-- ordinary play leaves stale timers too: the clock line ends the invocation while the move's timer is armed; it
expires later, in the next invocation, as a no-op (`ev drain` after the harness' scripted prefix) -/
example :
    let t := ttieRun (white true) (timedStart (white true) 5 600)
      [.ev (.aiReturns 0 (flat 0 0)),
       .ev (.deliver ["Game#100", "P", "E1"] (some (flat 4 0)) false),
       .ev (.deliver ["Game#100", "Time", "590", "600"] none false)]
    t.stale = 1 ∧ live t.st = false ∧ (drain (white true) t).stale = 0 ∧ (drain (white true) t).st.sent = t.st.sent ∧
    (drain (white true) t).st.old.length = t.st.old.length := by
  decide +kernel

end C07
