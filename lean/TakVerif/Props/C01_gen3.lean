import TakVerif.Props.C01
import TakVerif.Proofs.GenApplySlideMain
import TakVerif.Proofs.ApplyCfg

/-! Tie #1 for C01 (and with it C03, C08, C09 and every search theorem), third round: **`Position.MovePreallocated` itself is
regenerated from `tak/move.go`** on every run (`Generated/FuncsApply.lean`: `Gen.movePreallocated`, with `analyze()` as the
regenerated `Gen.positionAnalyze` and the drop iterator as `Gen.slidesIterator`).  The translation keeps the mutation through
`next *Position` as state (one Lean variable per assigned field), resolves the `stones *byte` alias statically per path,
turns `fallthrough` into the appended clause, `return nil, Err..` into `.error ()`, and Go's run-time panics (index out of
range, nil dereference, a loop out of its whitelist fuel) into `none`; `alloc` / `copyPosition` are abstracted as the
declared copy "`next` is a copy of `p`" (the storage itself is C09's `Impl/Alloc.lean`).

`movePreallocated_is_source`: for **every** position of a board of size ≤ 8 whose `Height` / `Stacks` slices cover the
board (all that `alloc` builds - well-formed or not), every raw move value (any coordinates, any type byte, any 32-bit
`Slides` word), both values of "`next == nil`" and any Zobrist table that covers the board (the real one has 64 entries), the regenerated function returns
exactly what the hand-written model `Tak.Pos.apply` (Impl/Move.lean) returns: the same error / panic class or the same
successor, field for field (incl. the hash field and the group lists `analyze()` stores).  So `C01.move_refines`,
`move_never_panics` … are theorems about the function `gen` reads out of the source (`gen_move_refines`, `gen_move_total`),
and a semantic edit of `MovePreallocated` breaks this file instead of waiting for a sampled disagreement. -/
namespace C01
open Tak GenMove GenApply

/-- **`Position.MovePreallocated` is the model's `Pos.apply`** (see the header) -/
theorem movePreallocated_is_source (basis : Array W) (p : Pos) (hB : p.cfg.size * p.cfg.size ≤ basis.size) (m : Move) (nextNil : Bool)
    (hsz : p.cfg.size ≤ 8) (hH : p.cfg.size * p.cfg.size ≤ p.height.size) (hS : p.cfg.size * p.cfg.size ≤ p.stacks.size)
    (hm : m.type < 256) :
    Gen.movePreallocated basis p.black p.caps p.height p.cfg.size p.stacks p.standing p.white p.blackCaps p.blackStones
        p.cfg.size p.c p.hash p.move p.whiteCaps p.whiteStones (genMove m) nextNil = encR (p.apply basis m) := by
  show genApply basis p (genMove m) nextNil = _
  by_cases h1 : m.type = 1
  · exact apply_pass basis p m nextNil h1
  by_cases h2 : m.type = 2
  · exact apply_place basis p m nextNil hsz hH .flat (.inl ⟨h2, rfl⟩)
  by_cases h3 : m.type = 3
  · exact apply_place basis p m nextNil hsz hH .standing (.inr (.inl ⟨h3, rfl⟩))
  by_cases h4 : m.type = 4
  · exact apply_place basis p m nextNil hsz hH .capstone (.inr (.inr ⟨h4, rfl⟩))
  by_cases h5 : m.type = 5
  · exact apply_slide basis p hB m nextNil hsz hH hS (-1) 0 (.inl ⟨h5, rfl, rfl⟩)
  by_cases h6 : m.type = 6
  · exact apply_slide basis p hB m nextNil hsz hH hS 1 0 (.inr (.inl ⟨h6, rfl, rfl⟩))
  by_cases h7 : m.type = 7
  · exact apply_slide basis p hB m nextNil hsz hH hS 0 1 (.inr (.inr (.inl ⟨h7, rfl, rfl⟩)))
  by_cases h8 : m.type = 8
  · exact apply_slide basis p hB m nextNil hsz hH hS 0 (-1) (.inr (.inr (.inr ⟨h8, rfl, rfl⟩)))
  exact apply_bad basis p m nextNil hm (fun k hk1 hk8 he => by omega)

/-- the result does not depend on whether `next` was nil (the only thing the storage argument could influence) -/
theorem movePreallocated_next_irrelevant (basis : Array W) (p : Pos) (hB : p.cfg.size * p.cfg.size ≤ basis.size) (m : Move)
    (hsz : p.cfg.size ≤ 8) (hH : p.cfg.size * p.cfg.size ≤ p.height.size) (hS : p.cfg.size * p.cfg.size ≤ p.stacks.size)
    (hm : m.type < 256) :
    genApply basis p (genMove m) true = genApply basis p (genMove m) false := by
  unfold genApply
  rw [movePreallocated_is_source basis p hB m true hsz hH hS hm, movePreallocated_is_source basis p hB m false hsz hH hS hm]

/-- reading a successor back: the configuration fields are `p`'s, the rest is what the function returned -/
theorem decNext_encNext (p q : Pos) (hcfg : q.cfg = p.cfg) (hc : q.c = p.c) : decNext p (encNext q) = q := by
  obtain ⟨a1, a2, a3, a4, a5, a6, a7, a8, a9, a10, a11, a12, a13, a14, a15, a16⟩ := q
  simp only at hcfg hc
  subst hcfg hc
  simp [decNext, encNext]

/-- **the regenerated function never panics and always terminates** on such positions: every raw move is applied or
rejected with a returned error (`C01.move_total` transported through the bridge) -/
theorem gen_move_total (hA : AnalyzeTotal) (basis : Array W) (p : Pos) (hB : p.cfg.size * p.cfg.size ≤ basis.size) (m : Move) (nextNil : Bool)
    (hsz : p.cfg.size ≤ 8) (hH : p.cfg.size * p.cfg.size ≤ p.height.size) (hS : p.cfg.size * p.cfg.size ≤ p.stacks.size)
    (hm : m.type < 256) :
    genApply basis p (genMove m) nextNil = some (.error ()) ∨ ∃ t, genApply basis p (genMove m) nextNil = some (.ok t) := by
  unfold genApply
  rw [movePreallocated_is_source basis p hB m nextNil hsz hH hS hm]
  rcases move_total hA basis p m with ⟨q, hq⟩ | ⟨w, hw⟩
  · right; rw [hq]; exact ⟨_, rfl⟩
  · left; rw [hw]; rfl

/-- the statement of `gen_move_refines` -/
def gen_move_refines_statement : Prop :=
  ∀ (basis : Array W) (p : Pos) (m : Move) (nextNil : Bool), p.cfg.size * p.cfg.size ≤ basis.size → AnalyzeTotal → WF basis p →
    m.type < 256 → m.type ≠ Facts.mtPass → StackLimit p m →
    match genApply basis p (genMove m) nextNil with
    | none => False
    | some (.error ()) => Spec.step (Spec.abs p) (Spec.decode m) = none
    | some (.ok t) => Spec.step (Spec.abs p) (Spec.decode m) = some (Spec.abs (decNext p t)) ∧ WF basis (decNext p t)

/-- **the regenerated `MovePreallocated` refines the rule book and preserves well-formedness**: `C01.move_refines`, stated
for the function read out of `tak/move.go` - on every well-formed position and every raw non-pass move value it neither
panics nor hangs; it returns an error exactly when the rule book rejects the move, and otherwise a position whose
list-level view is exactly the rule book's successor and which is well-formed again (incl. its hash field) -/
theorem gen_move_refines : gen_move_refines_statement := by
  intro basis p m nn hB hA hwf hm hp hlim
  have hsz := hwf.size_le
  have hH : p.cfg.size * p.cfg.size ≤ p.height.size := by rw [hwf.height_size]; exact Nat.le_refl _
  have hS : p.cfg.size * p.cfg.size ≤ p.stacks.size := by rw [hwf.stacks_size]; exact Nat.le_refl _
  have hsrc : genApply basis p (genMove m) nn = encR (p.apply basis m) :=
    movePreallocated_is_source basis p hB m nn hsz hH hS hm
  rw [hsrc]
  have h := move_refines basis p m hA hwf hp hlim
  cases ha : p.apply basis m with
  | error e =>
    rw [ha] at h
    cases e with
    | illegal w => exact h
    | panic s => exact absurd ha (move_never_panics basis p m s)
    | hang s => exact absurd ha (move_never_hangs hA basis p m s)
  | ok q =>
    rw [ha] at h
    simp only at h
    have hq : decNext p (encNext q) = q :=
      decNext_encNext p q (apply_cfg ha) (by rw [h.2.consts, hwf.consts, apply_cfg ha])
    show _ ∧ _
    rw [hq]
    exact h

/-- a concrete instance: a slide on the mid-game example position, through the regenerated function -/
example : ∃ t, genApply Ex.basis Ex.mid (genMove ⟨1, 0, 7, 1⟩) true = some (.ok t) := by
  have h : genApply Ex.basis Ex.mid (genMove ⟨1, 0, 7, 1⟩) true = encR (Ex.mid.apply Ex.basis ⟨1, 0, 7, 1⟩) :=
    movePreallocated_is_source Ex.basis Ex.mid (by decide +kernel) ⟨1, 0, 7, 1⟩ true (by decide +kernel) (by decide +kernel) (by decide +kernel) (by decide)
  obtain ⟨q, hq⟩ := Ex.mid_slide_ok
  rw [h, hq]
  exact ⟨_, rfl⟩

/-- an off-board origin with a damaged slide word is rejected by the regenerated function (kernel evaluation) -/
example : Gen.movePreallocated #[] 0#64 0#64 #[0#8, 0#8, 0#8, 0#8, 0#8, 0#8, 0#8, 0#8, 0#8] 3
    #[0#64, 0#64, 0#64, 0#64, 0#64, 0#64, 0#64, 0#64, 0#64] 0#64 0#64 1#8 10#8 3 (Gen.precompute 3) 0#64 4 1#8 10#8
    { X := -1, Y := 5, Type_ := 6#8, Slides := 0x00f00012#32 } true = some (.error ()) := by rfl

end C01
