import TakVerif.Props.C15
import TakVerif.Props.C11
import TakVerif.Proofs.ServeCanon

/-!
# C15 at its consumer: the RPC `Canonicalize` of `cmd/internal/serve`

`Tak.Serve.canonicalize` (`Impl/Serve.lean`) mirrors the handler: `ptn.ParseMove` on every request string (the first
failure is the RPC's error), `symmetry.Canonical`, `ptn.FormatMove` on every move of the result.  The theorems say
that what a client sees *through the text layer* is C15's canonical form:

* `serve_canonicalize_spec`: for any spelling of a game (short or long PTN, annotation marks appended) the response is
  the short spelling of `Tak.canonical` of the game; a rejected game (`Canonical` returns an error: an illegal move) and an
  unparsable string are RPC errors, never a response.
* `serve_canonicalize_roundtrip`: reading the response back gives exactly the moves `Canonical` returned (C11).
* `serve_canonicalize_properties`: C15's three clauses for the handler on 3×3 … 6×6 — the response spells a legal game
  of the same length whose prefixes reach images of the original prefix positions; every spelling of each of the eight
  images of the game gets the same response; sending the response back returns it unchanged.

Vocabulary (`Proofs/ServeCanon.lean`): `Spells n b m` — the string `b` is `FormatMove` or `FormatMoveLong` of the move `m`
of legal shape on an `n`×`n` board, optionally followed by annotation marks `! ? ' *`; `SpellsAll n words ms` — move by
move; `shortSpelling ms` — `FormatMove` of every move (what the handler sends).

Hypotheses that remain: `NoCollisionAt` as in `C15.canonical_refines_default`; for the last clause only, that the moves
of the canonical form have a legal *shape* (`Notation.LegalShape`, C11's domain — true of every move the rule book
accepts, not proved here). -/
namespace C15
open Tak Tak.Serve Go Notation Spec

/-- **The response of `Canonicalize` is the canonical form, spelled by `FormatMove`**: whatever spelling of the game
`ms` the client sends for a board size `n ≥ 0`, the handler answers with the short spelling of `Tak.canonical basis n ms`,
and fails with that function's error (an illegal game) when it fails. -/
theorem serve_canonicalize_spec (basis : Array W) (n : Nat) (words : List Bytes) (ms : List Tak.Move)
    (hsp : SpellsAll n words ms) :
    canonicalize (takEnv basis) (n : Int) words =
      match Tak.canonical basis n ms with
      | .ok out => .ok (.canonicalize (shortSpelling out))
      | .error e => .error e := by
  unfold canonicalize
  rw [parseMoves_spellings basis n words ms hsp]
  have hc : (takEnv basis).canonical (n : Int) ms = Tak.canonical basis n ms := by
    simp only [takEnv]
    have : ¬ ((n : Int) < 0) := by omega
    simp only [this, if_false, Int.toNat_natCast]
  simp only [hc]
  cases Tak.canonical basis n ms with
  | ok out => rfl
  | error e => rfl

/-- a request string that `ParseMove` rejects makes the RPC fail with that error, whatever follows it -/
theorem serve_canonicalize_unparsable (basis : Array W) (size : Int) (pre : List Bytes) (pms : List Tak.Move)
    (bad : Bytes) (rest : List Bytes) (e : Err)
    (hpre : parseMoves (takEnv basis) pre = .ok pms) (hbad : PTN.parseMove bad = .error e) :
    canonicalize (takEnv basis) size (pre ++ bad :: rest) = .error e := by
  have : ∀ (pre : List Bytes) (pms : List Tak.Move), parseMoves (takEnv basis) pre = .ok pms →
      parseMoves (takEnv basis) (pre ++ bad :: rest) = .error e := by
    intro pre
    induction pre with
    | nil =>
      intro _ _
      have hb : (takEnv basis).parseMove bad = .error e := hbad
      simp only [List.nil_append, parseMoves, hb]
    | cons b pre ih =>
      intro pms h
      simp only [parseMoves] at h
      cases hb : (takEnv basis).parseMove b with
      | error e' => rw [hb] at h; cases h
      | ok m =>
        rw [hb] at h
        cases hr : parseMoves (takEnv basis) pre with
        | error e' => rw [hr] at h; cases h
        | ok ms' =>
          simp only [List.cons_append, parseMoves, hb, ih ms' hr]
  unfold canonicalize
  rw [this pre pms hpre]

/-- **Reading the response back** (`ParseMove` on every string of the response) gives exactly the moves `Canonical`
returned — C11's round trip, move by move -/
theorem serve_canonicalize_roundtrip (basis : Array W) (n : Nat) (out : List Tak.Move)
    (hshape : ∀ m ∈ out, LegalShape n m) :
    parseMoves (takEnv basis) (shortSpelling out) = .ok out :=
  parseMoves_spellings basis n _ _ (spellsAll_shortSpelling out hshape)

/-- **C15 for the RPC** on 3×3 … 6×6, assuming only the absence of hash collisions (and, for the last clause, legal
shapes in the canonical form): for a legal game `ms` in any spelling `words`, the handler answers with the spelling of
a game `out` that is legal, as long as `ms`, prefix-wise an image of `ms`; any spelling `words'` of an image of the
game under any of the eight maps gets the very same response; and the response sent back as a request is answered by
itself. -/
theorem serve_canonicalize_properties (basis : Array W) {n : Nat} (hn : n ∈ [3, 4, 5, 6]) (g : Sym)
    (ms : List Tak.Move) (pEnd : State) (h : replay (startState n) ms = some pEnd)
    (words words' : List Bytes) (hsp : SpellsAll n words ms)
    (hsp' : SpellsAll n words' (ms.map (g.raw n)))
    (NC : ∀ game : List Tak.Move, (game = ms ∨ game = ms.map (g.raw n) ∨ canon n ms = some game) →
      ∀ pre st, pre <+: game → canonRun ⟨startState n, 0, []⟩ pre = some st → NoCollisionAt (InvB basis) st.b0) :
    ∃ out, canonicalize (takEnv basis) (n : Int) words = .ok (.canonicalize (shortSpelling out)) ∧
      out.length = ms.length ∧
      (∀ t, t ≤ ms.length → ∃ (k : Sym) (pt : State), replay (startState n) (ms.take t) = some pt ∧
        replay (startState n) (out.take t) = some (k.state pt)) ∧
      canonicalize (takEnv basis) (n : Int) words' = .ok (.canonicalize (shortSpelling out)) ∧
      ((∀ m ∈ out, LegalShape n m) →
        canonicalize (takEnv basis) (n : Int) (shortSpelling out) = .ok (.canonicalize (shortSpelling out))) := by
  obtain ⟨out, h1, h2, h3, h4, h5⟩ := model_canonical_properties_default basis hn g ms pEnd h NC
  refine ⟨out, ?_, h2, h3, ?_, ?_⟩
  · rw [serve_canonicalize_spec basis n words ms hsp, h1]
  · rw [serve_canonicalize_spec basis n words' _ hsp', h4]
  · intro hshape
    rw [serve_canonicalize_spec basis n _ out (spellsAll_shortSpelling out hshape), h5]

/-! ## concrete instances (evaluated by the kernel) -/

/-- the spellings `a5` and `Fe5?!` are spellings of the two placements -/
example : Spells 5 (lit "a5") (mv 0 4) ∧ Spells 5 (lit "Fe5?!") (mv 4 4) :=
  ⟨⟨by decide, false, [], (by intro c hc; cases hc), (by decide)⟩,
   ⟨by decide, true, lit "?!", (by decide), (by decide)⟩⟩

/-- the request `5, ["a5", "Fe5?!"]` is answered `["a1", "e1"]` (with an all-zero Zobrist table: the two boards met
are distinguished by it all the same), an occupied square is an error, a garbled string is an error, size 9 is a
panic of the handler (`tak.New` indexes `defaultPieces[9]`) -/
example :
    (match canonicalize (takEnv (Array.replicate 64 0#64)) 5 [lit "a5", lit "Fe5?!"] with
      | .ok r => r == .canonicalize [lit "a1", lit "e1"] | _ => false) = true ∧
    (match canonicalize (takEnv (Array.replicate 64 0#64)) 5 [lit "a5", lit "a5"] with
      | .error (.illegal _) => true | _ => false) = true ∧
    (match canonicalize (takEnv (Array.replicate 64 0#64)) 5 [lit "a5", lit "e9"] with
      | .error (.illegal _) => true | _ => false) = true ∧
    (match canonicalize (takEnv (Array.replicate 64 0#64)) 9 [lit "a5"] with
      | .error (.panic _) => true | _ => false) = true ∧
    (match canonicalize (takEnv (Array.replicate 64 0#64)) (-1) [lit "a5"] with
      | .error (.panic _) => true | _ => false) = true := by decide

end C15
