import TakVerif.Props.C05
import TakVerif.Proofs.ServeCache

/-!
# C05 at its consumers: the RPCs `Analyze` and `IsPositionInTak` of `cmd/internal/serve`

`Tak.Serve` (`Impl/Serve.lean`) mirrors the handlers and the engine cache `cache.getPlayer`: one engine per cache,
kept while (size, depth, precise) stay the same and REPLACED when any of them changes.  The model is generic in what
the handlers call (`Serve.Env`: `ParseTPS`, the engine's game for a board size, `Move(Pass)`, move spellings);
`Serve.takEnv` plugs in the Tak models.  The theorems hold for every `Env`; the hypotheses on the games are the ones of
C05 (`GameOK`, `EvalOK`, `HashInj`), which is where they are discharged or assumed for Tak.

* `serve_cache_is_history`: run ANY list of requests (all three kinds, any order, failing ones included) on a new
  server.  Every answered `Analyze` request was answered by *the last call of a history of `MinimaxAI.Analyze` calls on
  an engine newly built for exactly the request's (size, depth, precise)* — `Search.runCalls`, the object of
  `C05.verdict_sound` — and every answered `IsPositionInTak` likewise by a history of depth-1 precise calls, on the
  position after a pass, with `InTak = (value > WinThreshold)`.
* `serve_verdict_sound`: hence every `precise` `Analyze` response with `|Value| > WinThreshold` reports a real forced
  win/loss of the analysed position, and `InTak = true` means the side to move after the pass has a forced win —
  whatever was asked of the server before.
* `intak_iff_statement` / `intak_iff_partial`: see there. -/
namespace C05
open Search Tak Tak.Serve Go

variable {P M : Type} [DecidableEq M]

/-- the move order used by the request's engine call keeps the set of generated moves (`sort.Sort` permutes) -/
def ReqOK : Req M → Prop
  | .analyze _ _ _ o => OrderOK o
  | .canonicalize _ _ => True
  | .isInTak _ o => OrderOK o

/-- an answered request, read as the last call of a history of `Analyze` calls on a per-key engine -/
def AnsweredByHistory (env : Env P M) : Req M → Except Err Resp → Prop
  | .analyze position depth precise o, .ok (.analyze _ v) =>
    ∃ p, env.parseTPS position = .ok p ∧
      ∃ (h : History P M) (rs : List (P × Int)) (eng : Eng M), (∀ x ∈ h, OrderOK x.2) ∧
        runCalls (env.game (env.size p)) (playerCfg env.tableEntries depth precise) (h ++ [(p, o)])
          (Eng.new (env.game (env.size p)) (playerCfg env.tableEntries depth precise)) = .ok (rs ++ [(p, v)], eng)
  | .isInTak position o, .ok (.isInTak inTak _) =>
    ∃ p q v, env.parseTPS position = .ok p ∧ env.pass p = .ok q ∧ inTak = decide (v > Facts.winThreshold) ∧
      ∃ (h : History P M) (rs : List (P × Int)) (eng : Eng M), (∀ x ∈ h, OrderOK x.2) ∧
        runCalls (env.game (env.size q)) (playerCfg env.tableEntries 1 true) (h ++ [(q, o)])
          (Eng.new (env.game (env.size q)) (playerCfg env.tableEntries 1 true)) = .ok (rs ++ [(q, v)], eng)
  | _, _ => True

/-- both caches satisfy the cache invariant -/
def ServerInv (env : Env P M) (s : Server M) : Prop := CacheInv env s.analyzeCache ∧ CacheInv env s.istakCache

theorem callPlayer_error_inv (env : Env P M) (o : Oracle M) (c : Cache M) (p : P) (e : Err) (c' : Cache M)
    (h : callPlayer env o c p = (.error e, c')) : CacheInv env c' := by
  obtain ⟨size, depth, precise, player⟩ := c
  cases player with
  | none =>
    simp only [callPlayer, Prod.mk.injEq] at h
    rw [← h.2]; intro pl hpl; cases hpl
  | some pl =>
    obtain ⟨psize, cfg, eng⟩ := pl
    simp only [callPlayer] at h
    split at h
    · simp only [Prod.mk.injEq] at h; rw [← h.2]; intro pl hpl; cases hpl
    · split at h
      · simp only [Prod.mk.injEq] at h; rw [← h.2]; intro pl hpl; cases hpl
      · simp only [Prod.mk.injEq] at h; cases h.1

/-- one request: the answer is the last call of a history, and the caches stay histories -/
theorem step_history (env : Env P M) (s : Server M) (r : Req M) (hr : ReqOK r) (hs : ServerInv env s) :
    AnsweredByHistory env r (s.step env r).1 ∧ ServerInv env (s.step env r).2 := by
  obtain ⟨ac, ic⟩ := s
  obtain ⟨hac, hic⟩ := hs
  cases r with
  | canonicalize size moves =>
    refine ⟨?_, hac, hic⟩
    simp only [Server.step, AnsweredByHistory]
  | analyze position depth precise o =>
    simp only [Server.step, Serve.analyze]
    cases hp : env.parseTPS position with
    | error e => exact ⟨trivial, hac, hic⟩
    | ok p =>
      simp only []
      obtain ⟨hinv, hsz, hd, hpr⟩ := getPlayer_inv env ac (env.size p) depth precise hac
      cases hcp : callPlayer env o (ac.getPlayer env (env.size p) depth precise) p with
      | mk out c' =>
        cases out with
        | error e => exact ⟨trivial, callPlayer_error_inv env o _ p e c' hcp, hic⟩
        | ok x =>
          obtain ⟨pv, v⟩ := x
          obtain ⟨hinv', _, _, _, _, h, rs, eng, hord, hrun⟩ := callPlayer_history env o hr _ p hinv pv v c' hcp
          rw [hd, hpr] at hrun
          exact ⟨⟨p, hp, h, rs, eng, hord, hrun⟩, hinv', hic⟩
  | isInTak position o =>
    simp only [Server.step, Serve.isPositionInTak]
    cases hp : env.parseTPS position with
    | error e => exact ⟨trivial, hac, hic⟩
    | ok p =>
      simp only []
      obtain ⟨hinv, hsz, hd, hpr⟩ := getPlayer_inv env ic (env.size p) 1 true hic
      cases hq : env.pass p with
      | error e => exact ⟨trivial, hac, hinv⟩
      | ok q =>
        simp only []
        cases hcp : callPlayer env o (ic.getPlayer env (env.size p) 1 true) q with
        | mk out c' =>
          cases out with
          | error e => exact ⟨trivial, hac, callPlayer_error_inv env o _ q e c' hcp⟩
          | ok x =>
            obtain ⟨pv, v⟩ := x
            obtain ⟨hinv', _, _, _, _, h, rs, eng, hord, hrun⟩ := callPlayer_history env o hr _ q hinv pv v c' hcp
            rw [hd, hpr] at hrun
            simp only []
            by_cases hv : v > Facts.winThreshold
            · rw [if_pos hv]
              cases pv with
              | nil => exact ⟨trivial, hac, hinv'⟩
              | cons m rest =>
                exact ⟨⟨p, q, v, hp, hq, by simp [hv], h, rs, eng, hord, hrun⟩, hac, hinv'⟩
            · rw [if_neg hv]
              exact ⟨⟨p, q, v, hp, hq, by simp [hv], h, rs, eng, hord, hrun⟩, hac, hinv'⟩

theorem run_history (env : Env P M) :
    ∀ (reqs : List (Req M)) (s : Server M), (∀ r ∈ reqs, ReqOK r) → ServerInv env s →
      ∀ x ∈ reqs.zip (Server.run env s reqs).1, AnsweredByHistory env x.1 x.2 := by
  intro reqs
  induction reqs with
  | nil => intro s _ _ x hx; simp [Server.run] at hx
  | cons r rest ih =>
    intro s hreq hs x hx
    obtain ⟨hans, hs'⟩ := step_history env s r (hreq r (by simp)) hs
    have hrest := ih (s.step env r).2 (fun r' hr' => hreq r' (by simp [hr'])) hs'
    unfold Server.run at hx
    split at hx
    · rename_i site s' heq
      simp only [List.zip_cons_cons, List.zip_nil_right, List.mem_singleton] at hx
      subst hx
      rw [heq] at hans
      exact hans
    · rename_i out s' hne heq
      rw [heq] at hans hrest
      simp only at hans hrest
      simp only [List.zip_cons_cons, List.mem_cons] at hx
      rcases hx with rfl | hx
      · exact hans
      · exact hrest x hx

/-- **`serve_cache_is_history`** — a sequence of requests is a family of histories of `Analyze` calls on per-key
engines: on a new server (`&server{}`), after any list of earlier requests, each answered `Analyze` request (position
`p`, value `v`) is the last call of some history `h ++ [(p, o)]` of `MinimaxAI.Analyze` calls run on an engine newly
built by `NewMinimax` for the request's own (size, depth, precise); each answered `IsPositionInTak` is the last call of
such a history of depth-1 precise calls on the position after the pass, and `InTak` is `value > WinThreshold`.  (The
histories are the requests since the cache key last changed; an engine is never shared between two keys.) -/
theorem serve_cache_is_history (env : Env P M) (reqs : List (Req M)) (hreq : ∀ r ∈ reqs, ReqOK r) :
    ∀ x ∈ reqs.zip (Server.run env {} reqs).1, AnsweredByHistory env x.1 x.2 :=
  run_history env reqs {} hreq ⟨cacheInv_empty env, cacheInv_empty env⟩

/-- what `C05.verdict_sound` gives for one answered request -/
def VerdictSound (env : Env P M) : Req M → Except Err Resp → Prop
  | .analyze position _ true _, .ok (.analyze _ v) =>
    ∃ p, env.parseTPS position = .ok p ∧
      (v > Facts.winThreshold → Win (env.game (env.size p)) p) ∧
      (v < -Facts.winThreshold → Loss (env.game (env.size p)) p)
  | .isInTak position _, .ok (.isInTak inTak _) =>
    ∃ p q, env.parseTPS position = .ok p ∧ env.pass p = .ok q ∧ (inTak = true → Win (env.game (env.size q)) q)
  | _, _ => True

/-- **`serve_verdict_sound`** — C05's verdict clause reaches the RPC client: on a new server, after ANY list of earlier
requests (other positions, other sizes, the same position again, failing requests, `Canonicalize` in between), every
`precise` `Analyze` response with `Value > WinThreshold` is a real forced win of the position sent, `Value <
-WinThreshold` a real forced loss, and `InTak = true` means that the side to move after the pass has a forced win.
Hypotheses: C05's for the game of every board size (`HashInj` = no hash collision). -/
theorem serve_verdict_sound (env : Env P M) (hg : ∀ n, GameOK (env.game n)) (he : ∀ n, EvalOK (env.game n))
    (hinj : ∀ n, HashInj (env.game n)) (reqs : List (Req M)) (hreq : ∀ r ∈ reqs, ReqOK r) :
    ∀ x ∈ reqs.zip (Server.run env {} reqs).1, VerdictSound env x.1 x.2 := by
  intro x hx
  have hh := serve_cache_is_history env reqs hreq x hx
  obtain ⟨r, out⟩ := x
  cases r with
  | canonicalize size moves => simp only [VerdictSound]
  | analyze position depth precise o =>
    cases precise with
    | false => simp only [VerdictSound]
    | true =>
      cases out with
      | error e => simp only [VerdictSound]
      | ok resp =>
        cases resp with
        | canonicalize _ => simp only [VerdictSound]
        | isInTak _ _ => simp only [VerdictSound]
        | analyze pv v =>
          simp only [AnsweredByHistory] at hh
          obtain ⟨p, hp, h, rs, eng, hord, hrun⟩ := hh
          have hord' : ∀ y ∈ h ++ [(p, o)], OrderOK y.2 := by
            intro y hy
            rcases List.mem_append.mp hy with hy | hy
            · exact hord y hy
            · simp only [List.mem_singleton] at hy; subst hy
              exact hreq _ (List.of_mem_zip hx).1
          have hv := verdict_sound (hg (env.size p)) (he (env.size p)) (hinj (env.size p))
            (playerCfg_precise env.tableEntries depth) (h ++ [(p, o)]) hord' _ hrun (p, v) (by simp)
          exact ⟨p, hp, hv.1, hv.2⟩
  | isInTak position o =>
    cases out with
    | error e => simp only [VerdictSound]
    | ok resp =>
      cases resp with
      | canonicalize _ => simp only [VerdictSound]
      | analyze _ _ => simp only [VerdictSound]
      | isInTak inTak mv =>
        simp only [AnsweredByHistory] at hh
        obtain ⟨p, q, v, hp, hq, hin, h, rs, eng, hord, hrun⟩ := hh
        have hord' : ∀ y ∈ h ++ [(q, o)], OrderOK y.2 := by
          intro y hy
          rcases List.mem_append.mp hy with hy | hy
          · exact hord y hy
          · simp only [List.mem_singleton] at hy; subst hy
            exact hreq _ (List.of_mem_zip hx).1
        have hv := verdict_sound (hg (env.size q)) (he (env.size q)) (hinj (env.size q))
          (playerCfg_precise env.tableEntries 1) (h ++ [(q, o)]) hord' _ hrun (q, v) (by simp)
        refine ⟨p, q, hp, hq, ?_⟩
        intro ht
        rw [ht] at hin
        exact hv.1 (by simpa using hin.symm)

end C05
