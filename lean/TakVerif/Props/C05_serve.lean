import TakVerif.Props.C05
import TakVerif.Proofs.ServeCache
import TakVerif.Proofs.ServeDepth1
import TakVerif.Proofs.ServeToy

/-!
# C05 at its consumers: the RPCs `Analyze` and `IsPositionInTak` of `cmd/internal/serve`

`Tak.Serve` (`Impl/Serve.lean`) mirrors the handlers and the engine cache `cache.getPlayer`: one engine per cache,
kept while (size, depth, precise) stay the same and REPLACED when any of them changes.  The model is generic in what
the handlers call (`Serve.Env`: `ParseTPS`, the engine's game for a board size, `Move(Pass)`, move spellings);
`Serve.takEnv` plugs in the Tak models.  The theorems hold for every `Env`; the hypotheses on the games are the ones of
C05 (`GameOK`, `EvalOK`, `HashInj`), which is where they are discharged or assumed for Tak.

* `serve_cache_is_history`: run ANY list of requests (all three kinds, any order, failing ones included) on a new
  server.  Every answered `Analyze` request was answered by *the last call of a history of `MinimaxAI.Analyze` calls on
  an engine newly built for exactly the request's (size, depth, precise)* — `Search.runCalls`, the object of
  `C05.verdict_sound` — and every answered `IsPositionInTak` likewise by a history of depth-1 precise calls, on the
  position after a pass, with `InTak = (value > WinThreshold)`.
* `serve_verdict_sound`: hence every `precise` `Analyze` response with `|Value| > WinThreshold` reports a real forced
  win/loss of the analysed position, and `InTak = true` means the side to move after the pass has a forced win —
  whatever was asked of the server before.
* `intak_iff`: `IsPositionInTak` answers exactly the question it is named after — `InTak` iff, after a pass, the side then
  to move has a legal move that ends the game in its favour at once, and `TakMove` spells such a move — on a server with
  any past.  This needed a new result about the engine (`Search.analyze_depth1`, `Proofs/ServeDepth1.lean`): a depth-1
  precise engine WITH a transposition table reports `negamax 1` and a move attaining it after any history of calls
  (`C05.analyze_exact` is about engines without a table; the cached engines have the default table).

Vocabulary (`Proofs/ServeCache.lean`): `ReqOK Ok r` — the environment (move order, cancel flag) of the engine call of
request `r` satisfies `Ok`; `AnsweredByHistory Ok env r out` — if `out` is a response to the `Analyze` request `r`
(position text parsed to `p`, value `v`) there are a history `h` of calls with environments satisfying `Ok` and an
engine state `eng` with `runCalls g cfg (h ++ [(p, o)]) (Eng.new g cfg) = ok (rs ++ [(p, v)], eng)` for the game `g` of
`p`'s size and `cfg = playerCfg _ depth precise`; likewise for `IsPositionInTak` with the position after the pass,
depth 1, precise, and `InTak = decide (v > WinThreshold)`; `Quiet o` — `OrderOK o ∧ NoCancel o`. -/
namespace C05
open Search Tak Tak.Serve Go

variable {P M : Type} [DecidableEq M]

/-- **`serve_cache_is_history`** — a sequence of requests is a family of histories of `Analyze` calls on per-key
engines: on a new server (`&server{}`), after any list of earlier requests, each answered `Analyze` request (position
`p`, value `v`) is the last call of some history `h ++ [(p, o)]` of `MinimaxAI.Analyze` calls run on an engine newly
built by `NewMinimax` for the request's own (size, depth, precise); each answered `IsPositionInTak` is the last call of
such a history of depth-1 precise calls on the position after the pass, and `InTak` is `value > WinThreshold`.  (The
histories are the requests since the cache key last changed; an engine is never shared between two keys.) -/
theorem serve_cache_is_history (env : Env P M) (reqs : List (Req M)) (hreq : ∀ r ∈ reqs, ReqOK OrderOK r) :
    ∀ x ∈ reqs.zip (Server.run env {} reqs).1, AnsweredByHistory OrderOK env x.1 x.2 :=
  (run_history OrderOK env reqs {} hreq ⟨cacheInv_empty _ env, cacheInv_empty _ env⟩).1

/-- what `C05.verdict_sound` gives for one answered request -/
def VerdictSound (env : Env P M) : Req M → Except Err Resp → Prop
  | .analyze position _ true _, .ok (.analyze _ v) =>
    ∃ p, env.parseTPS position = .ok p ∧
      (v > Facts.winThreshold → Win (env.game (env.size p)) p) ∧
      (v < -Facts.winThreshold → Loss (env.game (env.size p)) p)
  | .isInTak position _, .ok (.isInTak inTak _) =>
    ∃ p q, env.parseTPS position = .ok p ∧ env.pass p = .ok q ∧ (inTak = true → Win (env.game (env.size q)) q)
  | _, _ => True

/-- **`serve_verdict_sound`** — C05's verdict clause reaches the RPC client: on a new server, after ANY list of earlier
requests (other positions, other sizes, the same position again, failing requests, `Canonicalize` in between), every
`precise` `Analyze` response with `Value > WinThreshold` is a real forced win of the position sent, `Value <
-WinThreshold` a real forced loss, and `InTak = true` means that the side to move after the pass has a forced win.
Hypotheses: C05's for the game of every board size (`HashInj` = no hash collision). -/
theorem serve_verdict_sound (env : Env P M) (hg : ∀ n, GameOK (env.game n)) (he : ∀ n, EvalOK (env.game n))
    (hinj : ∀ n, HashInj (env.game n)) (reqs : List (Req M)) (hreq : ∀ r ∈ reqs, ReqOK OrderOK r) :
    ∀ x ∈ reqs.zip (Server.run env {} reqs).1, VerdictSound env x.1 x.2 := by
  intro x hx
  have hh := serve_cache_is_history env reqs hreq x hx
  obtain ⟨r, out⟩ := x
  cases r with
  | canonicalize size moves => simp only [VerdictSound]
  | analyze position depth precise o =>
    cases precise with
    | false => simp only [VerdictSound]
    | true =>
      cases out with
      | error e => simp only [VerdictSound]
      | ok resp =>
        cases resp with
        | canonicalize _ => simp only [VerdictSound]
        | isInTak _ _ => simp only [VerdictSound]
        | analyze pv v =>
          simp only [AnsweredByHistory] at hh
          obtain ⟨p, hp, h, rs, eng, hord, hrun⟩ := hh
          have hord' : ∀ y ∈ h ++ [(p, o)], OrderOK y.2 := by
            intro y hy
            rcases List.mem_append.mp hy with hy | hy
            · exact hord y hy
            · simp only [List.mem_singleton] at hy; subst hy
              exact hreq _ (List.of_mem_zip hx).1
          have hv := verdict_sound (hg (env.size p)) (he (env.size p)) (hinj (env.size p)).ok
            (playerCfg_precise env.tableEntries depth) (h ++ [(p, o)]) hord' _ hrun (p, v) (by simp)
          exact ⟨p, hp, hv.1, hv.2⟩
  | isInTak position o =>
    cases out with
    | error e => simp only [VerdictSound]
    | ok resp =>
      cases resp with
      | canonicalize _ => simp only [VerdictSound]
      | analyze _ _ => simp only [VerdictSound]
      | isInTak inTak mv =>
        simp only [AnsweredByHistory] at hh
        obtain ⟨p, q, v, hp, hq, hin, h, rs, eng, hord, hrun⟩ := hh
        have hord' : ∀ y ∈ h ++ [(q, o)], OrderOK y.2 := by
          intro y hy
          rcases List.mem_append.mp hy with hy | hy
          · exact hord y hy
          · simp only [List.mem_singleton] at hy; subst hy
            exact hreq _ (List.of_mem_zip hx).1
        have hv := verdict_sound (hg (env.size q)) (he (env.size q)) (hinj (env.size q)).ok
          (playerCfg_precise env.tableEntries 1) (h ++ [(q, o)]) hord' _ hrun (q, v) (by simp)
        refine ⟨p, q, hp, hq, ?_⟩
        intro ht
        rw [ht] at hin
        exact hv.1 (by simpa using hin.symm)

/-- **`intak_iff`** — on a server that has answered ANY list of requests before (none of them cancelled), an answered
`IsPositionInTak` request for a position `p` says `InTak = true` **iff** the position `q` after a pass is not finished
and the side to move in `q` (the side NOT to move in `p`) has a legal move `m` whose result `c` is a finished game
lost for the side to move in `c` (`eval c < -WinThreshold`: it ended in favour of the player who made `m`); and when
`InTak` is true, `TakMove` is the spelling of such a move.  Hypotheses: C05's for the games (`EvalOK`: evaluations are
decisive only for finished games — C18; `EvalBounded`; `HashInj`: no hash collision; `GameOK`). -/
theorem intak_iff (env : Env P M) (hg : ∀ n, GameOK (env.game n)) (he : ∀ n, EvalOK (env.game n))
    (hb : ∀ n, EvalBounded (env.game n)) (hinj : ∀ n, HashInj (env.game n))
    (reqs : List (Req M)) (hreq : ∀ r ∈ reqs, ReqOK Quiet r) (position : Bytes) (o : Oracle M) (ho : Quiet o)
    (inTak : Bool) (mv : Bytes) (s' : Server M)
    (hresp : isPositionInTak env o (Server.run env {} reqs).2 position = (.ok (.isInTak inTak mv), s')) :
    ∃ p q, env.parseTPS position = .ok p ∧ env.pass p = .ok q ∧
      (inTak = true ↔ (env.game (env.size q)).over q = false ∧
        ∃ m c, m ∈ (env.game (env.size q)).allMoves q ∧ (env.game (env.size q)).apply q m = .ok c ∧
          (env.game (env.size q)).over c = true ∧ (env.game (env.size q)).eval c < -Facts.winThreshold) ∧
      (inTak = true → ∃ m c, mv = env.formatMove m ∧ (env.game (env.size q)).apply q m = .ok c ∧
          (env.game (env.size q)).over c = true ∧ (env.game (env.size q)).eval c < -Facts.winThreshold) := by
  have hinv := (run_history Quiet env reqs {} hreq ⟨cacheInv_empty _ env, cacheInv_empty _ env⟩).2
  generalize (Server.run env {} reqs).2 = s at hresp hinv
  obtain ⟨ac, ic⟩ := s
  obtain ⟨_, hic⟩ := hinv
  simp only [Serve.isPositionInTak] at hresp
  cases hp : env.parseTPS position with
  | error e => rw [hp] at hresp; simp only [Prod.mk.injEq] at hresp; cases hresp.1
  | ok p =>
    rw [hp] at hresp
    simp only [] at hresp
    obtain ⟨hgi, hsz, hd, hpr⟩ := getPlayer_inv Quiet env ic (env.size p) 1 true hic
    cases hq : env.pass p with
    | error e => rw [hq] at hresp; simp only [Prod.mk.injEq] at hresp; cases hresp.1
    | ok q =>
      rw [hq] at hresp
      simp only [] at hresp
      cases hcp : callPlayer env o (ic.getPlayer env (env.size p) 1 true) q with
      | mk out c' =>
        rw [hcp] at hresp
        cases out with
        | error e => simp only [Prod.mk.injEq] at hresp; cases hresp.1
        | ok x =>
          obtain ⟨pv, v⟩ := x
          simp only [] at hresp
          obtain ⟨_, _, _, _, _, h, rs, eng, eng0, st, hok, hrun0, han, _⟩ :=
            callPlayer_history Quiet env o ho _ q hgi pv v c' hcp
          rw [hd, hpr] at hrun0 han
          -- the cached engine satisfies the depth-1 table invariant, so this call is exact
          have ht0 := runCalls_t1 (hg (env.size q)) (he (env.size q)) (hb (env.size q)) (hinj (env.size q))
            (playerCfg_depth1 env.tableEntries) (playerCfg_precise env.tableEntries 1) h _ hok
            (t1_new _ _) _ hrun0
          have hex := analyze_depth1 (hg (env.size q)) (he (env.size q)) (hb (env.size q)) (hinj (env.size q))
            (playerCfg_depth1 env.tableEntries) (playerCfg_precise env.tableEntries 1) ho.2 ho.1 q eng0 ht0 _ han
          obtain ⟨_, hover, hlive⟩ := hex
          dsimp only at hover hlive
          refine ⟨p, q, rfl, hq, ?_⟩
          by_cases hov : (env.game (env.size q)).over q = true
          · -- finished after the pass: value 0, no tak
            have hv0 := hover hov
            have hnot : ¬ (v > Facts.winThreshold) := by rw [hv0]; decide
            rw [if_neg hnot] at hresp
            simp only [Prod.mk.injEq, Except.ok.injEq, Resp.isInTak.injEq] at hresp
            obtain ⟨⟨hin, _⟩, _⟩ := hresp
            subst hin
            refine ⟨⟨(fun h => by cases h), (fun h => by rw [hov] at h; cases h.1)⟩, (fun h => by cases h)⟩
          · have hov' : (env.game (env.size q)).over q = false := by simpa using hov
            obtain ⟨hval, m, rest, c, hpv, hap, hvc⟩ := hlive hov'
            have hiff := negamax1_win_iff (he (env.size q)) q hov'
            by_cases hwin : v > Facts.winThreshold
            · rw [if_pos hwin, hpv] at hresp
              simp only [Prod.mk.injEq, Except.ok.injEq, Resp.isInTak.injEq] at hresp
              obtain ⟨⟨hin, hmv⟩, _⟩ := hresp
              subst hin
              have hex := hiff.mp (by rw [← hval]; exact hwin)
              refine ⟨⟨fun _ => ⟨hov', hex⟩, fun _ => rfl⟩, fun _ => ⟨m, c, hmv.symm, hap, ?_, by omega⟩⟩
              by_cases hoc : (env.game (env.size q)).over c = true
              · exact hoc
              · have := (he (env.size q)).inside c (by simpa using hoc)
                omega
            · rw [if_neg hwin] at hresp
              simp only [Prod.mk.injEq, Except.ok.injEq, Resp.isInTak.injEq] at hresp
              obtain ⟨⟨hin, _⟩, _⟩ := hresp
              subst hin
              refine ⟨⟨(fun h => by cases h), (fun h => ?_)⟩, (fun h => by cases h)⟩
              exact absurd (by rw [hval]; exact hiff.mpr h.2) hwin

/-- **the unguarded `pv[0]` of `IsPositionInTak` is never out of range** — the handler indexes the PV without a length
check when `value > WinThreshold`.  On a server with any (uncancelled) past, whenever the handler gets that far (the
position parses, the pass succeeds, the cached depth-1 engine returns `(pv, value)`) a decisive value comes with a
non-empty PV: a position already decided after the pass gets value 0, any other the value and the move of its best
immediate outcome.  (Same hypotheses as `intak_iff`.) -/
theorem intak_pv0_in_range (env : Env P M) (hg : ∀ n, GameOK (env.game n)) (he : ∀ n, EvalOK (env.game n))
    (hb : ∀ n, EvalBounded (env.game n)) (hinj : ∀ n, HashInj (env.game n))
    (reqs : List (Req M)) (hreq : ∀ r ∈ reqs, ReqOK Quiet r) (o : Oracle M) (ho : Quiet o)
    (p q : P) (pv : List M) (v : Int) (c' : Cache M)
    (hcall : callPlayer env o ((Server.run env {} reqs).2.istakCache.getPlayer env (env.size p) 1 true) q =
      (.ok (pv, v), c')) :
    v > Facts.winThreshold → pv ≠ [] := by
  have hinv := (run_history Quiet env reqs {} hreq ⟨cacheInv_empty _ env, cacheInv_empty _ env⟩).2
  generalize (Server.run env {} reqs).2 = s at hinv hcall
  obtain ⟨ac, ic⟩ := s
  obtain ⟨_, hic⟩ := hinv
  obtain ⟨hgi, hsz, hd, hpr⟩ := getPlayer_inv Quiet env ic (env.size p) 1 true hic
  obtain ⟨_, _, _, _, _, h, rs, eng, eng0, st, hok, hrun0, han, _⟩ :=
    callPlayer_history Quiet env o ho _ q hgi pv v c' hcall
  rw [hd, hpr] at hrun0 han
  have ht0 := runCalls_t1 (hg (env.size q)) (he (env.size q)) (hb (env.size q)) (hinj (env.size q))
    (playerCfg_depth1 env.tableEntries) (playerCfg_precise env.tableEntries 1) h _ hok (t1_new _ _) _ hrun0
  obtain ⟨_, hover, hlive⟩ := analyze_depth1 (hg (env.size q)) (he (env.size q)) (hb (env.size q)) (hinj (env.size q))
    (playerCfg_depth1 env.tableEntries) (playerCfg_precise env.tableEntries 1) ho.2 ho.1 q eng0 ht0 _ han
  dsimp only at hover hlive
  intro hwin hnil
  by_cases hov : (env.game (env.size q)).over q = true
  · have := hover hov
    rw [this] at hwin
    exact absurd hwin (by decide)
  · obtain ⟨_, m, rest, c, hpv, _, _⟩ := hlive (by simpa using hov)
    rw [hnil] at hpv
    cases hpv

/-! ## non-vacuity (evaluated by the kernel)

`Serve.Toy.env`: the subtraction game (take 1 or 2; whoever faces the empty heap has lost) behind the handlers, engines
with 2-entry tables.  All hypotheses of the three theorems hold for it, and the model really answers. -/

example : (∀ n, GameOK (Serve.Toy.env.game n)) ∧ (∀ n, EvalOK (Serve.Toy.env.game n)) ∧
    (∀ n, EvalBounded (Serve.Toy.env.game n)) ∧ (∀ n, HashInj (Serve.Toy.env.game n)) ∧
    Quiet (Oracle.quiet : Oracle Nat) :=
  ⟨fun _ => Toy.gameOK, fun _ => Toy.evalOK, fun _ => Toy.evalBounded, fun _ => Toy.hashInj,
   Toy.quiet_order, Toy.quiet_nc⟩

/-- one server, seven requests: heap 5 at depth 4 precise (a win, found at depth 3: line 2,1,2), heap 3 on the SAME
engine (lost), heap 5 again at depth 2 (the key changes: a new engine; nothing decisive within 2 plies), a position
that does not parse (an error; nothing changes), and three `IsPositionInTak`: with heap 2 the player not to move would
take both and win (`TakMove` = 2), with heap 3 not, with the finished heap 0 not -/
example :
    ((Server.run Serve.Toy.env {}
      [.analyze [5] 4 true Oracle.quiet, .analyze [3] 4 true Oracle.quiet, .analyze [5] 2 true Oracle.quiet,
       .analyze [40] 2 true Oracle.quiet,
       .isInTak [2] Oracle.quiet, .isInTak [3] Oracle.quiet, .isInTak [0] Oracle.quiet]).1.map Serve.Toy.view) =
    [some (.analyze [[2], [1], [2]] Facts.winBase), some (.analyze [[1], [2]] (-Facts.winBase)),
     some (.analyze [[1], [1]] 0), none,
     some (.isInTak true [2]), some (.isInTak false []), some (.isInTak false [])] := by decide

end C05
