import TakVerif.Props.C01_gen
import TakVerif.Generated.FuncsPos
import TakVerif.Proofs.GenSlices

set_option linter.unusedSimpArgs false

/-! Tie #1 for C01, second round: `Position.Top` and `Position.At` of `tak/game.go` - the two functions through which the
list-level view of a position (`Spec.abs`, built from `Pos.topAt` / `Pos.squareAt`) reads the bitboards, `Height` and
`Stacks` - are regenerated from the source (`Generated/FuncsPos.lean`).  `At` builds its result slice with `make`, an
element assignment and a loop of element assignments, and panics (`none`) where Go's index checks fail. -/
namespace C01
open Tak

/-- a (possibly absent) piece as the Go byte (`Piece(0)` = no piece) -/
def topByte : Option Piece → BitVec 8
  | none => 0#8
  | some pc => pieceByte pc

theorem index_conv (v : Int) (i : Nat) (hi : i < 2 ^ 64) (hv : v = i) : Int.toNat (v % 18446744073709551616) = i := by
  subst hv
  have : ((i : Int) % 18446744073709551616) = i := Int.emod_eq_of_lt (by omega) (by omega)
  rw [this]; simp

/-- `Position.Top(x, y)`: for coordinates with `x + y*size = i` (any `i` a `uint` holds) the regenerated function is the
model's `topAt i` -/
theorem top_is_source (p : Pos) (x y : Int) (i : Nat) (hi : i < 2 ^ 64) (hxy : x + y * p.cfg.size = i) :
    Gen.positionTop p.black p.caps p.cfg.size p.standing p.white x y = topByte (p.topAt i) := by
  unfold Gen.positionTop Pos.topAt
  simp only [index_conv _ i hi hxy, Gen.and_shl_ne_zero]
  cases p.white.getLsbD i <;> cases p.black.getLsbD i <;> cases p.standing.getLsbD i <;> cases p.caps.getLsbD i <;> decide

/-- the loop of `At` is a run of element assignments: one flat per buried piece, its colour the stack bit -/
theorem at_loop_eq (i : Nat) (S : Array W) (hS : i < S.size) (bnd : Nat) (hb : bnd < 256) :
    ∀ (fuel : Nat) (sq : Array U8), fuel + 1 ≤ bnd → sq.size = bnd →
      Gen.positionAt_loop0 i S bnd fuel sq =
        some ((List.range' (bnd - fuel) fuel).foldl (fun a j => a.setIfInBounds j
          (if (S.getD i 0#64).getLsbD (j - 1) then pieceByte ⟨.black, .flat⟩ else pieceByte ⟨.white, .flat⟩)) sq) := by
  intro fuel
  induction fuel with
  | zero => intro sq _ _; simp [Gen.positionAt_loop0]
  | succ n ih =>
    intro sq hf hsz
    unfold Gen.positionAt_loop0
    have hj : (BitVec.ofNat 8 (bnd - (n + 1))).toNat = bnd - (n + 1) := by
      simp only [BitVec.toNat_ofNat]; omega
    have hj1 : ((BitVec.ofNat 8 (bnd - (n + 1))) - 1#8).toNat = bnd - (n + 1) - 1 := by
      rw [BitVec.toNat_sub, hj]; simp; omega
    have hlt : bnd - (n + 1) < sq.size := by omega
    have e : bnd - (n + 1) + 1 = bnd - n := by omega
    simp only [hS, hj, hj1, hlt, decide_true, Bool.not_true, Bool.false_eq_true, ↓reduceIte, Gen.and_shl_ne_zero]
    rw [List.range'_succ, List.foldl_cons, e]
    cases hbit : (S.getD i 0#64).getLsbD (bnd - (n + 1) - 1)
    · simp only [Bool.false_eq_true, ↓reduceIte]
      rw [ih _ (by omega) (by simp [hsz])]; rfl
    · simp only [↓reduceIte]
      rw [ih _ (by omega) (by simp [hsz])]; rfl

/-- `Position.At(x, y)`: on a square inside `Height` / `Stacks` whose stack is not empty when a colour bit is set, the
regenerated function returns the model's `squareAt i` (top piece first, then one flat per stack bit), as Go bytes -/
theorem at_is_source (p : Pos) (x y : Int) (i : Nat) (hi : i < 2 ^ 64) (hxy : x + y * p.cfg.size = i)
    (hH : i < p.height.size) (hS : i < p.stacks.size)
    (hocc : (p.white ||| p.black).getLsbD i = true → 1 ≤ (p.height.getD i 0#8).toNat) :
    Gen.positionAt p.black p.caps p.height p.cfg.size p.stacks p.standing p.white x y =
      some ((p.squareAt i).map pieceByte).toArray := by
  unfold Gen.positionAt
  simp only [index_conv _ i hi hxy, Gen.and_shl_eq_zero, top_is_source p x y i hi hxy]
  unfold Pos.squareAt
  cases hoc : (p.white ||| p.black).getLsbD i
  · have : p.topAt i = none := by
      unfold Pos.topAt
      rw [BitVec.getLsbD_or] at hoc
      cases hw : p.white.getLsbD i <;> cases hb : p.black.getLsbD i <;> simp_all
    simp [this]
  · have h1 := hocc hoc
    obtain ⟨t, ht⟩ : ∃ t, p.topAt i = some t := by
      unfold Pos.topAt
      rw [BitVec.getLsbD_or] at hoc
      cases hw : p.white.getLsbD i <;> cases hb : p.black.getLsbD i <;> simp_all
    have hlt : (p.height.getD i 0#8).toNat < 256 := (p.height.getD i 0#8).isLt
    simp only [Bool.not_true, Bool.false_eq_true, ↓reduceIte, hH, decide_true, Array.size_replicate, h1,
      show (0 < (p.height.getD i 0#8).toNat) from h1, ht]
    have one8 : (1#8).toNat = 1 := rfl
    rw [at_loop_eq i p.stacks hS _ hlt _ _ (by rw [one8]; omega) (by simp)]
    simp only [Option.some.injEq]
    apply Array.ext_getElem?
    intro k
    rw [Gen.foldl_set_get]
    simp only [Array.size_setIfInBounds, Array.size_replicate, Array.getElem?_setIfInBounds, List.getElem?_toArray,
      show (1#8).toNat = 1 from rfl]
    generalize (p.height.getD i 0#8).toNat = h at h1 hlt
    have e : h - (h - 1) = 1 := by omega
    rw [e]
    cases k with
    | zero => simp [topByte]; omega
    | succ k =>
      by_cases hk : k + 1 < h
      · have c1 : (1 ≤ k + 1 ∧ k + 1 < 1 + (h - 1) ∧ k + 1 < h) := by omega
        have : k < h - 1 := by omega
        rw [if_pos c1]; simp [this]
        split <;> rfl
      · have c1 : ¬ (1 ≤ k + 1 ∧ k + 1 < 1 + (h - 1) ∧ k + 1 < h) := by omega
        have : ¬ k < h - 1 := by omega
        rw [if_neg c1]; simp [this]; omega

/-- ... and a colour bit over an empty stack is Go's index panic (`sq[0]` on an empty slice) -/
theorem at_panics (p : Pos) (x y : Int) (i : Nat) (hi : i < 2 ^ 64) (hxy : x + y * p.cfg.size = i)
    (hocc : (p.white ||| p.black).getLsbD i = true) (h0 : p.height.getD i 0#8 = 0#8) :
    Gen.positionAt p.black p.caps p.height p.cfg.size p.stacks p.standing p.white x y = none := by
  unfold Gen.positionAt
  simp only [index_conv _ i hi hxy, Gen.and_shl_eq_zero, hocc, h0]
  by_cases hH : i < p.height.size <;> simp [hH]

example : Gen.positionTop 0#64 0#64 3 2#64 2#64 1 0 = 130#8 ∧ Gen.positionTop 0#64 0#64 3 2#64 2#64 (-1) 0 = 0#8 := by decide
example : Gen.positionAt 2#64 0#64 #[0#8, 3#8] 3 #[0#64, 2#64] 0#64 0#64 1 0 = some #[65#8, 129#8, 65#8] ∧
    Gen.positionAt 2#64 0#64 #[0#8, 0#8] 3 #[0#64, 2#64] 0#64 0#64 1 0 = none ∧
    Gen.positionAt 2#64 0#64 #[0#8, 0#8] 3 #[0#64, 2#64] 0#64 0#64 0 0 = some #[] := by decide

end C01
