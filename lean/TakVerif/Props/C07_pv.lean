import TakVerif.Props.C07_legal
import TakVerif.Props.C04_pv
import TakVerif.Proofs.PvHeadBot

/-! # C07: the bot loop with the alpha-beta model as its thinker

`C07.bot_inv` holds for arbitrary AI answers.  `C07.bot_sent_moves_wire` (every transmitted move has a wire form the
server reads back) excludes the engine's internal pass by a hypothesis on each transmitted move and has to speak of
`normalize m`, because an arbitrary AI may answer with a placement carrying a junk `Slides` word.  "No searching player
returns the pass" was a remark there; here it is a theorem about the thinker (`C04.getMove_generated_tak`: `GetMove` of
the alpha-beta model returns the zero move or a move the generator produced — `MinimaxAnswer`), and the bot loop only
ever transmits a move an `aiReturns` event carried (`Tak.Bot.logFrom_run`).  So for every interleaving whose AI answers
are `MinimaxAnswer`s the invariant holds **and** every transmitted move is, as it stands, a legal shape other than the
pass whose wire text `ParseServer` reads back as exactly that move. -/
namespace C07
open Tak Tak.Bot Notation Tak.Proofs Search

/-- what `GetMove` of the alpha-beta model hands back, whatever the position, the options, the engine's history and the
cancellation (`C04.getMove_generated`, `getMove_generated_tak`): the zero move `tak.Move{}` (empty PV) or a move
`AllMoves` produced for some position of a board of size 3..8 -/
def MinimaxAnswer (m : Move) : Prop :=
  m = ⟨0, 0, 0, 0#32⟩ ∨ ∃ q : Pos, 3 ≤ q.cfg.size ∧ q.cfg.size ≤ 8 ∧ m ∈ q.allMoves

/-- the answers `Search.getMove` returns on the Tak instance are `MinimaxAnswer`s (under the hypotheses of
`C04.getMove_generated_tak`; the accepted ones are even generated for the very position) -/
theorem minimaxAnswer_of_getMove (basis : Array W) (ev : Pos → Int) (sym : Pos → List H)
    {o : Oracle Move} (hord : OrderOK o) (cfg : Search.Cfg) (p : Pos) (hwf : WF basis p)
    (hmove : ∃ m ∈ p.allMoves, (p.apply basis m).isOk = true)
    (hev : ∀ m c, p.apply basis m = .ok c → ev c ≤ Facts.maxEval)
    (s : Eng Move) (hnt : s.hasTable = false)
    (hs : EngOK (takGame basis ev sym) (C04.FromGen (takGame basis ev sym) C04.SizeOK) (fun _ => False) s) :
    Sat (getMove (takGame basis ev sym) cfg o p s) (fun x => MinimaxAnswer x.1) := by
  refine (C04.getMove_generated_tak basis ev sym hord cfg p hwf hmove hev s hnt hs).mono ?_
  rintro x ⟨_, h⟩
  rcases h with h | ⟨hm, _⟩
  · exact Or.inl h
  · exact Or.inr ⟨p, hwf.size_ge, hwf.size_le, hm⟩

/-- **`bot_inv_minimax`**: for every colour, board size 3..8, clock and interleaving `evs` in which the AI answers
(`aiReturns k m`, at once, late or after cancellation) are `MinimaxAnswer`s:
* C07's invariant holds (`bot_inv`: record = server history; every transmitted move legal, on turn, fresh);
* every transmitted move is not the pass, is — as it stands, without normalisation — a legal shape of the board,
  `ParseServer (FormatServer m) = m`, and it is legal in the position it was sent in (the server's current one).
The zero move, which the model returns when cancelled before its first iteration completed, is never transmitted:
`Position.Move` rejects it ("ai returned bad move"). -/
theorem bot_inv_minimax (cfg : Conf) (hfix : cfg.fixed = true) (size : Nat) (secs : Int) (evs : List Ev)
    (hsize : 3 ≤ size ∧ size ≤ 8) (hai : ∀ k m, Ev.aiReturns k m ∈ evs → MinimaxAnswer m) :
    Inv cfg (run cfg (start cfg size secs) evs) ∧
    ∀ r ∈ (run cfg (start cfg size secs) evs).log,
      r.move.type ≠ Facts.mtPass ∧ LegalShape size r.move ∧
      Server.parseServer (Server.formatServer r.move) = .ok r.move ∧
      Legal cfg.basis r.recAt r.move ∧ r.srvAt = some r.recAt := by
  have hinv := bot_inv cfg hfix size secs evs
  refine ⟨hinv, fun r hr => ?_⟩
  have hfrom := logFrom_run cfg (logFrom_start MinimaxAnswer cfg size secs) evs hai r hr
  have hgood := hinv.sends r hr
  have hsz := (bot_board_size cfg size secs evs hsize).2.2 r hr
  obtain ⟨q, hq⟩ := hgood.legal
  have hshape : r.move.type ≠ Facts.mtPass ∧ normalize r.move = r.move := by
    refine C04.fromGen_accepted_shape cfg.basis (fun _ => 0) (fun _ => []) r.recAt q
      (by rw [hsz]; exact hsize.1) (by rw [hsz]; exact hsize.2) r.move ?_ hq
    rcases hfrom with hz | ⟨q', h3, h8, hm⟩
    · exact Or.inl hz
    · exact Or.inr ⟨q', ⟨h3, h8⟩, hm⟩
  obtain ⟨h1, h2, _, h4, h5⟩ := bot_sent_moves_wire cfg hfix size secs evs hsize r hr hshape.1
  rw [hshape.2] at h1 h2 h4
  exact ⟨hshape.1, h1, h2, h4, h5⟩

/-! ### non-vacuity -/

/-- in `playTrace` (C07's worked example) every AI answer is a `MinimaxAnswer` — a flat placement generated on the empty
5×5 board, or the zero move of a thinker whose context was cancelled — and three moves are transmitted -/
example : (∀ k m, Ev.aiReturns k m ∈ playTrace → MinimaxAnswer m) ∧
    ((run (white true) (start (white true) 5 600) playTrace).log.map (·.move)) = [flat 0 0, flat 4 2, flat 4 1] := by
  refine ⟨?_, by decide +kernel⟩
  intro k m hm
  have hall : playTrace.all (fun e => match e with
      | .aiReturns _ m => decide (m = ⟨0, 0, 0, 0#32⟩) || decide (m ∈ (TPS.startPos 5 0).allMoves)
      | _ => true) = true := by decide +kernel
  have := List.all_eq_true.mp hall _ hm
  simp only [Bool.or_eq_true, decide_eq_true_eq] at this
  rcases this with h | h
  · exact Or.inl h
  · exact Or.inr ⟨TPS.startPos 5 0, by decide, by decide, h⟩

end C07
