import TakVerif.Impl.FPA

/-! `cmd/internal/playtak/fpa.go` / `friendly.go` **with** `fixes/C07-fpa-record-notes.diff`: the rule's notes are a
function of the game record.  (A file of its own: `Impl/FPA.lean` is what the evaluated C20 shards are built on.) -/
namespace Tak.FPA

/-! ### the rules after `fixes/C07-fpa-record-notes.diff`

`LegalMove` on a ply-0 position starts a new game: the rule forgets the squares of the last one
(`*d = DoubleStack{blackPlace: m}`, `*c = Cairn{}`), and `Friendly.GetMove` shows the rule the whole record,
oldest move first, before it judges the newest move.  `legalMove` above is the part of `LegalMove` that is the
same before and after the patch (everything but the reset). -/

/-- `FPARule.LegalMove` (repaired): on the start position the notes are those of a fresh rule value -/
def legalMoveR (var : Variant) (r : Rule) (v : View) (m : Move) : R (Rule × Bool) :=
  legalMove var (if v.ply = 0 then {} else r) v m

/-- `for i := 0; i+1 < len(f.g.Moves); i++ { f.fpa.LegalMove(f.g.Positions[i], f.g.Moves[i]) }`: the pairs are shown
to the rule oldest first; the verdicts are dropped (a panic inside `LegalMove` is a panic of the loop) -/
def replay (var : Variant) : Rule → List (View × Move) → R Rule
  | r, [] => .ok r
  | r, (v, m) :: rest =>
    match legalMoveR var r v m with
    | .error e => .error e
    | .ok (r', _) => replay var r' rest

/-- the notes with which the repaired `Friendly.GetMove` judges the newest pair: the older pairs of the record
(`hist` without its last element; `hist` is oldest first) replayed from the notes on entry, and the reset of
`legalMoveR` if the newest pair is the first move of the game.  Nothing is replayed on a start position. -/
def entryNotes (var : Variant) (r : Rule) (ply : Int) (hist : List (View × Move)) : R Rule :=
  if ply > 0 then
    match hist.getLast? with
    | none => .ok r
    | some (pv, _) =>
      match replay var r hist.dropLast with
      | .error e => .error e
      | .ok r1 => .ok (if pv.ply = 0 then {} else r1)
  else .ok r

/-- `Friendly.GetMove` with `fixes/C07-fpa-record-notes.diff`, up to the point where `f.ai` is asked: `hist` = the
pairs `(f.g.Positions[i], f.g.Moves[i])` of the record, oldest first.  It is the code above run on the notes
rebuilt from the record (`entryNotes`): the loop over the older pairs, then `LegalMove` (with its reset) on the newest
pair, the turn test, the script. -/
def friendlyGetMoveR (var : Variant) (color : Color) (r : Rule) (view : View) (toMove : Color)
    (hist : List (View × Move)) : R (Rule × Reply) :=
  match entryNotes var r view.ply hist with
  | .error e => .error e
  | .ok r1 => friendlyGetMove var color r1 view toMove hist.getLast?

end Tak.FPA
