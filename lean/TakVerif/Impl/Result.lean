import TakVerif.Impl.Position

/-! Mirror of `ptn.ResultFromGame` (`ptn/ptn.go`). -/
namespace Tak
/-- `ptn.ResultFromGame`: the PTN result string of a finished game; panics when the game is not over.
(`WinDetails` never yields `Resignation`, so the model's `WinReason` has two values.) -/
def Pos.resultFromGame (p : Pos) : R String :=
  let wd := p.winDetails
  if !wd.over then .error (.panic "ResultFromGame: game is not over") else
  if wd.winner == .none then .ok "1/2-1/2" else
  let wintype := match wd.reason with | .road => "R" | .flats => "F"
  if wd.winner == .white then .ok (wintype ++ "-0") else .ok ("0-" ++ wintype)
end Tak
