import TakVerif.Impl.BotCompose

/-! The `level` chat command in the composed bot (work package botcompose2).

`bot.handleMove` hands a line `Tell <who> msg` to `Bot.HandleTell(who, msg)` on the protocol goroutine (and then goes on
to `switch bits[1]`, where `<who>` matches nothing).  `Friendly.HandleTell` → `handleCommand`: `level N` sets `f.level`
and, when a game is running and `who` is the opponent, **replaces `f.ai`** by a new `ai.NewMinimax(f.AIConfig())`
"starting right now" — while a thinker goroutine may be inside `f.ai.GetMove` of the OLD engine object.  That call keeps
running on the old object (Go evaluated `f.ai` when the call was made; in the composed model that is `enter`); its
effects on the old object's tables are lost with it, and the next call reads the new `f.ai`.  `level max` and a `level`
from somebody else only set `f.level` (for future games); `help` answers; `size` writes `cmd.size`; `Taktician` only
knows `size`.  Every reply is a `Tell` sent by the protocol goroutine.

`Impl/BotCompose.lean` is not changed: `StL` wraps its state.  `s.eng` is the engine object the call in progress runs on
or, with nobody inside, `f.ai`; `pending` is `f.ai` while it differs from that.  Ghost: `built` counts the engines built
for this game, `engGen` / `insideGen` say which build `s.eng` is / `f.ai` was when the call in progress read it, `runs`
records both for every call that returned. -/
namespace Tak.Compose
open Tak Tak.Bot Tak.Glue Tak.FPA

/-- a command on the wire, level replies included, in the order of the `SendCommand` calls -/
inductive WireL where
  | base (w : Wire)
  | reply (toOpp : Bool) (r : LevelReply) (level : Int)   -- `Tell who <reply of the level command>`
  | help (toOpp : Bool) (level : Int)                     -- `Tell who [user@level N]: docURL`
deriving Repr, DecidableEq, Inhabited

structure StL (σ χ : Type) where
  s : St σ χ
  level : Int                        -- `f.level`
  pending : Option σ := none         -- `f.ai`, while the call in progress still runs on the engine it replaced
  built : Nat := 0                   -- ghost: engines built for this game after `NewGame`'s
  builtLevel : Option Int := none    -- ghost: the level the last of them was built for
  engGen : Nat := 0                  -- ghost: which build `s.eng` is
  insideGen : Nat := 0               -- ghost: which build `f.ai` was when the call in progress was made
  runs : List (Nat × Nat × Nat) := []  -- ghost: (thinker, build of `f.ai` at its `enter`, build its search ran on)
  wire : List WireL := []

variable {σ χ : Type}

/-- bookkeeping after ONE step of the composed system took `L.s` to `s'`: commands sent meanwhile go on the wire; a
call that returned leaves the old engine object behind (`f.ai` is read by the next call); a call that was made read
`f.ai` as it is now -/
def afterBase (L : StL σ χ) (s' : St σ χ) : StL σ χ :=
  let wire := L.wire ++ (s'.wire.drop L.s.wire.length).map WireL.base
  let returned : Bool := decide (s'.rets.length > L.s.rets.length)
  let entered : Bool := decide (s'.calls.length > L.s.calls.length)
  let runs := if returned then L.runs ++ [((L.s.inside.map (·.k)).getD 0, L.insideGen, L.engGen)] else L.runs
  let insideGen := if entered then L.built else L.insideGen
  match returned, L.pending with
  | true, some e =>
    { L with s := { s' with eng := e }, wire := wire, runs := runs, engGen := L.built, pending := none, insideGen := insideGen }
  | _, _ => { L with s := s', wire := wire, runs := runs, insideGen := insideGen }

/-- the opponent's name as `bot.Game` has it: `Opp` in the harness, empty for an observed game -/
def oppName (c : Conf) : String := if c.observe then "" else "Opp"

/-- `Bot.HandleTell(who, msg)` during a game; `mk level` is `wrapWithBook(size, ai.NewMinimax(f.AIConfig()))` -/
def handleTell (c : Conf) (mk : Int → σ) (L : StL σ χ) (who msg : String) : StL σ χ :=
  match c.who with
  | .taktician _ => L          -- `size` only: writes `cmd.size`, sends nothing during a game
  | .friendly _ =>
    let toOpp := who == oppName c
    let (lvl, out) := friendlyTell L.level true toOpp msg
    let L := { L with level := lvl }
    match out with
    | .level .now =>
      let L := { L with wire := L.wire ++ [WireL.reply toOpp .now lvl], built := L.built + 1, builtLevel := some lvl }
      if L.s.inside.isSome then { L with pending := some (mk lvl) }
      else { L with s := { L.s with eng := mk lvl }, engGen := L.built }
    | .level .bad => L
    | .level r => { L with wire := L.wire ++ [WireL.reply toOpp r lvl] }
    | .help => { L with wire := L.wire ++ [WireL.help toOpp lvl] }
    | _ => L

inductive EvL (χ : Type) where
  | base (e : Ev χ)
  /-- the line `Tell <who> msg` (`who` non-empty, without blank and `>`; `msg` non-empty: what `ParseTell` accepts) -/
  | tell (who msg : String)

/-- `strings.Split(s, " ")` on a list of characters (structural, so that the kernel can evaluate it) -/
def splitSpaces : List Char → List Char → List String
  | acc, [] => [String.ofList acc.reverse]
  | acc, ' ' :: cs => String.ofList acc.reverse :: splitSpaces [] cs
  | acc, ch :: cs => splitSpaces (ch :: acc) cs

/-- `strings.Split("Tell <who> msg", " ")` (`who` contains no blank) -/
def tellLine (who msg : String) : List String := "Tell" :: ("<" ++ who ++ ">") :: splitSpaces [] msg.toList

def stepL (c : Conf) (S : Searcher σ χ) (mk : Int → σ) (L : StL σ χ) : EvL χ → StL σ χ
  | .base e => afterBase L (step c S L.s e)
  | .tell who msg =>
    if L.s.dead.isSome || L.s.b.status != .running then L else
    let L := handleTell c mk L who msg
    afterBase L (step c S L.s (.deliver (tellLine who msg) none))

def runL (c : Conf) (S : Searcher σ χ) (mk : Int → σ) (L : StL σ χ) (evs : List (EvL χ)) : StL σ χ :=
  evs.foldl (stepL c S mk) L

/-- `NewGame`: `f.level` as it stands, `f.ai = mk level` -/
def startL (c : Conf) (secs : Int) (mk : Int → σ) (level : Int) : StL σ χ :=
  { s := start c secs (mk level), level := level }

/-! ### the schedule of the correspondence harness (as `Tak.Compose.settle`, with the bookkeeping) -/

def settleLN [Inhabited χ] (c : Conf) (S : Searcher σ χ) (chk : CheckOracle) : Nat → StL σ χ → StL σ χ
  | 0, L => L
  | n + 1, L =>
    match spont c S chk L.s with
    | none => L
    | some s' => settleLN c S chk n (afterBase L s')

def tieStepL [Inhabited χ] (c : Conf) (S : Searcher σ χ) (mk : Int → σ) (chk : CheckOracle) (L : StL σ χ) (e : EvL χ) :
    StL σ χ :=
  settleLN c S chk 2000 (stepL c S mk L e)

/-- what the driver keeps between ops -/
structure SessionL where
  c : Conf
  L : StL Unit Move
  chk : CheckOracle := { curV := 0, curDepth := 3, prevV := 0 }
  noGame : Bool := false

end Tak.Compose
