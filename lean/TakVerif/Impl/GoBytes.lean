/-! Go string semantics used by the text parsers: a Go `string` is a sequence of bytes.
`strings.Split` with a one-byte separator, `strings.Join`, `strconv.Atoi`, `%d` formatting and
int64 wrap-around.  Library behaviour is *modelled* (and checked by correspondence), not verified. -/
namespace Go

/-- a Go `string` / `[]byte` -/
abbrev Bytes := List UInt8

/-- byte literal of an ASCII character -/
def ch (c : Char) : UInt8 := UInt8.ofNat c.toNat

/-- bytes of an ASCII literal -/
def lit (s : String) : Bytes := s.toList.map ch

/-- `strings.Split(s, sep)` for a one-byte `sep`: never empty, `len = count(sep) + 1` -/
def split (sep : UInt8) : Bytes → List Bytes
  | [] => [[]]
  | b :: rest =>
    match split sep rest with
    | [] => [[b]]      -- unreachable: `split` is never empty
    | w :: ws => if b == sep then [] :: w :: ws else (b :: w) :: ws

/-- `strings.Join(parts, sep)` for a one-byte `sep` -/
def join (sep : UInt8) : List Bytes → Bytes
  | [] => []
  | [w] => w
  | w :: ws => w ++ sep :: join sep ws

def isDigit (b : UInt8) : Bool := 48 ≤ b.toNat && b.toNat ≤ 57

/-- value of a run of decimal digits (`none` if a byte is not a digit) -/
def digitsVal : Bytes → Nat → Option Nat
  | [], acc => some acc
  | b :: rest, acc => if isDigit b then digitsVal rest (acc * 10 + (b.toNat - 48)) else none

def minInt64 : Int := -9223372036854775808
def maxInt64 : Int := 9223372036854775807

/-- two's-complement wrap of an `int` (64 bit) result -/
def wrap64 (v : Int) : Int := (v + 9223372036854775808) % 18446744073709551616 - 9223372036854775808

/-- `strconv.Atoi`: optional sign, at least one decimal digit, nothing else, value within int64;
anything else is an error (`none`).  (Go takes a fast path for short strings and `ParseInt(s, 10, 0)`
otherwise; both accept exactly this language — no underscores in base 10.) -/
def atoi (s : Bytes) : Option Int :=
  match s with
  | [] => none
  | b :: rest =>
    let (neg, ds) := if b == 45 then (true, rest) else if b == 43 then (false, rest) else (false, s)
    match ds with
    | [] => none
    | _ =>
      match digitsVal ds 0 with
      | none => none
      | some n =>
        let v : Int := if neg then -(n : Int) else (n : Int)
        if v < minInt64 ∨ v > maxInt64 then none else some v

/-- decimal digits of a natural number, most significant first (`fuel` ≥ number of digits) -/
def natDigits : Nat → Nat → Bytes → Bytes
  | 0, _, acc => acc
  | fuel+1, n, acc =>
    let acc := UInt8.ofNat (48 + n % 10) :: acc
    if n / 10 == 0 then acc else natDigits fuel (n / 10) acc

/-- `strconv.Itoa` / `%d` on a natural number -/
def itoaNat (n : Nat) : Bytes := natDigits (n + 1) n []

/-- `%d` on an `int` -/
def itoa (v : Int) : Bytes :=
  if v < 0 then 45 :: itoaNat v.natAbs else itoaNat v.toNat

/-- `byte(v)` for an integer `v` (truncation to the low 8 bits) -/
def byteOfInt (v : Int) : UInt8 := UInt8.ofNat (v % 256).toNat

/-- hexadecimal transport encoding used on the op lines (`-` = empty) -/
def hexDigit (n : Nat) : Char :=
  if n < 10 then Char.ofNat (48 + n) else Char.ofNat (87 + n)

def toHex (s : Bytes) : String :=
  if s.isEmpty then "-" else String.ofList (s.flatMap (fun b => [hexDigit (b.toNat / 16), hexDigit (b.toNat % 16)]))

def hexVal (c : Char) : Option Nat :=
  if '0' ≤ c ∧ c ≤ '9' then some (c.toNat - 48)
  else if 'a' ≤ c ∧ c ≤ 'f' then some (c.toNat - 87)
  else none

def fromHexChars : List Char → Option Bytes
  | [] => some []
  | [_] => none
  | a :: b :: rest => do
    let x ← hexVal a
    let y ← hexVal b
    let r ← fromHexChars rest
    pure (UInt8.ofNat (x * 16 + y) :: r)

def fromHex (s : String) : Option Bytes :=
  if s == "-" then some [] else fromHexChars s.toList

end Go
