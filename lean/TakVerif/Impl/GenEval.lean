import TakVerif.Impl.Evaluate
import TakVerif.Generated.FuncsHeur

/-! The definitions REGENERATED from `ai/evaluate.go` (`Generated/FuncsThreat.lean`, `FuncsHeur.lean`) applied to the fields of a
model position: this is what the `fn.*` ops of the tie run (`Driver/OpsFnGen4.lean`) and what the bridge theorems
(`Props/C19_gen.lean`, `Props/C18_gen2.lean`) are about.  The accessor parameters of the regenerated functions are themselves
regenerated: `hasRoad()` = `Gen.positionHasRoad`, `WinDetails()` = `Gen.positionWinDetails` (`Generated/FuncsRoad.lean`);
`WhiteStones()` / `BlackStones()` / `Size()` / `MoveNumber()` are the field reads.  `none` = Go panics (an index out of
range) or a loop does not end within its whitelist fuel. -/
namespace Tak

/-- `ai.Weights` (`[MaxFeature]int64`) as the array the regenerated functions take -/
def Weights.arr (w : Weights) : Array Int := w.toArray

/-- `p.hasRoad()` regenerated -/
def genHasRoad (p : Pos) : BitVec 8 × Bool :=
  Gen.positionHasRoad p.bgroups.toArray p.wgroups.toArray p.c.B p.c.L p.c.R p.c.T p.move

/-- `p.WinDetails()` regenerated -/
def genWinDetails (p : Pos) : Gen.WinDetails :=
  Gen.positionWinDetails p.black p.caps p.standing p.white p.blackCaps p.blackStones p.cfg.blackWinsTies p.c.Mask
    (genHasRoad p) p.whiteCaps p.whiteStones

/-- `ai.CountThreats(c, p)` regenerated: `(wp, wt, bp, bt)` -/
def genCountThreats (c : Consts) (p : Pos) : Option (Int × Int × Int × Int) :=
  Gen.countThreats c p.black p.caps p.standing p.white p.bgroups.toArray p.wgroups.toArray

/-- `mobility(c, p, bit, height)` regenerated -/
def genMobility (c : Consts) (p : Pos) (b : W) (height : Int) : Option W :=
  Gen.mobility c p.caps p.standing b height

/-- `scoreThreats(c, ws, p)` regenerated -/
def genScoreThreats (c : Consts) (w : Array Int) (p : Pos) : Option Int :=
  Gen.scoreThreats c (w.getD Facts.fPotential 0) (w.getD Facts.fThreat 0) p.black p.caps p.standing p.white
    p.bgroups.toArray p.wgroups.toArray p.move

/-- `computeControl(c, p)` regenerated -/
def genComputeControl (c : Consts) (p : Pos) : Option (W × W) :=
  Gen.computeControl c p.black p.caps p.standing p.white

/-- `scoreControl(c, ws, p)` regenerated -/
def genScoreControl (c : Consts) (w : Array Int) (p : Pos) : Option Int :=
  Gen.scoreControl c (w.getD Facts.fCenterControl 0) (w.getD Facts.fEmptyControl 0) (w.getD Facts.fFlatControl 0)
    p.black p.caps p.standing p.white

/-- `ai.evaluate(c, w, p)` regenerated -/
def genEvaluate (c : Consts) (w : Array Int) (p : Pos) : Option Int :=
  Gen.evaluate c w p.black p.blackStones.toNat p.caps p.height p.move p.cfg.size p.stacks p.standing p.white
    p.whiteStones.toNat (genWinDetails p) p.bgroups.toArray p.wgroups.toArray p.blackCaps p.blackStones
    p.cfg.blackWinsTies p.c.Mask (genHasRoad p) p.move p.whiteCaps p.whiteStones

/-- `ai.DefaultWeights` as the regenerated `init()` builds it from the two tables of the source -/
def genDefaultWeights : Option (Array (Array Int)) :=
  Gen.evalInit #[] Facts.evalDefaultWeights.toArray Facts.evalOverrides6.toArray

/-- `MakeEvaluator(size, nil)(c, p)` regenerated: `&DefaultWeights[size]` of the table the regenerated `init()` builds
(`none` also when `size` is outside the table: Go's index panic) -/
def genEvaluateDefault (c : Consts) (p : Pos) : Option Int :=
  match genDefaultWeights with
  | none => none
  | some t => if h : p.cfg.size < t.size then genEvaluate c t[p.cfg.size] p else none

end Tak
