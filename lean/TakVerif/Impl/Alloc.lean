import TakVerif.Impl.Move

/-! Mirror of `tak/alloc.go` and of the storage behaviour of `New`, `Clone`, `Move`,
`MovePreallocated` and `analyze`: a small heap model of Go slices.

A `*Position` is an object holding its scalar fields, its own `Height`/`Stacks` arrays (`alloc` and
`copyPosition` always re-point those two slice headers at the object's own arrays) and two slice
*headers* `WhiteGroups`/`BlackGroups` that may point anywhere in the store of group arrays.
`analyze()` re-slices and appends through those headers exactly as the Go code does, so aliasing
between objects is expressible (and is what the pinned `Clone` suffered from). -/
namespace Tak

/-- a Go slice header into the store of `[]uint64` arrays -/
structure Slice where
  arr : Nat
  off : Nat
  len : Nat
  cap : Nat
deriving Repr, DecidableEq, Inhabited

/-- the nil slice -/
def Slice.nil : Slice := ⟨0, 0, 0, 0⟩

/-- one `positionN` object: the embedded `Position` value plus its backing arrays -/
structure PObj where
  val : Pos          -- every field of the Position *value*; `val.wgroups/bgroups` are ignored here
  wg : Slice
  bg : Slice
  own : Nat          -- index (in the store) of this object's `alloc.Groups` array
deriving Repr, Inhabited

structure Heap where
  objs : Array PObj := #[]
  arrs : Array (Array W) := #[#[]]     -- arrs[0] is a dummy zero-length array for nil slices
deriving Repr, Inhabited

def Heap.readSlice (h : Heap) (s : Slice) : List W :=
  let a := h.arrs.getD s.arr #[]
  (List.range s.len).map (fun k => a.getD (s.off + k) 0#64)

/-- Go `append(s, v)` -/
def Heap.append (h : Heap) (s : Slice) (v : W) : Heap × Slice :=
  if s.len < s.cap then
    let a := h.arrs.getD s.arr #[]
    ({ h with arrs := h.arrs.setIfInBounds s.arr (a.setIfInBounds (s.off + s.len) v) }, { s with len := s.len + 1 })
  else
    -- reallocation: a fresh array (capacity growth is not observable; doubled here)
    let old := h.readSlice s
    let newcap := max (2 * s.cap) (s.len + 1)
    let a : Array W := (old ++ [v] ++ List.replicate (newcap - (s.len + 1)) 0#64).toArray
    ({ h with arrs := h.arrs.push a }, ⟨h.arrs.size, 0, s.len + 1, newcap⟩)

def Heap.appendAll (h : Heap) (s : Slice) : List W → Heap × Slice
  | [] => (h, s)
  | v :: vs => let (h, s) := h.append s v; h.appendAll s vs

/-- what an observer holding pointer `i` sees: the Position value with the group slices read through their headers -/
def Heap.observe (h : Heap) (i : Nat) : Option Pos :=
  match h.objs[i]? with
  | none => none
  | some o => some { o.val with wgroups := h.readSlice o.wg, bgroups := h.readSlice o.bg }

/-- `analyze()` on object `i`: FloodGroups appends through `WhiteGroups[:0]`, then through the rest of that array -/
def Heap.analyze (h : Heap) (i : Nat) : Option Heap :=
  match h.objs[i]? with
  | none => none
  | some o =>
    let wr := o.val.white &&& ~~~o.val.standing
    let br := o.val.black &&& ~~~o.val.standing
    match floodGroups o.val.c wr, floodGroups o.val.c br with
    | some wl, some bl =>
      let alloc0 : Slice := { o.wg with len := 0 }
      let (h, wgS) := h.appendAll alloc0 wl
      let alloc1 : Slice := ⟨wgS.arr, wgS.off + wgS.len, 0, wgS.cap - wgS.len⟩
      let (h, bgS) := h.appendAll alloc1 bl
      some { h with objs := h.objs.setIfInBounds i { o with wg := wgS, bg := bgS } }
    | _, _ => none

/-- `alloc(tpl)`: a new object; the struct copy keeps `tpl`'s BlackGroups header (!), WhiteGroups = own[:0] -/
def Heap.allocFrom (h : Heap) (tplVal : Pos) (tplBg : Slice) : Heap × Nat :=
  let n := tplVal.cfg.size
  let own := h.arrs.size
  let garr : Array W := Array.replicate (2 * n) 0#64
  let o : PObj := { val := tplVal, wg := ⟨own, 0, 0, 2 * n⟩, bg := tplBg, own := own }
  ({ objs := h.objs.push o, arrs := h.arrs.push garr }, h.objs.size)

/-- `tak.New` (no analyze) -/
def Heap.new (h : Heap) (cfg : Cfg) : R (Heap × Nat) :=
  match Pos.new cfg with
  | .error e => .error e
  | .ok p => .ok (h.allocFrom p Slice.nil)

/-- `Clone()` of the repaired tree: `alloc(p)` followed by `analyze()` -/
def Heap.clone (h : Heap) (src : Nat) : Option (Heap × Nat) :=
  match h.objs[src]? with
  | none => none
  | some o =>
    let (h, i) := h.allocFrom o.val o.bg
    match h.analyze i with
    | some h => some (h, i)
    | none => none

/-- `copyPosition(p, out)`: scalars and BlackGroups header from `p`; Height/Stacks/WhiteGroups[:0] stay `out`'s own -/
def Heap.copyPosition (h : Heap) (src out : Nat) : Option Heap :=
  match h.objs[src]?, h.objs[out]? with
  | some s, some o =>
    some { h with objs := h.objs.setIfInBounds out { o with val := s.val, wg := { o.wg with len := 0 }, bg := s.bg } }
  | _, _ => none

/-- the part of `MovePreallocated` between the copy and the final `analyze()`, on the value (see `Pos.apply`) -/
def Pos.applyNoAnalyze (basis : Array W) (p : Pos) (m : Move) : R Pos :=
  match p.apply basis m with
  | .ok q => .ok { q with wgroups := p.wgroups, bgroups := p.bgroups }
  | .error e => .error e

/-- `MovePreallocated(m, next)`; `buf = none` is `Move`. On failure Go returns nil: the buffer keeps a
half-written copy (modelled as: scalars of the source with the ply already incremented — nobody may rely on it). -/
def Heap.move (basis : Array W) (h : Heap) (src : Nat) (m : Move) (buf : Option Nat) : Option (Heap × Option Nat) :=
  match h.objs[src]? with
  | none => none
  | some s =>
    let prep : Option (Heap × Nat) :=
      match buf with
      | none => some (h.allocFrom s.val s.bg)
      | some b => (h.copyPosition src b).map (fun h => (h, b))
    match prep with
    | none => none
    | some (h, i) =>
      match s.val.apply basis m with
      | .error _ => some (h, none)
      | .ok q =>
        match h.objs[i]? with
        | none => none
        | some o =>
          let h := { h with objs := h.objs.setIfInBounds i { o with val := q } }
          match h.analyze i with
          | some h => some (h, some i)
          | none => none

end Tak
