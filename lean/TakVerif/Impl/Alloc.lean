import TakVerif.Impl.Move

/-! Mirror of `tak/alloc.go` and of the storage behaviour of `New`, `Clone`, `Move`,
`MovePreallocated` and `analyze`: a small heap model of Go slices.

A `*Position` is an object holding its scalar fields, its own `Height`/`Stacks` arrays and two slice
*headers* `WhiteGroups`/`BlackGroups` that may point anywhere in the store of group arrays.
`analyze()` re-slices and appends through those headers exactly as the Go code does, so aliasing
between objects is expressible (and is what the pinned `Clone` suffered from).

Why `Height`/`Stacks` are per-object arrays *by construction* and only the two group headers are
modelled as pointers: every `*Position` the package hands out comes from `alloc` (New, Clone, Move) or
was passed through `copyPosition` (MovePreallocated with a buffer).  Both functions, in all six size
cases, unconditionally execute `a.Height = a.alloc.Height[:]; a.Stacks = a.alloc.Stacks[:]`
(`alloc`) resp. `out.Height = h; out.Stacks = s` with `h, s` the buffer's own headers saved before the
struct copy (`copyPosition`), and then `copy` the *contents*.  So after either call the two headers
point at full-length arrays embedded in the object itself, and no code path ever stores a
`Height`/`Stacks` header of one object into another.  The group slices are different: the struct copy
`*out = *p` / `Position: *tpl` copies the `BlackGroups` header of the source into the new object, and
only `WhiteGroups` is re-pointed (`Groups[:0]`, resp. the buffer's previous `WhiteGroups[:0]`, which
after an `append` beyond capacity may be an array outside the object).  Those two headers are therefore
modelled as real slice headers into a shared store. -/
namespace Tak

/-- a Go slice header into the store of `[]uint64` arrays -/
structure Slice where
  arr : Nat
  off : Nat
  len : Nat
  cap : Nat
deriving Repr, DecidableEq, Inhabited

/-- the nil slice -/
def Slice.nil : Slice := ⟨0, 0, 0, 0⟩

/-- one `positionN` object: the embedded `Position` value plus its backing arrays -/
structure PObj where
  val : Pos          -- every field of the Position *value*; `val.wgroups/bgroups` are ignored here
  wg : Slice
  bg : Slice
  own : Nat          -- index (in the store) of this object's `alloc.Groups` array
deriving Repr, DecidableEq, Inhabited

structure Heap where
  objs : Array PObj := #[]
  arrs : Array (Array W) := #[#[]]     -- arrs[0] is a dummy zero-length array for nil slices
deriving Repr, DecidableEq, Inhabited

/-- element `k` of array `a` of the store (0 outside: never read by the model, see `InBounds`) -/
def Heap.cell (h : Heap) (a k : Nat) : W := (h.arrs.getD a #[]).getD k 0#64

/-- length of array `a` of the store -/
def Heap.asize (h : Heap) (a : Nat) : Nat := (h.arrs.getD a #[]).size

def Heap.readSlice (h : Heap) (s : Slice) : List W :=
  (List.range s.len).map (fun k => h.cell s.arr (s.off + k))

/-- Go `append(s, v)` -/
def Heap.append (h : Heap) (s : Slice) (v : W) : Heap × Slice :=
  if s.len < s.cap then
    let a := h.arrs.getD s.arr #[]
    ({ h with arrs := h.arrs.setIfInBounds s.arr (a.setIfInBounds (s.off + s.len) v) }, { s with len := s.len + 1 })
  else
    -- reallocation: a fresh array (capacity growth is not observable; doubled here)
    let old := h.readSlice s
    let newcap := max (2 * s.cap) (s.len + 1)
    let a : Array W := (old ++ [v] ++ List.replicate (newcap - (s.len + 1)) 0#64).toArray
    ({ h with arrs := h.arrs.push a }, ⟨h.arrs.size, 0, s.len + 1, newcap⟩)

def Heap.appendAll (h : Heap) (s : Slice) : List W → Heap × Slice
  | [] => (h, s)
  | v :: vs => let r := h.append s v; r.1.appendAll r.2 vs

/-- what an observer holding pointer `i` sees: the Position value with the group slices read through their headers -/
def Heap.observe (h : Heap) (i : Nat) : Option Pos :=
  match h.objs[i]? with
  | none => none
  | some o => some { o.val with wgroups := h.readSlice o.wg, bgroups := h.readSlice o.bg }

/-- `analyze()` on object `i`: FloodGroups appends through `WhiteGroups[:0]`, then through the rest of that array -/
def Heap.analyze (h : Heap) (i : Nat) : Option Heap :=
  match h.objs[i]? with
  | none => none
  | some o =>
    let wr := o.val.white &&& ~~~o.val.standing
    let br := o.val.black &&& ~~~o.val.standing
    match floodGroups o.val.c wr, floodGroups o.val.c br with
    | some wl, some bl =>
      let alloc0 : Slice := { o.wg with len := 0 }
      let r1 := h.appendAll alloc0 wl
      let wgS := r1.2
      let alloc1 : Slice := ⟨wgS.arr, wgS.off + wgS.len, 0, wgS.cap - wgS.len⟩
      let r2 := r1.1.appendAll alloc1 bl
      some { r2.1 with objs := r2.1.objs.setIfInBounds i { o with wg := wgS, bg := r2.2 } }
    | _, _ => none

/-- `alloc(tpl)`: a new object; the struct copy keeps `tpl`'s BlackGroups header (!), WhiteGroups = own[:0] -/
def Heap.allocFrom (h : Heap) (tplVal : Pos) (tplBg : Slice) : Heap × Nat :=
  let n := tplVal.cfg.size
  let own := h.arrs.size
  let garr : Array W := Array.replicate (2 * n) 0#64
  let o : PObj := { val := tplVal, wg := ⟨own, 0, 0, 2 * n⟩, bg := tplBg, own := own }
  ({ objs := h.objs.push o, arrs := h.arrs.push garr }, h.objs.size)

/-- `tak.New` (no analyze) -/
def Heap.new (h : Heap) (cfg : Cfg) : R (Heap × Nat) :=
  match Pos.new cfg with
  | .error e => .error e
  | .ok p => .ok (h.allocFrom p Slice.nil)

/-- `Clone()` of the repaired tree: `alloc(p)` followed by `analyze()` -/
def Heap.clone (h : Heap) (src : Nat) : Option (Heap × Nat) :=
  match h.objs[src]? with
  | none => none
  | some o =>
    let r := h.allocFrom o.val o.bg
    match r.1.analyze r.2 with
    | some h => some (h, r.2)
    | none => none

/-- `Clone()` of the PINNED tree (before fbe43a9): `alloc(p)` only.  Kept to document the defect
(`C09.clone_pinned_counterexample`); not used by the driver. -/
def Heap.cloneNoAnalyze (h : Heap) (src : Nat) : Option (Heap × Nat) :=
  match h.objs[src]? with
  | none => none
  | some o => some (h.allocFrom o.val o.bg)

/-- `copyPosition(p, out)`: scalars and BlackGroups header from `p`; Height/Stacks/WhiteGroups[:0] stay `out`'s own -/
def Heap.copyPosition (h : Heap) (src out : Nat) : Option Heap :=
  match h.objs[src]?, h.objs[out]? with
  | some s, some o =>
    some { h with objs := h.objs.setIfInBounds out { o with val := s.val, wg := { o.wg with len := 0 }, bg := s.bg } }
  | _, _ => none

/-- `MovePreallocated(m, next)`; `buf = none` is `Move`.  The receiver is read through its pointer
(`observe src`: Go reads the fields of `*p`; the rules never look at the group slices).  On failure Go
returns nil: a buffer keeps the copy made by `copyPosition` (in Go also some half-applied writes to its
own scalars/Height/Stacks) — nobody may rely on its value, it is only reusable as a buffer. -/
def Heap.move (basis : Array W) (h : Heap) (src : Nat) (m : Move) (buf : Option Nat) : Option (Heap × Option Nat) :=
  match h.objs[src]?, h.observe src with
  | some s, some pv =>
    let prep : Option (Heap × Nat) :=
      match buf with
      | none => some (h.allocFrom s.val s.bg)
      | some b => (h.copyPosition src b).map (fun h => (h, b))
    match prep with
    | none => none
    | some (h, i) =>
      match pv.apply basis m with
      | .error _ => some (h, none)
      | .ok q =>
        match h.objs[i]? with
        | none => none
        | some o =>
          let h := { h with objs := h.objs.setIfInBounds i { o with val := q } }
          match h.analyze i with
          | some h => some (h, some i)
          | none => none
  | _, _ => none

/-! ### Op sequences: the interpreter the driver runs, and the pure (value) semantics beside it

Handles are object indices.  Every op that is not well-formed (source not live, buffer missing or equal
to the source) or whose Go counterpart panics (`New` with a bad size) is *rejected*: the state is left
unchanged on both sides, as the driver answers `bad-slot`/`panic` without touching its session. -/

inductive Op where
  | new (cfg : Cfg)                              -- `tak.New(cfg)`
  | fromValue (p : Pos)                          -- a position built by hand and analysed (`FromSquares`' last step)
  | clone (src : Nat)                            -- `src.Clone()`
  | move (src : Nat) (m : Move)                  -- `src.Move(m)`
  | movepre (src : Nat) (m : Move) (buf : Nat)   -- `src.MovePreallocated(m, buf)`
deriving Repr, DecidableEq, Inhabited

/-- what the caller gets back -/
inductive StepRes where
  | ok (i : Nat)     -- a live result with handle `i`
  | failed           -- the move was refused (Go returned `nil, err`)
  | rejected         -- ill-formed op / panic / fuel: nothing happened
deriving Repr, DecidableEq, Inhabited

/-- heap side of a session: the store and the handles that currently denote positions -/
structure HState where
  heap : Heap := {}
  live : List Nat := []
deriving Repr, DecidableEq, Inhabited

def HState.step (basis : Array W) (s : HState) : Op → HState × StepRes
  | .new cfg =>
    match s.heap.new cfg with
    | .ok (h, i) => ({ heap := h, live := i :: s.live }, .ok i)
    | .error _ => (s, .rejected)
  | .fromValue p =>
    let r := s.heap.allocFrom p Slice.nil
    match r.1.analyze r.2 with
    | some h => ({ heap := h, live := r.2 :: s.live }, .ok r.2)
    | none => (s, .rejected)
  | .clone src =>
    if src ∈ s.live then
      match s.heap.clone src with
      | some (h, i) => ({ heap := h, live := i :: s.live }, .ok i)
      | none => (s, .rejected)
    else (s, .rejected)
  | .move src m =>
    if src ∈ s.live then
      match s.heap.move basis src m none with
      | some (h, some i) => ({ heap := h, live := i :: s.live }, .ok i)
      | some (h, none) => ({ heap := h, live := s.live }, .failed)
      | none => (s, .rejected)
    else (s, .rejected)
  | .movepre src m buf =>
    if src ∈ s.live ∧ buf ≠ src ∧ buf < s.heap.objs.size then
      -- a buffer that is handed in is no longer the position it used to be
      match s.heap.move basis src m (some buf) with
      | some (h, some i) => ({ heap := h, live := i :: s.live.filter (· != buf) }, .ok i)
      | some (h, none) => ({ heap := h, live := s.live.filter (· != buf) }, .failed)
      | none => (s, .rejected)
    else (s, .rejected)

def HState.run (basis : Array W) (ops : List Op) : HState :=
  ops.foldl (fun s op => (s.step basis op).1) {}

/-- pure side of a session: handle ↦ value (`none` = not a position: scratch object of a failed `Move`,
buffer consumed by a failed `MovePreallocated`) -/
abbrev PState := Array (Option Pos)

def PState.get (ps : PState) (i : Nat) : Option Pos := (ps[i]?).join

/-- the value semantics: Clone = the same value, re-analysed; Move = `Pos.apply`; a failed move yields no
value (and kills the buffer).  A failed `Move` still consumes a handle number, because Go allocates the
result object before it finds the move illegal. -/
def PState.step (basis : Array W) (ps : PState) : Op → PState × StepRes
  | .new cfg =>
    match Pos.new cfg with
    | .ok p => (ps.push (some p), .ok ps.size)
    | .error _ => (ps, .rejected)
  | .fromValue p =>
    match p.analyze with
    | some q => (ps.push (some q), .ok ps.size)
    | none => (ps, .rejected)
  | .clone src =>
    match ps.get src with
    | some pv =>
      match pv.analyze with
      | some q => (ps.push (some q), .ok ps.size)
      | none => (ps, .rejected)
    | none => (ps, .rejected)
  | .move src m =>
    match ps.get src with
    | some pv =>
      match pv.apply basis m with
      | .ok q => (ps.push (some q), .ok ps.size)
      | .error _ => (ps.push none, .failed)
    | none => (ps, .rejected)
  | .movepre src m buf =>
    match ps.get src with
    | some pv =>
      if buf ≠ src ∧ buf < ps.size then
        match pv.apply basis m with
        | .ok q => (ps.setIfInBounds buf (some q), .ok buf)
        | .error _ => (ps.setIfInBounds buf none, .failed)
      else (ps, .rejected)
    | none => (ps, .rejected)

def PState.run (basis : Array W) (ops : List Op) : PState :=
  ops.foldl (fun ps op => (ps.step basis op).1) #[]

/-- `pureRun ops i`: the value handle `i` denotes after `ops` -/
def pureRun (basis : Array W) (ops : List Op) (i : Nat) : Option Pos := (PState.run basis ops).get i

end Tak
