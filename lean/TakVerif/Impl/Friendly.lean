import TakVerif.Impl.FPARepair
import TakVerif.Generated.FactsEval
import TakVerif.Generated.FactsGlue

/-! Mirror of the glue between the playtak bot loop (`playtak/bot/bot.go`, model `Impl/Bot.lean`) and the
searching players: `cmd/internal/playtak/friendly.go` (`Friendly.GetMove`, `waitUndo`, `Config`,
`levelSettings`, the `level` command) and `cmd/internal/playtak/taktician.go` (`Taktician.GetMove`,
`timeBound`), `book.go` (`wrapWithBook`: which sizes get the book).

`GetMove` is a function of
* the game record `g` (`*bot.Game`: `Color`, `Positions`, `Moves` — newest first here),
* the position `p` handed in by the bot loop (the loop hands in the position its thinker was started on; the
  record is read again from `f.g` inside `GetMove`, so the two are separate inputs),
* the FPA rule with its remembered squares,
* oracles: the searching player's answer, the verdicts of the depth-3 "did the opponent just blunder" engine
  `f.check` (C05 owns what they mean).

`friendlyGetMove` is `Friendly.GetMove` **with** `fixes/C07-fpa-record-notes.diff`: before it judges the newest pair the
rule is shown the older pairs of the record, oldest first (`entryRule`), and `LegalMove` on a ply-0 position forgets the
notes of the last game (`legalMoveR`) — the notes are a function of the record.  `friendlyGetMovePinned` is the tree
before that patch (notes written only by `LegalMove` on the newest pair), kept for the counterexamples.

It returns an `Action`, the branch taken, in the order of the Go code.  Clock effects are part of the action:
which deadline is put on the search context and which floor (`minThink` / `undoTimeout`) is waited for
before the answer is handed back.  Nothing here depends on the wall clock. -/
namespace Tak.Glue
open Tak.FPA

/-- `tak.Move{}` -/
def zeroMove : Move := { x := 0, y := 0, type := 0, slides := 0 }

/-- the part of `*bot.Game` the glue reads.  Lists are newest first (as in `Tak.Bot.St`). -/
structure GameRec where
  color : Color
  size : Nat
  positions : List Pos
  moves : List Move
deriving Repr, Inhabited

/-- the text the bot tells the opponent when it resigns: `center` = the one message of `CenterBlack.LegalMove`,
`doubleStack i` = `doubleStackErrors[i]`, `cairn i` = `cairnErrors[i]` (the tables are indexed by the ply of
the rejected move) -/
inductive Msg where
  | center
  | doubleStack (i : Nat)
  | cairn (i : Nat)
deriving Repr, DecidableEq, Inhabited

/-- the reply-time floor armed before searching -/
inductive Floor where
  | undo       -- `time.After(undoTimeout)`: the opponent has just blundered into a loss in one; leave time to ask for an undo
  | minThink   -- `time.After(minThink)`
deriving Repr, DecidableEq, Inhabited

def Floor.ns : Floor → Int
  | .undo => Facts.undoTimeout
  | .minThink => Facts.minThink

inductive Action where
  /-- `SendCommand(GameStr, "Resign")`, `Tell(Opponent, msg)`, wait for the context to end, `return tak.Move{}` -/
  | resign (msg : Msg)
  /-- a move returned without consulting the searcher and without sending anything (the FPA script) -/
  | move (m : Move)
  /-- `return tak.Move{}` at once: nothing sent, searcher not consulted -/
  | noMove
  /-- the searcher is consulted and its answer is returned.  `limit`: the timeout put on the context handed to it
  (`none`: only the caller's cancellation ends the search); `floor`: the wait after it answered (ended early by
  the context) -/
  | think (limit : Option Int) (floor : Option Floor)
deriving Repr, DecidableEq, Inhabited

/-- what `GetMove` returns when the searcher's answer is `ans` -/
def Action.returned (a : Action) (ans : Move) : Move :=
  match a with
  | .resign _ => zeroMove
  | .move m => m
  | .noMove => zeroMove
  | .think _ _ => ans

/-- is the searching player consulted? -/
def Action.searches : Action → Bool
  | .think _ _ => true
  | _ => false

/-- are commands sent to the server? (only the resignation sends any) -/
def Action.sends : Action → Bool
  | .resign _ => true
  | _ => false

/-! ### `Friendly` -/

/-- `err.Error()` of a rejecting `LegalMove`: which text, as a function of the variant and of the ply of
the position the rejected move was played on (`errors.New(doubleStackErrors[p.MoveNumber()])`) -/
def errMsg (var : Variant) (prevPly : Int) : R Msg :=
  match var with
  | .center => .ok .center
  | .doubleStack =>
    if prevPly < 0 ∨ prevPly ≥ 6 then .error (.panic "doubleStackErrors index") else .ok (.doubleStack prevPly.toNat)
  | .cairn =>
    if prevPly < 0 ∨ prevPly ≥ 6 then .error (.panic "cairnErrors index") else .ok (.cairn prevPly.toNat)

/-- verdicts of `f.check.Analyze` (`value`, `Stats.Depth`) as far as `waitUndo` reads them -/
structure CheckOracle where
  curV : Int       -- value of the position to move on
  curDepth : Int   -- depth at which that search stopped
  prevV : Int      -- value of `f.g.Positions[len-2]`
deriving Repr, Inhabited

/-- does `waitUndo` go on to analyse the previous position?  (`!(v < ai.WinThreshold || st.Depth > 1)`) -/
def asksPrev (o : CheckOracle) : Bool := !(decide (o.curV < Facts.winThreshold) || decide (o.curDepth > 1))

/-- `(*Friendly).waitUndo`: the bot has a win in one (`v ≥ WinThreshold` found at depth ≤ 1) and the position
before the opponent's move was not already lost for them -/
def waitUndo (g : GameRec) (o : CheckOracle) : R Bool :=
  if !asksPrev o then .ok false else
  match g.positions with
  | _ :: _ :: _ => .ok (decide (o.prevV > -Facts.winThreshold))
  | _ => .error (.panic "waitUndo: f.g.Positions[len-2]")

/-- `f.g.Positions[len(f.g.Positions)-2]`, `f.g.Moves[len(f.g.Moves)-1]` -/
def prevOf (g : GameRec) : R (Pos × Move) :=
  match g.positions with
  | _ :: q :: _ =>
    match g.moves with
    | m :: _ => .ok (q, m)
    | [] => .error (.panic "Friendly.GetMove: f.g.Moves[len-1]")
  | _ => .error (.panic "Friendly.GetMove: f.g.Positions[len-2]")

/-- the pairs `(f.g.Positions[i], f.g.Moves[i])`, `i+1 < len(f.g.Moves)`, oldest first, as the rule sees them;
`Positions[i]` out of range is an index panic -/
def olderPairs (g : GameRec) : R (List (View × Move)) :=
  let ps := g.positions.reverse
  let ms := g.moves.reverse.dropLast
  if ps.length < ms.length then .error (.panic "Friendly.GetMove: f.g.Positions[i]")
  else .ok ((ps.zip ms).map fun (p, m) => (viewOfPos p, m))

/-- `for i := 0; i+1 < len(f.g.Moves); i++ { f.fpa.LegalMove(f.g.Positions[i], f.g.Moves[i]) }`: the notes rebuilt
from the older pairs of the record -/
def entryRule (var : Variant) (r : Rule) (g : GameRec) : R Rule :=
  match olderPairs g with
  | .error e => .error e
  | .ok h => replay var r h

/-- the rule check `Friendly.GetMove` starts with, on its own (used to state the theorems): when
`p.MoveNumber() > 0` the older pairs are replayed, then
`f.fpa.LegalMove(f.g.Positions[len-2], f.g.Moves[len-1])` — the rebuilt notes and the verdict on the newest pair;
nothing to check at ply 0 -/
def prevCheck (var : Variant) (r : Rule) (g : GameRec) (p : Pos) : R (Rule × Bool) :=
  if p.move > 0 then
    match entryRule var r g with
    | .error e => .error e
    | .ok r1 =>
      match prevOf g with
      | .ok (q, m) => legalMoveR var r1 (viewOfPos q) m
      | .error e => .error e
  else .ok (r, true)

/-- the tree before `fixes/C07-fpa-record-notes.diff`: only the newest pair is shown to the rule -/
def prevCheckPinned (var : Variant) (r : Rule) (g : GameRec) (p : Pos) : R (Rule × Bool) :=
  if p.move > 0 then
    match prevOf g with
    | .ok (q, m) => legalMove var r (viewOfPos q) m
    | .error e => .error e
  else .ok (r, true)

/-- what the record shows of the previous move, in the form `Tak.FPA.friendlyGetMove` (the model C20's opening
game is built on) takes it -/
def prevViews (g : GameRec) : Option (View × Move) :=
  match prevOf g with
  | .ok (q, m) => some (viewOfPos q, m)
  | .error _ => none

/-- first block of `Friendly.GetMove`:
`if f.fpa != nil { if p.MoveNumber() > 0 { for … { f.fpa.LegalMove(Positions[i], Moves[i]) }; prevP, prevM := …; if err := f.fpa.LegalMove(prevP, prevM); err != nil { … } } }`.
Returns the rule with the squares `LegalMove` remembered and, when the move was rejected, the text of the error. -/
def fpaCheck (fpa : Option (Variant × Rule)) (g : GameRec) (p : Pos) : R (Option (Variant × Rule) × Option Msg) :=
  match fpa with
  | none => .ok (none, none)
  | some (var, r) =>
    if p.move > 0 then do
      let r1 ← entryRule var r g
      let (prevP, prevM) ← prevOf g
      let (r', ok) ← legalMoveR var r1 (viewOfPos prevP) prevM
      if ok then .ok (some (var, r'), none)
      else do
        let msg ← errMsg var prevP.move
        .ok (some (var, r'), some msg)
    else .ok (some (var, r), none)

/-- the same before `fixes/C07-fpa-record-notes.diff` -/
def fpaCheckPinned (fpa : Option (Variant × Rule)) (g : GameRec) (p : Pos) : R (Option (Variant × Rule) × Option Msg) :=
  match fpa with
  | none => .ok (none, none)
  | some (var, r) =>
    if p.move > 0 then do
      let (prevP, prevM) ← prevOf g
      let (r', ok) ← legalMove var r (viewOfPos prevP) prevM
      if ok then .ok (some (var, r'), none)
      else do
        let msg ← errMsg var prevP.move
        .ok (some (var, r'), some msg)
    else .ok (some (var, r), none)

/-- third block: `if f.fpa != nil { m, ok := f.fpa.GetMove(p); if ok { return m } }` -/
def fpaScript (fpa : Option (Variant × Rule)) (p : Pos) : R (Option Move) :=
  match fpa with
  | none => .ok none
  | some (var, r) => getMove var r (viewOfPos p)

/-- `(*Friendly).GetMove(ctx, p, mine, theirs)` after its first block `check` -/
def friendlyGetMoveWith (check : Option (Variant × Rule) → GameRec → Pos → R (Option (Variant × Rule) × Option Msg))
    (fpa : Option (Variant × Rule)) (g : GameRec) (p : Pos) (o : CheckOracle) :
    R (Option (Variant × Rule) × Action) := do
  let (fpa, rejected) ← check fpa g p
  match rejected with
  | some msg =>
    -- f.client.SendCommand(f.g.GameStr, "Resign"); f.client.Tell(f.g.Opponent, err.Error()); <-ctx.Done(); return tak.Move{}
    .ok (fpa, .resign msg)
  | none =>
  -- if p.ToMove() != f.g.Color { return tak.Move{} }
  if p.toMove ≠ g.color then .ok (fpa, .noMove) else do
  match ← fpaScript fpa p with
  | some m => .ok (fpa, .move m)
  | none =>
    -- deadline := time.After(undoTimeout | minThink); ctx with deadline now+maxThink; m := f.ai.GetMove(ctx, p); wait; return m
    let w ← waitUndo g o
    .ok (fpa, .think (some Facts.maxThink) (some (if w then .undo else .minThink)))

/-- `(*Friendly).GetMove(ctx, p, mine, theirs)`.  `fpa`: `f.fpa` (`none` = `nil`) with the rule's remembered
squares; returns the rule's squares afterwards (`LegalMove` writes them) and the branch taken.  An error is a
panic of the Go code (index out of range in the record, or a panic inside the rule's own code). -/
def friendlyGetMove (fpa : Option (Variant × Rule)) (g : GameRec) (p : Pos) (o : CheckOracle) :
    R (Option (Variant × Rule) × Action) := friendlyGetMoveWith fpaCheck fpa g p o

/-- `(*Friendly).GetMove` before `fixes/C07-fpa-record-notes.diff` -/
def friendlyGetMovePinned (fpa : Option (Variant × Rule)) (g : GameRec) (p : Pos) (o : CheckOracle) :
    R (Option (Variant × Rule) × Action) := friendlyGetMoveWith fpaCheckPinned fpa g p o

/-- `(*Friendly).Config(size)` -/
def friendlyConfig (fpa : Bool) (size : Nat) : Cfg :=
  { size := size, pieces := 0, capstones := 0, blackWinsTies := fpa }

/-! #### levels -/

/-- the `depth` column of `var levels` in friendly.go (tied by the `gluelevel` correspondence over every level) -/
def levelDepths : List Nat := [2, 2, 2, 3, 3, 4, 3, 5, 5, 4, 5, 7, 0]

/-- the search depth chosen by `(*Friendly).levelSettings(size, level)` (`0` = unlimited) -/
def levelDepth (level : Int) : R Nat :=
  let level := if level == 0 then 3 else level
  let level := if level > levelDepths.length then (levelDepths.length : Int) else level
  if level < 1 then .error (.panic "levels[level-1]") else
  match levelDepths[(level - 1).toNat]? with
  | some d => .ok d
  | none => .error (.panic "levels[level-1]")

/-- replies of the `level` command -/
inductive LevelReply where
  | max            -- "OK! I'll play as best as I can!"
  | bad            -- not a number: no reply
  | unknown        -- "I only know about levels up to …"
  | future         -- "… for future games."
  | now            -- "…, starting right now." (the searching player is rebuilt)
deriving Repr, DecidableEq, Inhabited

/-- `handleCommand(who, "level", arg)`: `parsed` = what `strconv.ParseUint(arg, 10, 64)` yields (`none` = error),
`inGame` = `f.g != nil`, `fromOpponent` = `who == f.g.Opponent`.  Returns the new `f.level` and the reply. -/
def levelCommand (level : Int) (isMax : Bool) (parsed : Option Nat) (inGame fromOpponent : Bool) : Int × LevelReply :=
  if isMax then (100, .max) else
  match parsed with
  | none => (level, .bad)
  | some l =>
    -- int(l): two's complement
    let li : Int := if l ≥ 2 ^ 63 then (l : Int) - 2 ^ 64 else (l : Int)
    if li < 1 ∨ li > (levelDepths.length : Int) + 1 then (level, .unknown)
    else if !inGame || !fromOpponent then (li, .future)
    else (li, .now)

/-! #### `HandleTell` / `handleCommand` (ASCII messages) -/

/-- `strings.SplitN(msg, " ", 2)`: always at least one element, so `bits[0]` never panics -/
def splitCmd (msg : String) : String × Option String :=
  let cs := msg.toList
  match cs.span (· ≠ ' ') with
  | (a, []) => (String.ofList a, none)
  | (a, _ :: b) => (String.ofList a, some (String.ofList b))

/-- `strconv.Atoi` with its error: optional sign, decimal digits, within `int` (64 bit) -/
def atoiOpt (s : String) : Option Int :=
  let cs := s.toList
  let (neg, ds) : Bool × List Char := match cs with
    | '-' :: r => (true, r)
    | '+' :: r => (false, r)
    | r => (false, r)
  if ds.isEmpty || !ds.all Char.isDigit then none else
  let n : Nat := ds.foldl (fun a c => a * 10 + (c.toNat - 48)) 0
  let v : Int := if neg then -(n : Int) else (n : Int)
  if v < -9223372036854775808 ∨ v > 9223372036854775807 then none else some v

/-- `strconv.ParseUint(s, 10, 64)` -/
def parseUintOpt (s : String) : Option Nat :=
  let cs := s.toList
  if cs.isEmpty || !cs.all Char.isDigit then none else
  let n := cs.foldl (fun a c => a * 10 + (c.toNat - 48)) 0
  if n < 2 ^ 64 then some n else none

/-- what a chat command does -/
inductive TellOut where
  | level (r : LevelReply)   -- a reply of the level command (`.bad`: nothing is sent)
  | help                     -- "[user@level N]: docURL"
  | seek (size : Int)        -- `Seek size time increment` (no game running)
  | sizeSet (size : Int)     -- `cmd.size` changed while a game is running: nothing is sent
  | nothing
deriving Repr, DecidableEq, Inhabited

/-- `(*Friendly).HandleTell(who, msg)` → `handleCommand(who, cmd, arg)`: the new level and the effect -/
def friendlyTell (level : Int) (inGame fromOpponent : Bool) (msg : String) : Int × TellOut :=
  let (cmd, arg?) := splitCmd msg
  let arg := arg?.getD ""
  let c := cmd.toLower
  if c == "level" then
    let (l, r) := levelCommand level (arg == "max") (parseUintOpt arg) inGame fromOpponent
    (l, .level r)
  else if c == "size" then
    match atoiOpt arg with
    | none => (level, .nothing)
    | some sz =>
      if sz ≥ 3 ∧ sz ≤ 8 then (level, if inGame then .sizeSet sz else .seek sz) else (level, .nothing)
  else if c == "help" then (level, .help)
  else (level, .nothing)

/-- `(*Taktician).HandleTell`: only `size`, and only 4..6 -/
def takticianTell (inGame : Bool) (msg : String) : TellOut :=
  let (cmd, arg?) := splitCmd msg
  let arg := arg?.getD ""
  if cmd.toLower == "size" then
    match atoiOpt arg with
    | none => .nothing
    | some sz => if sz ≥ 4 ∧ sz ≤ 6 then (if inGame then .sizeSet sz else .seek sz) else .nothing
  else .nothing

/-! ### `Taktician` -/

structure TakticianCfg where
  limit : Int               -- `-limit`, ns
  useOpponentTime : Bool    -- `-use-opponent-time`
deriving Repr, Inhabited

/-- the literal `20 * time.Second` of `Taktician.GetMove` (no named constant in the source; tied by the
correspondence, which records the duration handed to `context.WithTimeout`) -/
def openingTimeout : Int := 20000000000

/-- `(*Taktician).timeBound(remaining)`: both branches of the size test answer `t.cmd.limit` -/
def timeBound (cfg : TakticianCfg) (size : Nat) (_remaining : Int) : Int :=
  if size == 4 then cfg.limit else cfg.limit

/-- `(*Taktician).GetMove(ctx, p, mine, theirs)` -/
def takticianGetMove (cfg : TakticianCfg) (color : Color) (size : Nat) (p : Pos) (mine : Int) : Action :=
  if p.toMove = color then
    let timeout := timeBound cfg size mine
    let timeout := if p.move < 2 then openingTimeout else timeout
    .think (some timeout) none
  else if !cfg.useOpponentTime then .noMove
  else .think none none

/-- `(*Command).wrapWithBook(size, p)`: is the searching player wrapped with the built-in opening book? -/
def wrapsWithBook (book : Bool) (size : Nat) : Bool :=
  if !book then false else if size != 5 && size != 6 then false else true

end Tak.Glue
