import TakVerif.Impl.Position
import TakVerif.Impl.GoBytes

/-! Byte-level mirror of `ptn/tps.go` (`ParseTPS`, `parseRow`, `FormatTPS`, `tpsRow`, `tpsSquare`).

The model is of the tree **with** the two bounds checks of `fixes/C13-tps-*.diff` in `parseRow`
(an empty cell and a lone `S`/`C` return an error; the pinned tree indexes `bit[0]` / `stack[0]`
there and panics). -/
namespace Tak.TPS
open Go

/-- `MakePiece(color, kind)` as the raw byte -/
def mk (c k : Nat) : Nat := c ||| k

def cX : UInt8 := 120      -- 'x'
def c1 : UInt8 := 49       -- '1'
def c2 : UInt8 := 50       -- '2'
def cC : UInt8 := 67       -- 'C'
def cS : UInt8 := 83       -- 'S'
def cSlash : UInt8 := 47   -- '/'
def cComma : UInt8 := 44   -- ','
def cSpace : UInt8 := 32   -- ' '

/-- the `for i, b := range bit` loop of `parseRow` over the not-yet-read bytes `rest` (`i` = offset of
the next byte, `n = len(bit)`); `stack` is the Go slice (entries 0 = not yet written).

`range` over a string decodes UTF-8 runes; every rune other than `1 2 C S` (in particular every rune
≥ 0x80 and every `RuneError`) leaves through `default` with an error at its *first* byte, so stepping
byte by byte visits exactly the same bytes up to the first such rune and `i` is the byte offset in both. -/
def stackLoop (n : Nat) : Nat → Bytes → List Nat → R (List Nat)
  | _, [], stack => .ok stack
  | i, b :: rest, stack =>
    if b == c1 ∨ b == c2 then
      -- stack[len(stack)-i-1] = MakePiece(colour, Flat)
      let pc := if b == c1 then mk Facts.colorWhite Facts.kindFlat else mk Facts.colorBlack Facts.kindFlat
      if i < stack.length then stackLoop n (i+1) rest (stack.set (stack.length - i - 1) pc)
      else .error (.panic "parseRow: stack[len(stack)-i-1]")
    else if b == cC ∨ b == cS then
      if i ≠ n - 1 then .error (.illegal "stone type not at end of stack") else
      match stack with
      | [] => .error (.panic "parseRow: stack[1:]")
      | _ :: stack =>                                   -- stack = stack[1:]
        match stack with
        | [] => .error (.illegal "stone type without a stone")   -- the added check (pinned tree: panic at stack[0])
        | below :: tl =>
          let color := below &&& Facts.colorMask
          let top := if b == cS then mk color Facts.kindStanding else mk color Facts.kindCapstone
          stackLoop n (i+1) rest (top :: tl)
    else .error (.illegal "malformed stack")

/-- one comma-separated cell of `parseRow`: the squares it appends to the row -/
def parseBit (bit : Bytes) : R (List (List Nat)) :=
  match bit with
  | [] => .error (.illegal "empty square")              -- the added check (pinned tree: panic at bit[0])
  | b0 :: tl =>
    if b0 == cX then
      -- count := 1; if len(bit) > 1 { count = int(bit[1] - '0') }   (byte arithmetic wraps)
      let count := match tl with
        | [] => 1
        | b1 :: _ => (b1 - 48).toNat
      .ok (List.replicate count [])
    else
      match stackLoop bit.length 0 bit (List.replicate bit.length 0) with
      | .error e => .error e
      | .ok stack => .ok [stack]

def parseBits : List Bytes → List (List Nat) → R (List (List Nat))
  | [], out => .ok out
  | bit :: bits, out =>
    match parseBit bit with
    | .error e => .error e
    | .ok sqs => parseBits bits (out ++ sqs)

/-- `parseRow` -/
def parseRow (row : Bytes) : R (List (List Nat)) := parseBits (split cComma row) []

/-- the row loop of `ParseTPS`: rows are *prepended* (the text lists the top row first) -/
def parseRows : List Bytes → List (List (List Nat)) → R (List (List (List Nat)))
  | [], pieces => .ok pieces
  | r :: rs, pieces =>
    match parseRow r with
    | .error e => .error e
    | .ok row => parseRows rs (row :: pieces)

/-- `ParseTPS`; `FromSquares` is `Tak.Pos.fromSquares` on the flattened board -/
def parseTPS (basis : Array W) (tpn : Bytes) : R Pos :=
  match split cSpace tpn with
  | [w0, w1, w2] =>
    match atoi w1 with
    | none => .error (.illegal "bad turn")
    | some turn =>
      if turn ≠ 1 ∧ turn ≠ 2 then .error (.illegal "bad turn") else
      match atoi w2 with
      | none => .error (.illegal "bad move")
      | some mv =>
        let move := wrap64 (2 * (mv - 1) + (turn - 1))
        match parseRows (split cSlash w0) [] with
        | .error e => .error e
        | .ok pieces =>
          if pieces.length < 3 ∨ pieces.length > 8 then .error (.illegal "bad size board") else
          if pieces.any (fun r => r.length != pieces.length) then .error (.illegal "row bad length") else
          Pos.fromSquares basis { size := pieces.length, pieces := 0, capstones := 0, blackWinsTies := false }
            pieces.flatten move
  | _ => .error (.illegal "bad TPS: wrong number of words")

/-! ### formatting -/

/-- `Position.At` with its panic: a set colour bit with `Height == 0` makes `sq[0]` fail -/
def atGo (p : Pos) (i : Nat) : R (List Piece) :=
  match p.topAt i with
  | none => .ok []
  | some _ => if (p.height.getD i 0).toNat == 0 then .error (.panic "At: sq[0]") else .ok (p.squareAt i)

/-- `tpsSquare` (called on non-empty squares only; `sq[0]` on an empty one would panic) -/
def tpsSquare (sq : List Piece) : R Bytes :=
  match sq with
  | [] => .error (.panic "tpsSquare: sq[0]")
  | top :: _ =>
    let body := sq.reverse.map (fun pc => if pc.color == .white then c1 else c2)
    let mark := match top.kind with
      | .standing => [cS]
      | .capstone => [cC]
      | .flat => []
    .ok (body ++ mark)

/-- the text of a run of `run` empty squares: nothing, `x`, or `x<run>` -/
def flushRun (run : Nat) : List Bytes :=
  if run == 0 then [] else if run == 1 then [[cX]] else [cX :: itoaNat run]

/-- `tpsRow` over the squares of a row from left to right.  The Go loop measures the run of empty
squares starting at `x`, emits its text and skips it; here the run length is carried in `run` and
emitted when the run ends — the same sequence of cells. -/
def rowBits : Nat → List (List Piece) → R (List Bytes)
  | run, [] => .ok (flushRun run)
  | run, sq :: rest =>
    if sq.isEmpty then rowBits (run + 1) rest else
    match tpsSquare sq, rowBits 0 rest with
    | .ok s, .ok bits => .ok (flushRun run ++ s :: bits)
    | .error e, _ => .error e
    | _, .error e => .error e

def rowSquares (p : Pos) (y : Nat) : R (List (List Piece)) :=
  (List.range p.size).mapM (fun x => atGo p (x + y * p.size))

/-- the text of one row given its squares: the cells joined by `,` -/
def tpsRowText (sqs : List (List Piece)) : R Bytes :=
  match rowBits 0 sqs with
  | .error e => .error e
  | .ok bits => .ok (join cComma bits)

def tpsRow (p : Pos) (y : Nat) : R Bytes :=
  match rowSquares p y with
  | .error e => .error e
  | .ok sqs => tpsRowText sqs

/-- the last line of `FormatTPS`: rows (top row first) joined by `/`, side to move, move number -/
def tpsText (rows : List Bytes) (move : Int) : Bytes :=
  let toMove := if move % 2 == 0 then c1 else c2
  join cSlash rows ++ cSpace :: toMove :: cSpace :: itoa (move.tdiv 2 + 1)

/-- `FormatTPS` -/
def formatTPS (p : Pos) : R Bytes :=
  match ((List.range p.size).reverse).mapM (tpsRow p) with
  | .error e => .error e
  | .ok rows => .ok (tpsText rows p.move)

end Tak.TPS
