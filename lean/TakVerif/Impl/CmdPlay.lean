import TakVerif.Impl.PTNReal
import TakVerif.Impl.CmdAnalyze

/-! Mirror of `cmd/internal/play/main.go` with two `human` players, i.e. of the loop `(*cli.CLI).Play` (`cli/cli.go`)
over `cliPlayer.GetMove` (`cli/player.go`) on a scripted standard input.

`Play` starts from `tak.New(Config{Size})` and repeats: draw the board; if the game is over print the verdict and
return; ask the player to move (`GetMove`: prompt, read a line, `strings.TrimRight(line, "\r\n")`, `ptn.ParseMove`; a
line that does not parse prints `parse error:` and asks again; the end of the input is a PANIC); `Position.Move` — an
error prints `illegal move:` and the loop goes round again WITH THE SAME POSITION AND MOVE LIST, otherwise the move is
printed, appended to the list and the successor becomes the position.  After `Play`, `-out FILE` writes the PTN of the
recorded moves.

`Event`s carry what is printed; `Event.text` is the exact text up to the padding of `text/tabwriter` and the Go error
strings after `parse error:` / `illegal move:` (the correspondence normalises white space and cuts those).

Not modelled: the AI / TEI players (`-white`, `-black` other than `human`), `-unicode`. -/
namespace Tak.CmdPlay
open Go (Bytes lit)

inductive Event where
  /-- `c.render()` -/
  | board (p : Pos)
  /-- `fmt.Fprintf(c.out, "%s> ", p.ToMove())` -/
  | prompt (c : Color)
  /-- `fmt.Fprintln(c.out, "parse error: ", err)` -/
  | parseError
  /-- `fmt.Fprintln(c.Out, "illegal move:", e)` -/
  | illegalMove
  /-- `"%d. %s"` / `"%d. ... %s"`: the position the move was made in, and the move -/
  | moved (p : Pos) (m : Move)
  /-- `Game Over! …` and the flat counts -/
  | gameOver (d : WinDetails)
deriving Inhabited

/-- how a run ended: `Play` returned, or the process panicked (end of input in `ReadString`, `tak.New` on a bad size, …) -/
inductive Stop where
  | finished
  | eof
  | crash (e : Err)
deriving Repr, DecidableEq, Inhabited

structure Run where
  events : List Event
  moves : List Move
  pos : Pos
  stop : Stop
deriving Inhabited

def Run.cons (evs : List Event) (r : Run) : Run := { r with events := evs ++ r.events }

/-- the complete lines of the input (each without its `\n`); what follows the last `\n` is never delivered:
`ReadString('\n')` returns it together with `io.EOF`, and `GetMove` panics on any error -/
def completeLines (input : Bytes) : List Bytes := (Go.split 10 input).dropLast

/-- `strings.TrimRight(line, "\r\n")` -/
def trimCRLF (s : Bytes) : Bytes := PTN.trimRight s (fun b => b == 13 || b == 10)

inductive Got where
  | move (m : Move) (rest : List Bytes)
  | eof
  | crash (e : Err)

/-- `cliPlayer.GetMove`: what it prints, and the move it returns with the lines left unread -/
def getMove (env : PTN.Env) (c : Color) : List Bytes → List Event × Got
  | [] => ([.prompt c], .eof)
  | l :: rest =>
    match env.parseMove (trimCRLF l) with
    | .ok m => ([.prompt c], .move m rest)
    | .error (.illegal _) =>
      let (evs, g) := getMove env c rest
      (.prompt c :: .parseError :: evs, g)
    | .error e => ([.prompt c], .crash e)

/-- the lines `getMove` leaves are a suffix of those it was given, shorter unless it stopped -/
theorem getMove_rest (env : PTN.Env) (c : Color) (lines : List Bytes) (evs : List Event) (m : Move) (rest : List Bytes)
    (h : getMove env c lines = (evs, .move m rest)) : rest.length < lines.length := by
  induction lines generalizing evs with
  | nil => simp [getMove] at h
  | cons l tl ih =>
    unfold getMove at h
    split at h
    · cases h; simp
    · cases hg : getMove env c tl with
      | mk evs' g =>
        rw [hg] at h
        cases h
        have := ih evs' hg
        simp; omega
    · cases h

/-- the loop of `(*CLI).Play` (fuel: one round reads at least one line) -/
def playLoop (env : PTN.Env) : Nat → Pos → List Move → List Bytes → Run
  | 0, p, ms, _ => ⟨[], ms, p, .crash (.hang "playLoop: fuel")⟩
  | fuel + 1, p, ms, lines =>
    if p.gameOver.1 then ⟨[.board p, .gameOver p.winDetails], ms, p, .finished⟩ else
    match getMove env p.toMove lines with
    | (evs, .eof) => ⟨.board p :: evs, ms, p, .eof⟩
    | (evs, .crash e) => ⟨.board p :: evs, ms, p, .crash e⟩
    | (evs, .move m rest) =>
      match p.apply env.basis m with
      | .error (.illegal _) => (playLoop env fuel p ms rest).cons (.board p :: evs ++ [.illegalMove])
      | .error e => ⟨.board p :: evs, ms, p, .crash e⟩
      | .ok q => (playLoop env fuel q (ms ++ [m]) rest).cons (.board p :: evs ++ [.moved p m])

/-- `(*CLI).Play` on the script `input` -/
def play (env : PTN.Env) (p0 : Pos) (input : Bytes) : Run :=
  let lines := completeLines input
  playLoop env (lines.length + 1) p0 [] lines

/-- the file `-out` gets: tags `Size`, `Player1`, `Player2`, then `AddMoves(st.Moves())`, rendered -/
def outFile (env : PTN.Env) (size : Int) (white black : Bytes) (moves : List Move) : Bytes :=
  let f : PTN.File := ⟨[⟨lit "Size", Go.itoa size⟩, ⟨lit "Player1", white⟩, ⟨lit "Player2", black⟩], []⟩
  PTN.render env (f.addMoves moves)

/-- `(*Command).Execute` with `-size size`, both players `human`: the run, and the `-out` file if one is written
(only when `Play` returned).  `tak.New` panics for a size outside 3..8 before anything is printed. -/
def execute (env : PTN.Env) (size : Int) (input : Bytes) : Except Err (Run × Option Bytes) :=
  if size < 0 then .error (.panic "New: defaultPieces index") else
  match Pos.new { size := size.toNat, pieces := 0, capstones := 0, blackWinsTies := false } with
  | .error e => .error e
  | .ok p0 =>
    let r := play env p0 input
    .ok (r, if r.stop == .finished then some (outFile env size (lit "human") (lit "human") r.moves) else none)

/-! ### the printed text -/

def Event.text (env : PTN.Env) : Event → String
  | .board p => "\n" ++ "\n".intercalate (CmdAnalyze.renderBoard p) ++ "\n"
  | .prompt c => CmdAnalyze.colorName c ++ "> "
  | .parseError => "parse error: \n"
  | .illegalMove => "illegal move:\n"
  | .moved p m =>
    let num := p.move.tdiv 2 + 1
    if p.toMove == .white then s!"{num}. {CmdAnalyze.fmtMoveS env m}" else s!"{num}. ... {CmdAnalyze.fmtMoveS env m}"
  | .gameOver d =>
    "Game Over! " ++
    (if d.winner == .none then "Draw."
     else CmdAnalyze.colorName d.winner ++ " wins by " ++
       (match d.reason with | .road => "building a road" | .flats => "flats count")) ++
    s!"\nflats count: white={d.whiteFlats} black={d.blackFlats}\n"

def Run.text (env : PTN.Env) (r : Run) : String := String.join (r.events.map (Event.text env))

end Tak.CmdPlay
