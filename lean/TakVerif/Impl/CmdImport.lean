import TakVerif.Impl.PTNReal
import TakVerif.Impl.ServerMove

/-! Mirror of `cmd/internal/importptn/command.go` (+ the queries of `sql.go`): `taktician import-ptn GAMES.db`.

The command reads the rows of the playtak `games` table that have a notation and no row in `ptns` yet
(`selectTODO`), turns each into PTN text with `importOne` — `formatTags`, then `strings.Split(notation, ",")`, every
piece trimmed of blanks and read by `playtak.ParseServer` (= `Tak.Server.parseServer`), a `MoveNumber` op before every
even-indexed move, `Render` — and inserts `(id, text)` into `ptns`.  A row whose notation does not parse yields the
empty text and is skipped (`if ptn == "" { continue }` comes BEFORE the `err != nil` test, so the `could not import`
log line is never reached); the following rows are unaffected: the loop carries no state from one game to the next.

Four workers share the rows; which worker converts which row is unobservable (`ptns` is keyed by `id`), so the model
converts them in table order and keeps `ptns` ordered by `id`.

Not modelled: sqlite itself (the model of a database is the two tables), the standard library's calendar
(`time.Unix(…).Format`: `Env.dateTime`, supplied per row by the correspondence), `time.Duration` overflow for a
`timertime` beyond ±9.2·10^9 s (the column is a 32-bit `INT` on playtak.com). -/
namespace Tak.CmdImport
open _root_.PTN (File Op Tag)
open Go (Bytes lit)

/-- `type gameRow` -/
structure GameRow where
  id : Int
  date : Int
  size : Int
  playerWhite : Bytes
  playerBlack : Bytes
  notn : Bytes
  result : Bytes
  timerTime : Int
  timerInc : Int
deriving Repr, DecidableEq, Inhabited

structure Env where
  /-- `playtak.ParseServer` -/
  parseServer : Bytes → R Move
  /-- `t.Format("2006.01.02")`, `t.Format("15:04:05")` for `t = time.Unix(date/1000, date%1000 * 1e6)` -/
  dateTime : Int → Bytes × Bytes

/-- `fmt.Sprintf("%02d", n)`: the width counts the sign -/
def pad2 (n : Int) : Bytes :=
  if 0 ≤ n ∧ n < 10 then 48 :: Go.itoa n else Go.itoa n

/-- the `Clock` tag value: `%02d:%02d` of `secs/60`, `secs%60` (Go's truncating division), then ` +%d` of a non-zero
increment -/
def clock (timerTime timerInc : Int) : Bytes :=
  let s := pad2 (timerTime.tdiv 60) ++ [58] ++ pad2 (timerTime.tmod 60)
  if timerInc != 0 then s ++ lit " +" ++ Go.itoa timerInc else s

/-- `formatTags` -/
def formatTags (env : Env) (g : GameRow) : List Tag :=
  let (d, t) := env.dateTime g.date
  [⟨lit "Site", lit "playtak.com"⟩, ⟨lit "Date", d⟩, ⟨lit "Time", t⟩,
   ⟨lit "Player1", g.playerWhite⟩, ⟨lit "Player2", g.playerBlack⟩,
   ⟨lit "Result", g.result⟩, ⟨lit "Size", Go.itoa g.size⟩] ++
  (if g.timerTime != 0 then [⟨lit "Clock", clock g.timerTime g.timerInc⟩] else [])

/-- `strings.Trim(mv, " ")` -/
def trimBlanks (s : Bytes) : Bytes := PTN.trim s (· == 32)

/-- the loop of `importOne` from index `i` on: the ops of the file, or the first `ParseServer` error -/
def moveOps (env : Env) : Nat → List Bytes → R (List Op)
  | _, [] => .ok []
  | i, w :: rest =>
    match env.parseServer (trimBlanks w) with
    | .error e => .error e
    | .ok m =>
      match moveOps env (i + 1) rest with
      | .error e => .error e
      | .ok ops =>
        .ok ((if i % 2 == 0 then [PTN.Op.moveNumber [] ((i / 2 + 1 : Nat) : Int)] else []) ++ [PTN.Op.move [] m []] ++ ops)

/-- `importOne`: `.ok none` = `("", nil)` (no notation), `.error _` = `("", err)`, `.ok (some text)` = `(text, nil)` -/
def importOne (env : Env) (penv : PTN.Env) (g : GameRow) : R (Option Bytes) :=
  if g.notn.isEmpty then .ok none else
  match moveOps env 0 (Go.split 44 g.notn) with
  | .error e => .error e
  | .ok ops => .ok (some (PTN.render penv ⟨formatTags env g, ops⟩))

/-- the two tables -/
structure DB where
  games : List GameRow
  ptns : List (Int × Bytes)
deriving Repr, DecidableEq, Inhabited

/-- `selectTODO`: games with a notation and no `ptns` row -/
def todo (db : DB) : List GameRow :=
  db.games.filter fun g => !g.notn.isEmpty && !db.ptns.any (·.1 == g.id)

/-- one worker's loop over the rows it receives: the `(id, text)` pairs it sends on.  A row without text is skipped
whether or not an error came with it; a Go panic inside `ParseServer` would end the process. -/
def worker (env : Env) (penv : PTN.Env) : List GameRow → R (List (Int × Bytes))
  | [] => .ok []
  | g :: rest =>
    match importOne env penv g with
    | .error (.illegal _) => worker env penv rest
    | .error e => .error e
    | .ok none => worker env penv rest
    | .ok (some text) =>
      if text.isEmpty then worker env penv rest else
      match worker env penv rest with
      | .error e => .error e
      | .ok out => .ok ((g.id, text) :: out)

/-- `INSERT INTO ptns` into a table kept in `id` order -/
def insertRow (row : Int × Bytes) : List (Int × Bytes) → List (Int × Bytes)
  | [] => [row]
  | r :: rest => if row.1 < r.1 then row :: r :: rest else r :: insertRow row rest

/-- `(*Command).Execute` on an opened database -/
def execute (env : Env) (penv : PTN.Env) (db : DB) : R DB :=
  match worker env penv (todo db) with
  | .error e => .error e
  | .ok rows => .ok { db with ptns := rows.foldl (fun t r => insertRow r t) db.ptns }

/-- the byte-level models plugged in -/
def takEnv (dateTime : Int → Bytes × Bytes) : Env :=
  { parseServer := Tak.Server.parseServer
    dateTime := dateTime }

end Tak.CmdImport
