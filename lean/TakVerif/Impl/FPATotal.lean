import TakVerif.Impl.Friendly

/-! `cmd/internal/playtak/fpa.go` **with** `fixes/C07-fpa-script-declines.diff`: the scripts of the double-stack and the
cairn rule decline instead of panicking.

`(*DoubleStack).GetMove` and `(*Cairn).GetMove` begin with `defer declineOnPanic(&m, &ok)`; `declineOnPanic` is
`if recover() != nil { *m, *ok = tak.Move{}, false }`.  Whatever panics inside the script (`dir`: "bad dir() call",
`adjacent`: "no empty adjacency", the two explicit panics of the cairn script) — the call returns `(tak.Move{}, false)`,
which `Friendly.GetMove` reads as "the rule has no scripted move here" and goes on to the searching player.  The scripts
write nothing before they panic (they only read the rule's notes), so the deferred function is the whole difference:
`getMoveD` is `getMove` (`Impl/FPA.lean`: the scripts with their panics, the model C20's evaluated openings are built on)
with every error turned into `ok = false`.  `(*CenterBlack).GetMove` is unchanged (it has no `defer`, and no panic). -/
namespace Tak.FPA

/-- `FPARule.GetMove` after `fixes/C07-fpa-script-declines.diff` -/
def getMoveD (var : Variant) (r : Rule) (v : View) : R (Option Move) :=
  match var with
  | .center => getMove .center r v
  | var =>
    match getMove var r v with
    | .ok y => .ok y
    | .error _ => .ok none       -- `recover() != nil`: `*m, *ok = tak.Move{}, false`

end Tak.FPA

namespace Tak.Glue
open Tak.FPA

/-- third block of `Friendly.GetMove` — `if f.fpa != nil { m, ok := f.fpa.GetMove(p); if ok { return m } }` — with the
declining scripts -/
def fpaScriptD (fpa : Option (Variant × Rule)) (p : Pos) : R (Option Move) :=
  match fpa with
  | none => .ok none
  | some (var, r) => getMoveD var r (viewOfPos p)

/-- `(*Friendly).GetMove(ctx, p, mine, theirs)` on the tree with `fixes/C07-fpa-script-declines.diff` (and
`fixes/C07-fpa-record-notes.diff`): `friendlyGetMove` with the declining scripts -/
def friendlyGetMoveD (fpa : Option (Variant × Rule)) (g : GameRec) (p : Pos) (o : CheckOracle) :
    R (Option (Variant × Rule) × Action) := do
  let (fpa, rejected) ← fpaCheck fpa g p
  match rejected with
  | some msg => .ok (fpa, .resign msg)
  | none =>
  if p.toMove ≠ g.color then .ok (fpa, .noMove) else do
  match ← fpaScriptD fpa p with
  | some m => .ok (fpa, .move m)
  | none =>
    let w ← waitUndo g o
    .ok (fpa, .think (some Facts.maxThink) (some (if w then .undo else .minThink)))

end Tak.Glue
