import TakVerif.Impl.Move

/-! Mirror of `tei/server.go`: `Engine.Run` command dispatch, `parsePosition`, `calcBudget`, `analyze`.

The model is of the tree **with** the three repairs proposed in `fixes/C17-*.diff`, `fixes/C13-tei-*.diff`:
* `calcBudget` tests "no clock given" (`gametime == 0`) instead of `budget == 0`;
* `parsePosition` refuses to build a start position while no size is configured (`size == 0`);
* `analyze` returns an error instead of indexing an empty principal variation.

Abstracted (parameters of `Env`): the PTN move parser and the TPS parser (modelled by other
packages; here any function `String → R _`), the move formatter, and the searcher
(`ai.MinimaxAI.Analyze`), an arbitrary oracle.  Tokenisation (`bufio.ReadString('\n')`,
`strings.TrimSpace`, `strings.Fields`) is modelled for ASCII input in `tokenize`; the dispatch itself
works on lists of words, so the theorems quantify over every list of word lists. -/
namespace Tak.TEI

/-! ### Go integer helpers -/

def two63 : Int := 9223372036854775808
def two64 : Int := 18446744073709551616

/-- `int64` wrap-around of an unbounded integer -/
def wrap64 (v : Int) : Int := (v + two63) % two64 - two63

/-- `time.Millisecond` in nanoseconds (Go standard library constant, not a repository constant) -/
def millisecond : Int := 1000000

/-- `tei.calcBudget` on mathematical integers (nanoseconds). -/
def calcBudget (movetime gametime inc : Int) : Int :=
  let budget :=
    if gametime ≠ 0 then
      let b := gametime / 5 + inc
      if b > gametime - millisecond then gametime - millisecond else b
    else 0
  if movetime > 0 ∧ (gametime = 0 ∨ movetime < budget) then movetime else budget

/-- `tei.calcBudget` as the machine computes it: truncating division, every sum wrapped to `int64`. -/
def calcBudget64 (movetime gametime inc : Int) : Int :=
  let budget :=
    if gametime ≠ 0 then
      let b := wrap64 (Int.tdiv gametime 5 + inc)
      if b > wrap64 (gametime - millisecond) then wrap64 (gametime - millisecond) else b
    else 0
  if movetime > 0 ∧ (gametime = 0 ∨ movetime < budget) then movetime else budget

/-- the rule as it stands in the pinned tree (`budget == 0` instead of `gametime == 0`): kept only to
state the counterexample -/
def calcBudgetPinned (movetime gametime inc : Int) : Int :=
  let budget :=
    if gametime ≠ 0 then
      let b := gametime / 5 + inc
      if b > gametime - millisecond then gametime - millisecond else b
    else 0
  if movetime > 0 ∧ (budget = 0 ∨ movetime < budget) then movetime else budget

/-! ### strconv -/

def digitVal (c : Char) : Option Nat :=
  if '0' ≤ c ∧ c ≤ '9' then some (c.toNat - '0'.toNat) else none

def digitsVal : List Char → Nat → Option Nat
  | [], acc => some acc
  | c :: cs, acc => match digitVal c with
    | some d => digitsVal cs (acc * 10 + d)
    | none => none

/-- `strconv.ParseUint(s, 10, 64)`: decimal digits only, no sign, no underscores, value < 2^64 -/
def parseUint64 (s : String) : Option Nat :=
  match s.toList with
  | [] => none
  | cs => match digitsVal cs 0 with
    | some v => if v < 18446744073709551616 then some v else none
    | none => none

/-- `strconv.Atoi`: optional sign, decimal digits.  Returns the value Go returns *together with*
whether `err == nil`: 0 on a syntax error, the nearest `int64` bound on a range error. -/
def atoi (s : String) : Int × Bool :=
  let (neg, ds) := match s.toList with
    | '-' :: r => (true, r)
    | '+' :: r => (false, r)
    | r => (false, r)
  match ds with
  | [] => (0, false)
  | _ => match digitsVal ds 0 with
    | none => (0, false)
    | some v =>
      if neg then (if v ≤ 9223372036854775808 then (-(v : Int), true) else (-9223372036854775808, false))
      else (if v < 9223372036854775808 then ((v : Int), true) else (9223372036854775807, false))

/-! ### tokenisation (ASCII) -/

/-- `unicode.IsSpace` on the ASCII range (`strings.Fields`' fast path table) -/
def isSpace (c : Char) : Bool :=
  c == ' ' || c == '\t' || c == '\n' || c == '\x0b' || c == '\x0c' || c == '\r'

def fieldsAux : List Char → List Char → List String → List String
  | [], cur, acc => (if cur.isEmpty then acc else String.ofList cur.reverse :: acc).reverse
  | c :: cs, cur, acc =>
    if isSpace c then fieldsAux cs [] (if cur.isEmpty then acc else String.ofList cur.reverse :: acc)
    else fieldsAux cs (c :: cur) acc

/-- `strings.Fields(strings.TrimSpace(line))` -/
def fields (line : List Char) : List String := fieldsAux line [] []

def linesAux : List Char → List Char → List (List Char) → List (List Char)
  | [], _, acc => acc.reverse            -- an unterminated tail is dropped: `ReadString` returns it with io.EOF
  | c :: cs, cur, acc =>
    if c == '\n' then linesAux cs [] (cur.reverse :: acc) else linesAux cs (c :: cur) acc

/-- the commands `Run` sees: complete lines only, each split into words -/
def tokenize (stream : List Char) : List (List String) :=
  (linesAux stream [] []).map fields

/-! ### the engine -/

/-- what `ai.MinimaxAI.Analyze` hands back, as far as `analyze` uses it -/
structure SearchRes where
  depth : Int
  elapsedMs : Int
  nodes : Nat
  val : Int
  pv : List Move
deriving Repr, Inhabited

/-- the abstracted collaborators -/
structure Env where
  basis : Array W
  parseMove : String → R Move
  parseTPS : String → R Pos
  fmtMove : Move → String
  /-- the searcher: may depend on the whole history (index of the command), the position, the time limit -/
  search : Nat → Pos → Option Int → SearchRes

/-- `tei.Engine`'s remembered state. `mm` = the size the cached searcher was built for. -/
structure Engine where
  mm : Option Int := none
  pos : Option Pos := none
  size : Int := 0
deriving Repr, Inhabited

/-- replaying the listed moves: `for _, w := range words { ParseMove; pos.Move }` -/
def replay (env : Env) : Pos → List String → R Pos
  | pos, [] => .ok pos
  | pos, w :: ws =>
    match env.parseMove w with
    | .error e => .error e
    | .ok m =>
      match pos.apply env.basis m with
      | .error e => .error e
      | .ok q => replay env q ws

/-- `parsePosition(size, words)`; `words` is the whole command line (`words[0] = "position"`). -/
def parsePosition (env : Env) (size : Int) (words : List String) : R Pos :=
  -- [fix C13-tei-position] no game configured yet
  if size = 0 then .error (.illegal "no game in progress") else
  match words.drop 1 with
  | [] => .error (.illegal "not enough arguments")
  | w0 :: rest =>
    let start : R (Pos × List String) :=
      if w0 = "startpos" then
        match Pos.new { size := size.toNat, pieces := 0, capstones := 0, blackWinsTies := false } with
        | .ok p => .ok (p, rest)
        | .error e => .error e
      else if w0 = "tps" then
        if (w0 :: rest).length < 4 then .error (.illegal "position tps: not enough arguments") else
        match env.parseTPS (" ".intercalate (rest.take 3)) with
        | .error e => .error e
        | .ok p =>
          if (p.cfg.size : Int) ≠ size then .error (.illegal "tps has wrong size") else .ok (p, rest.drop 3)
      else .error (.illegal "Unknown initial position")
    match start with
    | .error e => .error e
    | .ok (pos, words) =>
      match words with
      | [] => .ok pos
      | w :: ms =>
        if w ≠ "moves" then .error (.illegal "position: expected `moves'") else replay env pos ms

/-- the clock fields `analyze` fills from its arguments -/
structure GoArgs where
  movetime : Int := 0
  white : Int := 0
  black : Int := 0
  winc : Int := 0
  binc : Int := 0
deriving Repr, DecidableEq, Inhabited

/-- `time.Millisecond * time.Duration(ms)` for a `uint64` ms -/
def msToDuration (ms : Nat) : Int := wrap64 (millisecond * wrap64 ms)

/-- the option loop of `analyze`; `none` = one of its three error returns -/
def parseGoArgs : List String → GoArgs → Option GoArgs
  | [], a => some a
  | [_], _ => none                                   -- "%s: expected arg"
  | opt :: arg :: rest, a =>
    if opt = "movetime" ∨ opt = "wtime" ∨ opt = "btime" ∨ opt = "winc" ∨ opt = "binc" then
      match parseUint64 arg with
      | none => none                                  -- "cannot parse value"
      | some ms =>
        let d := msToDuration ms
        let a := if opt = "movetime" then { a with movetime := d }
                 else if opt = "wtime" then { a with white := d }
                 else if opt = "btime" then { a with black := d }
                 else if opt = "winc" then { a with winc := d }
                 else { a with binc := d }
        parseGoArgs rest a
    else none                                         -- "Unknown option"

/-- the time limit `analyze` puts on the search: `none` = no limit -/
def goBudget (pos : Pos) (a : GoArgs) : Option Int :=
  let (tm, inc) := if pos.toMove == .white then (a.white, a.winc) else (a.black, a.binc)
  if a.movetime > 0 ∨ tm > 0 then some (calcBudget64 a.movetime tm inc) else none

def fmtPV (env : Env) (pv : List Move) : String :=
  String.join (pv.map (fun m => " " ++ env.fmtMove m))

def infoLine (env : Env) (r : SearchRes) : String :=
  s!"info depth {r.depth} time {r.elapsedMs} nodes {r.nodes} score cp {r.val} pv{fmtPV env r.pv}"

/-- result of `analyze`: the engine afterwards, the lines written; `err` = it returned an error
(which `Run` only logs) -/
structure GoResult where
  st : Engine
  out : List String
  err : Bool
  /-- the duration handed to `context.WithTimeout` (`none`: no deadline installed) -/
  deadline : Option Int := none
deriving Inhabited

/-- `Engine.analyze`; `k` = index of the command in the stream (handed to the search oracle). -/
def analyze (env : Env) (k : Nat) (st : Engine) (words : List String) : R GoResult :=
  match st.pos with
  | none => .ok { st := st, out := [], err := true }                 -- "No position provided"
  | some pos =>
    -- NewMinimax(cfg): allocates per-size positions and indexes the per-size weight table
    let mm? : R Int := match st.mm with
      | some s => .ok s
      | none => if st.size < 3 ∨ st.size > 8 then .error (.panic "NewMinimax: size") else .ok st.size
    match mm? with
    | .error e => .error e
    | .ok mmSize =>
    let st := { st with mm := some mmSize }
    match parseGoArgs (words.drop 1) {} with
    | none => .ok { st := st, out := [], err := true }
    | some a =>
      let budget := goBudget pos a
      if mmSize ≠ (pos.cfg.size : Int) then .error (.panic "Analyze: wrong size") else
      let r := env.search k pos budget
      match r.pv with
      | [] => .ok { st := st, out := [], err := true, deadline := budget }   -- [fix C13-tei-go] was: pv[0] panics
      | m :: _ => .ok { st := st, out := [infoLine env r, "bestmove " ++ env.fmtMove m], err := false, deadline := budget }

/-- how `Run` ended -/
inductive Exit where
  | eof            -- input exhausted: `return nil`
  | quit           -- `return nil`
  | error          -- `return fmt.Errorf(…)`
  | panic (site : String)
deriving Repr, DecidableEq, Inhabited

/-- one processed command: what was written and the engine afterwards -/
structure Rec where
  out : List String
  st : Engine
  /-- the deadline `analyze` installed while this command ran (`none`: none) -/
  deadline : Option Int := none
deriving Inhabited

inductive Step where
  | cont (r : Rec)
  | stop (x : Exit) (r : Rec)
deriving Inhabited

/-- one iteration of the `for` loop in `Run` on an already split line -/
def step (env : Env) (k : Nat) (st : Engine) (words : List String) : Step :=
  match words with
  | [] => .cont { out := [], st := st }                 -- `if line == "" { continue }`
  | w0 :: _ =>
    if w0 = "tei" then .cont { out := ["id name Taktician", "id author Nelson Elhage", "teiok"], st := st }
    else if w0 = "quit" then .stop .quit { out := [], st := st }
    else if w0 = "teinewgame" then
      let st := { st with mm := none, pos := none }
      match words.drop 1 with
      | w1 :: _ =>
        -- `e.size, err = strconv.Atoi(..)` stores Atoi's value even when it reports an error
        let (n, ok) := atoi w1
        let st := { st with size := n }
        if !ok ∨ n < 3 ∨ n > 8 then .stop .error { out := [], st := st } else .cont { out := [], st := st }
      | [] => .cont { out := [], st := { st with size := 5 } }
    else if w0 = "position" then
      match parsePosition env st.size words with
      | .ok p => .cont { out := [], st := { st with pos := some p } }
      | .error (.panic s) => .stop (.panic s) { out := [], st := st }
      | .error (.hang s) => .stop (.panic ("hang " ++ s)) { out := [], st := st }
      -- `e.pos, err = parsePosition(..)` stores nil together with the error
      | .error (.illegal _) => .stop .error { out := [], st := { st with pos := none } }
    else if w0 = "go" then
      match analyze env k st words with
      | .ok r => .cont { out := r.out, st := r.st, deadline := r.deadline }
      | .error (.panic s) => .stop (.panic s) { out := [], st := st }
      | .error (.hang s) => .stop (.panic ("hang " ++ s)) { out := [], st := st }
      | .error (.illegal _) => .cont { out := [], st := st }
    else if w0 = "stop" then .cont { out := [], st := st }
    else if w0 = "isready" then .cont { out := ["readyok"], st := st }
    else .stop .error { out := [], st := st }          -- "Unknown command"

/-- `Engine.Run` over the commands of the stream: the per-command records and how it ended. -/
def runFrom (env : Env) : Nat → Engine → List (List String) → List Rec × Exit
  | _, _, [] => ([], .eof)
  | k, st, ws :: rest =>
    match step env k st ws with
    | .stop x r => ([r], x)
    | .cont r =>
      let (rs, x) := runFrom env (k+1) r.st rest
      (r :: rs, x)

def run (env : Env) (cmds : List (List String)) : List Rec × Exit := runFrom env 0 {} cmds

end Tak.TEI
