import TakVerif.Impl.PTNReal
import TakVerif.Impl.Symmetry

/-! Mirror of `cmd/internal/canonicalize/main.go`: `taktician canonicalize FILE.ptn`.

`Execute` reads the file with `ptn.ParseFile` (= `PTN.parsePTN`), collects the moves of its `*ptn.Move` ops, reads the
`Size` tag with `strconv.ParseUint(_, 10, 32)`, calls `symmetry.Canonical(size, moves)` (= `Tak.canonical`), writes the
result back INTO the move ops (numbers, marks, comments, the result stay where they were) and prints the file with
`fmt.Printf(g.Render())` — the rendered text is used as a FORMAT STRING, so every `%` a comment or a tag value carries
is read as a verb with no operand (`printf0` below mirrors `fmt`'s `doPrintf` for an empty operand list).

Outcomes: `usage` (no argument), `fatal` (the command left through `log.Fatalf`: unreadable / unparsable file, a `Size`
tag that is no unsigned 32-bit number, a game `Canonical` rejects), `printed out`, `crash` (a Go panic: `tak.New` inside
`Canonical` for a size outside 3..8).

Not modelled: the file system (the file is its content, or absent). -/
namespace Tak.CmdCanon
open _root_.PTN (File Op Tag)
open Go (Bytes lit)

/-! ### `fmt.Printf(format)` without operands -/

/-- `utf8.DecodeRuneInString(s)`: the width of a well-formed first rune (`none`: `RuneError`, width 1) -/
def runeLen (s : Bytes) : Option Nat :=
  let cont (b : UInt8) : Bool := 0x80 ≤ b && b ≤ 0xBF
  match s with
  | [] => none
  | b0 :: rest =>
    if b0 < 0x80 then some 1
    else if 0xC2 ≤ b0 && b0 ≤ 0xDF then
      match rest with
      | b1 :: _ => if cont b1 then some 2 else none
      | _ => none
    else if 0xE0 ≤ b0 && b0 ≤ 0xEF then
      match rest with
      | b1 :: b2 :: _ =>
        let lo : UInt8 := if b0 == 0xE0 then 0xA0 else 0x80
        let hi : UInt8 := if b0 == 0xED then 0x9F else 0xBF
        if lo ≤ b1 && b1 ≤ hi && cont b2 then some 3 else none
      | _ => none
    else if 0xF0 ≤ b0 && b0 ≤ 0xF4 then
      match rest with
      | b1 :: b2 :: b3 :: _ =>
        let lo : UInt8 := if b0 == 0xF0 then 0x90 else 0x80
        let hi : UInt8 := if b0 == 0xF4 then 0x8F else 0xBF
        if lo ≤ b1 && b1 ≤ hi && cont b2 && cont b3 then some 4 else none
      | _ => none
    else none

/-- `parsenum(s, start, end)` on `s[start:end]`: value, "is a number", what is left.  An overflow (`tooLarge`: more
than 10^6 before the next digit) answers `0, false, end`. -/
def parsenum : Bytes → Nat → Bool → Nat × Bool × Bytes
  | [], n, isn => (n, isn, [])
  | b :: rest, n, isn =>
    if Go.isDigit b then
      if n > 1000000 then (0, false, []) else parsenum rest (n * 10 + (b.toNat - 48)) true
    else (n, isn, b :: rest)

/-- `p.argNumber(argNum, format, i, 0)` at `format[i:] = rest`: what is left, `found` (= the new `afterIndex`), and
whether a `[` was met — with no operands every index is out of range: `p.goodArgNum = false`.
(`parseArgNumber`: fewer than 3 bytes left or no `]`: skip the `[` only; `[digits]` well formed: skip through `]`,
found; otherwise skip through `]`, not found.) -/
def argNumber (rest : Bytes) : Bytes × Bool × Bool :=
  match rest with
  | 91 :: tl =>
    if rest.length < 3 then (tl, false, true) else
    match tl.findIdx? (· == 93) with
    | none => (tl, false, true)
    | some j =>
      let (_, isn, r) := parsenum (tl.take j) 0 false
      (tl.drop (j + 1), isn && r.isEmpty, true)
  | _ => (rest, false, false)

def isFlag (b : UInt8) : Bool := b == 35 || b == 48 || b == 43 || b == 45 || b == 32

def badWidth : Bytes := lit "%!(BADWIDTH)"
def badPrec : Bytes := lit "%!(BADPREC)"
def noVerb : Bytes := lit "%!(NOVERB)"

/-- one verb of `doPrintf` (the text after a `%`) for an empty operand list: what is written, and what is left of the
format (`none`: the format ended inside the verb, `break`) -/
def doVerb (rest : Bytes) : Bytes × Option Bytes :=
  let r := rest.dropWhile isFlag
  let (r, after, bad1) := argNumber r
  -- width
  let (r, w1, after, bad2) :=
    match r with
    | 42 :: tl => (tl, badWidth, false, false)
    | _ =>
      let (_, widPresent, r') := parsenum r 0 false
      (r', [], after, after && widPresent)
  -- precision (`i+1 < end && format[i] == '.'`)
  let (r, w2, after, bad3) :=
    match r with
    | 46 :: c :: tl =>
      let (r2, after2, bad4) := argNumber (c :: tl)
      match r2 with
      | 42 :: tl2 => (tl2, badPrec, false, after || bad4)
      | _ =>
        let (_, _, r3) := parsenum r2 0 false
        (r3, [], after2, after || bad4)
    | _ => (r, [], after, false)
  let (r, bad5) := if after then (r, false) else let (r', _, b) := argNumber r; (r', b)
  match r with
  | [] => (w1 ++ w2 ++ noVerb, none)
  | b :: tl =>
    let (verb, r') : Bytes × Bytes :=
      if b < 0x80 then ([b], tl) else
      match runeLen r with
      | some k => (r.take k, r.drop k)
      | none => ([0xEF, 0xBF, 0xBD], tl)
    let body :=
      if verb == [37] then [37]
      else if bad1 || bad2 || bad3 || bad5 then lit "%!" ++ verb ++ lit "(BADINDEX)"
      else lit "%!" ++ verb ++ lit "(MISSING)"
    (w1 ++ w2 ++ body, some r')

def printfLoop : Nat → Bytes → Bytes
  | 0, _ => []
  | fuel + 1, s =>
    let text := s.takeWhile (· != 37)
    match s.dropWhile (· != 37) with
    | [] => text
    | _ :: r =>
      match doVerb r with
      | (w, none) => text ++ w
      | (w, some r') => text ++ w ++ printfLoop fuel r'

/-- `fmt.Printf(format)` with no operands: what is written -/
def printf0 (format : Bytes) : Bytes := printfLoop (format.length + 1) format

/-! ### the command -/

/-- `strconv.ParseUint(s, 10, 32)`: decimal digits only (no sign, no underscore), at least one, value below 2^32 -/
def parseUint32 (s : Bytes) : Option Nat :=
  if s.isEmpty then none else
  match Go.digitsVal s 0 with
  | none => none
  | some n => if n < 4294967296 then some n else none

/-- `for _, o := range g.Ops { if m, ok := o.(*ptn.Move); ok { ms = append(ms, m.Move) } }` -/
def movesOf : List Op → List Move
  | [] => []
  | .move _ m _ :: rest => m :: movesOf rest
  | _ :: rest => movesOf rest

/-- the second loop: `m.Move = out[i]; i++` on every move op (an `out` that is too short is an index panic) -/
def setMoves : List Op → List Move → R (List Op)
  | [], _ => .ok []
  | .move src _ mods :: rest, out =>
    match out with
    | [] => .error (.panic "out[i]: index out of range")
    | m :: out' =>
      match setMoves rest out' with
      | .error e => .error e
      | .ok ops => .ok (.move src m mods :: ops)
  | o :: rest, out =>
    match setMoves rest out with
    | .error e => .error e
    | .ok ops => .ok (o :: ops)

inductive Exit where
  | usage
  | fatal (why : String)
  | printed (out : Bytes)
  | crash (e : Err)
deriving Repr, DecidableEq, Inhabited

/-- the file the command would print (before `Printf`): the parsed file with the canonical form in its move ops -/
def canonFile (canonical : Nat → List Move → R (List Move)) (f : File) : Except Exit File :=
  match parseUint32 (f.findTag PTN.tagSize) with
  | none => .error (.fatal "bad size")
  | some sz =>
    match canonical sz (movesOf f.ops) with
    | .error (.illegal _) => .error (.fatal "canonicalize")
    | .error e => .error (.crash e)
    | .ok out =>
      match setMoves f.ops out with
      | .error e => .error (.crash e)
      | .ok ops => .ok { f with ops := ops }

/-- `(*Command).Execute`.  `arg = none`: no argument; `some none`: a file that cannot be opened. -/
def execute (env : PTN.Env) (canonical : Nat → List Move → R (List Move)) (arg : Option (Option Bytes)) : Exit :=
  match arg with
  | none => .usage
  | some none => .fatal "read"
  | some (some input) =>
    match PTN.parsePTN env input with
    | .error (.illegal _) => .fatal "read"
    | .error e => .crash e
    | .ok f =>
      match canonFile canonical f with
      | .error x => x
      | .ok g => .printed (printf0 (PTN.render env g))

/-- the command over the byte-level models of everything it calls -/
def run (basis : Array W) (arg : Option (Option Bytes)) : Exit :=
  execute (PTN.realEnv basis) (Tak.canonical basis) arg

end Tak.CmdCanon
