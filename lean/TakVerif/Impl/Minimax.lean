import TakVerif.Impl.MoveGen

/-! Mirror of `ai/minimax.go`: `ttGet/ttPut`, `teSuffices`, `recordCut`, `nullMoveOK`, `pvSearch`,
`zwSearch`, `Analyze`, `AnalyzeAll`, `GetMove`, after the repairs
`fixes/C05-reanalyze.diff` (an exact root entry also seeds the value),
`fixes/C05-stale-ttentry.diff` (the move generator keeps a copy of the table entry) and
`fixes/C04-randomize-scale.diff` (`GetMove` skips candidates whose random weight is not positive).

Recursion: the Go search recurses with `ply+1` into the preallocated `stack [maxDepth]frame`; `ai.stack[ply]`
panics for `ply = 15`.  The model recurses on the number of frames left (`search n` may use `n` more
frames), so the fuel is not an artefact: running out of it *is* the Go index panic.
`pvNode`/`zwNode` are written with the two child searches as parameters (open recursion).

Options modelled exactly: table on/off and size, `NoNullMove`, `NoReduceSlides`, `MultiCut`, `MaxEvals`,
`Depth`, `RandomizeWindow/Scale` (random numbers from the oracle).  `DedupSymmetry` is modelled relative
to `Game.symHashes` (instantiated for Tak by the driver with `Tak.symmetries`, the model of `symmetry.Symmetries`).  Sorting: see `MoveGen.lean`.  Deadlines (`ctx.Deadline`) are not modelled
(callers in the harness use contexts without deadline); `Debug` logging and the cut log are ignored. -/
namespace Search
open Tak (Err)

variable {P M : Type}

abbrev PV (M : Type) := Option (List M)
/-- `([]tak.Move, int64)`; a `nil` slice is `none` -/
abbrev Res (M : Type) := PV M × Int

abbrev PvFn (P M : Type) := P → Nat → Int → List M → Int → Int → Eng M → Except Err (Res M × Eng M)
abbrev ZwFn (P M : Type) := P → Nat → Int → List M → Int → Bool → Eng M → Except Err (Res M × Eng M)

/-! ### transposition table -/

/-- `h % uint64(len(m.table))` -/
def slot1 (s : Eng M) (h : H) : Nat := h.toNat % s.table.size
/-- `(h * hashMul) % uint64(len(m.table))` -/
def slot2 (s : Eng M) (h : H) : Nat := (h * BitVec.ofNat 64 Facts.hashMul).toNat % s.table.size

/-- `ttGet`; the entry is returned by value (all uses read it before any table write) -/
def ttGet (s : Eng M) (h : H) : Except Err (Option (TEntry M)) :=
  if !s.hasTable then .ok none
  else if s.table.size == 0 then .error (.panic "ttGet: integer divide by zero")
  else
    match s.table[slot1 s h]?, s.table[slot2 s h]? with
    | some e1, some e2 =>
      if e1.hash == h then .ok (some e1)
      else if e2.hash == h then .ok (some e2)
      else .ok none
    | _, _ => .error (.panic "ttGet: index")

/-- `atomic.LoadInt32(ai.cancel) != 0` -/
def load (o : Oracle M) (s : Eng M) : Bool × Eng M :=
  (o.cancel s.loads s.evals, { s with loads := s.loads + 1 })

/-- `if m.table[i1].hash != 0 { m.table[i2] = m.table[i1] }` -/
def Eng.evict (s : Eng M) (h : H) : Eng M :=
  match s.table[slot1 s h]? with
  | none => s
  | some e1 =>
    if e1.hash != 0#64 then
      let t := s.table
      let i2 := slot2 s h
      let s := { s with table := #[] }
      { s with table := t.setIfInBounds i2 e1, wlog := (i2, e1) :: s.wlog }
    else s

/-- the index of `&m.table[i1]` (`len(m.table) = 0` panics with a division by zero) -/
def ttSlotIdx (s : Eng M) (h : H) : Except Err Nat :=
  if s.table.size == 0 then .error (.panic "ttPut: integer divide by zero")
  else if slot1 s h < s.table.size then .ok (slot1 s h)
  else .error (.panic "ttPut: index")

/-- `ttPut`: no table, or the cancel flag is set: `nil`; else the slot to write (`&m.table[i1]`) after moving its
old content to the second slot -/
def ttPut (o : Oracle M) (s : Eng M) (h : H) : Except Err (Option Nat × Eng M) :=
  if !s.hasTable then .ok (none, s)
  else
    let r := load o s
    if r.1 then .ok (none, r.2)
    else (ttSlotIdx r.2 h).bind fun i => .ok (some i, r.2.evict h)

def Eng.setEntry (s : Eng M) (i : Nat) (e : TEntry M) : Eng M :=
  let t := s.table
  let s := { s with table := #[] }
  { s with table := t.setIfInBounds i e, wlog := (i, e) :: s.wlog }

/-- `teSuffices` -/
def teSuffices (te : TEntry M) (depth : Int) (α β : Int) : Bool :=
  (te.depth ≥ depth &&
    (te.bound == Facts.exactBound ||
     (te.value < α && te.bound == Facts.upperBound) ||
     (te.value > β && te.bound == Facts.lowerBound))) ||
  (te.bound == Facts.exactBound && (te.value > Facts.winThreshold || te.value < -Facts.winThreshold))

/-- `recordCut` (statistics and the response map; `history` feeds only `sortMoves`, see `MoveGen.lean`) -/
def recordCut [DecidableEq M] (s : Eng M) (m : M) (move : Nat) (ply : Nat) : Except Err (Eng M) :=
  let st := { s.st with cutNodes := s.st.cutNodes + 1 }
  let st := if move == 1 then { st with cut0 := st.cut0 + 1 }
            else if move == 2 then { st with cut1 := st.cut1 + 1 }
            else { st with cutSearch := st.cutSearch + (move + 1) }
  if ply > 0 then
    match getA s.stackM (ply - 1) "stack[ply-1].m" with
    | .error e => .error e
    | .ok prev => .ok { s with st := st, response := respPut s.response prev m }
  else .ok { s with st := st }

/-- the `depth <= 0 || over` exit of both searches -/
def leaf (g : Game P M) (p : P) (over : Bool) (s : Eng M) : Res M × Eng M :=
  let st := { s.st with evaluated := s.st.evaluated + 1 }
  let st := if over then { st with terminal := st.terminal + 1 } else st
  ((none, g.eval p), { s with st := st, evals := s.evals + 1 })

/-- the table probe at the head of both searches: `inl r` = return `r` (shortcut), `inr te` = go on with
this hint entry (`te = nil` when its move was rejected) -/
def ttProbe (g : Game P M) (p : P) (ply : Nat) (depth α β : Int) (s : Eng M) :
    Except Err ((Res M ⊕ Option (TEntry M)) × Eng M) := do
  let te ← ttGet s (g.hash p)
  match te with
  | none => pure (.inr none, s)
  | some e =>
    let s := { s with st := { s.st with ttHits := s.st.ttHits + 1 } }
    if teSuffices e depth α β then
      match g.apply p e.m with
      | .ok _ => do
        let s := { s with st := { s.st with ttShortcut := s.st.ttShortcut + 1 } }
        let pv0 ← setA s.pv0 ply e.m "stack[ply].pv"
        pure (.inl (some [e.m], e.value), { s with pv0 := pv0 })
      | .error (.illegal _) => pure (.inr none, s)
      | .error err => throw err
    else pure (.inr (some e), s)

/-! ### pvSearch -/

structure PvAcc (M : Type) where
  α : Int
  best : List M
  improved : Bool
  i : Nat
  seen : List H

/-- `if atomic.LoadInt32(ai.cancel) != 0 { return nil, 0 }` at the end of a loop iteration -/
def afterChild {σ : Type} (o : Oracle M) (a : σ) (s : Eng M) : Ctl σ (Res M) × Eng M :=
  let (c, s) := load o s
  if c then (.ret (none, 0), s) else (.next a, s)

/-- value of one child in `pvSearch`: the first child with the full window, the others by a zero-window
scout and a full re-search when the scout value falls strictly inside the window -/
def pvChild (cpv : PvFn P M) (czw : ZwFn P M) (i : Nat) (child : P) (ply : Nat) (depth : Int)
    (tail : List M) (α β : Int) (s : Eng M) : Except Err (Res M × Eng M) :=
  if i > 1 then do
    let ((ms, v), s) ← czw child (ply + 1) (depth - 1) tail (-α - 1) true s
    if -v > α && -v < β then
      cpv child (ply + 1) (depth - 1) tail (-β) (-α) { s with st := { s.st with reSearch := s.st.reSearch + 1 } }
    else pure ((ms, v), s)
  else cpv child (ply + 1) (depth - 1) tail (-β) (-α) s

/-- the body of the child loop of `pvSearch` -/
def pvBody [DecidableEq M] (g : Game P M) (o : Oracle M) (cpv : PvFn P M) (czw : ZwFn P M)
    (ply : Nat) (depth β : Int) (dedup : Bool)
    (m : M) (child : P) (a : PvAcc M) (s : Eng M) : Except Err (Ctl (PvAcc M) (Res M) × Eng M) :=
  if dedup && a.seen.contains (g.hash child) then pure (.next a, s) else do
  let a := if dedup then { a with seen := a.seen ++ g.symHashes child } else a
  let a := { a with i := a.i + 1 }
  let sm ← setA s.stackM ply m "stack[ply].m"
  let r ← pvChild cpv czw a.i child ply depth (a.best.drop 1) a.α β { s with stackM := sm }
  let ms := r.1.1
  let v := -r.1.2
  let s := r.2
  if v > a.α then do
    let pv0 ← setA s.pv0 ply m "stack[ply].pv"
    let s := { s with pv0 := pv0 }
    let a := { a with improved := true, best := m :: ms.getD [], α := v }
    if v ≥ β then do
      let s ← recordCut s m a.i ply
      pure (.brk a, s)
    else pure (afterChild o a s)
  else pure (afterChild o a s)

/-- `best := append(stack[ply].pv[:0], pv...); if len(best) == 0 { best = best[:1] }` -/
def pvInitBest (ply : Nat) (pv : List M) (s : Eng M) : Except Err (List M × Eng M) :=
  match pv with
  | x :: _ => do
    let pv0 ← setA s.pv0 ply x "stack[ply].pv"
    pure (pv, { s with pv0 := pv0 })
  | [] => do
    let x ← getA s.pv0 ply "stack[ply].pv"
    pure ([x], s)

/-- the table store at the end of `pvSearch` -/
def pvStore (o : Oracle M) (hash : H) (depth β : Int) (a : PvAcc M) (s : Eng M) : Except Err (Res M × Eng M) := do
  let (slot?, s) ← ttPut o s hash
  match slot? with
  | none => pure ((some a.best, a.α), s)
  | some slot =>
    match s.table[slot]?, a.best with
    | some old, b0 :: _ =>
      if old.hash != hash || old.depth ≤ depth then
        let bound := if !a.improved then Facts.upperBound
                     else if a.α ≥ β then Facts.lowerBound else Facts.exactBound
        let s := if !a.improved then { s with st := { s.st with allNodes := s.st.allNodes + 1 } } else s
        pure ((some a.best, a.α), s.setEntry slot ⟨hash, a.α, b0, bound, depth⟩)
      else pure ((some a.best, a.α), s)
    | _, _ => throw (.panic "pvSearch: best[0]")

/-- `pvSearch` with the recursive calls abstracted; `frame = false` models `ply = maxDepth` -/
def pvNode [DecidableEq M] (g : Game P M) (cfg : SOpts) (o : Oracle M) (frame : Bool)
    (cpv : PvFn P M) (czw : ZwFn P M) : PvFn P M := fun p ply depth pv α β s =>
  let over := g.over p
  if depth ≤ 0 || over then pure (leaf g p over s) else
  if !frame then throw (.panic "ai.stack[ply]: index out of range") else do
  let st := { s.st with visited := s.st.visited + 1 }
  let st := if β == α + 1 then { st with scout := st.scout + 1 } else st
  let s := { s with st := st }
  let dedup := cfg.dedupSymmetry && g.moveNumber p < Facts.maxDedup
  let (probe, s) ← ttProbe g p ply depth α β s
  match probe with
  | .inl r => pure (r, s)
  | .inr te => do
    let (best, s) ← pvInitBest ply pv s
    let (c, s) ← iterate g cfg o p ⟨ply, depth, te, pv⟩ (pvBody g o cpv czw ply depth β dedup)
      ⟨α, best, false, 0, []⟩ s
    match c with
    | .ret r => pure (r, s)
    | .next a => pvStore o (g.hash p) depth β a s
    | .brk a => pvStore o (g.hash p) depth β a s

/-! ### zwSearch -/

/-- `nullMoveOK` -/
def nullMoveOK (g : Game P M) (cfg : SOpts) (ply : Nat) (depth : Int) (p : P) (s : Eng M) : Except Err Bool :=
  if cfg.noNullMove then pure false
  else if ply == 0 || depth < 3 then pure false
  else do
    let prev ← getA s.stackM (ply - 1) "stack[ply-1].m"
    if g.isPass prev then pure false else pure (g.nullOK p)

/-- the null-move attempt of `zwSearch`: `some r` = return `r` (null-move cut) -/
def nullMove (g : Game P M) (cfg : SOpts) (czw : ZwFn P M) (p : P) (ply : Nat) (depth α : Int) (s : Eng M) :
    Except Err (Option (Res M) × Eng M) := do
  let ok ← nullMoveOK g cfg ply depth p s
  if !ok then pure (none, s) else do
  let sm ← setA s.stackM ply g.passMove "stack[ply].m"
  let s := { s with stackM := sm }
  match g.apply p g.passMove with
  | .error (.illegal _) => pure (none, s)
  | .error e => throw e
  | .ok child => do
    let s := { s with st := { s.st with nullSearch := s.st.nullSearch + 1 } }
    let r ← czw child (ply + 1) (depth - 3) [] (-α - 1) true s
    let v := -r.1.2
    if v ≥ α + 1 then
      pure (some (none, v), { r.2 with st := { r.2.st with nullCut := r.2.st.nullCut + 1 } })
    else pure (none, r.2)

/-- the slide reduction of `zwSearch`: the depth to go on with -/
def slideReduction (g : Game P M) (cfg : SOpts) (p : P) (ply : Nat) (depth : Int) (s : Eng M) :
    Except Err (Int × Eng M) :=
  if !cfg.noReduceSlides && ply > 0 then do
    let prev ← getA s.stackM (ply - 1) "stack[ply-1].m"
    let red ← g.reduceSlide prev p
    if red then pure (depth - 2, { s with st := { s.st with reducedSlides := s.st.reducedSlides + 1 } })
    else pure (depth, s)
  else pure (depth, s)

structure McAcc (M : Type) where
  i : Nat
  cuts : Nat
  first : Option M

/-- body of the multi-cut loop: `m` stays the first yielded move (the loop's post statement drops it) -/
def mcBody (czw : ZwFn P M) (ply : Nat) (depth α : Int) (cut : Bool)
    (m : M) (child : P) (a : McAcc M) (s : Eng M) : Except Err (Ctl (McAcc M) (Res M) × Eng M) :=
  if a.i ≥ Facts.multiCutSearch then pure (.brk a, s) else do
  let a := { a with i := a.i + 1, first := some (a.first.getD m) }
  let sm ← setA s.stackM ply (a.first.getD m) "stack[ply].m"
  let r ← czw child (ply + 1) (depth - 1 - 2) [] (-α - 1) (!cut) { s with stackM := sm }
  let s := r.2
  if -r.1.2 > α then
    let a := { a with cuts := a.cuts + 1 }
    if a.cuts ≥ Facts.multiCutThreshold then
      pure (.ret (none, α + 1), { s with st := { s.st with mcCut := s.st.mcCut + 1 } })
    else pure (.next a, s)
  else pure (.next a, s)

/-- the multi-cut attempt of `zwSearch`: `some r` = return `r` -/
def multiCut [DecidableEq M] (g : Game P M) (cfg : SOpts) (o : Oracle M) (czw : ZwFn P M) (p : P) (mg : MG M)
    (α : Int) (cut : Bool) (s : Eng M) : Except Err (Option (Res M) × Eng M) :=
  if cfg.multiCut && cut && mg.depth > 3 then do
    let s := { s with st := { s.st with mcSearch := s.st.mcSearch + 1 } }
    let (c, s) ← iterate g cfg o p mg (mcBody czw mg.ply mg.depth α cut) (⟨0, 0, none⟩ : McAcc M) s
    match c with
    | .ret r => pure (some r, s)
    | _ => pure (none, s)
  else pure (none, s)

structure ZwAcc (M : Type) where
  best : List M
  i : Nat
  didCut : Bool

/-- body of the main loop of `zwSearch` -/
def zwBody [DecidableEq M] (o : Oracle M) (czw : ZwFn P M) (ply : Nat) (depth α : Int) (cut : Bool)
    (m : M) (child : P) (a : ZwAcc M) (s : Eng M) : Except Err (Ctl (ZwAcc M) (Res M) × Eng M) := do
  let a := { a with i := a.i + 1 }
  let sm ← setA s.stackM ply m "stack[ply].m"
  let r ← czw child (ply + 1) (depth - 1) (a.best.drop 1) (-α - 1) (!cut) { s with stackM := sm }
  let s := r.2
  if -r.1.2 > α then do
    let s ← recordCut s m a.i ply
    let pv0 ← setA s.pv0 ply m "stack[ply].pv"
    pure (.brk { a with best := m :: r.1.1.getD [], didCut := true }, { s with pv0 := pv0 })
  else pure (afterChild o a s)

/-- the table store at the end of `zwSearch` -/
def zwStore (o : Oracle M) (hash : H) (depth α : Int) (a : ZwAcc M) (s : Eng M) : Except Err (Res M × Eng M) := do
  let out : Res M := (some a.best, if a.didCut then α + 1 else α)
  let (slot?, s) ← ttPut o s hash
  match slot? with
  | none => pure (out, s)
  | some slot =>
    match a.best with
    | b0 :: _ =>
      let bound := if a.didCut then Facts.lowerBound else Facts.upperBound
      let s := if a.didCut then s else { s with st := { s.st with allNodes := s.st.allNodes + 1 } }
      pure (out, s.setEntry slot ⟨hash, α, b0, bound, depth⟩)
    | [] => throw (.panic "zwSearch: best[0]")

/-- `zwSearch` with the recursive call abstracted -/
def zwNode [DecidableEq M] (g : Game P M) (cfg : SOpts) (o : Oracle M) (frame : Bool)
    (czw : ZwFn P M) : ZwFn P M := fun p ply depth pv α cut s =>
  let over := g.over p
  if depth ≤ 0 || over then pure (leaf g p over s) else
  if !frame then throw (.panic "ai.stack[ply]: index out of range") else do
  let s := { s with st := { s.st with visited := s.st.visited + 1, scout := s.st.scout + 1 } }
  let (probe, s) ← ttProbe g p ply depth α (α + 1) s
  match probe with
  | .inl r => pure (r, s)
  | .inr te => do
    let (nm, s) ← nullMove g cfg czw p ply depth α s
    match nm with
    | some r => pure (r, s)
    | none => do
      let (depth, s) ← slideReduction g cfg p ply depth s
      let mg : MG M := ⟨ply, depth, te, pv⟩
      let (mc, s) ← multiCut g cfg o czw p mg α cut s
      match mc with
      | some r => pure (r, s)
      | none => do
        -- best := stack[ply].pv[:0]; best = best[:1]
        let x ← getA s.pv0 ply "stack[ply].pv"
        let (c, s) ← iterate g cfg o p mg (zwBody o czw ply depth α cut) (⟨[x], 0, false⟩ : ZwAcc M) s
        match c with
        | .ret r => pure (r, s)
        | .next a => zwStore o (g.hash p) depth α a s
        | .brk a => zwStore o (g.hash p) depth α a s

/-- `(pvSearch, zwSearch)` able to use `n` more frames of `ai.stack` -/
def search [DecidableEq M] (g : Game P M) (cfg : SOpts) (o : Oracle M) : Nat → PvFn P M × ZwFn P M
  | 0 =>
    let stop : ZwFn P M := fun _ _ _ _ _ _ _ => .error (.panic "ai.stack[ply]: index out of range")
    (pvNode g cfg o false (fun _ _ _ _ _ _ _ => .error (.panic "ai.stack[ply]: index out of range")) stop,
     zwNode g cfg o false stop)
  | n + 1 =>
    let r := search g cfg o n
    (pvNode g cfg o true r.1 r.2, zwNode g cfg o true r.2)

/-- `ai.pvSearch(p, ply, …)` -/
def pvSearch [DecidableEq M] (g : Game P M) (cfg : SOpts) (o : Oracle M) (ply : Nat) : P → Int → List M → Int → Int → Eng M → Except Err (Res M × Eng M) :=
  fun p depth pv α β s => (search g cfg o (Facts.maxDepth - ply)).1 p ply depth pv α β s

/-! ### Analyze -/

/-- `Stats.Merge` (receiver first): counters add, `Depth`/`Canceled` are the receiver's -/
def Stats.merge (a b : Stats) : Stats :=
  { depth := a.depth, canceled := a.canceled
    evaluated := a.evaluated + b.evaluated, scout := a.scout + b.scout, terminal := a.terminal + b.terminal
    visited := a.visited + b.visited, cutNodes := a.cutNodes + b.cutNodes
    nullSearch := a.nullSearch + b.nullSearch, nullCut := a.nullCut + b.nullCut
    cut0 := a.cut0 + b.cut0, cut1 := a.cut1 + b.cut1, cutSearch := a.cutSearch + b.cutSearch
    reSearch := a.reSearch + b.reSearch, allNodes := a.allNodes + b.allNodes
    ttHits := a.ttHits + b.ttHits, ttShortcut := a.ttShortcut + b.ttShortcut
    reducedSlides := a.reducedSlides + b.reducedSlides, mcSearch := a.mcSearch + b.mcSearch, mcCut := a.mcCut + b.mcCut }

/-- locals of `Analyze`'s deepening loop -/
structure ALoop (M : Type) where
  ms : List M
  v : Int
  st : Stats
  prevEval : Nat
  branchSum : Nat

/-- how one iteration of `Analyze`'s deepening loop ends -/
inductive AOut (M : Type) where
  /-- completed; go on with the next depth -/
  | go (a : ALoop M) (s : Eng M)
  /-- completed; `break` (decisive value, or the `MaxEvals` estimate says stop) -/
  | done (a : ALoop M) (s : Eng M)
  /-- `next == nil` or the cancel flag is set: the iteration is discarded, `st.Canceled = true; break` -/
  | cancelled (s : Eng M)

/-- the loop state after a completed iteration: `v = nv; st = m.st.Merge(st); ms = next`, branching statistics -/
def iterAcc (i : Int) (a : ALoop M) (next : List M) (nv : Int) (s : Eng M) : ALoop M :=
  { ms := next, v := nv, st := s.st.merge a.st, prevEval := s.st.evaluated
    branchSum := if i > 1 then a.branchSum + s.st.evaluated / (a.prevEval + 1) else a.branchSum }

/-- the end of a completed iteration: `break` on a decisive value or when the `MaxEvals` estimate says so -/
def iterDone (cfg : Cfg) (base i : Int) (a : ALoop M) (next : List M) (nv : Int) (s : Eng M) : AOut M :=
  let a := iterAcc i a next nv s
  if nv > Facts.winThreshold || nv < -Facts.winThreshold then .done a s
  else if cfg.maxEvals > 0 && i + base != cfg.depth then
    let branchEstimate : Nat := if i > 2 then a.branchSum / (i - 1).toNat else 5
    if s.st.evaluated * branchEstimate > cfg.maxEvals then .done a s
    else .go a s
  else .go a s

/-- `if next == nil || atomic.LoadInt32(m.cancel) != 0 { st.Canceled = true; break }` (the flag is loaded only
when `next != nil`), else the iteration counts -/
def iterEnd (cfg : Cfg) (o : Oracle M) (base i : Int) (a : ALoop M) (r : Res M × Eng M) : AOut M :=
  match r.1.1 with
  | none => .cancelled r.2
  | some next =>
    if (load o r.2).1 then .cancelled (load o r.2).2
    else iterDone cfg base i a next r.1.2 (load o r.2).2

/-- one iteration of `Analyze`'s deepening loop -/
def analyzeStep [DecidableEq M] (g : Game P M) (cfg : Cfg) (o : Oracle M) (p : P) (base : Int)
    (i : Int) (a : ALoop M) (s : Eng M) : Except Err (AOut M) :=
  (pvSearch g cfg.opts o 0 p (i + base) a.ms (Facts.minEval - 1) (Facts.maxEval + 1)
    { s with st := { depth := i + base } }).bind fun r => .ok (iterEnd cfg o base i a r)

/-- `for i := 1; i+base <= m.Cfg.Depth; i++ { … }`; `n` bounds the remaining iterations -/
def analyzeLoop [DecidableEq M] (g : Game P M) (cfg : Cfg) (o : Oracle M) (p : P) (base : Int) :
    Nat → Int → ALoop M → Eng M → Except Err (ALoop M × Eng M)
  | 0, _, a, s => .ok (a, s)
  | n + 1, i, a, s =>
    if !(i + base ≤ cfg.depth) then .ok (a, s) else
    match analyzeStep g cfg o p base i a s with
    | .error e => .error e
    | .ok (.cancelled s) => .ok ({ a with st := { a.st with canceled := true } }, s)
    | .ok (.done a s) => .ok (a, s)
    | .ok (.go a s) => analyzeLoop g cfg o p base n (i + 1) a s

/-- the seeding of iterative deepening from the root's table entry (`minimax.go` 365-372, after
`fixes/C05-reanalyze.diff`): an exact entry gives the start depth, a one-move PV and the value -/
def seedOf (te : Option (TEntry M)) : Int × List M × Int :=
  match te with
  | some e => if e.bound == Facts.exactBound then (e.depth, [e.m], e.value) else (0, [], 0)
  | none => (0, [], 0)

/-- the deepening loop of `Analyze` from a seed `(base, ms, v)`, and the returned triple -/
def analyzeFrom [DecidableEq M] (g : Game P M) (cfg : Cfg) (o : Oracle M) (p : P) (seed : Int × List M × Int)
    (s : Eng M) : Except Err ((List M × Int × Stats) × Eng M) :=
  match analyzeLoop g cfg o p seed.1 (cfg.depth - seed.1).toNat 1
      ⟨seed.2.1, seed.2.2, { depth := seed.1 }, 0, 0⟩ s with
  | .error e => .error e
  | .ok (a, s) => .ok ((a.ms, a.v, a.st), s)

/-- `Analyze` (context without deadline).  The per-call cancel flag is fresh: the load/evaluation counters
the cancel oracle is indexed by restart at 0 (and the ghost write log is cleared). -/
def analyze [DecidableEq M] (g : Game P M) (cfg : Cfg) (o : Oracle M) (p : P) (s : Eng M) :
    Except Err ((List M × Int × Stats) × Eng M) :=
  (ttGet { s with loads := 0, evals := 0, sorts := 0, rnds := 0, wlog := [] } (g.hash p)).bind fun te =>
    analyzeFrom g cfg o p (seedOf te) { s with loads := 0, evals := 0, sorts := 0, rnds := 0, wlog := [] }

/-- the generator literal of `GetMove`/`AnalyzeAll`: `ply 0`, no table entry -/
def rootMG (depth : Int) (pv : List M) : MG M := ⟨0, depth, none, pv⟩

/-- body of the loop of `AnalyzeAll`: the child is searched with the window `(-v-1, -v+1)`; it is listed when its
value is exactly `v` and its move is not the first PV move -/
def aaBody [DecidableEq M] (g : Game P M) (cfg : SOpts) (o : Oracle M) (depth : Int) (pv0 : M) (rest : List M)
    (v : Int) (m : M) (child : P) (out : List (List M)) (s : Eng M) :
    Except Err (Ctl (List (List M)) Unit × Eng M) := do
  let sm ← setA s.stackM 0 m "stack[0].m"
  let r ← pvSearch g cfg o 1 child (depth - 1) rest (-v - 1) (-v + 1) { s with stackM := sm }
  if -r.1.2 != v then pure (.next out, r.2)
  else if g.moveEq m pv0 then pure (.next out, r.2)
  else pure (.next (out ++ [m :: r.1.1.getD []]), r.2)

/-- the part of `AnalyzeAll` after `Analyze` returned `(pv, v, st)` -/
def analyzeAllFrom [DecidableEq M] (g : Game P M) (cfg : Cfg) (o : Oracle M) (p : P)
    (pv : List M) (v : Int) (st : Stats) (s : Eng M) : Except Err ((List (List M) × Int × Stats) × Eng M) :=
  match pv with
  | [] => .ok (([], v, st), s)
  | pv0 :: rest =>
    match iterate g cfg.opts o p (rootMG st.depth pv) (aaBody g cfg.opts o st.depth pv0 rest v) [pv] s with
    | .error e => .error e
    | .ok (.next out, s) | .ok (.brk out, s) => .ok ((out, v, st), s)
    | .ok (.ret _, s) => .ok (([pv], v, st), s)

/-- `AnalyzeAll` -/
def analyzeAll [DecidableEq M] (g : Game P M) (cfg : Cfg) (o : Oracle M) (p : P) (s : Eng M) :
    Except Err ((List (List M) × Int × Stats) × Eng M) :=
  match analyze g cfg o p s with
  | .error e => .error e
  | .ok ((pv, v, st), s) => analyzeAllFrom g cfg o p pv v st s

structure GmAcc (M : Type) where
  rv : M
  i : Int

/-- body of the loop of the randomised move choice in `GetMove` (`base = v - RandomizeWindow`) -/
def gmBody [DecidableEq M] (g : Game P M) (cfg : Cfg) (o : Oracle M) (depth : Int) (rest : List M) (v base : Int)
    (m : M) (child : P) (a : GmAcc M) (s : Eng M) : Except Err (Ctl (GmAcc M) Unit × Eng M) := do
  let sm ← setA s.stackM 0 m "stack[0].m"
  let r ← pvSearch g cfg.opts o 1 child (depth - 1) rest (-v - 1) (-base) { s with stackM := sm }
  let s := r.2
  let cv := -r.1.2
  if cv ≤ base then pure (.next a, s)
  else
    let pts := Int.tdiv (cv - base) cfg.randomizeScale
    -- fixes/C04-randomize-scale.diff: candidates without positive weight are skipped
    if pts ≤ 0 then pure (.next a, s) else
    let i := a.i + pts
    if i ≤ 0 then throw (.panic "rand.Int63n: invalid argument")
    else
      let rnd := o.rnd s.rnds i
      pure (.next { rv := if rnd ≤ pts then m else a.rv, i := i }, { s with rnds := s.rnds + 1 })

/-- the part of `GetMove` after `Analyze` returned `(pv, v, st)` -/
def getMoveFrom [DecidableEq M] (g : Game P M) (cfg : Cfg) (o : Oracle M) (p : P)
    (pv : List M) (v : Int) (st : Stats) (s : Eng M) : Except Err (M × Eng M) :=
  match pv with
  | [] => .ok (g.zeroMove, s)
  | pv0 :: rest =>
    if cfg.randomizeWindow == 0 then .ok (pv0, s)
    else if v > Facts.winThreshold || v < -Facts.winThreshold then .ok (pv0, s)
    else
      match iterate g cfg.opts o p (rootMG st.depth pv)
          (gmBody g cfg o st.depth rest v (v - cfg.randomizeWindow)) (⟨pv0, 0⟩ : GmAcc M) s with
      | .error e => .error e
      | .ok (.next a, s) | .ok (.brk a, s) => .ok (a.rv, s)
      | .ok (.ret _, s) => .ok (pv0, s)

/-- `GetMove` -/
def getMove [DecidableEq M] (g : Game P M) (cfg : Cfg) (o : Oracle M) (p : P) (s : Eng M) :
    Except Err (M × Eng M) :=
  match analyze g cfg o p s with
  | .error e => .error e
  | .ok ((pv, v, st), s) => getMoveFrom g cfg o p pv v st s

/-! ### the specification side: exhaustive negamax -/

/-- the legal children in generation order -/
def kids (g : Game P M) (p : P) : List (M × P) :=
  (g.allMoves p).filterMap (fun m => match g.apply p m with | .ok c => some (m, c) | .error _ => none)

/-- maximum of `f` over a list, `lo` for the empty list only -/
def maxOver {α : Type} (f : α → Int) (lo : Int) : List α → Int
  | [] => lo
  | [x] => f x
  | x :: y :: xs => max (f x) (maxOver f lo (y :: xs))

/-- depth-limited negamax with evaluation `g.eval` at the horizon and at finished games.  A position with
no legal move that is not over has value `MinEval - 1` (does not occur in Tak). -/
def negamax (g : Game P M) : Nat → P → Int
  | 0, p => g.eval p
  | d + 1, p =>
    if g.over p then g.eval p
    else maxOver (fun c => -(negamax g d c.2)) (Facts.minEval - 1) (kids g p)

/-- what `Analyze` must report without a table in a precise configuration: iterative deepening by exhaustive
negamax, stopping at a decisive value.  Returns (value, depth). -/
def analyzeSpec (g : Game P M) (depth : Nat) (p : P) : Nat → Nat → Int × Nat
  | 0, d => (negamax g d p, d)
  | n + 1, d =>
    let v := negamax g d p
    if v > Facts.winThreshold || v < -Facts.winThreshold || d ≥ depth then (v, d)
    else analyzeSpec g depth p n (d + 1)


/-! ### the Tak instance -/

open Tak in
/-- the two evaluation functions the correspondence uses (both also exist, identically, in the harness) -/
def evalWinner (p : Pos) : Int :=
  let (over, winner) := p.gameOver
  if over then
    if winner == .none then 0
    else if winner == p.toMove then Facts.winBase else -Facts.winBase
  else 0

open Tak in
/-- a symmetric material evaluator: finished games like `EvaluateWinner` but preferring early wins;
otherwise 10 × flat-count difference + reserve difference, from the mover's point of view -/
def evalMat (p : Pos) : Int :=
  let (over, winner) := p.gameOver
  if over then
    if winner == .none then 0
    else
      let v := Facts.winBase - p.move
      if winner == p.toMove then v else -v
  else
    let (w, b) := p.countFlats
    let d : Int := 10 * ((w : Int) - (b : Int)) + ((p.blackStones.toNat : Int) - (p.whiteStones.toNat : Int))
    if p.toMove == .white then d else -d

open Tak in
/-- the slide-reduction test of `zwSearch` (`int8` index arithmetic; an index outside `p.Height` panics) -/
def takReduceSlide (m : Move) (p : Pos) : Except Err Bool :=
  if !(m.isSlide && m.slides.toNat > 0xf) then .ok false else
  let sz : Int := p.cfg.size
  let i := wrap8 (m.x + wrap8 (m.y * sz))
  match m.dest with
  | none => .error (.panic "Dest: bad type")
  | some (dx, dy) =>
    let j := wrap8 (dx + wrap8 (dy * sz))
    if i < 0 ∨ j < 0 then .error (.panic "Height[i]: index out of range") else
    match p.height[i.toNat]?, p.height[j.toNat]? with
    | some hi, some hj => .ok (hi == 0#8 && hj.toNat == (m.slides &&& 0xf#32).toNat)
    | _, _ => .error (.panic "Height[i]: index out of range")

open Tak in
/-- the calls of `ai/minimax.go` on `*tak.Position`, on the bit-level model -/
def takGame (basis : Array W) (eval : Pos → Int) (symHashes : Pos → List H := fun _ => []) : Game Pos Move where
  over p := p.gameOver.1
  eval := eval
  apply p m := p.apply basis m
  allMoves := Pos.allMoves
  hash := Pos.hashOf
  moveEq := Move.equal
  zeroMove := ⟨0, 0, 0, 0#32⟩
  passMove := ⟨0, 0, Facts.mtPass, 0#32⟩
  isPass m := m.type == Facts.mtPass
  nullOK p := !(p.whiteStones.toNat < 3 || p.blackStones.toNat < 3) &&
              !(popcount (p.white ||| p.black) + 3 ≥ p.stacks.size)
  reduceSlide := takReduceSlide
  moveNumber p := p.move
  symHashes := symHashes

end Search
