import TakVerif.Impl.PTN
import TakVerif.Impl.GoBytes
import TakVerif.Impl.PN
import TakVerif.Impl.DFPN
import TakVerif.Impl.MoveGen
import TakVerif.Generated.FactsCmd

/-! Mirror of `cmd/internal/analyze` (`taktician analyze`): `Command.Execute` (which position of a PTN file is
analysed for which flags), `applyVariation`, `buildAnalysis`, and the three analyzers `minimaxAnalysis`,
`pnAnalysis`, `dfpnAnalysis` with everything they print.

The command is glue: what it calls is modelled elsewhere — `ptn.ParseFile` = `PTN.parsePTN`, `PositionAtMove` /
`InitialPosition` / `Iterator` = `PTN.positionAtMove` / `initialPosition` / `Iter.next` (`Impl/PTN.lean`, the
object of C12), `Position.Move` = `Pos.apply`, `prove.New(cfg).Prove` = `Tak.PN.prove` and
`prove.NewDFPN(cfg).Prove` = `Tak.DFPN.prove` (C06), `MinimaxAI.AnalyzeAll` = `Search.analyzeAll` (C05).  The calls
into the searchers are packaged in `Engines`; `Driver/OpsCmd.lean` plugs the existing models in.

What is printed is modelled as the list of printed lines, each with its white space normalised (runs of blanks
and tabs = one blank, leading/trailing blanks and empty lines dropped: `text/tabwriter`'s padding is not
modelled), without the wall-clock fields (`duration=…`, the hit percentage).  `log.Fatal` (the process exits with
status 1; what was printed before stays printed) is `Stop.fatal`, a Go panic `Stop.panic`.

Not modelled: `-mcts` (Monte-Carlo player, C04: `Stop.unmodelled`), `-explain`, `-dump-tree`, `-debug`, the weight
flags, and the time limit (`-limit`; the harness passes 0 = none or a limit that never expires). -/
namespace Tak.CmdAnalyze
open PTN (Bytes)

/-- how a run of the command ends other than by `return subcommands.ExitSuccess` -/
inductive Stop where
  | fatal (msg : String)
  | panic (site : String)
  | hang (site : String)
  | unmodelled (what : String)
deriving Repr, DecidableEq, Inhabited

def Stop.ofErr : Err → Stop
  | .illegal w => .fatal w
  | .panic s => .panic s
  | .hang s => .hang s

/-- the fields of `Command` (flag defaults as in `SetFlags` / `opt.Minimax.AddFlags`) -/
structure Flags where
  tps : Bool := false
  quiet : Bool := false
  mcts : Bool := false
  prove : Bool := false
  dfpn : Bool := false
  move : Int := 0
  all : Bool := false
  black : Bool := false
  white : Bool := false
  variation : Bytes := []
  eval : Bool := false
  explain : Bool := false
  -- opt.Minimax
  depth : Int := 0
  maxEvals : Nat := 0
  sort : Bool := true
  tableMem : Int := 0
  nullMove : Bool := true
  reduceSlides : Bool := true
  multiCut : Bool := false
  precise : Bool := false
  symmetry : Bool := false
  -- PN / DFPN
  dumpTree : Bytes := []
  maxNodes : Nat := 0
  maxDepth : Int := 0
  pn2 : Bool := false
  attacker : Bytes := []
deriving Repr, DecidableEq, Inhabited

/-- `sizeof(ai.tableEntry)` = `sizeof(prove.entry)` (both 32 bytes; the harness checks the real table lengths) -/
def entryBytes : Nat := 32

/-- `c.mmopt.BuildConfig(size)` followed by `ai.NewMinimax`'s normalisation, as far as the search reads it -/
def minimaxCfg (f : Flags) : Search.Cfg :=
  let opts : Search.SOpts :=
    { noSort := !f.sort, noNullMove := !f.nullMove, noReduceSlides := !f.reduceSlides, multiCut := f.multiCut,
      dedupSymmetry := f.symmetry }
  { depth := if f.depth == 0 then Facts.maxDepth else f.depth
    maxEvals := f.maxEvals
    tableEntries :=
      if f.tableMem < 0 then none
      else if f.tableMem == 0 then some (Facts.defaultTableMem / entryBytes)
      else some (f.tableMem.toNat / entryBytes)
    opts := if f.precise then opts.makePrecise else opts }

/-- `prove.Config` of `pnAnalysis.Analyze` -/
def pnCfg (f : Flags) : Tak.PN.Cfg :=
  { maxNodes := UInt64.ofNat f.maxNodes, preserveSolved := !f.dumpTree.isEmpty, pn2 := f.pn2, maxDepth := f.maxDepth }

/-- number of table entries `NewDFPN` allocates for `TableMem: c.mmopt.TableMem` -/
def dfpnEntries (tableMem : Int) : Nat :=
  (if tableMem ≤ 0 then Facts.dfpnDefaultTableMem else tableMem.toNat) / entryBytes

/-- what the analyzers call outside the package.  `E` = a `*ai.MinimaxAI` (its state). -/
structure Engines (E : Type) where
  /-- `ai.NewMinimax(c.mmopt.BuildConfig(size))` -/
  newMinimax : Nat → Search.Cfg → E
  /-- `m.ai.AnalyzeAll(ctx, p)`: the lines, the value, and the engine afterwards -/
  analyzeAll : Search.Cfg → E → Pos → Except Err ((List (List Move) × Int) × E)
  /-- `m.ai.Evaluate(p)` -/
  evaluate : E → Pos → Except Err Int
  /-- `prove.New(cfg).Prove(ctx, p)` -/
  pn : Tak.PN.Cfg → Pos → Except Err (Tak.PN.Result Move × Tak.PN.Stats)
  /-- `prove.NewDFPN(&DFPNConfig{Attacker, TableMem}).Prove(p)`, table given as its number of entries -/
  dfpn : Color → Nat → Pos → Except Err (Tak.DFPN.Result Move × Tak.DFPN.Stats)
  /-- `ptn.FormatTPS` -/
  formatTPS : Pos → Except Err Bytes

/-! ### what is printed -/

def str (b : Bytes) : String := String.ofList (b.map fun x => Char.ofNat x.toNat)

def colorName : Color → String
  | .white => "white" | .black => "black" | .none => "no color"

def pieceGlyph (pc : Piece) : String :=
  (match pc.color with | .white => "W" | _ => "B") ++
  (match pc.kind with | .flat => "" | .standing => "S" | .capstone => "C")

/-- one row of `cli.RenderBoard`: `<y+1>.` and the squares `[top … bottom]` -/
def boardRow (p : Pos) (y : Nat) : String :=
  " ".intercalate (s!"{y + 1}." ::
    (List.range p.size).map fun x => "[" ++ " ".intercalate ((p.squareAt (x + y * p.size)).map pieceGlyph) ++ "]")

/-- `cli.RenderBoard(nil, os.Stdout, p)` -/
def renderBoard (p : Pos) : List String :=
  [s!"[{colorName p.toMove} to play]"] ++
  ((List.range p.size).reverse.map (boardRow p)) ++
  [" ".intercalate ((List.range p.size).map fun x => String.singleton (Char.ofNat (97 + x)) ++ "."),
   s!"stones: W:{p.whiteStones.toNat} B:{p.blackStones.toNat}"]

def fmtMoveS (env : PTN.Env) (m : Move) : String := str (env.formatMove m)

/-- `out.Move.Type != 0 ? ptn.FormatMove(out.Move) : "(none)"` -/
def moveOrNone (env : PTN.Env) : Option Move → String
  | none => "(none)"
  | some m => if m.type != 0 then fmtMoveS env m else "(none)"

/-- the `switch out.Result` of both solver analyzers -/
def resultWord : Tak.PN.Eval → String
  | .proven => "WIN" | .disproven => "DRAW|LOSE" | .unknown => "UNKNOWN"

/-- one thing the command prints.  The solver and search reports carry the position they are about (`p`), which is
only visible in the output when board diagrams are on. -/
inductive Item where
  /-- `cli.RenderBoard(nil, os.Stdout, p)` -/
  | board (p : Pos)
  /-- ` Val=%d` of `-evaluate` (from White's point of view) -/
  | evalLine (p : Pos) (val : Int)
  /-- `AI analysis:`, one ` pv=` line per best line, ` value=%d` -/
  | analysis (p : Pos) (pvs : List (List Move)) (val : Int)
  /-- `[TPS "…"]` -/
  | tps (text : Bytes)
  /-- `Resulting position:` and its diagram -/
  | resulting (q : Pos)
  /-- `PN search analysis:` and the ` value=… move=… searched=… proof=… disproof=… depth=… maxDepth=…` line of `-prove` -/
  | pnResult (p : Pos) (out : Tak.PN.Result Move) (stats : Tak.PN.Stats)
  /-- `PN search analysis:`, ` value=… move=…` and the statistics line of `-dfpn` (`att` = the configured attacker) -/
  | dfpnResult (p : Pos) (att : Color) (out : Tak.DFPN.Result Move) (stats : Tak.DFPN.Stats)
  /-- `%d. %s` / `%d. ... %s` of `-all`: move number and colour of the position `p` about to be analysed, and the
  move the record plays there (the zero move after the last recorded move) -/
  | plyLabel (p : Pos) (m : Move)

/-- the printed lines of an item (white space normalised, wall-clock fields dropped) -/
def Item.render (env : PTN.Env) : Item → List String
  | .board p => renderBoard p
  | .evalLine _ val => [s!"Val={val}"]
  | .analysis _ pvs val =>
    ["AI analysis:"] ++
    pvs.map (fun pv => if pv.isEmpty then "pv=" else "pv=" ++ " ".intercalate (pv.map (fmtMoveS env))) ++
    [s!"value={val}"]
  | .tps t => [s!"[TPS \"{str t}\"]"]
  | .resulting q => ["Resulting position:"] ++ renderBoard q
  | .pnResult _ out stats =>
    ["PN search analysis:",
     "value=" ++ resultWord out.result ++
       s!" move={moveOrNone env out.move} searched={stats.nodes} proof={out.proof} disproof={out.disproof} depth={out.depth} maxDepth={stats.maxDepth}"]
  | .dfpnResult _ _ out stats =>
    ["PN search analysis:",
     "value=" ++ resultWord out.result ++ s!" move={moveOrNone env out.move}",
     s!"work={stats.work} terminal={stats.terminal} solved={stats.solved} repetition={stats.repetition} hit={stats.hits}/{stats.hits + stats.miss}"]
  | .plyLabel p m =>
    let num := p.move.tdiv 2 + 1
    [if p.toMove == .black then s!"{num}. ... {fmtMoveS env m}" else s!"{num}. {fmtMoveS env m}"]

/-- what was printed so far, and how the run went on -/
abbrev Out (α : Type) := List Item × Except Stop α

def Out.bind {α β : Type} (x : Out α) (f : α → Out β) : Out β :=
  match x with
  | (l, .error s) => (l, .error s)
  | (l, .ok a) => let r := f a; (l ++ r.1, r.2)

def emit (ls : List Item) : Out Unit := (ls, .ok ())
def stop {α : Type} (s : Stop) : Out α := ([], .error s)
def done {α : Type} (a : α) : Out α := ([], .ok a)
def lift {α : Type} (r : Except Err α) : Out α :=
  match r with
  | .ok a => ([], .ok a)
  | .error e => ([], .error (match e with | .illegal w => Stop.panic ("unexpected error: " ++ w) | e => Stop.ofErr e))

/-- every printed line of a run -/
def Out.lines {α : Type} (env : PTN.Env) (o : Out α) : List String := o.1.flatMap (Item.render env)

/-! ### the analyzers -/

/-- `type Analyzer interface` with its four implementations; only the minimax one carries state -/
inductive Analyzer (E : Type) where
  | dfpn
  | pn
  | mcts
  | minimax (ai : E)

/-- replay of `pvs[0]` on `p` at the end of `minimaxAnalysis.Analyze`: `none` = an illegal move was met -/
def replayPV (basis : Array W) : List Move → Pos → Option Pos
  | [], p => some p
  | m :: ms, p =>
    match p.apply basis m with
    | .ok n => replayPV basis ms n
    | .error _ => none

/-- the board diagram both solver analyzers and the minimax one start with -/
def showBoard (f : Flags) (p : Pos) : Out Unit := if f.quiet then emit [] else emit [.board p]

/-- `(*minimaxAnalysis).Analyze` -/
def minimaxAnalyze {E : Type} (env : PTN.Env) (eng : Engines E) (f : Flags) (ai : E) (p : Pos) : Out E :=
  Out.bind (if !f.quiet && f.explain then stop (.unmodelled "-explain") else showBoard f p) fun _ =>
  if f.eval then
    Out.bind (lift (eng.evaluate ai p)) fun val =>
    Out.bind (emit [.evalLine p (if p.toMove == .black then -val else val)]) fun _ => done ai
  else
    Out.bind (lift (eng.analyzeAll (minimaxCfg f) ai p)) fun r =>
    Out.bind (emit [.analysis p r.1.1 r.1.2]) fun _ =>
    Out.bind (if f.tps then Out.bind (lift (eng.formatTPS p)) fun t => emit [.tps t] else emit []) fun _ =>
    match r.1.1 with
    | [] => done r.2
    | pv0 :: _ =>
      if f.quiet then done r.2 else
      match replayPV env.basis pv0 p with
      | none =>
        if r.1.2 < Facts.winThreshold && r.1.2 > -Facts.winThreshold then stop (.fatal "illegal move in non-terminal pv!")
        else done r.2
      | some q => Out.bind (emit [.resulting q]) fun _ => done r.2

/-- `(*pnAnalysis).Analyze` -/
def pnAnalyze {E : Type} (eng : Engines E) (f : Flags) (p : Pos) : Out Unit :=
  Out.bind (showBoard f p) fun _ =>
  Out.bind (lift (eng.pn (pnCfg f) p)) fun r =>
  Out.bind (emit [.pnResult p r.1 r.2]) fun _ =>
  if f.dumpTree.isEmpty then done () else stop (.unmodelled "-dump-tree")

/-- the `-attacker` switch of `dfpnAnalysis.Analyze` -/
def parseAttacker (a : Bytes) : Option Color :=
  if a == Go.lit "white" then some .white
  else if a == Go.lit "black" then some .black
  else if a.isEmpty then some .none
  else none

/-- `(*dfpnAnalysis).Analyze` -/
def dfpnAnalyze {E : Type} (eng : Engines E) (f : Flags) (p : Pos) : Out Unit :=
  match parseAttacker f.attacker with
  | none => stop (.fatal "Cannot parse attacker")
  | some attacker =>
    Out.bind (showBoard f p) fun _ =>
    Out.bind (lift (eng.dfpn attacker (dfpnEntries f.tableMem) p)) fun r =>
    emit [.dfpnResult p attacker r.1 r.2]

/-- `c.buildAnalysis(p)` -/
def buildAnalysis {E : Type} (eng : Engines E) (f : Flags) (p : Pos) : Out (Analyzer E) :=
  if f.mcts && f.prove then stop (.fatal "-mcts and -prove are incompatible!")
  else if f.dfpn then done .dfpn
  else if f.prove then done .pn
  else if f.mcts then done .mcts
  else done (.minimax (eng.newMinimax p.size (minimaxCfg f)))

/-- `c.analyzeWith(analysis, p)` (the context only carries the time limit) -/
def analyzeWith {E : Type} (env : PTN.Env) (eng : Engines E) (f : Flags) (a : Analyzer E) (p : Pos) : Out (Analyzer E) :=
  match a with
  | .dfpn => Out.bind (dfpnAnalyze eng f p) fun _ => done .dfpn
  | .pn => Out.bind (pnAnalyze eng f p) fun _ => done .pn
  | .mcts => stop (.unmodelled "-mcts")
  | .minimax ai => Out.bind (minimaxAnalyze env eng f ai p) fun ai => done (.minimax ai)

/-! ### `Execute` -/

/-- the `switch` at the top of `Execute`: `none` = "-white and -black are exclusive" -/
def selectColor (f : Flags) : Option Color :=
  if f.white && f.black then none
  else if f.white then some .white
  else if f.black then some .black
  else if f.move != 0 then some .white
  else some .none

/-- `applyVariation`: `strings.Split(variant, " ")`, then `ParseMove` and `Position.Move` on every piece -/
def applyVariationLoop (env : PTN.Env) : List Bytes → Pos → Except Err Pos
  | [], p => .ok p
  | s :: rest, p =>
    match env.parseMove s with
    | .error e => .error e
    | .ok m =>
      match p.apply env.basis m with
      | .error (.illegal w) => .error (.illegal ("bad move: " ++ w))
      | .error e => .error e
      | .ok n => applyVariationLoop env rest n

def applyVariation (env : PTN.Env) (p : Pos) (variant : Bytes) : Except Err Pos :=
  applyVariationLoop env (Go.split 32 variant) p

/-- the position `Execute` hands to `c.analyze` when `-all` is not given -/
def selectPosition (env : PTN.Env) (file : PTN.File) (f : Flags) (color : Color) : Except Err Pos :=
  match PTN.positionAtMove env file f.move color with
  | .error e => .error e
  | .ok p => if f.variation.isEmpty then .ok p else applyVariation env p f.variation

/-- the `for it.Next()` loop of the `-all` branch.  Every successful `Next` consumes an op or latches `over`, so
`len(Ops) + 2` rounds suffice. -/
def allLoop {E : Type} (env : PTN.Env) (eng : Engines E) (f : Flags) (color : Color) :
    Nat → PTN.Iter → Analyzer E → Analyzer E → Out PTN.Iter
  | 0, _, _, _ => stop (.hang "Execute: -all")
  | fuel+1, it, w, b =>
    match it.next env with
    | .error e => stop (Stop.ofErr e)
    | .ok (it, false) => done it
    | .ok (it, true) =>
      match it.position with
      | none => stop (.panic "Execute: nil position")
      | some p =>
        if p.gameOver.1 then done it else
        if p.toMove == .white && color != .black then
          Out.bind (emit [.plyLabel p it.move]) fun _ =>
          Out.bind (analyzeWith env eng f w p) fun w => allLoop env eng f color fuel it w b
        else if p.toMove == .black && color != .white then
          Out.bind (emit [.plyLabel p it.move]) fun _ =>
          Out.bind (analyzeWith env eng f b p) fun b => allLoop env eng f color fuel it w b
        else allLoop env eng f color fuel it w b

/-- `(*Command).Execute` on the bytes of the file named by the first positional argument -/
def execute {E : Type} (env : PTN.Env) (eng : Engines E) (f : Flags) (input : Bytes) : Out Unit :=
  match PTN.parsePTN env input with
  | .error e => stop (match e with | .illegal w => .fatal ("parse:" ++ w) | e => Stop.ofErr e)
  | .ok parsed =>
    match selectColor f with
    | none => stop (.fatal "-white and -black are exclusive")
    | some color =>
      if !f.all then
        match selectPosition env parsed f color with
        | .error e => stop (Stop.ofErr e)
        | .ok p =>
          Out.bind (buildAnalysis eng f p) fun a =>
          Out.bind (analyzeWith env eng f a p) fun _ => done ()
      else
        match PTN.initialPosition env parsed with
        | .error e => stop (Stop.ofErr e)
        | .ok p =>
          Out.bind (buildAnalysis eng f p) fun w =>
          Out.bind (buildAnalysis eng f p) fun b =>
          match PTN.iterator env parsed with
          | .error e => stop (Stop.ofErr e)
          | .ok it =>
            Out.bind (allLoop env eng f color (parsed.ops.length + 2) it w b) fun it =>
            match it.err with
            | some e => stop (Stop.ofErr e)
            | none => done ()

end Tak.CmdAnalyze
