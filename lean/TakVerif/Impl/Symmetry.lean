import TakVerif.Impl.Move

/-! Mirror of `symmetry/canonical.go` (after `fixes/C14-transform-zero-drop.diff`):
the eight coordinate maps of `symmetries()`, `compose`, `TransformMove`, `preferMove`,
`Symmetries` and `Canonical`.  Coordinates are Go `int8`s: every arithmetic step wraps (`wrap8`). -/
namespace Tak

/-- `flip := func(i int8) int8 { return int8(size) - 1 - i }` -/
def symFlip (size : Nat) (i : Int) : Int := wrap8 (wrap8 (wrap8 (size : Int) - 1) - i)

/-- the closures returned by `symmetries(size)`, in slice order -/
def symBasic (size : Nat) (k : Fin 8) (x y : Int) : Int × Int :=
  match k with
  | 0 => (x, y)                                   -- identity
  | 1 => (symFlip size x, y)                      -- flipX
  | 2 => (x, symFlip size y)                      -- flipY
  | 3 => (y, x)                                   -- flipDiag1
  | 4 => (symFlip size y, symFlip size x)         -- flipDiag2
  | 5 => (symFlip size x, symFlip size y)         -- rotate2
  | 6 => (y, symFlip size x)                      -- rotCW
  | 7 => (symFlip size y, x)                      -- rotCCW

/-- A `symmetry.Symmetry` value.  The package only ever builds the eight closures above and
`compose(ss...)` of slices of them, so a value is a word of indices; `compose` applies the
*last* element of the slice first. -/
abbrev Symm := List (Fin 8)

def Symm.app (size : Nat) : Symm → Int → Int → Int × Int
  | [], x, y => (x, y)
  | k :: ks, x, y => let (x', y') := Symm.app size ks x y; symBasic size k x' y'

/-- `TransformMove`.  The `default:` arm of the Go switch is kept as an explicit panic outcome
(`C14.transformMove_spec` shows it is never taken for these maps). -/
def transformMove (size : Nat) (s : Symm) (m : Move) : R Move :=
  let (ox, oy) := s.app size m.x m.y
  if !m.isSlide || m.type > Facts.mtSlideDown then
    -- `out.Slides` stays zero
    .ok { x := ox, y := oy, type := m.type, slides := 0#32 }
  else
    -- `unit := m; unit.Slides = tak.MkSlides(1); dx, dy := s(unit.Dest())`
    match Move.dest { m with slides := 1#32 } with
    | none => .error (.panic "Dest: bad type")
    | some (ux, uy) =>
      let (dx, dy) := s.app size ux uy
      if dx == ox && dy > oy then .ok { x := ox, y := oy, type := Facts.mtSlideUp, slides := m.slides }
      else if dx == ox && dy < oy then .ok { x := ox, y := oy, type := Facts.mtSlideDown, slides := m.slides }
      else if dx < ox && dy == oy then .ok { x := ox, y := oy, type := Facts.mtSlideLeft, slides := m.slides }
      else if dx > ox && dy == oy then .ok { x := ox, y := oy, type := Facts.mtSlideRight, slides := m.slides }
      else .error (.panic "symmetry is not sane")

/-- `preferMove` -/
def preferMove (l r : Move) : Bool :=
  if l.y ≠ r.y then l.y < r.y
  else if l.x ≠ r.x then l.x < r.x
  else l.type < r.type

/-- `Position.At` with its run-time failure: a set colour bit over `Height == 0` indexes an empty slice -/
def Pos.atR (p : Pos) (i : Nat) : R (List Piece) :=
  match p.topAt i with
  | none => .ok []
  | some _ => if (p.height.getD i 0) == 0#8 then .error (.panic "At: sq[0] of empty square") else .ok (p.squareAt i)

/-- the board `boards[k]` filled by the triple loop of `Symmetries`: `boards[k][ry][rx] = p.At(x, y)` -/
def imageBoard (p : Pos) (k : Fin 8) : R (List (List Nat)) :=
  let sz := p.cfg.size
  (List.range sz).foldlM (fun (b : List (List Nat)) (x : Nat) =>
    (List.range sz).foldlM (fun (b : List (List Nat)) (y : Nat) => do
      let (rx, ry) := symBasic sz k (x : Int) (y : Int)
      if rx < 0 ∨ rx ≥ (sz : Int) ∨ ry < 0 ∨ ry ≥ (sz : Int) then .error (.panic "Symmetries: boards index")
      let sq ← p.atR (x + y * sz)
      pure (b.set (rx.toNat + ry.toNat * sz) (sq.map Piece.code))) b) (List.replicate (sz * sz) [])

/-- `ps[k].P`: the `k`-th image rebuilt through `FromSquares` -/
def imagePos (basis : Array W) (p : Pos) (k : Fin 8) : R Pos := do
  let b ← imageBoard p k
  Pos.fromSquares basis p.cfg b p.move

/-- the de-duplication loop of `Symmetries` (`seen` is the key set of the Go map) -/
def dedupByHash : List (Pos × Fin 8) → List W → List (Pos × Fin 8) → List (Pos × Fin 8)
  | [], _, out => out
  | (q, k) :: rest, seen, out =>
    if seen.contains q.hashOf then dedupByHash rest seen out
    else dedupByHash rest (q.hashOf :: seen) (out ++ [(q, k)])

/-- `Symmetries` -/
def symmetries (basis : Array W) (p : Pos) : R (List (Pos × Fin 8)) := do
  let ps ← (List.finRange 8).mapM (fun k => do let q ← imagePos basis p k; pure (q, k))
  pure (dedupByHash ps [] [])

/-! ### `Canonical` -/

/-- loop state of `Canonical`: the eight replays, `boards[0].moves`, `rots`, `tfn` -/
structure CanonSt where
  boards : List Pos
  moves : List Move
  rots : List (Fin 8)
  tfn : Symm

/-- the scan `for i, st := range boards { if i == 0 {continue}; if st.p.Hash() == h {…} }` -/
def canonScan (size : Nat) (h : W) (m : Move) : List (Pos × Fin 8) → Move → Option (Fin 8) → R (Move × Option (Fin 8))
  | [], best, rot => .ok (best, rot)
  | (q, k) :: rest, best, rot =>
    if q.hashOf == h then do
      let rm ← transformMove size [k] m
      if preferMove rm best then canonScan size h m rest rm (some k)
      else canonScan size h m rest best rot
    else canonScan size h m rest best rot

/-- the replay loop `for i, st := range boards { rm := TransformMove(st.s, m); st.p, e = st.p.Move(rm) … }`;
returns the new boards and `rm` of board 0 -/
def canonReplay (basis : Array W) (size : Nat) (m : Move) : List (Pos × Fin 8) → R (List Pos)
  | [] => .ok []
  | (q, k) :: rest => do
    let rm ← transformMove size [k] m
    let q' ← q.apply basis rm
    let rest' ← canonReplay basis size m rest
    pure (q' :: rest')

def withIndex (l : List Pos) : List (Pos × Fin 8) := l.zip (List.finRange 8)

def canonStep (basis : Array W) (size : Nat) (st : CanonSt) (m0 : Move) : R CanonSt :=
  match st.boards with
  | [] => .error (.panic "Canonical: boards[0]")
  | b0 :: _ => do
    let h := b0.hashOf
    let m ← transformMove size st.tfn m0
    let (best, rot) ← canonScan size h m ((withIndex st.boards).drop 1) m none
    let (rots, tfn, m) :=
      match rot with
      | some r => (r :: st.rots, (r :: st.rots : Symm), best)
      | none => (st.rots, st.tfn, m)
    let boards ← canonReplay basis size m (withIndex st.boards)
    -- `boards[0].moves` gets `TransformMove(identity, m)`
    let rm0 ← transformMove size [0] m
    pure { boards := boards, moves := st.moves ++ [rm0], rots := rots, tfn := tfn }

def canonLoop (basis : Array W) (size : Nat) : List Move → CanonSt → R CanonSt
  | [], st => .ok st
  | m :: ms, st => do
    let st ← canonStep basis size st m
    canonLoop basis size ms st

/-- `Canonical(size, ms)`; a returned error is `.illegal`, `tak.New` on a bad size panics -/
def canonical (basis : Array W) (size : Nat) (ms : List Move) : R (List Move) := do
  let p ← Pos.new { size := size, pieces := 0, capstones := 0, blackWinsTies := false }
  let st ← canonLoop basis size ms { boards := List.replicate 8 p, moves := [], rots := [], tfn := [0] }
  pure st.moves

end Tak
