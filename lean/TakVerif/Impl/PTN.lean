import TakVerif.Impl.Move
import TakVerif.Generated.FactsPTN

/-! Mirror of `ptn/ptn.go` and `ptn/iterator.go`: PTN game files.

Go strings are byte strings: everything here is over `List UInt8`.  The functions of *other*
files that this code calls (`ptn.ParseMove`, `ptn.FormatMove`, `ptn.ParseTPS`) are parameters
(`Env`); their own models live elsewhere.  Library code is modelled by its documented behaviour:
`bufio.Reader` (ReadRune/ReadByte/UnreadByte/ReadString), `bufio.Scanner` driving the split function
`splitMoves` (with its 64 KiB token limit), `strconv.Atoi`, `strings.{SplitN,Trim,TrimRight,Replace}`,
`unicode.IsSpace` on Latin-1, `fmt` verbs `%s` `%d`, and the one regular expression `resultRE`.

The model is of the tree WITH the two repairs `fixes/C13-ptn-comment.diff` (an unterminated `{`
comment is an error) and `fixes/C13-ptn-size.diff` (a `Size` tag outside 3..8 is an error). -/
namespace PTN
open Tak

abbrev Bytes := List UInt8

/-! ### library pieces -/

/-- `unicode.IsSpace(rune(b))` for a byte (the Latin-1 table of package unicode) -/
def isSpace (b : UInt8) : Bool :=
  b == 9 || b == 10 || b == 11 || b == 12 || b == 13 || b == 32 || b == 0x85 || b == 0xA0

def isDigit (b : UInt8) : Bool := 48 ≤ b && b ≤ 57

def digitsVal (ds : Bytes) : Nat := ds.foldl (fun n d => n * 10 + (d.toNat - 48)) 0

/-- the optional sign of `strconv.Atoi`: (negative?, the rest) -/
def splitSign (s : Bytes) : Bool × Bytes :=
  match s with
  | 45 :: ds => (true, ds)
  | 43 :: ds => (false, ds)
  | _ => (false, s)

/-- `strconv.Atoi` on a 64-bit platform: optional sign, one or more decimal digits, value within int64 -/
def atoi (s : Bytes) : Option Int :=
  let sd : Bool × Bytes := splitSign s
  if sd.2.isEmpty || !sd.2.all isDigit then none else
  let v := digitsVal sd.2
  if sd.1 then (if v ≤ 2^63 then some (-(v : Int)) else none)
  else (if v < 2^63 then some (v : Int) else none)

def natDigitsAux : Nat → Nat → Bytes → Bytes
  | 0, _, acc => acc
  | fuel+1, n, acc =>
    let acc := UInt8.ofNat (48 + n % 10) :: acc
    if n < 10 then acc else natDigitsAux fuel (n / 10) acc

/-- decimal digits of a natural number, most significant first -/
def natDigits (n : Nat) : Bytes := natDigitsAux (n + 1) n []

/-- `fmt` verb `%d` on an `int` -/
def itoa (n : Int) : Bytes := if n < 0 then 45 :: natDigits n.natAbs else natDigits n.toNat

/-- `strings.TrimRight(s, cutset)` for an ASCII cutset -/
def trimRight (s : Bytes) (cut : UInt8 → Bool) : Bytes := (s.reverse.dropWhile cut).reverse

/-- `strings.Trim(s, cutset)` for an ASCII cutset -/
def trim (s : Bytes) (cut : UInt8 → Bool) : Bytes := trimRight (s.dropWhile cut) cut

/-- the annotation characters of `strings.TrimRight(tok, "?!'")` -/
def isModifier (b : UInt8) : Bool := b == 63 || b == 33 || b == 39

/-- the alternatives `(F|R|1/2|1|0)` of `resultRE` -/
def resultSides : List Bytes := [[70], [82], [49, 47, 50], [49], [48]]

/-- `resultRE.MatchString(tok)`: the regular expression is anchored at both ends, so it matches
exactly the 25 strings `a-b` -/
def matchResult (tok : Bytes) : Bool :=
  resultSides.any (fun a => resultSides.any (fun b => tok == a ++ [45] ++ b))

/-- `matchResult` is a reading of this literal; a change of the source literal breaks the build here -/
theorem resultRE_literal : Facts.resultRE = "^(F|R|1/2|1|0)-(F|R|1/2|1|0)$" := by decide

/-- `bufio.MaxScanTokenSize` (Go standard library, `bufio/scan.go`) -/
def maxScanTokenSize : Nat := 65536

/-! ### data -/

/-- the operations of other files that the PTN-file code calls -/
structure Env where
  parseMove : Bytes → R Move
  formatMove : Move → Bytes
  parseTPS : Bytes → R Pos
  basis : Array W

structure Tag where
  name : Bytes
  value : Bytes
deriving Repr, DecidableEq, Inhabited

/-- `ptn.Op`: the four implementations of the interface; `src` is `opCommon.src` -/
inductive Op where
  | moveNumber (src : Bytes) (number : Int)
  | move (src : Bytes) (move : Move) (modifiers : Bytes)
  | comment (src : Bytes) (comment : Bytes)
  | result (src : Bytes) (result : Bytes)
deriving Repr, DecidableEq, Inhabited

/-- `clearSrc` -/
def Op.clearSrc : Op → Op
  | .moveNumber _ n => .moveNumber [] n
  | .move _ m mods => .move [] m mods
  | .comment _ c => .comment [] c
  | .result _ r => .result [] r

/-- `ptn.PTN` -/
structure File where
  tags : List Tag
  ops : List Op
deriving Repr, DecidableEq, Inhabited

/-! ### `ParsePTN` -/

/-- `readEvents`.  `skipWS`, `ReadByte`/`UnreadByte` and `ReadString(']')` on the buffered reader.
An `io.EOF` from any of them ends the tag section *and* the input (`ParsePTN` ignores `io.EOF`),
which is the result `(tags, [])`.  One round consumes at least `[` and `]`. -/
def readEvents : Nat → Bytes → R (List Tag × Bytes)
  | 0, _ => .error (.hang "readEvents")
  | fuel+1, inp =>
    match inp.dropWhile isSpace with
    | [] => .ok ([], [])                                   -- skipWS: io.EOF
    | c :: more =>
      if c != 91 then .ok ([], c :: more)                  -- not '[': UnreadByte, return nil
      else
        let line := more.takeWhile (· != 93)               -- ReadString(']') without the delimiter
        if line.length == more.length then .ok ([], [])    -- no ']' before the end: io.EOF
        else
          let after := more.drop (line.length + 1)
          let name := line.takeWhile (· != 32)             -- strings.SplitN(line, " ", 2)
          if name.length == line.length then .error (.illegal "bad tag")
          else
            let tag : Tag := ⟨name, trim (line.drop (name.length + 1)) (· == 34)⟩
            match readEvents fuel after with
            | .error e => .error e
            | .ok (tags, rest) => .ok (tag :: tags, rest)

/-- result of the split function: bytes to advance, and the token if one is complete -/
structure Split where
  advance : Nat
  token : Option Bytes
deriving Repr, DecidableEq

/-- `splitMoves(buf, atEOF)` -/
def splitMoves (buf : Bytes) (atEOF : Bool) : Split :=
  let body := buf.dropWhile isSpace           -- buf[start:]
  let start := buf.length - body.length
  match body with
  | [] => ⟨start, none⟩                       -- start == len(buf)
  | c :: _ =>
    if c == 123 then
      let pre := body.takeWhile (· != 125)
      if pre.length < body.length then ⟨start + pre.length + 1, some (body.take (pre.length + 1))⟩
      else if atEOF then ⟨buf.length, some body⟩ else ⟨start, none⟩
    else
      let pre := body.takeWhile (fun b => !isSpace b)
      if pre.length < body.length then ⟨start + pre.length + 1, some pre⟩
      else if atEOF then ⟨buf.length, some body⟩ else ⟨start, none⟩

inductive ScanRes where
  | token (tok rest : Bytes)
  | skip (rest : Bytes)
  | eof
  | tooLong
deriving Repr, DecidableEq

/-- One decisive call of the split function by `bufio.Scanner.Scan`.  The scanner offers the split
function growing prefixes of the unread input, at most `MaxScanTokenSize` bytes, with `atEOF` once the
reader is exhausted.  `splitMoves` answers the same on every prefix long enough to contain the
terminator, so what counts is its answer on the full window: a token; or an advance over leading
white space with a request for more (the window slides: `skip`); or no progress, which is the end at
EOF and `ErrTooLong` when the 64 KiB window is full. -/
def scanStep (rest : Bytes) : ScanRes :=
  let window := rest.take maxScanTokenSize
  let atEOF := decide (rest.length < maxScanTokenSize)
  let sp := splitMoves window atEOF
  match sp.token with
  | some tok => .token tok (rest.drop sp.advance)
  | none =>
    if sp.advance > 0 then .skip (rest.drop sp.advance)
    else if atEOF then .eof else .tooLong

/-- the `switch` in the loop of `readMoves` for one token -/
def classifyTok (env : Env) (tok : Bytes) : R Op :=
  match tok with
  | [] => .error (.panic "readMoves: tok[0] of an empty token")     -- `splitMoves` never yields one
  | c :: _ =>
    if c == 123 then
      -- fixes/C13-ptn-comment: before the repair `tok[1:len(tok)-1]` panicked on the token `{`
      -- and silently dropped the last byte of any other unterminated comment
      if tok.length < 2 ∨ tok.getLast? ≠ some 125 then .error (.illegal "unterminated comment")
      else .ok (.comment tok ((tok.drop 1).take (tok.length - 2)))
    else if tok.getLast? == some 46 then
      match atoi (tok.take (tok.length - 1)) with
      | none => .error (.illegal "Atoi")
      | some n => .ok (.moveNumber tok n)
    else if matchResult tok then .ok (.result tok tok)
    else
      let trimmed := trimRight tok isModifier
      match env.parseMove trimmed with
      | .ok m => .ok (.move tok m (tok.drop trimmed.length))
      | .error (.illegal _) => .error (.illegal "bad move")
      | .error e => .error e

/-- `readMoves`: `for s.Scan() { … }; return s.Err()` -/
def readMoves (env : Env) : Nat → Bytes → R (List Op)
  | 0, _ => .error (.hang "readMoves")
  | fuel+1, rest =>
    match scanStep rest with
    | .eof => .ok []
    | .tooLong => .error (.illegal "bufio.Scanner: token too long")
    | .skip rest' => readMoves env fuel rest'
    | .token tok rest' =>
      match classifyTok env tok with
      | .error e => .error e
      | .ok op =>
        match readMoves env fuel rest' with
        | .error e => .error e
        | .ok ops => .ok (op :: ops)

/-- the byte-order mark: `ReadRune` yields U+FEFF exactly for the bytes EF BB BF -/
def stripBOM (input : Bytes) : Bytes :=
  match input with
  | 0xEF :: 0xBB :: 0xBF :: rest => rest
  | _ => input

/-- `ParsePTN` -/
def parsePTN (env : Env) (input : Bytes) : R File :=
  if input.isEmpty then .error (.illegal "EOF") else      -- ReadRune: io.EOF
  let inp := stripBOM input
  match readEvents (inp.length + 1) inp with
  | .error e => .error e
  | .ok (tags, rest) =>
    match readMoves env (rest.length + 1) rest with
    | .error e => .error e
    | .ok ops => .ok ⟨tags, ops⟩

/-! ### `Render`, `AddMoves` -/

def renderTag (t : Tag) : Bytes :=
  [91] ++ t.name ++ [32, 34] ++ t.value.filter (· != 34) ++ [34, 93, 10]

def renderOp (env : Env) : Op → Bytes
  | .moveNumber _ n => [10] ++ itoa n ++ [46]
  | .move _ m mods => [32] ++ env.formatMove m ++ mods
  | .comment _ c => [32, 123] ++ c ++ [125]
  | .result _ r => [10] ++ r ++ [10]

/-- `(*PTN).Render` -/
def render (env : Env) (f : File) : Bytes :=
  f.tags.flatMap renderTag ++ [10] ++ f.ops.flatMap (renderOp env) ++ [10]

def addMovesFrom : Nat → List Move → List Op
  | _, [] => []
  | i, m :: ms =>
    (if i % 2 == 0 then [Op.moveNumber [] ((i / 2 + 1 : Nat) : Int)] else []) ++ [Op.move [] m []] ++ addMovesFrom (i + 1) ms

/-- `(*PTN).AddMoves` -/
def File.addMoves (f : File) (moves : List Move) : File :=
  { f with ops := f.ops ++ addMovesFrom 0 moves }

/-! ### `InitialPosition` -/

/-- `FindTag` -/
def File.findTag (f : File) (name : Bytes) : Bytes :=
  match f.tags.find? (fun t => t.name == name) with
  | some t => t.value
  | none => []

def tagSize : Bytes := [83, 105, 122, 101]
def tagTPS : Bytes := [84, 80, 83]

/-- `(*PTN).InitialPosition` -/
def initialPosition (env : Env) (f : File) : R Pos :=
  let sizeTag := f.findTag tagSize
  match atoi sizeTag with
  | none => .error (.illegal "bad size")
  | some size =>
    -- fixes/C13-ptn-size: before the repair any integer reached `tak.New`, which panics outside 3..8
    if size < 3 ∨ size > 8 then .error (.illegal "bad size") else
    let tps := f.findTag tagTPS
    if tps.isEmpty then
      Pos.new { size := size.toNat, pieces := 0, capstones := 0, blackWinsTies := false }
    else
      match env.parseTPS tps with
      | .error (.illegal _) => .error (.illegal "bad TPS")
      | .error e => .error e
      | .ok out => if (out.size : Int) != size then .error (.illegal "size mismatch") else .ok out

/-! ### `Iterator` -/

def zeroMove : Move := ⟨0, 0, 0, 0#32⟩

/-- `ptn.Iterator`.  `rest` is `ptn.Ops[i:]`; `position = none` is the nil pointer
(exactly when `InitialPosition` failed, and then `err` is set). -/
structure Iter where
  rest : List Op
  err : Option Err
  over : Bool
  position : Option Pos
  ptnMove : Int
  lastMove : Move
  move : Move
deriving Repr, DecidableEq, Inhabited

/-- `(*PTN).Iterator` -/
def iterator (env : Env) (f : File) : R Iter :=
  match initialPosition env f with
  | .ok p => .ok { rest := f.ops, err := none, over := false, position := some p, ptnMove := 0, lastMove := zeroMove, move := zeroMove }
  | .error (.illegal w) => .ok { rest := f.ops, err := some (.illegal w), over := false, position := none, ptnMove := 0, lastMove := zeroMove, move := zeroMove }
  | .error e => .error e

/-- `(*Iterator).apply` -/
def Iter.apply (env : Env) (it : Iter) : R (Iter × Bool) :=
  match it.position with
  | none => .error (.panic "Iterator.apply: nil position")
  | some p =>
    match p.apply env.basis it.move with
    | .ok next => .ok ({ it with position := some next, lastMove := it.move, move := zeroMove }, true)
    | .error (.illegal w) => .ok ({ it with err := some (.illegal w) }, false)
    | .error e => .error e

/-- the `for i.i < len(i.ptn.Ops)` loop of `Next`: `true` = returned from inside the loop -/
def Iter.scan : List Op → Iter → Iter × Bool
  | [], it => ({ it with rest := [] }, false)
  | .moveNumber _ n :: ops, it => Iter.scan ops { it with ptnMove := n }
  | .move _ m _ :: ops, it => ({ it with rest := ops, move := m }, true)
  | _ :: ops, it => Iter.scan ops it

/-- `(*Iterator).Next` -/
def Iter.next (env : Env) (it : Iter) : R (Iter × Bool) :=
  if it.err.isSome || it.over then .ok (it, false) else
  -- `if i.move.Type != 0 { … }`: `some b` = `return b`
  let pre : R (Iter × Option Bool) :=
    if it.move.type != 0 then
      match it.apply env with
      | .error e => .error e
      | .ok (it, false) => .ok (it, some false)
      | .ok (it, true) =>
        match it.position with
        | none => .error (.panic "Iterator.Next: nil position")
        | some p => if p.gameOver.1 then .ok ({ it with over := true }, some true) else .ok (it, none)
    else .ok (it, none)
  match pre with
  | .error e => .error e
  | .ok (it, some b) => .ok (it, b)
  | .ok (it, none) =>
    match Iter.scan it.rest it with
    | (it, true) => .ok (it, true)
    | (it, false) =>
      let it := { it with over := true }
      if it.move.type != 0 then it.apply env else .ok (it, true)

/-- the loop of `PositionAtMove`; every successful `Next` consumes an op or latches `over`,
so `len(Ops) + 2` rounds suffice (`Props.C12.positionAtMove_fuel`) -/
def positionAtMoveLoop (env : Env) (move : Int) (color : Color) : Nat → Iter → R Pos
  | 0, _ => .error (.hang "PositionAtMove")
  | fuel+1, it =>
    match it.next env with
    | .error e => .error e
    | .ok (it, true) =>
      match it.position with
      | none => .error (.panic "PositionAtMove: nil position")
      | some p =>
        if move > 0 && move == it.ptnMove && p.toMove == color then .ok p
        else positionAtMoveLoop env move color fuel it
    | .ok (it, false) =>
      match it.err with
      | some e => .error e
      | none =>
        if move > 0 then .error (.illegal "move not found") else
        match it.position with
        | none => .error (.panic "PositionAtMove: nil position")
        | some p => .ok p

/-- `(*PTN).PositionAtMove` -/
def positionAtMove (env : Env) (f : File) (move : Int) (color : Color) : R Pos :=
  if color == .none && move != 0 then .error (.illegal "can't specify NoColor and move!=0") else
  match iterator env f with
  | .error e => .error e
  | .ok it => positionAtMoveLoop env move color (f.ops.length + 2) it

end PTN
