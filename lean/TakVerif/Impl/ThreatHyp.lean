import TakVerif.Impl.WFBoard
import TakVerif.Impl.Evaluate

/-! The hypotheses of the C19 theorem as an executable test, so that the correspondence run can evaluate
them on every sampled position (op `c19hyp`): the board invariant of C02 (without the reserve clause) and
"every occupied square has a height of at least one". -/
namespace Tak

def Pos.heightsOKB (p : Pos) : Bool :=
  (List.range 64).all fun i => !(p.white ||| p.black).getLsbD i || decide (1 ≤ (p.height.getD i 0#8).toNat)

def Pos.threatHypB (p : Pos) : Bool :=
  decide (3 ≤ p.cfg.size ∧ p.cfg.size ≤ 8) &&
  (p.c == Gen.precompute p.cfg.size) &&
  subB p.white p.c.Mask && subB p.black p.c.Mask &&
  (p.white &&& p.black == 0#64) &&
  subB (p.standing ||| p.caps) (p.white ||| p.black) &&
  (p.standing &&& p.caps == 0#64) &&
  (p.analyze == some p) &&
  p.heightsOKB

end Tak
