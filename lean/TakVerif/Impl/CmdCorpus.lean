import TakVerif.Impl.DFPN
import TakVerif.Impl.MoveGen
import TakVerif.Generated.FactsCmd

/-! Mirror of the labelling stage of `cmd/internal/gencorpus` (`taktician gencorpus`): one worker goroutine of
`(*Command).evaluate` — it builds ONE solver / engine for its whole life and labels every position it receives
from the `positions` channel with it — for `-analysis dfpn`, `minimax` and `none`.

`dfpnWorker` models the tree **with** `fixes/C06-gencorpus-attacker.diff`: the worker keeps one depth-first solver
per attacker colour and asks the one whose attacker is the side to move of the position being labelled, so a label
`+1` always says "the side to move has a forced win" (what the `minimax` labels say, and what the consumer, a
value network from the mover's point of view, reads).  `dfpnWorkerPinned` is the pinned tree: one solver with no
configured attacker, which `DFPNSolver.Prove` fixes to the side to move of the FIRST position the worker happens
to receive; every later position with the other side to move is labelled from the opponent's point of view
(`Props/C06_cmd.lean`: `corpus_pinned_label_depends_on_order`).

Not modelled: the game generator and the position selector of `Execute` (driven by `math/rand`), the CSV writer,
`-analysis winning`, the time limit of the minimax engine (`-limit`; the harness passes one that never expires),
the number of workers (each worker is this model; which worker receives which position is the scheduler's). -/
namespace Tak.CmdCorpus

/-- `entry.value`: the four values the workers assign (`%+f` in the CSV) -/
inductive Label where
  | zero    -- 0.0: never assigned (`none`, or a heuristic value of exactly 0)
  | win     -- +1.0
  | loss    -- -1.0
  | half    -- +0.5: a heuristic value other than 0 — of either sign
deriving Repr, DecidableEq, Inhabited

def Label.text : Label → String
  | .zero => "+0.000000" | .win => "+1.000000" | .loss => "-1.000000" | .half => "+0.500000"

/-- a corpus `entry` without its position: `move` (`none` = the zero `tak.Move`), `value` -/
structure Entry where
  move : Option Move
  value : Label
deriving Repr, DecidableEq, Inhabited

/-- `100 * 1 << 20`, the `TableMem` both analyses pass -/
def tableMem : Nat := 100 * 1 <<< 20

/-- `sizeof(prove.entry)` = `sizeof(ai.tableEntry)` (the harness checks the real table lengths) -/
def entryBytes : Nat := 32

def tableEntries : Nat := tableMem / entryBytes

/-! ### `-analysis dfpn` -/

/-- the label the `dfpn` closure derives from a `ProofResult`: `EvalTrue ↦ +1`, everything else (also
`EvalUnknown`, which is logged as "unprovable!") `↦ -1` -/
def dfpnLabel (r : Tak.DFPN.Result Move) : Entry :=
  { move := r.move, value := if r.result == .proven then .win else .loss }

/-- the calls a `dfpn` worker makes: `D` = a `*prove.DFPNSolver` (its state) -/
structure Solvers (D : Type) where
  /-- `prove.NewDFPN(&prove.DFPNConfig{Attacker: att, TableMem: 100 * 1 << 20})` -/
  new : Color → D
  /-- `prover.Prove(p)`: the result and the solver afterwards -/
  prove : D → Pos → Except Err (Tak.DFPN.Result Move × D)
  /-- the attacker the solver has settled on (`Color.none`: not yet); not read by the worker -/
  attacker : D → Color

/-- state of a `dfpn` worker (fixed tree): the solver whose attacker is White, the one whose attacker is Black;
each is built when the first position with that side to move arrives -/
structure DfpnWorker (D : Type) where
  white : Option D := none
  black : Option D := none

/-- `provers[c]`, built on first use with `Attacker: c` -/
def DfpnWorker.solverFor {D : Type} (sv : Solvers D) (w : DfpnWorker D) (c : Color) : D :=
  match (if c == .white then w.white else w.black) with
  | some d => d
  | none => sv.new c

/-- one round of the worker's `for p := range positions` loop (fixed tree) -/
def dfpnStep {D : Type} (sv : Solvers D) (w : DfpnWorker D) (p : Pos) : Except Err (Entry × DfpnWorker D) :=
  let att := p.toMove
  let d := w.solverFor sv att
  match sv.prove d p with
  | .error e => .error e
  | .ok (r, d) => .ok (dfpnLabel r, if att == .white then { w with white := some d } else { w with black := some d })

/-- the entries a worker sends for the positions it receives, in order (fixed tree) -/
def dfpnWorker {D : Type} (sv : Solvers D) : DfpnWorker D → List Pos → Except Err (List Entry)
  | _, [] => .ok []
  | w, p :: ps =>
    match dfpnStep sv w p with
    | .error e => .error e
    | .ok (e, w) =>
      match dfpnWorker sv w ps with
      | .error e => .error e
      | .ok es => .ok (e :: es)

/-- the pinned tree: ONE solver, built with `Attacker` unset before the first position arrives -/
def dfpnWorkerPinnedFrom {D : Type} (sv : Solvers D) : D → List Pos → Except Err (List Entry)
  | _, [] => .ok []
  | d, p :: ps =>
    match sv.prove d p with
    | .error e => .error e
    | .ok (r, d) =>
      match dfpnWorkerPinnedFrom sv d ps with
      | .error e => .error e
      | .ok es => .ok (dfpnLabel r :: es)

def dfpnWorkerPinned {D : Type} (sv : Solvers D) (ps : List Pos) : Except Err (List Entry) :=
  dfpnWorkerPinnedFrom sv (sv.new .none) ps

/-- the depth-first solver of `Impl/DFPN.lean` as the worker uses it (`scale` = the float threshold `δ₂·(1+ε)`,
`fuel` = the bound on the model's recursion) -/
def takSolvers (basis : Array W) (scale : UInt32 → UInt32) (fuel : Nat) : Solvers (Tak.DFPN.Solver Move) :=
  { new := fun att => Tak.DFPN.newSolver att tableEntries
    prove := fun d p =>
      match Tak.DFPN.takProveWith basis scale fuel d p with
      | .error e => .error e
      | .ok (r, _, d) => .ok (r, d)
    attacker := fun d => d.attacker }

/-! ### `-analysis minimax` -/

/-- the `if val > ai.WinThreshold … else if val < 0` chain -/
def minimaxLabel (val : Int) : Label :=
  if val > Facts.winThreshold then .win
  else if val < -Facts.winThreshold then .loss
  else if val > 0 then .half
  else if val < 0 then .half
  else .zero

/-- the engine of a `minimax` worker: `ai.NewMinimax(ai.MinimaxConfig{Size: c.size, TableMem: 100 * 1 << 20})`, i.e. the
default (sorting, null-move, slide-reducing) configuration with depth `maxDepth` -/
def minimaxCfg : Search.Cfg :=
  { depth := Facts.maxDepth, tableEntries := some tableEntries }

/-- the calls a `minimax` worker makes: `E` = a `*ai.MinimaxAI` -/
structure Engine (E : Type) where
  /-- `ai.NewMinimax(…)` for board size `c.size` -/
  new : Nat → E
  /-- `mm.Analyze(ctx, p)` (panics when the sizes differ): line, value, engine afterwards -/
  analyze : E → Pos → Except Err ((List Move × Int) × E)

/-- one round of a `minimax` worker: `e.move = pv[0]` is an index panic on an empty line -/
def minimaxStep {E : Type} (en : Engine E) (mm : E) (p : Pos) : Except Err (Entry × E) :=
  match en.analyze mm p with
  | .error e => .error e
  | .ok ((pv, val), mm) =>
    match pv with
    | [] => .error (.panic "gencorpus: pv[0]")
    | m :: _ => .ok ({ move := some m, value := minimaxLabel val }, mm)

def minimaxWorkerFrom {E : Type} (en : Engine E) : E → List Pos → Except Err (List Entry)
  | _, [] => .ok []
  | mm, p :: ps =>
    match minimaxStep en mm p with
    | .error e => .error e
    | .ok (e, mm) =>
      match minimaxWorkerFrom en mm ps with
      | .error e => .error e
      | .ok es => .ok (e :: es)

def minimaxWorker {E : Type} (en : Engine E) (size : Nat) (ps : List Pos) : Except Err (List Entry) :=
  minimaxWorkerFrom en (en.new size) ps

/-! ### `-analysis none` -/

def noneWorker (ps : List Pos) : List Entry := ps.map fun _ => { move := none, value := .zero }

end Tak.CmdCorpus
