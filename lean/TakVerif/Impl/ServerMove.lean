import TakVerif.Impl.PTNMove

/-! Byte-level mirror of `playtak/move.go`: `parseSquare`, `formatSquare`, `ParseServer`, `FormatServer`.
(No regular expression is involved in this file.) -/
namespace Tak.Server
open Go

/-- `parseSquare` -/
def parseSquare (sq : Bytes) : R (Int × Int) :=
  match sq with
  | [a, b] =>
    if a.toNat < 65 ∨ a.toNat > 72 then .error (.illegal "bad rank")
    else if b.toNat < 49 ∨ b.toNat > 56 then .error (.illegal "bad file")
    else .ok (((a.toNat - 65 : Nat) : Int), ((b.toNat - 49 : Nat) : Int))
  | _ => .error (.illegal "bad coord")

/-- `formatSquare`: `byte(x) + 'A'`, `byte(y) + '1'` (uint8 arithmetic) -/
def formatSquare (x y : Int) : Bytes := [byteOfInt x + 65, byteOfInt y + 49]

/-- the drop loop of `ParseServer`: `strconv.Atoi`, then `0 ≤ n ≤ 8` -/
def parseDrops : List Bytes → List Nat → R (List Nat)
  | [], out => .ok out
  | w :: ws, out =>
    match atoi w with
    | none => .error (.illegal "bad drop")
    | some n => if n < 0 ∨ n > 8 then .error (.illegal "bad drop") else parseDrops ws (out ++ [n.toNat])

/-- `words[k]` with Go's index panic -/
def word (words : List Bytes) (k : Nat) : R Bytes :=
  match words[k]? with
  | some w => .ok w
  | none => .error (.panic "ParseServer: words index out of range")

/-- the `case "P"` arm of `ParseServer` -/
def parsePlace (words : List Bytes) : R Move :=
  if words.length ≠ 2 ∧ words.length ≠ 3 then .error (.illegal "command too short") else
  match word words 1 with
  | .error e => .error e
  | .ok w1 =>
  match parseSquare w1 with
  | .error e => .error e
  | .ok (x, y) =>
  let m : Move := { x := x, y := y, type := Facts.mtPlaceFlat, slides := 0#32 }
  if words.length == 3 then
    match word words 2 with
    | .error e => .error e
    | .ok w2 =>
      if w2 == [67] then .ok { m with type := Facts.mtPlaceCapstone }        -- "C"
      else if w2 == [87] then .ok { m with type := Facts.mtPlaceStanding }   -- "W"
      else .error (.illegal "bad place")
  else .ok m

/-- the direction `switch` of the `case "M"` arm -/
def slideDir (sx sy ex ey : Int) : R Nat :=
  if ex > sx ∧ ey = sy then .ok Facts.mtSlideRight
  else if ex < sx ∧ ey = sy then .ok Facts.mtSlideLeft
  else if ey > sy ∧ ex = sx then .ok Facts.mtSlideUp
  else if ey < sy ∧ ex = sx then .ok Facts.mtSlideDown
  else .error (.illegal "bad slide")

/-- the `case "M"` arm of `ParseServer` -/
def parseSlide (words : List Bytes) : R Move :=
  if words.length < 4 then .error (.illegal "command too short") else
  match word words 1 with
  | .error e => .error e
  | .ok w1 =>
  match parseSquare w1 with
  | .error e => .error e
  | .ok (sx, sy) =>
  match word words 2 with
  | .error e => .error e
  | .ok w2 =>
  match parseSquare w2 with
  | .error e => .error e
  | .ok (ex, ey) =>
  match slideDir sx sy ex ey with
  | .error e => .error e
  | .ok ty =>
  match parseDrops (words.drop 3) [] with
  | .error e => .error e
  | .ok slides =>
  match mkSlides slides with
  | .error e => .error e
  | .ok s => .ok { x := sx, y := sy, type := ty, slides := s }

/-- `ParseServer` -/
def parseServer (server : Bytes) : R Move :=
  let words := split 32 server
  match word words 0 with
  | .error e => .error e
  | .ok w0 =>
    if w0 == [80] then parsePlace words          -- "P"
    else if w0 == [77] then parseSlide words     -- "M"
    else .error (.illegal "bad command")

/-- `FormatServer`; every type code outside the seven known ones takes the `M` branch with `ex, ey = X, Y` -/
def formatServer (m : Move) : Bytes :=
  if m.type == Facts.mtPlaceFlat then [80, 32] ++ formatSquare m.x m.y
  else if m.type == Facts.mtPlaceCapstone then [80, 32] ++ formatSquare m.x m.y ++ [32, 67]
  else if m.type == Facts.mtPlaceStanding then [80, 32] ++ formatSquare m.x m.y ++ [32, 87]
  else
    let l : Int := Slides.len m.slides
    let (ex, ey) :=
      if m.type == Facts.mtSlideRight then (wrap8 (m.x + l), m.y)
      else if m.type == Facts.mtSlideLeft then (wrap8 (m.x - l), m.y)
      else if m.type == Facts.mtSlideDown then (m.x, wrap8 (m.y - l))
      else if m.type == Facts.mtSlideUp then (m.x, wrap8 (m.y + l))
      else (m.x, m.y)
    [77, 32] ++ formatSquare m.x m.y ++ [32] ++ formatSquare ex ey ++
      (Slides.elems m.slides).flatMap (fun e => 32 :: itoaNat e)

end Tak.Server
