import TakVerif.Impl.Position

/-! Mirror of `tak/move.go` and `tak/slide.go`. -/
namespace Tak

/-- `tak.Move`: `X, Y int8` carried as integers in [-128, 127], `Type` a byte, `Slides` a `uint32`. -/
structure Move where
  x : Int
  y : Int
  type : Nat
  slides : BitVec 32
deriving Repr, DecidableEq, Inhabited

def Move.isSlide (m : Move) : Bool := m.type ≥ Facts.mtSlideLeft

/-- `Move.Equal` -/
def Move.equal (m r : Move) : Bool :=
  if m.x ≠ r.x ∨ m.y ≠ r.y then false
  else if m.type ≠ r.type then false
  else if !m.isSlide then true
  else m.slides == r.slides

/-- int8 wrap-around -/
def wrap8 (v : Int) : Int := ((v + 128) % 256) - 128

/-- nibble list of a `Slides` word as the iterator yields it (stops at the first all-zero remainder) -/
def slideElems : Nat → BitVec 32 → List Nat
  | 0, _ => []
  | n+1, s => if s == 0#32 then [] else (s &&& 0xf#32).toNat :: slideElems n (s >>> 4)

def Slides.elems (s : BitVec 32) : List Nat := slideElems 8 s
def Slides.len (s : BitVec 32) : Nat := (Slides.elems s).length

/-- `Move.Dest`; `none` = `panic("bad type")` -/
def Move.dest (m : Move) : Option (Int × Int) :=
  let l : Int := Slides.len m.slides
  if m.type == Facts.mtPlaceFlat || m.type == Facts.mtPlaceStanding || m.type == Facts.mtPlaceCapstone then some (m.x, m.y)
  else if m.type == Facts.mtSlideLeft then some (wrap8 (m.x - l), m.y)
  else if m.type == Facts.mtSlideRight then some (wrap8 (m.x + l), m.y)
  else if m.type == Facts.mtSlideUp then some (m.x, wrap8 (m.y + l))
  else if m.type == Facts.mtSlideDown then some (m.x, wrap8 (m.y - l))
  else none

def setBit (w : W) (i : Nat) : W := w ||| bit i
def clrBit (w : W) (i : Nat) : W := w &&& ~~~(bit i)

/-- the internal hash field recomputed from scratch: `fnvBasis ⊕ ⨁ᵢ hashAt i` -/
def scratchHash (basis : Array W) (p : Pos) : W :=
  (List.range p.height.size).foldl (fun h i => h ^^^ p.hashAt basis i) (BitVec.ofNat 64 Facts.fnvBasis)

/-- the bracketed update of `MovePreallocated`:
`next.hash ^= next.hashAt(i); <assign Stacks[i], Height[i]>; next.hash ^= next.hashAt(i)` -/
def Pos.setStack (basis : Array W) (p : Pos) (i : Nat) (s : W) (h : U8) : Pos :=
  let p := { p with hash := p.hash ^^^ p.hashAt basis i }
  let p := { p with stacks := p.stacks.setIfInBounds i s, height := p.height.setIfInBounds i h }
  { p with hash := p.hash ^^^ p.hashAt basis i }

/-- state of the slide loop in `MovePreallocated` -/
structure SlideSt where
  next : Pos
  x : Int
  y : Int
  ct : Nat

/-- the `switch` at the head of the loop body: a capstone blocks, a wall blocks unless a lone capstone flattens it -/
def enterSquare (next : Pos) (top : Piece) (ct i : Nat) : R Pos :=
  if next.caps.getLsbD i then .error (.illegal "capstone in the way")
  else if next.standing.getLsbD i then
    if ct ≠ 1 ∨ top.kind ≠ .capstone then .error (.illegal "wall in the way")
    else .ok { next with standing := clrBit next.standing i }
  else .ok next

/-- the rest of the loop body: drop `c` of the `ct` carried pieces (`stack` bit k = colour of the k-th from the top) on `i` -/
def dropOn (basis : Array W) (next : Pos) (top : Piece) (stack : W) (ct c i : Nat) : Pos :=
  let s0 := next.stacks.getD i 0
  let s1 : W := if next.white.getLsbD i then s0 <<< 1
            else if next.black.getLsbD i then (s0 <<< 1) ||| 1#64
            else s0
  let drop := (stack >>> (ct - (c - 1))) &&& ((1#64 <<< (c - 1)) - 1#64)
  let s2 := (s1 <<< (c - 1)) ||| drop
  let next := next.setStack basis i s2 (next.height.getD i 0 + BitVec.ofNat 8 c)
  let next := if stack.getLsbD (ct - c)
              then { next with black := setBit next.black i, white := clrBit next.white i }
              else { next with black := clrBit next.black i, white := setBit next.white i }
  if ct - c == 0 then
    match top.kind with
    | .capstone => { next with caps := setBit next.caps i }
    | .standing => { next with standing := setBit next.standing i }
    | .flat => next
  else next

/-- one iteration of the drop loop -/
def slideStep (basis : Array W) (p : Pos) (top : Piece) (stack : W) (dx dy : Int) (st : SlideSt) (c : Nat) : R SlideSt :=
  let x := st.x + dx
  let y := st.y + dy
  let sz : Int := p.cfg.size
  if x < 0 ∨ x ≥ sz ∨ y < 0 ∨ y ≥ sz then .error (.illegal "slide off board") else
  if c < 1 ∨ c > st.ct then .error (.illegal "bad drop") else
  let i := (x + y * sz).toNat
  match enterSquare st.next top st.ct i with
  | .error e => .error e
  | .ok next => .ok { next := dropOn basis next top stack st.ct c i, x := x, y := y, ct := st.ct - c }

def slideLoop (basis : Array W) (p : Pos) (top : Piece) (stack : W) (dx dy : Int) : List Nat → SlideSt → R SlideSt
  | [], st => .ok st
  | c :: cs, st =>
    match slideStep basis p top stack dx dy st c with
    | .error e => .error e
    | .ok st => slideLoop basis p top stack dx dy cs st

def finish (next : Pos) : R Pos :=
  match next.analyze with
  | some q => .ok q
  | none => .error (.hang "analyze")

/-- the `switch m.Type`: `none` = invalid type code; otherwise the piece to place (if any) and the direction -/
def dispatch (mover : Color) (m : Move) : Option (Option Piece × Int × Int) :=
  if m.type == Facts.mtPlaceFlat then some (some ⟨mover, .flat⟩, 0, 0)
  else if m.type == Facts.mtPlaceStanding then some (some ⟨mover, .standing⟩, 0, 0)
  else if m.type == Facts.mtPlaceCapstone then some (some ⟨mover, .capstone⟩, 0, 0)
  else if m.type == Facts.mtSlideLeft then some (none, -1, 0)
  else if m.type == Facts.mtSlideRight then some (none, 1, 0)
  else if m.type == Facts.mtSlideUp then some (none, 0, 1)
  else if m.type == Facts.mtSlideDown then some (none, 0, -1)
  else none

/-- opening rule: `place.Kind() != Flat` is also true of the zero piece, i.e. of every slide -/
def openingRule (p : Pos) (place : Option Piece) : R (Option Piece) :=
  if p.move < 2 then
    match place with
    | some pc => if pc.kind ≠ .flat then .error (.illegal "illegal opening") else .ok (some ⟨pc.color.flip, pc.kind⟩)
    | none => .error (.illegal "illegal opening")
  else .ok place

/-- the placement branch (`if place != 0 { … }`) -/
def placeOn (p next : Pos) (i : Nat) (pc : Piece) : R Pos :=
  if (p.white ||| p.black).getLsbD i then .error (.illegal "occupied") else
  let next := match pc.kind with
    | .capstone => { next with caps := setBit next.caps i }
    | .standing => { next with standing := setBit next.standing i }
    | .flat => next
  let useCaps := pc.kind == .capstone
  -- NB: the capstone branch picks the reserve by side to move, the stone branch by piece colour
  let blackRes := if useCaps then p.toMove == .black else pc.color == .black
  let stones := if useCaps then (if blackRes then next.blackCaps else next.whiteCaps)
                else (if blackRes then next.blackStones else next.whiteStones)
  if stones == 0#8 then .error (.illegal "no stones") else
  let next := if useCaps then
                (if blackRes then { next with blackCaps := stones - 1 } else { next with whiteCaps := stones - 1 })
              else
                (if blackRes then { next with blackStones := stones - 1 } else { next with whiteStones := stones - 1 })
  let next := if pc.color == .white then { next with white := setBit next.white i }
              else { next with black := setBit next.black i }
  let next := { next with height := next.height.setIfInBounds i (next.height.getD i 0 + 1) }
  finish next

/-- lifting the carried pieces off the origin square -/
def liftFrom (basis : Array W) (next : Pos) (stack : W) (h ct i : Nat) : Pos :=
  let next := { next with caps := clrBit next.caps i, standing := clrBit next.standing i }
  let next := if h == ct then { next with white := clrBit next.white i, black := clrBit next.black i }
              else if !stack.getLsbD ct then { next with white := setBit next.white i, black := clrBit next.black i }
              else { next with black := setBit next.black i, white := clrBit next.white i }
  next.setStack basis i (next.stacks.getD i 0 >>> ct) (next.height.getD i 0 - BitVec.ofNat 8 ct)

/-- the slide branch -/
def slideFrom (basis : Array W) (p next : Pos) (m : Move) (i : Nat) (dx dy : Int) : R Pos :=
  let drops := Slides.elems m.slides
  if drops.any (· == 0) then .error (.illegal "zero drop") else
  let ct := drops.foldl (· + ·) 0
  let h := (p.height.getD i 0).toNat
  if ct > p.cfg.size ∨ ct < 1 ∨ ct > h then .error (.illegal "bad carry") else
  if p.toMove == .white ∧ !p.white.getLsbD i then .error (.illegal "not yours") else
  if p.toMove == .black ∧ !p.black.getLsbD i then .error (.illegal "not yours") else
  match p.topAt i with
  | none => .error (.panic "slide from empty square")   -- unreachable: mover's bit is set
  | some top =>
  let stack := (p.stacks.getD i 0 <<< 1) ||| (if top.color == .black then 1#64 else 0#64)
  let next := liftFrom basis next stack h ct i
  match slideLoop basis p top stack dx dy drops { next := next, x := m.x, y := m.y, ct := ct } with
  | .error e => .error e
  | .ok st => finish st.next

/-- `Position.MovePreallocated` (value semantics; storage is the subject of `Impl.Alloc`).
The model is of the tree *with* the bounds check on the origin square. -/
def Pos.apply (basis : Array W) (p : Pos) (m : Move) : R Pos :=
  let next := { p with move := p.move + 1 }
  if m.type == Facts.mtPass then finish next else
  match dispatch p.toMove m with
  | none => .error (.illegal "invalid move type")
  | some (place, dx, dy) =>
  match openingRule p place with
  | .error e => .error e
  | .ok place =>
  let sz : Int := p.cfg.size
  if m.x < 0 ∨ m.x ≥ sz ∨ m.y < 0 ∨ m.y ≥ sz then .error (.illegal "off board") else
  let i := (m.x + m.y * sz).toNat
  match place with
  | some pc => placeOn p next i pc
  | none => slideFrom basis p next m i dx dy

/-! ### move generation -/

/-- `Slides.Prepend` -/
def Slides.prepend (s : BitVec 32) (n : Nat) : BitVec 32 := (s <<< 4) ||| BitVec.ofNat 32 n

/-- `calculateSlides`, with the global table passed in (`tbl[k]` for k < stack) -/
def calcSlidesRow (tbl : Array (List (BitVec 32))) (stack : Nat) : List (BitVec 32) :=
  (List.range stack).foldl (fun out i0 =>
    let i := i0 + 1
    out ++ [Slides.prepend 0#32 i] ++ ((tbl.getD (stack - i) []).map (fun sub => Slides.prepend sub i))) []

/-- the `slides` table built by `init` (index 0 and 9 empty) -/
def slidesTable : Array (List (BitVec 32)) :=
  (List.range 8).foldl (fun tbl s0 => tbl.set! (s0+1) (calcSlidesRow tbl (s0+1))) (Array.replicate 10 [])

/-- `Position.AllMoves(nil)` -/
def Pos.allMoves (p : Pos) : List Move :=
  let next := p.toMove
  let cap := if next == .white then p.whiteCaps != 0#8 else p.blackCaps != 0#8
  let sz := p.cfg.size
  (List.range sz).foldl (fun moves x =>
    (List.range sz).foldl (fun moves y =>
      let i := y * sz + x
      let xi : Int := x
      let yi : Int := y
      if p.height.getD i 0 == 0#8 then
        let moves := moves ++ [⟨xi, yi, Facts.mtPlaceFlat, 0⟩]
        if p.move ≥ 2 then
          let moves := moves ++ [⟨xi, yi, Facts.mtPlaceStanding, 0⟩]
          if cap then moves ++ [⟨xi, yi, Facts.mtPlaceCapstone, 0⟩] else moves
        else moves
      else if p.move < 2 then moves
      else if next == .white ∧ !p.white.getLsbD i then moves
      else if next == .black ∧ !p.black.getLsbD i then moves
      else
        let dirs : List (Nat × Nat) :=
          [(Facts.mtSlideLeft, x), (Facts.mtSlideRight, sz - x - 1), (Facts.mtSlideDown, y), (Facts.mtSlideUp, sz - y - 1)]
        dirs.foldl (fun moves (d, c) =>
          let h0 := (p.height.getD i 0).toNat
          let h := if h0 > sz then sz else h0
          let mask : BitVec 32 := ~~~((1#32 <<< (4 * c)) - 1#32)
          (slidesTable.getD h []).foldl (fun moves s =>
            if s &&& mask == 0#32 then moves ++ [⟨xi, yi, d, s⟩] else moves) moves) moves
      ) moves) []

end Tak
