import TakVerif.Impl.Move
import TakVerif.Generated.FactsEval

/-! Mirror of `ai/evaluate.go` (static evaluation, terminal scores, the winner-only evaluator and the
immediate-road-threat counter `CountThreats`), construct for construct over `Tak.Pos`.

`int64`/`int` are `Int` (no wrap-around: every intermediate of a built-in weight set stays below the
bound of `C18.eval_abs_le`, far inside the `int64` range).  `Weights` (`[MaxFeature]int64`) is a list
read with `Weights.at`; a *computed* index (`ws[int(Groups)+w]`) is guarded and panics like Go's. -/
namespace Tak

/-- `ai.Weights` -/
abbrev Weights := List Int

/-- `w[f]` for a feature constant -/
def Weights.at (w : Weights) (f : Nat) : Int := w.getD f 0

/-! ### the weight tables built by `init()` -/

/-- `defaultWeights6`: `defaultWeights` with the non-zero entries of `overrides6` written over it -/
def defaultWeights6 : Weights :=
  List.zipWith (fun d o => if o != 0 then o else d) Facts.evalDefaultWeights Facts.evalOverrides6

/-- `ai.DefaultWeights` (index = board size) -/
def DefaultWeights : List Weights :=
  [Facts.evalDefaultWeights, Facts.evalDefaultWeights, Facts.evalDefaultWeights, Facts.evalDefaultWeights,
   Facts.evalDefaultWeights, Facts.evalDefaultWeights, defaultWeights6, Facts.evalDefaultWeights,
   Facts.evalDefaultWeights]

/-- `&DefaultWeights[size]` in `MakeEvaluator` -/
def defaultWeightsFor (size : Nat) : R Weights :=
  match DefaultWeights[size]? with
  | some w => .ok w
  | none => .error (.panic "DefaultWeights index")

/-! ### `mobility` -/

/-- one of the four loops `for i := 0; i < height && e&blk == 0; i++ { m |= e; e = step e }` -/
def mobLoop (blk : W) (step : W → W) : Nat → W → W → W
  | 0, _, m => m
  | n+1, e, m => if e &&& blk == 0#64 then mobLoop blk step n (step e) (m ||| e) else m

def mobility (c : Consts) (p : Pos) (bit : W) (height : Int) : W :=
  let n := height.toNat
  let stop := (p.caps ||| p.standing ||| ~~~c.Mask) &&& ~~~bit
  let m := bit
  let m := mobLoop (stop ||| c.R) (fun e => e <<< 1) n (bit <<< 1) m
  let m := mobLoop (stop ||| c.L) (fun e => e >>> 1) n (bit >>> 1) m
  let m := mobLoop stop (fun e => e <<< c.Size) n (bit <<< c.Size) m
  let m := mobLoop stop (fun e => e >>> c.Size) n (bit >>> c.Size) m
  m

/-! ### the per-square part of `evaluate` (the `for i, h := range p.Height` loop body) -/

/-- `s := p.Stacks[i] & ((1 << (h - 1)) - 1) & mask` with `mask = (1 << c.Size) - 1` -/
def captiveBits (c : Consts) (p : Pos) (i : Nat) : W :=
  let h := (p.height.getD i 0).toNat
  p.stacks.getD i 0 &&& ((1#64 <<< (h - 1)) - 1#64) &&& ((1#64 <<< c.Size) - 1#64)

def sqIsWhite (p : Pos) (i : Nat) : Bool := (p.white &&& bit i) != 0#64

/-- `hf`: captives of the owner's colour -/
def hardCount (c : Consts) (p : Pos) (i : Nat) : Int :=
  let h : Int := (p.height.getD i 0).toNat
  if sqIsWhite p i then h - (popcount (captiveBits c p i) : Int) - 1 else (popcount (captiveBits c p i) : Int)

/-- `sf`: captives of the other colour -/
def softCount (c : Consts) (p : Pos) (i : Nat) : Int :=
  let h : Int := (p.height.getD i 0).toNat
  if sqIsWhite p i then (popcount (captiveBits c p i) : Int) else h - (popcount (captiveBits c p i) : Int) - 1

def sqSign (p : Pos) (i : Nat) : Int := if sqIsWhite p i then 1 else -1

/-- `if p.Caps&bit != 0 { … }` -/
def capPart (c : Consts) (w : Weights) (p : Pos) (i : Nat) : Int :=
  if (p.caps &&& bit i) != 0#64 then
    let s := captiveBits c p i
    let hard : Int := if ((p.black &&& bit i) == 0#64) == ((s &&& 1#64) == 0#64) then sqSign p i * w.at Facts.fHardTopCap else 0
    hard + sqSign p i * w.at Facts.fCapMobility *
      (popcount (mobility c p (bit i) ((p.height.getD i 0).toNat : Int)) : Int)
  else 0

/-- `if hf > 0 { throw := mobility(c, p, bit, hf) … }` -/
def throwPart (c : Consts) (w : Weights) (p : Pos) (i : Nat) : Int :=
  let hf := hardCount c p i
  if hf > 0 then
    let throw := mobility c p (bit i) hf
    let wt : Int := popcount (throw &&& p.white)
    let bt : Int := popcount (throw &&& p.black)
    let et : Int := popcount (throw &&& ~~~(p.white ||| p.black))
    if sqSign p i == 1 then
      w.at Facts.fThrowMine * wt + w.at Facts.fThrowTheirs * bt + w.at Facts.fThrowEmpty * et
    else
      w.at Facts.fThrowMine * bt + w.at Facts.fThrowTheirs * wt + w.at Facts.fThrowEmpty * et
  else 0

/-- the `switch` on the kind of the top piece -/
def captivePart (c : Consts) (w : Weights) (p : Pos) (i : Nat) : Int :=
  let hf := hardCount c p i
  let sf := softCount c p i
  if (p.standing &&& bit i) != 0#64 then
    sqSign p i * (hf * w.at Facts.fStandingCaptivesHard + sf * w.at Facts.fStandingCaptivesSoft)
  else if (p.caps &&& bit i) != 0#64 then
    sqSign p i * (hf * w.at Facts.fCapstoneCaptivesHard + sf * w.at Facts.fCapstoneCaptivesSoft)
  else
    sqSign p i * (hf * w.at Facts.fFlatCaptivesHard + sf * w.at Facts.fFlatCaptivesSoft)

/-- contribution of square `i` (0 unless the stack is at least two high) -/
def squareScore (c : Consts) (w : Weights) (p : Pos) (i : Nat) : Int :=
  if (p.height.getD i 0).toNat ≤ 1 then 0
  else capPart c w p i + throwPart c w p i + captivePart c w p i

/-! ### `scoreGroups` -/

/-- the loop over the groups: `sc += ws[int(Groups)+w]; sc += ws[int(Groups)+h]`.
`Dimensions` can hang (fuel) and the computed index can leave the array (panic). -/
def groupDimScore (c : Consts) (ws : Weights) : List W → R Int
  | [] => .ok 0
  | g :: gs =>
    match dimensions c g with
    | none => .error (.hang "Dimensions")
    | some (w, h) =>
      if Facts.fGroups + w ≥ Facts.maxFeature then .error (.panic "scoreGroups: weight index (width)") else
      if Facts.fGroups + h ≥ Facts.maxFeature then .error (.panic "scoreGroups: weight index (height)") else
      match groupDimScore c ws gs with
      | .error e => .error e
      | .ok rest => .ok (ws.at (Facts.fGroups + w) + ws.at (Facts.fGroups + h) + rest)

def scoreGroups (c : Consts) (gs : List W) (ws : Weights) (other : W) : R Int :=
  match groupDimScore c ws gs with
  | .error e => .error e
  | .ok sc =>
    let allg := gs.foldl (fun a g => a ||| g) 0#64
    if ws.at Facts.fGroupLiberties != 0 then
      let libs : Int := popcount (Gen.grow c (~~~other) allg &&& ~~~allg)
      .ok (sc + libs * ws.at Facts.fGroupLiberties)
    else .ok sc

/-! ### `CountThreats` -/

/-- the set bits of `s` as single-bit words, lowest first (`next := s & (s-1); bit := s &^ next`) -/
def lowBits : Nat → W → List W
  | 0, _ => []
  | n+1, s =>
    if s == 0#64 then [] else
    let next := s &&& (s - 1#64)
    (s &&& ~~~next) :: lowBits n next

/-- where a flat of the side can arrive by a one-step slide without using a piece of `used` -/
def slideMap (c : Consts) (p : Pos) (pieces used : W) : W :=
  Gen.grow c (c.Mask &&& ~~~(p.standing ||| p.caps)) (pieces &&& ~~~used)

/-- the four `if g&c.X != 0 { pmap |= …; tmap |= … }` statements: gaps between `g` and the far edge -/
def edgeMaps (c : Consts) (p : Pos) (empty pieces g : W) : W × W :=
  let slides := slideMap c p pieces g
  let m : W × W := (0#64, 0#64)
  let m := if g &&& c.L != 0#64 then
    (m.1 ||| ((g >>> 1) &&& empty &&& c.R), m.2 ||| ((g >>> 1) &&& slides &&& c.R)) else m
  let m := if g &&& c.R != 0#64 then
    (m.1 ||| ((g <<< 1) &&& empty &&& c.L), m.2 ||| ((g <<< 1) &&& slides &&& c.L)) else m
  let m := if g &&& c.T != 0#64 then
    (m.1 ||| ((g >>> c.Size) &&& empty &&& c.B), m.2 ||| ((g >>> c.Size) &&& slides &&& c.B)) else m
  let m := if g &&& c.B != 0#64 then
    (m.1 ||| ((g <<< c.Size) &&& empty &&& c.T), m.2 ||| ((g <<< c.Size) &&& slides &&& c.T)) else m
  m

/-- the test that lets the inner loop go on: `g` and `other` touch opposite edges -/
def opposed (c : Consts) (g other : W) : Bool :=
  ((g &&& c.L != 0#64) && (other &&& c.R != 0#64)) ||
  ((g &&& c.R != 0#64) && (other &&& c.L != 0#64)) ||
  ((g &&& c.B != 0#64) && (other &&& c.T != 0#64)) ||
  ((g &&& c.T != 0#64) && (other &&& c.B != 0#64))

/-- one round of the inner loop for the partner `other` -/
def pairMaps (c : Consts) (p : Pos) (empty pieces g : W) (m : W × W) (other : W) : W × W :=
  if !opposed c g other then m else
  let slides := slideMap c p pieces (g ||| other)
  let isect := Gen.grow c c.Mask g &&& Gen.grow c c.Mask other
  (m.1 ||| (isect &&& empty), m.2 ||| (isect &&& slides))

/-- `pmap, tmap` of the group `g` whose predecessors in the list are `prev` -/
def threatMaps (c : Consts) (p : Pos) (empty pieces singles : W) (prev : List W) (g : W) : W × W :=
  (prev ++ lowBits 64 singles).foldl (pairMaps c p empty pieces g) (edgeMaps c p empty pieces g)

/-- the outer loop: the maps of every group that touches an edge -/
def threatMapsAll (c : Consts) (p : Pos) (empty pieces singles : W) : List W → List W → List (W × W)
  | _, [] => []
  | prev, g :: rest =>
    if g &&& c.Edge == 0#64 then threatMapsAll c p empty pieces singles (prev ++ [g]) rest
    else threatMaps c p empty pieces singles prev g :: threatMapsAll c p empty pieces singles (prev ++ [g]) rest

/-- the closure `countOne` -/
def countOne (c : Consts) (p : Pos) (gs : List W) (pieces : W) : Nat × Nat :=
  let empty := c.Mask &&& ~~~(p.white ||| p.black)
  let singles := gs.foldl (fun s g => s &&& ~~~g) pieces
  let maps := threatMapsAll c p empty pieces singles [] gs
  ((maps.map (fun m => popcount m.1)).sum, (maps.map (fun m => popcount m.2)).sum)

structure Threats where
  wp : Nat
  wt : Nat
  bp : Nat
  bt : Nat
deriving Repr, DecidableEq, Inhabited

/-- `ai.CountThreats` -/
def countThreats (c : Consts) (p : Pos) : Threats :=
  let w := countOne c p p.wgroups (p.white &&& ~~~(p.standing ||| p.caps))
  let b := countOne c p p.bgroups (p.black &&& ~~~(p.standing ||| p.caps))
  { wp := w.1, wt := w.2, bp := b.1, bt := b.2 }

/-- the count `scoreThreats` and the depth-first prover look at: placements + slides of the side to move -/
def Threats.forMover (t : Threats) (p : Pos) : Nat :=
  if p.toMove == .white then t.wp + t.wt else t.bp + t.bt

/-- `scoreThreats` -/
def scoreThreats (c : Consts) (ws : Weights) (p : Pos) : Int :=
  if ws.at Facts.fPotential == 0 && ws.at Facts.fThreat == 0 then 0 else
  let t := countThreats c p
  if t.wp + t.wt > 0 ∧ p.toMove == .white then Facts.forcedWin
  else if t.bp + t.bt > 0 ∧ p.toMove == .black then -Facts.forcedWin
  else ((t.wp : Int) - (t.bp : Int)) * ws.at Facts.fPotential + ((t.wt : Int) - (t.bt : Int)) * ws.at Facts.fThreat

/-! ### influence and control -/

/-- the ripple loop `for i := 0; carry != 0 && i < len(out); i++`; returns the new counters and the last carry -/
def inflCarry : List W → W → List W × W
  | [], carry => ([], carry)
  | o :: os, carry =>
    if carry == 0#64 then (o :: os, carry) else
    let r := inflCarry os (o &&& carry)
    ((o ^^^ carry) :: r.1, r.2)

/-- `out[len(out)-1] |= carry` -/
def orLast : List W → W → List W
  | [], _ => []
  | [o], carry => [o ||| carry]
  | o :: os, carry => o :: orLast os carry

def influenceAdd (c : Consts) (out : List W) (b : W) : List W :=
  let g := Gen.grow c c.Mask b &&& ~~~b
  let r := inflCarry out g
  if r.2 != 0#64 then orLast r.1 r.2 else r.1

/-- `computeInfluence(c, mine, out)` -/
def computeInfluence (c : Consts) (mine : W) (out : List W) : List W :=
  (lowBits 64 mine).foldl (influenceAdd c) out

/-- `computeControl` -/
def computeControl (c : Consts) (p : Pos) : W × W :=
  let wi := computeInfluence c (p.white &&& ~~~(p.caps ||| p.standing)) [0#64, 0#64, 0#64]
  let bi := computeInfluence c (p.black &&& ~~~(p.caps ||| p.standing)) [0#64, 0#64, 0#64]
  let r := (wi.zip bi).reverse.foldl (fun (acc : W × W) (x : W × W) =>
    let wb := x.1 &&& ~~~(acc.1 ||| acc.2)
    let bb := x.2 &&& ~~~(acc.1 ||| acc.2)
    (acc.1 ||| (wb &&& ~~~bb), acc.2 ||| (bb &&& ~~~wb))) (0#64, 0#64)
  let block := Gen.grow c c.Mask p.standing
  let wcap := Gen.grow c c.Mask (p.caps &&& p.white)
  let bcap := Gen.grow c c.Mask (p.caps &&& p.black)
  let wc := (r.1 ||| (wcap &&& ~~~bcap)) &&& ~~~block
  let bc := (r.2 ||| (bcap &&& ~~~wcap)) &&& ~~~block
  (wc, bc)

/-- `scoreControl` -/
def scoreControl (c : Consts) (ws : Weights) (p : Pos) : Int :=
  if ws.at Facts.fEmptyControl == 0 && ws.at Facts.fFlatControl == 0 then 0 else
  let cc := computeControl c p
  let empty := c.Mask &&& ~~~(p.white ||| p.black)
  let flat := (p.white ||| p.black) &&& ~~~(p.standing ||| p.caps)
  ws.at Facts.fEmptyControl * ((popcount (cc.1 &&& empty) : Int) - (popcount (cc.2 &&& empty) : Int)) +
  ws.at Facts.fFlatControl * ((popcount (cc.1 &&& flat) : Int) - (popcount (cc.2 &&& flat) : Int)) +
  ws.at Facts.fCenterControl * ((popcount (cc.1 &&& ~~~c.Edge) : Int) - (popcount (cc.2 &&& ~~~c.Edge) : Int))

/-! ### terminal scores -/

/-- the value before the final sign: `WinBase` plus the four terminal bonuses -/
def terminalValue (p : Pos) (w : Weights) : Int :=
  let d := p.winDetails
  let reserves : Int := if d.winner == .white then p.whiteStones.toNat else p.blackStones.toNat
  let opponent : Int := if d.winner == .white then p.blackStones.toNat else p.whiteStones.toNat
  let flats : Int := if d.winner == .white then (d.whiteFlats : Int) - (d.blackFlats : Int)
                     else (d.blackFlats : Int) - (d.whiteFlats : Int)
  let flats : Int := if flats > (p.cfg.size : Int) ∨ d.reason == .road then (p.cfg.size : Int) else flats
  Facts.winBase + (w.at Facts.fTerminalReserves * reserves + w.at Facts.fTerminalFlats * flats +
    w.at Facts.fTerminalOpponentReserves * opponent + w.at Facts.fTerminalPlies * p.move)

/-- `evaluateTerminal` -/
def evaluateTerminal (p : Pos) (w : Weights) : Int :=
  let d := p.winDetails
  if d.winner == .none then 0
  else if d.winner == p.toMove then terminalValue p w
  else -(terminalValue p w)

/-- `ai.EvaluateWinner` -/
def evaluateWinner (p : Pos) : Int :=
  let go := p.gameOver
  if go.1 then
    if go.2 == .none then 0
    else if go.2 == p.toMove then Facts.winBase
    else -Facts.winBase
  else 0

/-! ### `evaluate` -/

/-- the six material terms and the two centre terms -/
def materialScore (c : Consts) (w : Weights) (p : Pos) : Int :=
  (popcount (p.white &&& ~~~(p.caps ||| p.standing)) : Int) * w.at Facts.fTopFlat
  - (popcount (p.black &&& ~~~(p.caps ||| p.standing)) : Int) * w.at Facts.fTopFlat
  + (popcount (p.white &&& p.standing) : Int) * w.at Facts.fStanding
  - (popcount (p.black &&& p.standing) : Int) * w.at Facts.fStanding
  + (popcount (p.white &&& p.caps) : Int) * w.at Facts.fCapstone
  - (popcount (p.black &&& p.caps) : Int) * w.at Facts.fCapstone
  + (popcount (p.white &&& ~~~c.Edge) : Int) * w.at Facts.fCenter
  - (popcount (p.black &&& ~~~c.Edge) : Int) * w.at Facts.fCenter

/-- `if w[Liberties] != 0 { … }` -/
def libertyScore (c : Consts) (w : Weights) (p : Pos) : Int :=
  if w.at Facts.fLiberties != 0 then
    let wr := p.white &&& ~~~p.standing
    let br := p.black &&& ~~~p.standing
    let wl : Int := popcount (Gen.grow c (~~~p.black) wr &&& ~~~p.white)
    let bl : Int := popcount (Gen.grow c (~~~p.white) br &&& ~~~p.black)
    w.at Facts.fLiberties * wl - w.at Facts.fLiberties * bl
  else 0

/-- `w[TopFlat]/2 + w[Tempo]` (Go's `/` truncates towards zero) -/
def tempoScore (w : Weights) : Int := (w.at Facts.fTopFlat).tdiv 2 + w.at Facts.fTempo

/-- `score` just before the final sign flip (only computed when the game is not over) -/
def rawScore (c : Consts) (w : Weights) (p : Pos) : R Int :=
  -- `p.Stacks[i]` is read for every `i < len(p.Height)` with `h > 1`: both slices have the same length in Go
  if p.stacks.size < p.height.size then .error (.panic "evaluate: Stacks index") else
  let tempo : Int := if p.toMove == .white then tempoScore w else -(tempoScore w)
  let stacks : Int := ((List.range p.height.size).map (squareScore c w p)).sum
  match scoreGroups c p.wgroups w (p.black ||| p.standing) with
  | .error e => .error e
  | .ok wg =>
  match scoreGroups c p.bgroups w (p.white ||| p.standing) with
  | .error e => .error e
  | .ok bg =>
    .ok (tempo + materialScore c w p + stacks + wg - bg + libertyScore c w p + scoreThreats c w p + scoreControl c w p)

/-- `ai.evaluate(c, w, p)` -/
def evaluate (c : Consts) (w : Weights) (p : Pos) : R Int :=
  if p.gameOver.1 then .ok (evaluateTerminal p w) else
  match rawScore c w p with
  | .error e => .error e
  | .ok score => if p.toMove == .white then .ok score else .ok (-score)

/-- `MakeEvaluator(size, nil)(c, p)` -/
def evaluateDefault (c : Consts) (p : Pos) : R Int :=
  match defaultWeightsFor p.cfg.size with
  | .error e => .error e
  | .ok w => evaluate c w p

/-! ### one-ply road search (the oracle next to `CountThreats` in the C19 tie) -/

/-- does move `m` win by a road of the side to move at once (as `Move` + `WinDetails` see it) -/
def winsByRoad (basis : Array W) (p : Pos) (m : Move) : Bool :=
  match p.apply basis m with
  | .error _ => false
  | .ok q =>
    let d := q.winDetails
    d.over && d.winner == p.toMove && d.reason == .road

def onePlyRoadWin (basis : Array W) (p : Pos) : Bool := p.allMoves.any (winsByRoad basis p)

end Tak
