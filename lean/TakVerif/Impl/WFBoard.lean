import TakVerif.Impl.Position

/-! The board invariant that the game-end theorems (C02) assume, as an executable test, so that the
correspondence run can evaluate it on every sampled position (op `wfb`).
`Roads.wfBoardB_iff` proves it equivalent to the `Prop`-level `Roads.WFBoard`. -/
namespace Tak

/-- `x ⊆ y` on bitboards -/
def subB (x y : W) : Bool := x &&& ~~~y == 0#64

def Pos.wfBoardB (p : Pos) : Bool :=
  decide (3 ≤ p.cfg.size ∧ p.cfg.size ≤ 8) &&
  (p.c == Gen.precompute p.cfg.size) &&
  subB p.white p.c.Mask && subB p.black p.c.Mask &&
  (p.white &&& p.black == 0#64) &&
  subB (p.standing ||| p.caps) (p.white ||| p.black) &&
  (p.standing &&& p.caps == 0#64) &&
  (p.analyze == some p)

end Tak
