import TakVerif.Impl.BotCompose

/-! Friendly's check engine threaded through the composed bot (work package botcompose2).

`Friendly.NewGame` builds a second engine, `f.check = ai.NewMinimax{Depth: 3, TableMem: -1, Evaluate: EvaluateWinner}`
(all option switches at their defaults: sorting, null move and slide reduction ON), and `waitUndo` asks it — under
`context.Background()`, so it is never cancelled — about the position to move on and, when that is a win in one, about
`f.g.Positions[len-2]`.  `Impl/BotCompose.lean` takes the verdicts as an input of the `enter` event (`CheckOracle`).
Here the engine is an object of the game like `f.ai`: its state survives between calls, `waitUndoK` is `waitUndo` run on
it, and `enterK` is `enter` with the verdicts computed instead of given.  Nothing of `Impl/BotCompose.lean` is changed:
the threaded system is a wrapper, and `Props/C07_check.lean` shows it refines the oracle system. -/
namespace Tak.Compose
open Tak Tak.Bot Tak.Glue Tak.FPA

/-- the check engine as `waitUndo` uses it: a state and `Analyze(ctx, p)` reduced to `(value, Stats.Depth)`;
`ξ` is what a call needs beyond the position (`sort.Sort`) -/
structure Checker (κ ξ : Type) where
  analyze : ξ → Pos → κ → Except Err ((Int × Int) × κ)

/-- the configuration `Friendly.NewGame` gives `f.check` (after `NewMinimax`'s normalisation) -/
def checkCfg : Search.Cfg := { depth := 3, tableEntries := none, opts := {} }

/-- `f.check` as the alpha-beta model on `*tak.Position` with `ai.EvaluateWinner` -/
def minimaxChecker (basis : Array W) (sym : Pos → List Search.H) : Checker (Search.Eng Move) (Search.Oracle Move) :=
  { analyze := fun o p s =>
      match Search.analyze (Search.takGame basis Search.evalWinner sym) checkCfg o p s with
      | .ok ((_, v, st), s') => .ok ((v, st.depth), s')
      | .error e => .error e }

/-- the `f.check.Analyze` calls of `(*Friendly).waitUndo(p)` with the engine threaded: the verdicts (in the form of the
oracle model, whose `waitUndo` turns them into the decision — or into the index panic when the record has no
`Positions[len-2]`, which the Go code hits BEFORE the second `Analyze`) and the engine state afterwards.  The second
`Analyze` starts from the state the first one left and only happens after a win in one. -/
def checkVerdicts {κ ξ : Type} (K : Checker κ ξ) (x1 x2 : ξ) (positions : List Pos) (p : Pos) (k : κ) :
    Except Err (CheckOracle × κ) := do
  let ((v, d), k1) ← K.analyze x1 p k
  if v < Facts.winThreshold ∨ d > 1 then .ok ({ curV := v, curDepth := d, prevV := 0 }, k1) else
  match positions with
  | _ :: q :: _ => do
    let ((v2, _), k2) ← K.analyze x2 q k1
    .ok ({ curV := v, curDepth := d, prevV := v2 }, k2)
  | _ => .ok ({ curV := v, curDepth := d, prevV := 0 }, k1)

/-- `(*Friendly).waitUndo(p)` with the engine threaded: the decision and the engine state afterwards -/
def waitUndoK {κ ξ : Type} (K : Checker κ ξ) (x1 x2 : ξ) (g : GameRec) (p : Pos) (k : κ) : Except Err (Bool × κ) := do
  let (chk, k') ← checkVerdicts K x1 x2 g.positions p k
  let w ← waitUndo g chk
  .ok (w, k')

/-- verdicts that make the oracle model take the same branches as no verdict at all would: used to find out whether a
call gets as far as `waitUndo` (which does not depend on the verdicts) -/
def noVerdict : CheckOracle := { curV := 0, curDepth := 3, prevV := 0 }

/-- does `enter k` start a `Friendly.GetMove` call that reaches `waitUndo`?  (a new call, by `Friendly`, that goes on to
the searching player: rule check passed, on turn, no scripted move) -/
def reachesCheck {σ χ : Type} (c : Conf) (s : St σ χ) (k : Nat) : Bool :=
  match c.who with
  | .taktician _ => false
  | .friendly _ =>
    match s.inside, (enter c s k noVerdict).inside with
    | none, some call => call.act.searches
    | _, _ => false

/-- `enter k` with the check engine threaded: the verdicts are what `f.check` computes from its state `kk`; a panic
inside the check engine is a panic on the thinker goroutine -/
def enterK {σ χ κ ξ : Type} (c : Conf) (K : Checker κ ξ) (s : St σ χ) (kk : κ) (k : Nat) (x1 x2 : ξ) : St σ χ × κ :=
  if !reachesCheck c s k then (enter c s k noVerdict, kk) else
  match thinkerAt s.b k with
  | none => (s, kk)
  | some t =>
    match checkVerdicts K x1 x2 s.b.positions t.pos kk with
    | .ok (chk, kk') => (enter c s k chk, kk')
    | .error e => ({ (enter c s k noVerdict) with inside := none, dead := some e }, kk)

inductive EvK (χ ξ : Type) where
  | deliver (bits : List String) (parsed : Option Move)
  | close
  | timerFires
  | enter (k : Nat) (x1 x2 : ξ)
  | leave (k : Nat) (x : χ)

def stepK {σ χ κ ξ : Type} (c : Conf) (S : Searcher σ χ) (K : Checker κ ξ) (sk : St σ χ × κ) (e : EvK χ ξ) : St σ χ × κ :=
  if sk.1.dead.isSome then sk else
  match e with
  | .deliver bits parsed => (step c S sk.1 (.deliver bits parsed), sk.2)
  | .close => (step c S sk.1 .close, sk.2)
  | .timerFires => (step c S sk.1 .timerFires, sk.2)
  | .enter k x1 x2 => enterK c K sk.1 sk.2 k x1 x2
  | .leave k x => (step c S sk.1 (.leave k x), sk.2)

def runK {σ χ κ ξ : Type} (c : Conf) (S : Searcher σ χ) (K : Checker κ ξ) (sk : St σ χ × κ) (evs : List (EvK χ ξ)) :
    St σ χ × κ := evs.foldl (stepK c S K) sk

/-- `NewGame`: both engines new -/
def startK {σ χ κ : Type} (c : Conf) (secs : Int) (eng0 : σ) (chk0 : κ) : St σ χ × κ := (start c secs eng0, chk0)

end Tak.Compose
